(* Driver for the C16 correspondence: runs the file-serving models on one case and renders every
   observable canonically.  The fixed directory tree [tree_files] is the one harness/src/bin/c16.rs
   creates under its temporary root. *)
From Coq Require Import String.
From AV Require Import Lib.Base Lib.V Gen.Consts Files.PathBuf Files.Range Files.Named Files.ChunkedRead Files.Service.
Open Scope N_scope.

Inductive case :=
| CPath (hidden : bool) (s : bytes)                       (* PathBufWrap::parse_path(s, hidden) *)
| CServe (hidden try_compressed index : bool) (unprocessed : bytes) (neg : list N)
                                                          (* FilesService::call on the fixed tree *)
| CRange (hdr : bytes) (size : N)                         (* HttpRange::parse(hdr, size) *)
| CResp (size : N) (range : option bytes) (im inm ius ims thr : N)   (* NamedFile::into_response + body *)
| CTrunc (size actual : N) (range : option bytes)         (* file truncated to [actual] after open *)
| CStd (base p : bytes).                                  (* std::path: components(p), base.join(p) *)

Definition err_code (e : seg_err) : N :=
  match e with
  | BadStartDot => 1 | BadStartStar => 2 | BadEndColon => 3 | BadEndGt => 4 | BadEndLt => 5
  | BadCharSlash => 6 | BadCharBackslash => 7 | BadCharColon => 8 | NotValidUtf8 => 9
  end.

Definition pp (hidden : bool) (s : bytes) : R parsed := parse_path utf8_valid false hidden s.

Definition tree_files : list (list bytes) :=
  [ [hx "61"]; [hx "c3a9"]; [hx "2e61"]; [hx "612a"]; [hx "5c"]; [hx "253265253265"]; [hx "25"];
    [hx "612e61"]; [hx "612e2e"]; [hx "2e2e2e"];
    [hx "6161"; hx "61"]; [hx "6161"; hx "2e61"]; [hx "6161"; hx "c3a9"];
    (* a.txt a.txt.gz a.txt.br a.gz aa.gz aa/a.gz aa/a.zst b.zst big.bin *)
    [hx "612e747874"]; [hx "612e7478742e677a"]; [hx "612e7478742e6272"]; [hx "612e677a"]; [hx "61612e677a"];
    [hx "6161"; hx "612e677a"]; [hx "6161"; hx "612e7a7374"]; [hx "622e7a7374"]; [hx "6269672e62696e"] ].
Definition tree_dirs : list (list bytes) := [ []; [hx "6161"] ].

Fixpoint segs_eqb (a b : list bytes) : bool :=
  match a, b with
  | [], [] => true
  | x :: a', y :: b' => bytes_eqb x y && segs_eqb a' b'
  | _, _ => false
  end.

(* the configured directory (its real name is a temporary path; only its shape matters) *)
Definition ROOT : bytes := hx "2f722f6f6f74".   (* "/r/oot" *)

Definition comp_eqb (a b : component) : bool :=
  match a, b with
  | CRoot, CRoot | CCur, CCur | CParent, CParent => true
  | CNormal x, CNormal y => bytes_eqb x y
  | _, _ => false
  end.
Fixpoint strip_comps (p cs : list component) : option (list component) :=
  match p, cs with
  | [], _ => Some cs
  | a :: p', b :: cs' => if comp_eqb a b then strip_comps p' cs' else None
  | _ :: _, [] => None
  end.
Fixpoint normal_names (cs : list component) : option (list bytes) :=
  match cs with
  | [] => Some []
  | CNormal s :: r => match normal_names r with Some l => Some (s :: l) | None => None end
  | _ => None
  end.
(* names below ROOT, if the path is ROOT followed by plain names *)
Definition rel (cs : list component) : option (list bytes) :=
  match strip_comps (components ROOT) cs with Some r => normal_names r | None => None end.

(* the file-system oracle of the fixed tree; nothing exists outside it as far as the model looks *)
Definition tree_fs (cs : list component) : fkind :=
  match rel cs with
  | Some names => if existsb (segs_eqb names) tree_files then KFile
                  else if existsb (segs_eqb names) tree_dirs then KDir else KNone
  | None => KNone
  end.

(* FilesService::call after a successful parse: status, served file (relative), Content-Encoding *)
Definition serve (tc index : bool) (segs : list bytes) (neg : list N) : N * option bytes * option N :=
  match call tree_fs tc (if index then Some (hx "61") else None) ROOT segs neg with
  | Served opened enc =>
      match rel opened with
      | Some names => (200, Some (render names), enc)
      | None => (200, None, enc)          (* outside the root: never (ServiceProofs.call_under_root) *)
      end
  | Miss => (404, None, None)
  end.

Definition cond_of (im inm ius ims : N) : cond :=
  mkCond (negb ((im =? 3) || (im =? 4)))
         (if ius =? 0 then None else Some (ius =? 1))
         ((inm =? 0) || (inm =? 3))
         (negb (inm =? 0))
         (if ims =? 0 then None else Some (negb (ims =? 1))).

Definition VComp (c : component) : V :=
  match c with
  | CRoot => VT "root" [] | CCur => VT "cur" [] | CParent => VT "parent" []
  | CNormal s => VBytes s
  end.
Definition VComps (p : bytes) : V := VL (map VComp (components p)).

Definition VCr (c : crange) : V :=
  match c with
  | CRBytes f l t => VT "cr" [VN f; VN l; VN t]
  | CRUnsat t => VT "unsat" [VN t]
  end.

Definition full_sched (length : N) : list (nat * N) :=
  repeat (0%nat, u64_max) (S (S (N.to_nat (length / FILES_CHUNK_SIZE)))).

(* each chunk with the file position its bytes come from *)
Fixpoint chunk_lens (evs : list ev) : list V :=
  match evs with
  | EChunk off n :: r => VT "c" [VOpt VN (Some off); VN n] :: chunk_lens r
  | EWait _ :: r => chunk_lens r
  | _ => []
  end.
Fixpoint has_err (evs : list ev) : bool :=
  match evs with
  | [] => false
  | EErr :: _ => true
  | _ :: r => has_err r
  end.

Definition VResp (flen_on_disk thr : N) (r : R resp) : V :=
  match r with
  | Panic => VT "panic" []
  | Val r =>
      let size_v := match body r with
                    | Some (_, length) => VOpt VN (Some length)
                    | None => if status r =? 304 then VOpt VN None else VOpt VN (Some 0)
                    end in
      match body r with
      | Some (offset, length) =>
          match read_loop FILES_CHUNK_SIZE flen_on_disk (mode_of length thr) (full_sched length) length offset 0 with
          | Panic => VT "panic" []
          | Val evs =>
              VT "resp" [VN (status r); VOpt VCr (content_range r); size_v;
                         VL (chunk_lens evs); VBool (has_err evs); VN offset;
                         VOpt VBytes (option_map render_cr (content_range r))]
          end
      | None =>
          VT "resp" [VN (status r); VOpt VCr (content_range r); size_v; VL []; VBool false; VN 0;
                     VOpt VBytes (option_map render_cr (content_range r))]
      end
  end.

Definition run_C16 (c : case) : V :=
  match c with
  | CPath hidden s =>
      match pp hidden s with
      | Panic => VT "panic" []
      | Val (PErr e) => VT "err" [VN (err_code e)]
      | Val (POk segs) =>
          let j1 := join (hx "2f722f6f6f74") (render segs) in          (* "/r/oot" *)
          let j2 := join (hx "722f2e2f6f6f742f") (render segs) in      (* "r/./oot/" *)
          VT "ok" [VBytes (render segs); VL (map VBytes segs); VBytes j1; VComps j1; VBytes j2; VComps j2]
      end
  | CServe hidden tc index u neg =>
      match pp hidden u with
      | Panic => VT "panic" []
      | Val (PErr e) => VT "serve" [VN 400; VOpt VBytes None; VOpt VBytes None; VOpt VN None]
      | Val (POk segs) =>
          let '(st, f, enc) := serve tc index segs neg in
          VT "serve" [VN st; VOpt VBytes f; VOpt VBytes (Some (render segs)); VOpt VN enc]
      end
  | CRange hdr size =>
      match parse_bytes hdr size with
      | Panic => VT "panic" []
      | Val (RErr InvalidRange) => VT "err" [VN 0]
      | Val (RErr NoOverlap) => VT "err" [VN 1]
      | Val (ROk rs) => VT "ok" [VL (map (fun r => VT "r" [VN (r_start r); VN (r_length r)]) rs)]
      end
  | CResp size range im inm ius ims thr =>
      VResp size thr (into_response true size range (cond_of im inm ius ims))
  | CTrunc size actual range =>
      VResp actual 0 (into_response true size range (cond_of 0 0 0 0))
  | CStd base p =>
      VT "std" [VComps p; VBytes (join base p); VComps (join base p);
                VL (map VComp (set_file_name (components (join base p)) (hx "782e677a")))]   (* "x.gz" *)
  end.
