(* Driver for the C10 correspondence: runs the Router model on one case and renders every
   observable canonically (same rendering as harness/src/bin/c10.rs). *)
From Coq Require Import String Ascii.
From AV Require Import Lib.Base Lib.V Gen.Consts.
From AV Require Export Router.Pattern.
From AV Require Import Router.Match Router.Path Router.ResourceDef Router.Quoter Router.Utf8 Router.ResourceDefU.
Open Scope N_scope.

(* a path, possibly long: pre ++ unit^n ++ post *)
Inductive pathspec :=
| PBytes (b : bytes)
| PRep (pre : bytes) (n : N) (unit : bytes) (post : bytes).

Fixpoint repeat_app (n : nat) (u acc : bytes) : bytes :=
  match n with O => acc | S k => repeat_app k u (u ++ acc) end.

Definition path_bytes (p : pathspec) : bytes :=
  match p with
  | PBytes b => b
  | PRep pre n u post => pre ++ repeat_app (N.to_nat n) u post
  end.

Inductive case :=
| KMatch (defs : list (bool * patterns)) (ps : list pathspec)
    (* every path: a fresh Path, the definitions (is_prefix, patterns) applied in sequence *)
| KMatchS (defs : list (bool * patterns)) (paths : string)
    (* the same with short paths given as one string: hex, each path terminated by ',' *)
| KBuild (is_prefix : bool) (ps : patterns) (vals : list bytes)
| KQuote (protected : bytes) (s : bytes)
| KQuoteS (protected : bytes) (inputs : string).   (* many inputs: hex, each terminated by ',' *)

(* "2f61,2f,," -> [[47;97]; [47]; []] *)
Fixpoint split_hex (s : string) (cur : bytes) : list bytes :=
  match s with
  | EmptyString => []
  | String a r =>
      if Ascii.eqb a ","%char then rev cur :: split_hex r []
      else match r with
           | String b r' => split_hex r' ((hexval_ascii a * 16 + hexval_ascii b) :: cur)
           | EmptyString => []
           end
  end.

(* Compact canonical text of a [V]; the harness produces the same text from the implementation's
   observations, so that one string comparison decides a case (a large [V] term is slow to
   elaborate, a string literal is not). *)
Fixpoint hexN_aux (fuel : nat) (n : N) (acc : string) : string :=
  match fuel with
  | O => acc
  | S f => let acc' := String (hexdigit (n mod 16)) acc in
           if n <? 16 then acc' else hexN_aux f (n / 16) acc'
  end.
Definition hexN (n : N) (acc : string) : string := hexN_aux 40 n acc.

Fixpoint ser (v : V) (acc : string) {struct v} : string :=
  let fix go (xs : list V) (acc : string) {struct xs} : string :=
      match xs with
      | [] => acc
      | x :: xs' => ser x (go xs' acc)
      end in
  match v with
  | VN n => String "#"%char (hexN n (String ";"%char acc))
  | VH h => String "x"%char (append h (String ";"%char acc))
  | VT tag args => String "("%char (append tag (String ":"%char (go args (String ")"%char (String ";"%char acc)))))
  | VL items => String "["%char (go items (String "]"%char (String ";"%char acc)))
  end.

Definition MAXSEG := ROUTER_MAX_DYNAMIC_SEGMENTS.

(* long byte strings are summarised: length, first 16, last 16, byte sum *)
Definition VBytesS (b : bytes) : V :=
  let n := length b in
  if Nat.leb n 64 then VBytes b
  else VT "long" [VNat n; VBytes (firstn 16 b); VBytes (skipn (n - 16) b); VN (sumN b)].

Definition VR {A} (f : A -> V) (r : R A) : V :=
  match r with Val a => f a | Panic => VT "panic" [] end.

Definition VPairs (l : list (name * bytes)) : V :=
  VL (map (fun x : name * bytes => VT "kv" [VBytes (fst x); VBytesS (snd x)]) l).

Definition VPatterns (d : bool * patterns) : V :=
  match snd d with
  | Single p => VT "single" [VBool (fst d); VBytes (render p)]
  | PList l => VT "list" (VBool (fst d) :: map (fun p => VBytes (render p)) l)
  end.

(* one ResourceDef applied to the running Path; None = the implementation panicked while
   mutating the Path (the sequence stops there) *)
Definition step_def (p : path) (d : R rdef) : option path * V :=
  match d with
  | Panic => (Some p, VT "def" [VT "panic" []])
  | Val rd =>
      let u := unprocessed p in
      let im := is_match rd u in
      let fm := find_match rd u in
      match capture_match_info MAXSEG rd p with
      | Panic => (None, VT "def" [VBool im; VR (VOpt VN) fm; VT "panic" []])
      | Val (b, p') =>
          (Some p', VT "def" [VBool im; VR (VOpt VN) fm; VBool b;
                              VR VPairs (path_iter p'); VBytesS (unprocessed p'); VN (segment_count p')])
      end
  end.

Fixpoint run_defs (p : path) (ds : list (R rdef)) : list V :=
  match ds with
  | [] => []
  | d :: r => match step_def p d with
              | (Some p', v) => v :: run_defs p' r
              | (None, v) => [v]
              end
  end.

Definition run_match (defs : list (bool * patterns)) (ps : list pathspec) : V :=
  let rds := map (fun d : bool * patterns => construct MAXSEG (snd d) (fst d)) defs in
  VT "match" [VL (map VPatterns defs);
              VL (map (fun p => VL (run_defs (path_new (path_bytes p)) rds)) ps)].

Definition run_build (is_prefix : bool) (ps : patterns) (vals : list bytes) : V :=
  match construct MAXSEG ps is_prefix with
  | Panic => VT "build" [VPatterns (is_prefix, ps); VT "panic" []]
  | Val rd =>
      let '(ok, built) := resource_path_from_iter rd vals in
      let names := var_names (rd_segments rd) in
      let '(ok2, built2) := resource_path_from_map rd (combine names vals) in
      let back :=
        if ok then
          match capture_match_info MAXSEG rd (path_new built) with
          | Panic => [VT "panic" []]
          | Val (b, p') => [VBool b; VR VPairs (path_iter p'); VBytesS (unprocessed p')]
          end
        else [] in
      VT "build" ([VPatterns (is_prefix, ps); VBool ok; VBytesS built; VBool ok2; VBytesS built2] ++ back)
  end.

Definition run_quote (prot s : bytes) : V :=
  match quoter_new prot with
  | Panic => VT "quote" [VT "panic" []]
  | Val q => VT "quote" [VOpt VBytesS (requote q s)]
  end.

Definition run_quotes (prot : bytes) (inputs : list bytes) : V :=
  match quoter_new prot with
  | Panic => VT "quotes" [VT "panic" []]
  | Val q => VT "quotes" (map (fun s => VOpt VBytesS (requote q s)) inputs)
  end.

(* ------------------------------------------------------------------ scalar-level model (UTF-8) *)
(* Patterns carry their constants as scalar sequences; paths and values arrive as UTF-8 bytes and
   are decoded.  Every observable is rendered as bytes again ([encode]). *)
Definition VPairsU (l : list (name * list N)) : V :=
  VL (map (fun x : name * list N => VT "kv" [VBytes (fst x); VBytesS (encode (snd x))]) l).

Definition VPatternsU (d : bool * patterns) : V :=
  match snd d with
  | Single p => VT "single" [VBool (fst d); VBytes (encode (render p))]
  | PList l => VT "list" (VBool (fst d) :: map (fun p => VBytes (encode (render p))) l)
  end.

Definition step_def_u (p : path) (d : R rdef) : option path * V :=
  match d with
  | Panic => (Some p, VT "def" [VT "panic" []])
  | Val rd =>
      match unprocessed_u p with
      | Panic => (None, VT "def" [VT "panic" []])
      | Val u =>
          let im := is_match_u rd u in
          let fm := find_match_u rd u in
          match capture_match_info_u MAXSEG rd p with
          | Panic => (None, VT "def" [VBool im; VR (VOpt VN) fm; VT "panic" []])
          | Val (b, p') =>
              (Some p', VT "def" [VBool im; VR (VOpt VN) fm; VBool b;
                                  VR VPairsU (path_iter_u p');
                                  VR (fun x => VBytesS (encode x)) (unprocessed_u p');
                                  VN (segment_count p')])
          end
      end
  end.

Fixpoint run_defs_u (p : path) (ds : list (R rdef)) : list V :=
  match ds with
  | [] => []
  | d :: r => match step_def_u p d with
              | (Some p', v) => v :: run_defs_u p' r
              | (None, v) => [v]
              end
  end.

Definition run_match_u (defs : list (bool * patterns)) (ps : list pathspec) : V :=
  let rds := map (fun d : bool * patterns => construct MAXSEG (snd d) (fst d)) defs in
  VT "match" [VL (map VPatternsU defs);
              VL (map (fun p => VL (run_defs_u (path_new (decode (path_bytes p))) rds)) ps)].

Definition run_build_u (is_prefix : bool) (ps : patterns) (vals : list bytes) : V :=
  match construct MAXSEG ps is_prefix with
  | Panic => VT "build" [VPatternsU (is_prefix, ps); VT "panic" []]
  | Val rd =>
      let vals := map decode vals in
      let '(ok, built) := resource_path_from_iter rd vals in
      let names := var_names (rd_segments rd) in
      let '(ok2, built2) := resource_path_from_map rd (combine names vals) in
      let back :=
        if ok then
          match capture_match_info_u MAXSEG rd (path_new built) with
          | Panic => [VT "panic" []]
          | Val (b, p') => [VBool b; VR VPairsU (path_iter_u p'); VR (fun x => VBytesS (encode x)) (unprocessed_u p')]
          end
        else [] in
      VT "build" ([VPatternsU (is_prefix, ps); VBool ok; VBytesS (encode built); VBool ok2; VBytesS (encode built2)] ++ back)
  end.

(* is everything in the case ASCII?  Then the byte-level model (ResourceDef.v / Path.v, the one
   the C10 theorems of the first batch are about) must give the same observations. *)
Definition ascii (b : list N) : bool := forallb (fun x => x <? 128) b.
Definition seg_ascii (s : seg) : bool := match s with SConst b => ascii b | SVar _ _ => true end.
Definition pats_ascii (ps : patterns) : bool :=
  match ps with
  | Single p => forallb seg_ascii (p_segs p)
  | PList l => forallb (fun p => forallb seg_ascii (p_segs p)) l
  end.

Definition both (is_ascii : bool) (vu vb : V) : V :=
  if is_ascii then (if V_eqb vu vb then vu else VT "models-differ" [vu; vb]) else vu.

Definition run_C10_v (c : case) : V :=
  match c with
  | KMatch ds ps =>
      both (forallb (fun d => pats_ascii (snd d)) ds && forallb (fun p => ascii (path_bytes p)) ps)
           (run_match_u ds ps) (run_match ds ps)
  | KMatchS ds paths =>
      let ps := map PBytes (split_hex paths []) in
      both (forallb (fun d => pats_ascii (snd d)) ds && forallb (fun p => ascii (path_bytes p)) ps)
           (run_match_u ds ps) (run_match ds ps)
  | KBuild pre ps vals =>
      both (pats_ascii ps && forallb ascii vals) (run_build_u pre ps vals) (run_build pre ps vals)
  | KQuote prot s => run_quote prot s
  | KQuoteS prot inputs => run_quotes prot (split_hex inputs [])
  end.

(* what the harness compares: the canonical text of all observables *)
Definition run_C10 (c : case) : V := VH (ser (run_C10_v c) EmptyString).
