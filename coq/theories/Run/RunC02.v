(* Driver for the C02 correspondence: runs the encoder model (codec operation scripts) and the
   sequencing model (event schedules) and renders every observable canonically. *)
From Coq Require Import String.
From AV Require Import Lib.Base Lib.V H1.Encoder H1.RespSpec H1.RespSeq H1.Flush H1.RespWire H1.UpgradeSeq.
Open Scope N_scope.

Inductive eop := EDecode (r : reqctx) | EItem (r : resp) (sz : bsize) | EChunk (b : bytes) | EEof.

Inductive case :=
| CEnc (ka : bool) (ops : list eop)
| CConn (ka : bool) (wbs : N) (reqs : list reqctx) (hs : list hscript) (sched : list event)
(* an upgrade service is configured; the last element of [reqs] is the upgrade request *)
| CUpg (ka : bool) (wbs : N) (reqs : list reqctx) (hs : list hscript) (marker : bytes) (sched : list uevent).

(* ---- canonical units (as the harness's `units`) *)
Fixpoint bytes_leb (a b : bytes) : bool :=
  match a, b with
  | [], _ => true
  | _ :: _, [] => false
  | x :: a', y :: b' => if x <? y then true else if y <? x then false else bytes_leb a' b'
  end.
Fixpoint ins_sorted (e : bytes) (l : list bytes) : list bytes :=
  match l with
  | [] => [e]
  | e' :: r => if bytes_leb e e' then e :: l else e' :: ins_sorted e r
  end.
Definition sort_lines (l : list bytes) : list bytes := fold_right ins_sorted [] l.

Definition VHead (h : head) : V :=
  VT "h" [VBytes (hd_status_line h); VL (map VBytes (sort_lines (map render_field (hd_fields h))))].

(* a byte stream as alternating heads and data *)
Inductive cunit := CH (h : head) | CD (b : bytes).
Definition cunit_of (u : wunit) : cunit :=
  match u with
  | UCont _ => CH cont_head
  | UHead _ h => CH h
  | UData _ b => CD b
  end.

(* first [n] bytes of the stream; data merged; a head that is cut becomes ph(len) *)
Fixpoint render_units (us : list cunit) (n : N) (pending : bytes) : list V :=
  let flush := match pending with [] => [] | _ => [VT "d" [VBytes pending]] end in
  match us with
  | [] => flush
  | CD b :: r =>
      if n <? lenN b then (match pending ++ firstn (N.to_nat n) b with
                           | [] => [] | p => [VT "d" [VBytes p]] end)
      else render_units r (n - lenN b) (pending ++ b)
  | CH h :: r =>
      let l := lenN (render_head h) in
      if n =? 0 then flush
      else if n <? l then flush ++ [VT "ph" [VN n]]
      else flush ++ VHead h :: render_units r (n - l) []
  end.

Definition VRead (head_len : N) (r : rres) : V :=
  match r with
  | RComplete f body consumed =>
      VT "complete" [VN (match f with FNoBody => 0 | FLength _ => 1 | FChunked => 2 | FClose => 3 end);
                     VBytes body; VN (head_len + consumed)]
  | RIncomplete => VT "incomplete" []
  | RMalformed => VT "malformed" []
  end.

(* ---- encoder-level scripts *)
Record encst := mkE {
  e_codec : codec;
  e_first : option reqctx;         (* the request the response answers: the one decoded last *)
  e_head : option (N * head);      (* status, head of the (last) item *)
  e_after : bytes }.               (* bytes after that head *)

Definition enc_step (s : encst) (o : eop) : encst * V :=
  match o with
  | EDecode r =>
      (mkE (codec_decode (e_codec s) r) (Some r) (e_head s) (e_after s),
       VT "dec" [])
  | EItem r sz =>
      let '(c, h) := codec_encode_item (e_codec s) r sz in
      (mkE c (e_first s) (Some (rs_status r, h)) [], VT "item" [VN 1; VL [VHead h]])
  | EChunk b =>
      let '(c, out) := codec_encode_chunk (e_codec s) b in
      (mkE c (e_first s) (e_head s) (e_after s ++ out), VT "chunk" [VN 1; VBytes out])
  | EEof =>
      match codec_encode_eof (e_codec s) with
      | Some (c, out) => (mkE c (e_first s) (e_head s) (e_after s ++ out), VT "eof" [VN 1; VBytes out])
      | None => (s, VT "eof" [VN 0; VBytes []])
      end
  end.

Fixpoint enc_run (s : encst) (ops : list eop) : encst * list V :=
  match ops with
  | [] => (s, [])
  | o :: r => let '(s1, v) := enc_step s o in let '(s2, vs) := enc_run s1 r in (s2, v :: vs)
  end.

Definition run_enc (ka : bool) (ops : list eop) : V :=
  let '(s, vs) := enc_run (mkE (codec_new ka) None None []) ops in
  let rd := match e_head s with
            | Some (st, h) =>
                let head_req := match e_first s with Some r => rq_head r | None => false end in
                VRead (lenN (render_head h)) (read_message head_req st (hd_fields h) (e_after s) true)
            | None => VT "incomplete" []
            end in
  VT "enc" [VL vs; rd].

(* ---- connection-level schedules *)
Definition run_conn (ka : bool) (wbs : N) (reqs : list reqctx) (hs : list hscript) (sched : list event) : V :=
  let d := run reqs hs wbs (d_init ka) sched in
  VT "conn" [VL (render_units (map cunit_of (d_out d)) (d_flushed d) []);
             VL (map VNat (d_started d));
             VN (match d_fail d with None => 0 | Some FBody => 1 | Some FIo => 2 end)].

(* ---- upgrade hand-off: the dispatcher's units, then what the upgrade service sends through
   the Framed it was handed (101 head encoded with the handed codec, raw marker) *)
Definition run_upg (ka : bool) (wbs : N) (reqs : list reqctx) (hs : list hscript) (marker : bytes)
           (sched : list uevent) : V :=
  let u := urun reqs hs wbs (uinit ka) sched in
  let d := w_d (u_w u) in
  let acc := lenN (s_wire (w_f (u_w u))) in
  let base := map cunit_of (d_out d) in
  let res := VN (match d_fail d with None => 0 | Some FBody => 1 | Some FIo => 2 end) in
  match u_ho u with
  | None =>
      VT "upg" [VL (render_units base acc []); VL (map VNat (d_started d)); res; VT "noho" []]
  | Some h =>
      VT "upg" [VL (render_units (base ++ [CH (upg_head h); CD marker]) (acc + ho_after h) []);
                VL (map VNat (d_started d)); res;
                VT "ho" [VNat (ho_req h); VN (lenN (p_write_buf (ho_parts h)));
                         VBytes (p_read_buf (ho_parts h)); VN acc]]
  end.

Definition run_C02 (c : case) : V :=
  match c with
  | CEnc ka ops => run_enc ka ops
  | CConn ka wbs reqs hs sched => run_conn ka wbs reqs hs sched
  | CUpg ka wbs reqs hs marker sched => run_upg ka wbs reqs hs marker sched
  end.
