(* Driver for the C06 correspondence: the same connection model and rendering as C03 (the C06
   cases exercise the three timers, the shutdown signal and blocked peers under virtual time). *)
Require Import AV.Lib.Base AV.Lib.V AV.H1.ConnRec AV.H1.ConnState.
Require Export AV.Run.RunC03.
Definition run_C06 := run_conn.
