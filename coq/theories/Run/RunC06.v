(* Driver for the C06 correspondence: the same connection model and rendering as C03 (the C06
   cases exercise the three timers, the shutdown signal and blocked peers under virtual time). *)
From AV Require Import Lib.Base Lib.V H1.ConnRec H1.ConnState Run.RunC03.
Definition run_C06 := run_conn.
