(* Driver for the C14 correspondence: runs the WebSocket model on one case and renders every
   observable canonically (same rendering as harness/src/bin/c14.rs). *)
From Coq Require Import String.
From AV Require Import Lib.Base Lib.V Ws.Mask Ws.Frame Ws.Codec Ws.Stream Ws.Handshake Ws.HashKey.
Open Scope N_scope.

(* payload described structurally: [pat] repeated cyclically up to [len] bytes *)
Inductive pl := PL (pat : bytes) (len : N).

Fixpoint cyc (n : nat) (cur pat : bytes) : bytes :=
  match n with
  | O => []
  | S n' =>
    match cur with
    | x :: r => x :: cyc n' r pat
    | [] => match pat with [] => 0 :: cyc n' [] pat | x :: r => x :: cyc n' r pat end
    end
  end.
Definition pl_bytes_of (p : pl) : bytes := let '(PL pat len) := p in cyc (N.to_nat len) [] pat.

Inductive msg :=
| MText (p : pl) | MBinary (p : pl) | MPing (p : pl) | MPong (p : pl)
| MClose (r : option (N * option pl))
| MFirstText (p : pl) | MFirstBinary (p : pl) | MContinue (p : pl) | MLast (p : pl) | MNop.

Inductive cuts := CWhole | CBytes | CAt (l : list N).
Inductive piece := PRaw (b : bytes) | PRep (pat : bytes) (len : N).

Inductive case :=
| CRound (server_enc : bool) (max : N) (msgs : list (msg * bytes)) (c : cuts)
| CBatch (server_enc : bool) (max : N) (pre : bytes) (msgs : list (msg * bytes)) (c : cuts)
| CDecode (server : bool) (max : N) (ps : list piece) (trunc : option N) (c : cuts)
| CHandshake (method : bytes) (h : list (bytes * bytes))
| CHashKey (key : bytes).

(* String::from_utf8_lossy as far as the comparison looks: exact on ASCII, one marker otherwise *)
Definition is_ascii (d : bytes) : bool := forallb (fun b => b <? 128) d.
Definition lossy_ascii (d : bytes) : bytes := if is_ascii d then d else [255].

Definition message_of (m : msg) : message :=
  match m with
  | MText p => MsgText (pl_bytes_of p)
  | MBinary p => MsgBinary (pl_bytes_of p)
  | MPing p => MsgPing (pl_bytes_of p)
  | MPong p => MsgPong (pl_bytes_of p)
  | MClose None => MsgClose None
  | MClose (Some (code, d)) => MsgClose (Some (code, option_map pl_bytes_of d))
  | MFirstText p => MsgContinuation (FirstText (pl_bytes_of p))
  | MFirstBinary p => MsgContinuation (FirstBinary (pl_bytes_of p))
  | MContinue p => MsgContinuation (Continue (pl_bytes_of p))
  | MLast p => MsgContinuation (Last (pl_bytes_of p))
  | MNop => MsgNop
  end.

(* the harness's cut(): offsets sorted and deduplicated; only 0 < c < len cut *)
Fixpoint cut_at (data : bytes) (last : N) (cs : list N) : list bytes :=
  match cs with
  | [] => [data]
  | c :: r =>
    if (last <? c) && (c - last <? lenN data) then
      firstn (N.to_nat (c - last)) data :: cut_at (skipn (N.to_nat (c - last)) data) c r
    else cut_at data last r
  end.
Definition segments (data : bytes) (c : cuts) : list bytes :=
  match c with
  | CWhole => [data]
  | CBytes => map (fun b => [b]) data
  | CAt l => cut_at data 0 l
  end.

Definition digest (b : bytes) : N := fold_left (fun h x => (h * 131 + x + 1) mod 4294967296) b 0.
Definition VPl (b : bytes) : V :=
  if lenN b <=? 32 then VT "b" [VBytes b] else VT "d" [VN (lenN b); VN (digest b)].
Definition VDesc (d : bytes) : V := if is_ascii d then VT "ascii" [VPl d] else VT "nonascii" [].
Definition VFrame (f : frame) : V :=
  match f with
  | FText b => VT "Text" [VPl b]
  | FBinary b => VT "Binary" [VPl b]
  | FPing b => VT "Ping" [VPl b]
  | FPong b => VT "Pong" [VPl b]
  | FClose None => VT "Close" [VT "none" []]
  | FClose (Some (code, d)) => VT "Close" [VT "some" [VT "reason" [VN code; VOpt VDesc d]]]
  | FContinuation (FirstText b) => VT "FirstText" [VPl b]
  | FContinuation (FirstBinary b) => VT "FirstBinary" [VPl b]
  | FContinuation (Continue b) => VT "Continue" [VPl b]
  | FContinuation (Last b) => VT "Last" [VPl b]
  end.
Definition VErr (e : perr) : V :=
  match e with
  | UnmaskedFrame => VT "UnmaskedFrame" []
  | MaskedFrame => VT "MaskedFrame" []
  | InvalidOpcode b => VT "InvalidOpcode" [VN b]
  | InvalidLength n => VT "InvalidLength" [VN n]
  | BadOpCode => VT "BadOpCode" []
  | Overflow => VT "Overflow" []
  | ContinuationNotStarted => VT "ContinuationNotStarted" []
  | ContinuationStarted => VT "ContinuationStarted" []
  | ContinuationFragment o => VT "ContinuationFragment" [VN (u8_of_opcode o)]
  end.
Definition VRun (r : list frame * ending) : V :=
  match snd r with
  | EMore _ rest => VT "run" [VL (map VFrame (fst r)); VT "more" [VN (lenN rest)]]
  | EErr e => VT "run" [VL (map VFrame (fst r)); VT "err" [VErr e]]
  | EPanic => VT "panic" []
  | EFuel => VT "fuel" []
  end.
Definition VWire (b : bytes) : V := VT "wire" [VN (lenN b); VN (digest b); VBytes (firstn 14 b)].
Definition VEnc (r : res bytes) : V :=
  match r with Ok b => VT "ok" [VWire b] | Err e => VT "err" [VErr e] end.

Definition piece_bytes (p : piece) : bytes :=
  match p with PRaw b => b | PRep pat len => cyc (N.to_nat len) [] pat end.

Definition role (server : bool) (max : N) : codec :=
  with_max_size (if server then codec_new else client_mode codec_new) max.

Definition VHsErr (e : hs_err) : V :=
  match e with
  | GetMethodRequired => VT "GetMethodRequired" []
  | NoWebsocketUpgrade => VT "NoWebsocketUpgrade" []
  | NoConnectionUpgrade => VT "NoConnectionUpgrade" []
  | NoVersionHeader => VT "NoVersionHeader" []
  | UnsupportedVersion => VT "UnsupportedVersion" []
  | BadWebsocketKey => VT "BadWebsocketKey" []
  end.

Definition run_C14 (c : case) : V :=
  match c with
  | CRound server_enc max msgs cs =>
      let enc := role server_enc 65536 in
      let '(_, stream, outs) := encode_all enc (map (fun mk => (message_of (fst mk), snd mk)) msgs) in
      let dec := role (negb server_enc) max in
      VT "round" [VL (map VEnc outs); VRun (feed lossy_ascii dec [] (segments stream cs))]
  | CBatch server_enc max pre msgs cs =>
      (* all messages into ONE write buffer that already holds [pre]; per message the buffer after
         it; what [pre] became; the peer reads what follows [pre] *)
      let enc := role server_enc 65536 in
      let '(_, buf, outs) := encode_into enc (map (fun mk => (message_of (fst mk), snd mk)) msgs) pre in
      let dec := role (negb server_enc) max in
      VT "batch" [VL (map VEnc outs); VBytes (firstn (length pre) buf);
                  VRun (feed lossy_ascii dec [] (segments (skipn (length pre) buf) cs))]
  | CDecode server max ps trunc cs =>
      let data := flat_map piece_bytes ps in
      let data := match trunc with Some t => firstn (N.to_nat t) data | None => data end in
      VRun (feed lossy_ascii (role server max) [] (segments data cs))
  | CHandshake method h =>
      match handshake method h with
      | Val (HsOk accept) => VT "ok" [VBytes accept]
      | Val (HsErr e) => VT "err" [VHsErr e]
      | Panic => VT "panic" []
      end
  | CHashKey key =>
      match hash_key key with Val a => VT "hash" [VBytes a] | Panic => VT "panic" [] end
  end.
