(* Driver for the C03 / C06 correspondence: runs the event-level connection model on one case
   (configuration, handler scripts, rounds) and renders, per poll, the wire items accepted by the
   socket, the service calls started and the state of the connection future. For C03 the driver
   also evaluates the Coq F15 class ([calm] = outside [Known_F15]) on the case's input, so that the
   harness's mirror of that predicate is checked on every generated case. *)
From Coq Require Import String.
Require Import AV.Lib.Base AV.Lib.V AV.H1.ConnRec AV.H1.ConnState AV.H1.ConnQuiet AV.H1.ConnExpect.
Open Scope N_scope.

Record case := mkCase { c_cfg : cfg; c_hs : list (list hact); c_rounds : list round }.

Definition VWire (w : witem) : V :=
  match w with
  | WHead status v11 conn clen => VT "h" [VN status; VBool v11; VN conn; VT "some" [VN clen]]
  | WBody n => VT "b" [VN n]
  end.

(* adjacent body runs are one run on the wire *)
Fixpoint merge_body (l : list witem) : list witem :=
  match l with
  | WBody a :: r =>
      match merge_body r with
      | WBody b :: r' => WBody (a + b) :: r'
      | r' => WBody a :: r'
      end
  | x :: r => x :: merge_body r
  | [] => []
  end.

Definition VPoll (s : st) : V :=
  VT "p" [VL (map VWire (merge_body (pw s))); VL (map VN (ps s)); VN (res s)].

Fixpoint run_rounds (c : cfg) (rs : list round) (s : st) : list V :=
  match rs with
  | [] => []
  | r :: rest =>
      let s' := poll c r s in
      VPoll s' :: (if res s' =? 0 then run_rounds c rest s' else [])
  end.

Definition run_conn (k : case) : V := VL (run_rounds (c_cfg k) (c_rounds k) (init (c_cfg k) (c_hs k))).
(* a C03 case carries one expect script per request (XNone: no `Expect` header). ExpectCall followed
   by ServiceCall is one call future on behalf of the request (H1/ConnExpect.v): the model runs the
   desugared scripts; the class is evaluated on them as well. *)
Record xcase := mkXCase { x_case : case; x_ex : list eact }.
Definition run_C03 (x : xcase) : V :=
  let k := x_case x in
  let hs := desugar (x_ex x) (c_hs k) in
  VL (run_rounds (c_cfg k) (c_rounds k) (init (c_cfg k) hs) ++
      [VT "calm" [VBool (calm (c_cfg k) (number 0 hs) (poll_arrivals (c_rounds k)))]]).
