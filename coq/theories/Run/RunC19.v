(* Driver for the C19 correspondence: runs the small panic-aware models of theories/Panic on one
   case and renders the result the way harness/src/bin/c19/typed.rs renders the implementation's. *)
From Coq Require Import String.
From AV Require Import Lib.Base Lib.V.
From AV Require Import Panic.Str Panic.CDisp Panic.RangeHdr Panic.ConnInfo Panic.HdrWriter Panic.HeadPhase Panic.TypedHdr.
From AV Require Gen.Consts.
Open Scope N_scope.

(* long buffers are described structurally *)
Inductive piece := Lit (b : bytes) | Rep (n : N) (b : N).
Definition bytes_of (ps : list piece) : bytes :=
  flat_map (fun p => match p with Lit b => b | Rep n b => repeat b (N.to_nat n) end) ps.
(* httparse's answer as the harness observed it; header entries are (name offset, name length,
   value offset, value length) relative to the start of the buffer *)
Inductive hpr := HPp | HPe | HPc (len minor : N) (hs : list (N * N * N * N)).

Inductive case :=
| KCd (hv : bytes) (langs_ok : list bytes)      (* langs_ok: the pieces language-tags accepts *)
| KRange (s : bytes) (full : N)
| KConn (fwd : list bytes) (xp xh xf host : option bytes)
| KEnc (dlen cap : N) (hdrs : list (N * N))
| KHeadReq (buf : list piece) (hp : hpr) (method_ok uri_ok is_post is_connect : bool)
| KHeadResp (buf : list piece) (hp : hpr) (code : N)
(* typed headers; qtab: what std's f32 parsing + Quality::try_from answers on the candidate q-values *)
| KEtag (s : bytes)
| KQItem (s : bytes) (qtab : list (bytes * N))
| KIfNoneMatch (vals : list bytes)
| KIfRange (v : option bytes)
| KAcceptEnc (vals : list bytes) (qtab : list (bytes * N))
| KCRange (s : bytes).

Definition BASE : N := 4096.   (* the buffer's address in the pointer arithmetic of `record` *)
Definition hp_of (h : hpr) : hp_res :=
  match h with
  | HPp => HPartial
  | HPe => HError
  | HPc len minor hs =>
      HComplete (mkParsed len true minor
        (map (fun q : N * N * N * N => let '(no, nl, vo, vl) := q in mkHdr (BASE + no) nl (BASE + vo) vl) hs))
  end.
Definition VDres (r : R dres) : V :=
  match r with
  | Panic => VT "panic" []
  | Val DNone => VT "none" [] | Val DTooLarge => VT "toolarge" [] | Val DParseErr => VT "perr" []
  | Val DMethod => VT "emethod" [] | Val DUri => VT "euri" [] | Val DStatus => VT "estatus" []
  | Val DHeader => VT "eheader" []
  | Val (DOk n k) => VT "ok" [VN n; VN k]
  end.

Definition VPanic : V := VT "panic" [].

Definition VExt (e : ext) : V := VT "ext" [VBytes (e_charset e); VBool (e_lang e); VBytes (e_value e)].
Definition VParam (p : param) : V :=
  match p with
  | PName v => VT "name" [VBytes v]
  | PFilename v => VT "filename" [VBytes v]
  | PFilenameExt e => VT "filenameext" [VExt e]
  | PUnknown n v => VT "unknown" [VBytes n; VBytes v]
  | PUnknownExt n e => VT "unknownext" [VBytes n; VExt e]
  end.
Definition VDtype (d : dtype) : V :=
  match d with
  | DInline => VT "inline" [] | DAttachment => VT "attachment" [] | DFormData => VT "formdata" []
  | DExt s => VT "dext" [VBytes s]
  end.

Definition VSpec (s : spec) : V :=
  match s with
  | FromTo a b => VT "fromto" [VN a; VN b]
  | From a => VT "from" [VN a]
  | Last a => VT "last" [VN a]
  end.
Definition VSat (full : N) (s : spec) : V :=
  match to_satisfiable_range s full with
  | Panic => VPanic
  | Val o => VOpt (fun ab : N * N => VT "r" [VN (fst ab); VN (snd ab)]) o
  end.

Definition qlookup (tab : list (bytes * N)) (v : bytes) : option N :=
  match find (fun p : bytes * N => bytes_eqb (fst p) v) tab with Some p => Some (snd p) | None => None end.
Definition etag_item : bytes -> R (option (bool * bytes)) :=
  entity_from_str Consts.ETAG_MIN_LEN Consts.ETAG_STRONG_MIN_LEN Consts.ETAG_WEAK_MIN_LEN.
Definition VEtag (e : bool * bytes) : V := VT "etag" [VBool (fst e); VBytes (snd e)].
Definition VPref (p : (unit + bytes) * N) : V :=
  match fst p with
  | inl _ => VT "any" [VN (snd p)]
  | inr e => VT "enc" [VBytes e; VN (snd p)]
  end.

Definition LOCALHOST : bytes := [108; 111; 99; 97; 108; 104; 111; 115; 116; 58; 56; 48; 56; 48].

Definition run_C19 (c : case) : V :=
  match c with
  | KCd hv langs =>
      match from_raw (fun l => existsb (bytes_eqb l) langs) hv with
      | Panic => VPanic
      | Val None => VT "err" []
      | Val (Some (d, ps)) => VT "ok" [VDtype d; VL (map VParam ps)]
      end
  | KRange s full =>
      if utf8_valid s then
        match range_from_str s with
        | Panic => VPanic
        | Val None => VT "err" []
        | Val (Some (RUnreg u r)) => VT "unreg" [VBytes u; VBytes r]
        | Val (Some (RBytes specs)) => VT "bytes" [VL (map VSpec specs); VL (map (VSat full) specs)]
        end
      else VT "notutf8" []
  | KConn fwd xp xh xf host =>
      match conn_info fwd xp xh xf host None None false LOCALHOST with
      | Panic => VPanic
      | Val (scheme, h, realip) => VT "ci" [VBytes scheme; VBytes h; VOpt VBytes realip]
      end
  | KEnc dlen cap hdrs =>
      match write_headers grow_min dlen cap hdrs with
      | Panic => VPanic
      | Val (l, _) => VT "enc" [VN (l - dlen)]
      end
  | KHeadReq ps h mo uo post conn =>
      let buf := bytes_of ps in let hp := hp_of h in
      VT "head" [VBool (hp_okb Consts.H1_MAX_HEADERS BASE buf hp);
                 VDres (request_decode Consts.H1_MAX_HEADERS Consts.H1_MAX_BUFFER_SIZE true buf BASE hp mo uo post conn)]
  | KHeadResp ps h code =>
      let buf := bytes_of ps in let hp := hp_of h in
      VT "head" [VBool (hp_okb Consts.H1_MAX_HEADERS BASE buf hp);
                 VDres (response_decode Consts.H1_MAX_HEADERS Consts.H1_MAX_BUFFER_SIZE true buf BASE hp code)]
  | KEtag s =>
      if utf8_valid s then
        match etag_item s with
        | Panic => VPanic
        | Val None => VT "err" []
        | Val (Some e) => VEtag e
        end
      else VT "notutf8" []
  | KQItem s qtab =>
      if utf8_valid s then
        match qitem_from_str (fun x => Val (Some x)) (qlookup qtab) Consts.QITEM_MIN_ATTR_LEN Consts.QITEM_MAX_QVAL_LEN s with
        | Panic => VPanic
        | Val None => VT "err" []
        | Val (Some (item, q)) => VT "qi" [VBytes item; VN q]
        end
      else VT "notutf8" []
  | KIfNoneMatch vals =>
      match any_or_items etag_item vals with
      | Panic => VPanic
      | Val None => VT "err" []
      | Val (Some (inl _)) => VT "any" []
      | Val (Some (inr l)) => VT "items" [VL (map VEtag l)]
      end
  | KIfRange v =>
      match from_one_raw_str_g etag_item v with
      | Panic => VPanic
      | Val None => VT "noetag" []          (* the HttpDate arm (httpdate crate) or Err *)
      | Val (Some e) => VEtag e
      end
  | KAcceptEnc vals qtab =>
      match from_comma_delimited_g
              (qitem_from_str (preference_from_str encoding_from_str) (qlookup qtab)
                 Consts.QITEM_MIN_ATTR_LEN Consts.QITEM_MAX_QVAL_LEN) vals [] with
      | Panic => VPanic
      | Val None => VT "err" []
      | Val (Some l) => VT "ae" [VL (map VPref l)]
      end
  | KCRange s =>
      if utf8_valid s then
        match content_range_from_str s with
        | Panic => VPanic
        | Val None => VT "err" []
        | Val (Some (CRUnreg u r)) => VT "unreg" [VBytes u; VBytes r]
        | Val (Some (CRBytes rg il)) =>
            VT "bytes" [VOpt (fun ab : N * N => VT "r" [VN (fst ab); VN (snd ab)]) rg; VOpt VN il]
        end
      else VT "notutf8" []
  end.
