(* Driver for the C11 correspondence: replays one history of requests on the pool model and
   renders, for every request, what the dumping handler of harness/src/bin/c11.rs returns:
   allocation identities (which earlier request's object / head is recycled) and every field
   reachable from HttpRequest. *)
From Coq Require Import String.
From AV Require Import Lib.Base Lib.V Web.Pool Web.PoolSpec Web.PoolObs Gen.Consts.
Open Scope N_scope.

(* pre-handler actions in the order the router / middleware perform them *)
Inductive act := AMut (m : mut) | AExt (t v : N).

Inductive sstep :=
| SReq (q : reqd) (acts : list act) (ins : list (N * N)) (stash hold : bool)
| SClearStash          (* the shared Vec<HttpRequest> of stashed clones is cleared *)
| SReleaseHeld.        (* the caller drops the HttpRequests of the responses it kept *)

Record case := mkCase {
  c_root : container;                                   (* App::app_data *)
  c_requote : list (bytes * bytes);                     (* uri |-> requoted path, where it differs *)
  c_rmap : list (list N * (bytes * option bytes));      (* resource path |-> (pattern, name) *)
  c_steps : list sstep
}.

(* the head pool's capacity is the literal 128 of actix-http/src/message.rs (Gen.Consts) *)
Definition HCAP := HEAD_POOL_CAP.
Definition RCAP := REQUEST_POOL_CAP.

Fixpoint assoc_bytes {A} (k : bytes) (l : list (bytes * A)) : option A :=
  match l with
  | [] => None
  | (k', v) :: r => if bytes_eqb k k' then Some v else assoc_bytes k r
  end.
Fixpoint list_N_eqb (a b : list N) : bool :=
  match a, b with
  | [], [] => true
  | x :: a', y :: b' => (x =? y) && list_N_eqb a' b'
  | _, _ => false
  end.
Fixpoint assoc_rids {A} (k : list N) (l : list (list N * A)) : option A :=
  match l with
  | [] => None
  | (k', v) :: r => if list_N_eqb k k' then Some v else assoc_rids k r
  end.

Section Drive.
Variable c : case.
Definition requote (u : bytes) : option bytes := assoc_bytes u (c_requote c).
Definition stepC := step HCAP RCAP requote (c_root c).
Definition requestC := request HCAP requote (c_root c).

(* Uri::path of an origin-form target: up to the first '?' *)
Fixpoint uri_path (u : bytes) : bytes :=
  match u with
  | [] => []
  | b :: r => if b =? 63 then [] else b :: uri_path r
  end.

(* The accessors are the ones of Web/PoolObs.v (the functions the handler-level theorems of
   Props/C11.v speak about), instantiated with this case's configuration: Uri::path as above; the
   resource map's look-up by id path is the table [c_rmap]; its look-up by request path answers
   None for every target of the harness's application that reaches it (a request that no resource
   fully matched; a matched resource without a name is not found by name through its path
   either). *)
Definition pat_by_rids (r : list N) : option bytes := option_map fst (assoc_rids r (c_rmap c)).
Definition name_by_rids (r : list N) : option bytes :=
  match assoc_rids r (c_rmap c) with Some (_, n) => n | None => None end.
Definition by_path_none (_ : bytes) : option bytes := None.
Definition obs (o : obj) : observed :=
  observe uri_path pat_by_rids name_by_rids by_path_none by_path_none [0; 1; 2; 3; 4; 5] (view_of o).
(* RequestHead::connection_type: CLOSE=1, KEEP_ALIVE=2, UPGRADE=4; 0 Close, 1 KeepAlive, 2 Upgrade *)
Definition ctype (h : head) : N :=
  if N.testbit (h_flags h) 0 then 0
  else if N.testbit (h_flags h) 1 then 1
  else if N.testbit (h_flags h) 2 then 2
  else if h_version h <? 11 then 0 else 1.

(* canonical rendering with list and number nodes only (string literals are what makes the case
   files slow to parse): an option is VL [] / VL [x], a pair is VL [a; b] *)
Definition VO (x : option N) : V := match x with None => VL [] | Some n => VL [VN n] end.
Definition VOB (x : option bytes) : V := match x with None => VL [] | Some b => VL [VBytes b] end.
Definition dump (o : obj) : V :=
  let h := o_head o in
  let b := obs o in
  VL [VN (o_id o); VN (h_id h);
      VBytes (ob_method b); VBytes (ob_uri b); VN (ob_version b);
      VL (map (fun kv => VL [VBytes (fst kv); VBytes (snd kv)]) (ob_headers b));
      VO (ob_peer b); VN (ctype h);
      VBytes (ob_path b); VBytes (ob_unprocessed b);
      VL (map (fun s => VL [VBytes (fst s); VBytes (snd s)]) (ob_params b));
      VOB (ob_pattern b);
      VOB (ob_name b);
      VL (map VO (ob_exts b));
      VL (map VO (firstn 5 (ob_app b)));
      VL (map VO (firstn 2 (ob_conn b)))].

Record dst := mkD { d_st : st; d_stash : list N; d_held : list N }.

Fixpoint steps (s : st) (es : list ev) : R st :=
  match es with
  | [] => Val s
  | e :: r => rbind (stepC s e) (fun s' => steps s' r)
  end.

Definition act_ev (k : N) (a : act) : ev :=
  match a with AMut m => EMut k m | AExt t v => EExt k t v end.

Definition exec (d : dst) (x : sstep) : R (dst * V) :=
  match x with
  | SReq q acts ins stash hold =>
      let s0 := d_st d in
      let k := s_nreq s0 in
      let s1 := fst (requestC s0 q) in
      (* routing and middleware, then the handler's HttpRequest argument (FromRequest = clone) *)
      rbind (steps s1 (map (act_ev k) acts ++ [EClone k])) (fun s2 =>
      let v := match find_live k (s_live s2) with Some en => dump (l_obj en) | None => VL [VN 0] end in
      (* the handler: inserts extensions, perhaps stashes a clone, returns (its argument dies);
         then the caller drops the response's HttpRequest unless it holds it *)
      rbind (steps s2 (map (fun tv => EExt k (fst tv) (snd tv)) ins
                        ++ (if stash then [EClone k] else [])
                        ++ [EDrop k]
                        ++ (if hold then [] else [EDrop k]))) (fun s3 =>
      Val (mkD s3 (if stash then d_stash d ++ [k] else d_stash d)
                  (if hold then d_held d ++ [k] else d_held d), v)))
  | SClearStash =>
      rbind (steps (d_st d) (map EDrop (d_stash d))) (fun s' =>
      Val (mkD s' [] (d_held d), VL []))
  | SReleaseHeld =>
      rbind (steps (d_st d) (map EDrop (d_held d))) (fun s' =>
      Val (mkD s' (d_stash d) [], VL []))
  end.

Fixpoint exec_all (d : dst) (xs : list sstep) : list V :=
  match xs with
  | [] => []
  | x :: r => match exec d x with
              | Val (d', v) => v :: exec_all d' r
              | Panic => [VL [VN 1]]
              end
  end.
End Drive.

Definition run_C11 (c : case) : V := VL (exec_all c (mkD st_init [] []) (c_steps c)).
