(* Driver for the C04 correspondence.

   CWake: the scenario of RunC05 under a WAKE-DRIVEN executor: after the environment change of a
   round the connection is polled only while its waker has fired -- by the poll itself (self-wake,
   payload channel wake-ups) or by the environment waking a source that had returned Pending
   (socket reader / writer, handler).  Printed per round: number of polls, black-box counters,
   result; at the end the stall verdict (nothing will wake the task although a decodable message
   sits in read_buf with both gates open).

   CFlush: the poll_flush model of H1/Flush.v against the implementation: the response bytes (from a
   reference run, date masked) are put into write_buf, then one poll_flush per round with that
   round's socket answers; printed per round: the bytes accepted and the result. *)
From Coq Require Import String.
From AV Require Import Lib.Base Lib.V Gen.Consts H1.Flush H1.Gates H1.GatesCfg.
Require Import AV.Run.RunC05.
Open Scope N_scope.

Inductive c04case :=
| CWake (k : case)
| CFlush (resp : bytes) (rounds : list (list wans * list fans)).

Record wst := mk_wst
  { w_sim : sim; reg_r : bool; reg_w : bool; reg_h : bool; w_pending : bool; w_fin : option pres; w_live : bool }.

Definition empty_round : round := mk_round 0 false [] [] false.
Definition env_only (x : sim) (r : round) : sim :=
  set_hw (if r_hw r then hwc x + 1 else hwc x) (ticket x)
    (set_sock (sock x + r_add r) (eof x || r_eof r) (wscript x ++ r_wr r) (flq x ++ r_fl r) x).

(* poll while woken; [n] counts polls of this round *)
Fixpoint drive (fuel : nat) (c : cfg) (F : nat) (w : wst) (n : N) : wst * N :=
  match fuel with
  | O => (mk_wst (w_sim w) (reg_r w) (reg_w w) (reg_h w) (w_pending w) (w_fin w) true, n)
  | S f =>
      if w_pending w then
        let '(x1, p) := poll c F (w_sim w) empty_round in
        let w1 := mk_wst x1 (reg_r w || o_rreg x1) (reg_w w || o_wreg x1) (reg_h w || o_hreg x1) (o_wake x1)
                         (match p with PPend => None | _ => Some p end) false in
        match p with
        | PPend => drive f c F w1 (n + 1)
        | _ => (w1, n + 1)
        end
      else (w, n)
  end.

Definition res_code (w : wst) : N := match w_fin w with None => 0 | Some p => pres_code p end.

Fixpoint run_wake (c : cfg) (F : nat) (first : bool) (w : wst) (rs : list round) : list V * wst :=
  match rs with
  | [] => ([], w)
  | r :: rest =>
      let x0 := env_only (w_sim w) r in
      let by_r := reg_r w && ((0 <? r_add r) || r_eof r) in
      let by_w := reg_w w && match r_wr r with [] => false | _ => true end in
      let by_h := reg_h w && r_hw r in
      let w0 := mk_wst x0 (reg_r w && negb by_r) (reg_w w && negb by_w) (reg_h w && negb (r_hw r))
                       (first || w_pending w || by_r || by_w || by_h) None false in
      let '(w1, n) := drive 200 c F w0 0 in
      let x := w_sim w1 in
      let v := VT "w" [VN n; VN (taken x); VN (started x); VN (delivered x); VN (pulled x); VN (accepted x);
                       VN (res_code w1)] in
      match w_fin w1 with
      | Some _ => ([v], w1)
      | None => if w_live w1 then ([v], w1) else let '(vs, wf) := run_wake c F false w1 rest in (v :: vs, wf)
      end
  end.

(* both failures surface as DispatchError::Io; the harness sees only the variant name *)
Definition code_of_fres (r : fres) : N :=
  match r with FlReady => 0 | FlPending => 1 | FlWriteZero => 2 | FlIoErr => 2 end.

Fixpoint run_flush (buf : bytes) (script : list wans) (flq : list fans) (rs : list (list wans * list fans)) : list V :=
  match rs with
  | [] => []
  | (ws, fs) :: rest =>
      let script1 := script ++ ws in
      let flq1 := flq ++ fs in
      let fl := match flq1 with a :: _ => a | [] => FReady end in
      let o := poll_flush buf script1 WPending fl in
      (* io.poll_flush is only reached (and its answer consumed) when the write loop finished *)
      let reached := match f_res (write_loop (S (length buf)) buf 0 script1 WPending [] 0) with
                     | FlReady => true | _ => false end in
      let v := VT "f" [VBytes (f_wire o); VN (code_of_fres (f_res o)); VBool (f_wreg o)] in
      match f_res o with
      | FlWriteZero | FlIoErr => [v]
      | _ => v :: run_flush (f_buf o) (f_script o) (if reached then tl flq1 else flq1) rest
      end
  end.

Definition run_C04 (k : c04case) : V :=
  match k with
  | CWake k =>
      let c := cfg_of k in
      let '(vs, wf) := run_wake c (fuel_of k) true
                         (mk_wst (sim_init (k_items k) (k_handlers k)) false false false false None false) (k_rounds k) in
      let x := w_sim wf in
      let stalled := match w_fin wf with
                     | None => negb (w_pending wf) && negb (w_live wf) && stall_source c x
                     | Some _ => false end in
      VT "wake" [VL vs; VBool stalled; VBool (w_live wf); VBool (negb (bad x))]
  | CFlush resp rounds => VT "flush" [VL (run_flush resp [] [] rounds)]
  end.
