(* Driver for the C01 correspondence: builds the byte stream of a case from its structural
   description, cuts it into read segments, feeds the segments to the codec model (with the
   SimpleHead tokenizer and the constants of Gen.Consts) and renders every observable. *)
From Coq Require Import String.
From AV Require Import Lib.Base Lib.V Gen.Consts Gen.H1Gate H1.Chunked H1.PayloadDec H1.Framing H1.Codec H1.SimpleHead
  H1.Gate H1.GateExec.
Open Scope N_scope.

(* Byte strings travel as hexadecimal numerals with a leading sentinel byte 01
   ([LitN 0x01474554] = "GET"): Coq elaborates a numeral far faster than a string literal. *)
Fixpoint bytes_of_pos (p : positive) (cur w : N) (k : nat) (acc : bytes) : bytes :=
  let next (bit : N) (q : positive) :=
    let cur' := cur + bit * w in
    match k with
    | 7%nat => bytes_of_pos q 0 1 0%nat (cur' :: acc)
    | _ => bytes_of_pos q cur' (2 * w) (S k) acc
    end in
  match p with
  | xH => acc
  | xO q => next 0 q
  | xI q => next 1 q
  end.
Definition bytes_of_num (n : N) : bytes :=
  match n with Npos p => bytes_of_pos p 0 1 0%nat [] | N0 => [] end.
Definition num_of_bytes (l : bytes) : N := fold_left (fun a b => a * 256 + b) l 1.

Inductive piece := Lit (b : bytes) | LitN (n : N) | Rep (n : N) (b : N).
Inductive segm := Cuts (l : list N) | Every (k : N).
(* stream, segmentation, dispatcher-level observables (runner B): 0 = not part of the case,
   1 = compared, 2 = compared without the number of dispatched requests (cases of class F25) *)
Inductive case :=
| Case (ps : list piece) (sg : segm) (with_b : N)
(* runner-B case: [polls] is the schedule the harness observed on the real dispatcher, run-length
   encoded: (n, k) = k consecutive polls of the connection future, each of which took n bytes
   from the socket.  The gate model (H1/GateExec.v) is run on the schedule derived from it. *)
| CaseB (ps : list piece) (sg : segm) (polls : list (N * N)).

Fixpoint stream (ps : list piece) : bytes :=
  match ps with
  | [] => []
  | Lit b :: r => b ++ stream r
  | LitN n :: r => bytes_of_num n ++ stream r
  | Rep n b :: r => repeat b (N.to_nat n) ++ stream r
  end.

(* cuts: strictly increasing offsets in (0, len) *)
Fixpoint cut_at (cuts : list N) (pos : N) (s : bytes) : list bytes :=
  match cuts with
  | [] => [s]
  | c :: r => let k := N.to_nat (c - pos) in firstn k s :: cut_at r c (skipn k s)
  end.
Fixpoint every (fuel : nat) (k : nat) (s : bytes) : list bytes :=
  match fuel, s with
  | _, [] => []
  | O, _ => [s]
  | S f, _ => firstn k s :: every f k (skipn k s)
  end.
Definition segments (sg : segm) (s : bytes) : list bytes :=
  match sg with
  | Cuts l => cut_at l 0 s
  | Every k => every (length s) (N.to_nat k) s
  end.

(* long byte strings are rendered as (length, Fletcher-style checksum without modulus) *)
Definition cksum (l : bytes) : N * N :=
  fold_left (fun (ac : N * N) b => let a := fst ac + b + 1 in (a, snd ac + a)) l (0, 0).
Definition VBytesC (l : bytes) : V :=
  if (length l <=? 64)%nat then VBytes l
  else let ac := cksum l in VT "long" [VNat (length l); VN (fst ac); VN (snd ac)].

Fixpoint bytes_leb (a b : bytes) : bool :=
  match a, b with
  | [], _ => true
  | _ :: _, [] => false
  | x :: a', y :: b' => if x <? y then true else if y <? x then false else bytes_leb a' b'
  end.
Fixpoint ins_sorted (e : header) (l : list header) : list header :=
  match l with
  | [] => [e]
  | e' :: r => if bytes_leb (fst e) (fst e') then e :: l else e' :: ins_sorted e r
  end.
Definition sort_headers (hs : list header) : list header :=
  fold_right ins_sorted [] (map (fun h : header => (lower (fst h), snd h)) hs).

(* fixed-width big-endian rendering of a number < 2^64 *)
Definition be8 (n : N) : bytes :=
  map (fun i => (n / 2 ^ (8 * i)) mod 256) [7; 6; 5; 4; 3; 2; 1; 0].
(* a field: short strings verbatim behind their length, long ones as (length, checksum) *)
Definition field (l : bytes) : bytes :=
  if (length l <=? 64)%nat then 0 :: lenN l :: l
  else let ac := cksum l in 1 :: be8 (lenN l) ++ be8 (fst ac) ++ be8 (snd ac).
Definition ser_head (r : req) : bytes :=
  field (r_method r) ++ field (r_target r) ++ [match r_version r with V10 => 0 | V11 => 1 end] ++
  concat (map (fun h : header => field (fst h) ++ field (snd h)) (sort_headers (r_headers r))).
Definition VMessage (m : message) : V :=
  VT "m" [VN (num_of_bytes (ser_head (m_req m))); VN (num_of_bytes (field (m_body m))); VBool (m_done m)].
Definition VErr (e : perr) : V :=
  VT (match e with EHeader => "header" | ETooLarge => "too_large" | EIo => "io" | EOther => "other" end) [].
(* Codec::message_type() *)
Definition VMsgType (c : codec) : V :=
  VT (if c_stream c then "stream" else match c_payload c with None => "none" | Some _ => "payload" end) [].

(* what the dispatcher does with the outcome (error branch of poll_request):
   statuses of the responses it generates itself, number of requests handed to the service
   (none = not determined: an I/O-class error drops the connection with requests possibly still
   queued), connection closed after the error *)
Definition VDisp (count : bool) (o : outcome) : V :=
  let n ms := VOpt VNat (if count then Some (length ms) else None) in
  match o with
  | ONeedMore _ _ ms => VT "b" [VL []; n ms; VN 2]
  | OError EIo ms => VT "b" [VL []; VOpt VNat None; VN 1]
  | OError ETooLarge ms => VT "b" [VL [VN 431]; n ms; VN 1]
  | OError _ ms => VT "b" [VL [VN 400]; n ms; VN 1]
  | _ => VT "b" []
  end.

Definition VOutcome (o : outcome) : V :=
  match o with
  | ONeedMore c rest ms => VT "need" [VL (map VMessage ms); VNat (length rest); VMsgType c]
  | OError e ms => VT "err" [VL (map VMessage ms); VErr e]
  | OPanic => VT "panic" []
  | OFuel => VT "fuel" []
  end.

Definition model_feed (segs : list bytes) : outcome :=
  feed (simple_head H1_MAX_HEADERS) H1_MAX_BUFFER_SIZE segs codec0 [] [].

(* ---- the dispatcher gate on the observed schedule ---------------------------------------------- *)
(* one poll of the connection future = one read_available call (if it obtained bytes) followed by
   poll_request; poll_response may call poll_request once more: two XPoll (a further poll_request
   on a quiescent buffer changes nothing).  The payload of these handlers never pauses the reader
   (bodies stay below the payload buffer limit): pl_read = true. *)
Fixpoint poll_block (k n : nat) (s : bytes) : list xop * bytes :=
  match k with
  | O => ([], s)
  | S k' =>
      let ops := (if (n =? 0)%nat then [] else [XRead (firstn n s)]) ++ [XPoll true; XPoll true] in
      let '(more, s') := poll_block k' n (skipn n s) in
      (ops ++ more, s')
  end.
Fixpoint xops_of (polls : list (N * N)) (s : bytes) : list xop :=
  match polls with
  | [] => []
  | (n, k) :: r => let '(ops, s') := poll_block (N.to_nat k) (N.to_nat n) s in ops ++ xops_of r s'
  end.

Definition model_gate (polls : list (N * N)) (s : bytes) : gate :=
  xexec (simple_head H1_MAX_HEADERS) H1_MAX_BUFFER_SIZE H1_MAX_PIPELINED_MESSAGES H1_DISP_READ_CAP (xops_of polls s) gate0.

(* what the application and the peer see: statuses of the dispatcher's own responses, the list of
   requests handed to the service (not determined after an I/O-class drop), closed after a rejection *)
Definition VGate (g : gate) : V :=
  let reqs := VL (map (fun m => VN (num_of_bytes (field (r_method (m_req m)) ++ field (r_target (m_req m))))) (g_msgs g)) in
  match g_rejected g with
  | None => VT "b" [VL []; VT "some" [reqs]; VN 2]
  | Some EIo => VT "b" [VL []; VT "none" []; VN 1]
  | Some ETooLarge => VT "b" [VL [VN 431]; VT "some" [reqs]; VN 1]
  | Some _ => VT "b" [VL [VN 400]; VT "some" [reqs]; VN 1]
  end.

Definition run_C01 (c : case) : V :=
  match c with
  | Case ps sg with_b =>
      let o := model_feed (segments sg (stream ps)) in
      VT "c01" [VOutcome o; if with_b =? 0 then VT "nob" [] else VDisp (with_b =? 1) o]
  | CaseB ps sg polls =>
      let s := stream ps in
      VT "c01" [VOutcome (model_feed (segments sg s)); VGate (model_gate polls s)]
  end.
