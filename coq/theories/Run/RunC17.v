(* Driver for the C17 correspondence: replays a client scenario (requests against scripted
   server connections) on the model - pool + exchange - and renders every observable. *)
From Coq Require Import String.
From AV Require Import Lib.Base Lib.V Gen.Consts H1.Chunked H1.PayloadDec H1.Framing
  Client.ClientCodec Client.PlStream Client.Pool Client.RespHead Client.Conn.
Open Scope N_scope.

(* r_close: the request was sent non-persistent (force_close / HTTP/1.0): head.connection_type() = Close *)
Record req := mk_req { r_auth : N; r_head : bool; r_read : bool; r_close : bool }.
Definition r_conn (r : req) : ctype := if r_close r then CClose else CKeepAlive.

Record case := mk_case {
  k_f9 : bool; k_f17 : bool;              (* which tree: false = before the fix *)
  k_limit : N;
  k_conc : bool;
  k_reqs : list req;
  k_conns : list (list (list ev)) }.      (* [authority][k-th accepted connection] = events *)

(* client-side view of one TCP connection *)
Record sconn := mk_sconn { s_cid : cid; s_auth : N; s_evs : list ev; s_served : list N }.

Record sim := mk_sim {
  m_pool : pool;
  m_conns : list sconn;                    (* in order of creation *)
  m_accepted : list (N * N) }.             (* per authority: connections accepted so far *)

Fixpoint assoc_get (k : N) (l : list (N * N)) : N :=
  match l with [] => 0 | (k', v) :: r => if k =? k' then v else assoc_get k r end.
Fixpoint assoc_set (k v : N) (l : list (N * N)) : list (N * N) :=
  match l with
  | [] => [(k, v)]
  | (k', v') :: r => if k =? k' then (k, v) :: r else (k', v') :: assoc_set k v r
  end.

Fixpoint find_conn (c : cid) (l : list sconn) : option sconn :=
  match l with [] => None | x :: r => if s_cid x =? c then Some x else find_conn c r end.
Fixpoint set_conn (x : sconn) (l : list sconn) : list sconn :=
  match l with
  | [] => [x]
  | y :: r => if s_cid y =? s_cid x then x :: r else y :: set_conn x r
  end.

Definition script_of (conns : list (list (list ev))) (a idx : N) : list ev :=
  nth (N.to_nat idx) (nth (N.to_nat a) conns []) [].

Definition show_perr (e : perr) : V := VT "senderr" [VBytes [114;101;115;112;111;110;115;101]].  (* "response" *)
Definition s_disconnected : bytes := [100;105;115;99;111;110;110;101;99;116;101;100].
Definition s_timeout : bytes := [116;105;109;101;111;117;116].
Definition s_panic : bytes := [112;97;110;105;99].
Definition s_io : bytes := [99;104;117;110;107].   (* "chunk": PayloadError::Incomplete(Some(io)) *)
Definition s_incomplete : bytes := [105;110;99;111;109;112;108;101;116;101].

(* bodies longer than 1 KiB are rendered as (length, polynomial digest, first 32 bytes) *)
Definition digest (x : bytes) : N := fold_left (fun d b => (d * 31 + b) mod 1000000007) x 0.
Definition VBody (x : bytes) : V :=
  if 1024 <? lenN x then VT "okbig" [VN (lenN x); VN (digest x); VBytes (firstn 32 x)]
  else VT "ok" [VBytes x].

Definition VOutcome (o : outcome) : V :=
  match o with
  | OSendErr SDisconnected => VT "senderr" [VBytes s_disconnected]
  | OSendErr (SResponse e) => show_perr e
  | OSendErr STimeout => VT "senderr" [VBytes s_timeout]
  | OSendErr SPanic => VT "senderr" [VBytes s_panic]
  | OResp st b =>
      VT "resp" [VN st;
                 match b with
                 | None => VT "dropped" []
                 | Some (BOk x) => VBody x
                 | Some (BErr PEIo) => VT "err" [VBytes s_io]
                 | Some (BErr PEIncomplete) => VT "err" [VBytes s_incomplete]
                 | Some BTimeout => VT "err" [VBytes s_timeout]
                 | Some BPanic => VT "err" [VBytes s_panic]
                 end]
  end.

Section Run.
  Variable cs : case.
  Definition vv : variant := mk_variant (k_f9 cs) (k_f17 cs).

  (* ConnectionCheckFuture on an idle connection, long after the last exchange *)
  Definition chk_of (conns : list sconn) (c : cid) : cstate :=
    match find_conn c conns with
    | Some x => conn_state (s_evs x)
    | None => Skip
    end.

  (* one request, start to finish (response dropped at the end) *)
  Definition do_request (s : sim) (k : N) (r : req) : sim * V :=
    match acquire (r_auth r) k (chk_of (m_conns s)) (m_pool s) with
    | (p1, EvReused a c) | (p1, EvNew a c) =>
        let '(conns1, acc1) :=
          match find_conn c (m_conns s) with
          | Some _ => (m_conns s, m_accepted s)
          | None =>
              let idx := assoc_get (r_auth r) (m_accepted s) in
              (m_conns s ++ [mk_sconn c (r_auth r) (script_of (k_conns cs) (r_auth r) idx) []],
               assoc_set (r_auth r) (idx + 1) (m_accepted s))
          end in
        match find_conn c conns1 with
        | None => (s, VT "internal" [])
        | Some x =>
            (* the request is written; the server consumes it at its next W *)
            let '(xr, evs') := conn_exchange_ct simple_rhead H1_MAX_BUFFER_SIZE vv (r_conn r) (r_head r) (r_read r) (s_evs x) in
            let x' := mk_sconn c (s_auth x) evs' (s_served x ++ [k]) in
            let p2 := match x_fate xr with
                      | FReleased => release a (k + 1) p1
                      | FClosed => close a p1
                      end in
            let p3 := drop_acq a p2 in
            (mk_sim p3 (set_conn x' conns1) acc1,
             VT "req" [VOutcome (x_out xr); VN (lenN (open_conns p3))])
        end
    | (p1, _) => (mk_sim p1 (m_conns s) (m_accepted s), VT "blocked" [])
    end.

  Fixpoint do_all (s : sim) (k : N) (rs : list req) : sim * list V :=
    match rs with
    | [] => (s, [])
    | r :: more =>
        let '(s1, v1) := do_request s k r in
        let '(s2, vs) := do_all s1 (k + 1) more in
        (s2, v1 :: vs)
    end.

  Definition served_of (s : sim) (a : N) : V :=
    VL (map (fun x => VL (map VN (s_served x))) (filter (fun x => s_auth x =? a) (m_conns s))).

  Definition sim0 : sim :=
    mk_sim (pool0 (mk_cfg (k_limit cs) 15000 75000)) [] [].

  Definition run_seq : V :=
    let '(s, vs) := do_all sim0 0 (k_reqs cs) in
    VT "seq" [VL vs; VL (map (fun a => served_of s (N.of_nat a)) (seq 0 (length (k_conns cs))))].

  (* concurrent mode: the interleaving is the scheduler's; only schedule-independent
     observables are rendered: each request's outcome (every response block of such a scenario
     is the same) and "peak of open sockets <= limit" (C17_open_limit_single_authority) *)
  Definition run_conc : V :=
    VT "conc" [VL (map (fun r : req =>
                         let '(xr, _) := conn_exchange_ct simple_rhead H1_MAX_BUFFER_SIZE vv (r_conn r) (r_head r) (r_read r)
                                           (script_of (k_conns cs) (r_auth r) 0) in
                         VOutcome (x_out xr)) (k_reqs cs));
               VBool true].
End Run.

Definition run_C17 (c : case) : V := if k_conc c then run_conc c else run_seq c.
