(* Driver for the C09 correspondence: routes every request of a case through the model of one
   application and renders what the chosen handler reports, as ONE canonical text (the same text
   harness/src/bin/c09.rs builds from the bodies the real handlers return). *)
From Coq Require Import String Ascii.
From AV Require Import Lib.Base Lib.V Gen.Consts.
From AV Require Export Router.Pattern Router.RouteTree.
From AV Require Import Router.RouteSpec.
From AV Require Import Router.Match Router.Path Router.ResourceDef Router.Quoter.
Open Scope N_scope.

Definition MAXSEG := ROUTER_MAX_DYNAMIC_SEGMENTS.

(* ------------------------------------------------------------------ compact case constructors *)
Fixpoint b (s : string) : bytes :=
  match s with EmptyString => [] | String a r => N_of_ascii a :: b r end.

(* the regex menu of the generator (index -> regex of the fragment) *)
Definition re_menu (k : N) : re :=
  match k with
  | 0 => [ACls CDigit QPlus]                               (* \d+        *)
  | 1 => [ACls CLower QPlus]                               (* [a-z]+     *)
  | 2 => [ACls CWord QPlus]                                (* \w+        *)
  | 3 => [ACls CLower QPlus; ACls CDigit QStar]            (* [a-z]+\d*  *)
  | 4 => [ACls CNotSlash QStar]                            (* [^/]*      *)
  | 5 => [ACls CHexLower (QRep 2)]                         (* [a-f0-9]{2} *)
  | 6 => [ACls CAny QPlus]                                 (* .+         *)
  | 7 => [ACls CDigit QPlus; ALit 45; ACls CDigit QPlus]   (* \d+-\d+    *)
  | _ => [ACls CLower QOne; ACls CDigit QOne]              (* [a-z]\d     *)
  end.

Definition C (s : string) : seg := SConst (b s).                 (* constant text *)
Definition D (n : string) : seg := SVar (b n) default_re.        (* {n}           *)
Definition X (n : string) (k : N) : seg := SVar (b n) (re_menu k).  (* {n:regex}   *)
Definition T (n : string) : seg := SVar (b n) tail_re.           (* {n}*  (last, with tail = true) *)
Definition P (l : list seg) : pattern := mkPattern l false.
Definition PT (l : list seg) : pattern := mkPattern l true.

Definition Rq (m : N) (h : option N) (hs : list (N * N)) (p : string) : req := mkReq m h hs (b p).

(* the builder calls on `App::new()` (the table is what they register) and the requests *)
Inductive case := K (calls : list bld) (rs : list req).

(* ----------------------------------------------------------------------------- rendering *)
Fixpoint str (l : bytes) (acc : string) : string :=
  match l with [] => acc | c :: r => String (ascii_of_N c) (str r acc) end.

Fixpoint dec_aux (fuel : nat) (n : N) (acc : string) : string :=
  match fuel with
  | O => acc
  | S f => let acc' := String (ascii_of_N (48 + n mod 10)) acc in
           if n <? 10 then acc' else dec_aux f (n / 10) acc'
  end.
Definition dec (n : N) (acc : string) : string := dec_aux 20 n acc.

Definition ch (c : string) (acc : string) : string := append c acc.

Fixpoint pairs (l : list (name * bytes)) (acc : string) : string :=
  match l with
  | [] => acc
  | (n, v) :: r => str n (ch "=" (str v (ch "," (pairs r acc))))
  end.

Definition opt_num (o : option N) (acc : string) : string :=
  match o with Some v => dec v acc | None => ch "-" acc end.

(* what a reporting handler writes: kind+id | name=value,… | unprocessed | routed path |
   match_pattern | app_data for the three keys *)
Definition report (a : app) (rq : req) (o : outcome) (kind : string) (id : N) (acc : string) : string :=
  ch kind (dec id (ch "|"
    (match path_iter (o_path o) with
     | Panic => ch "PANIC" (ch "|" acc)
     | Val l =>
         pairs l (ch "|" (str (unprocessed (o_path o)) (ch "|" (str (p_path (o_path o)) (ch "|"
           (match match_pattern MAXSEG a rq o with
            | Panic => ch "PANIC" acc
            | Val None => ch "-" (ch "|" acc)
            | Val (Some t) => str t (ch "|" acc)
            end))))))
     end))).

Definition datas (o : outcome) (acc : string) : string :=
  opt_num (stack_get 0 (o_stack o)) (ch "," (opt_num (stack_get 1 (o_stack o)) (ch ","
    (opt_num (stack_get 2 (o_stack o)) acc)))).

Definition run_req (a : app) (rq : req) (acc : string) : string :=
  match route MAXSEG a rq with
  | Panic => ch "PANIC;" acc
  | Val o =>
      match o_handler o with
      | H404 => ch "404;" acc
      | H405 => ch "405;" acc
      | HRoute id => report a rq o "r" id (datas o (ch ";" acc))
      | HDefault id => report a rq o "d" id (datas o (ch ";" acc))
      end
  end.

Fixpoint run_reqs (a : app) (rs : list req) : string :=
  match rs with
  | [] => EmptyString
  | r :: rest => run_req a r (run_reqs a rest)
  end.

(* the pattern texts of the table, in registration order, depth first (ties the AST of the case
   to the strings handed to web::resource / web::scope) *)
Fixpoint node_texts (c : node) (acc : string) : string :=
  match c with
  | Resource ps _ _ _ _ =>
      match ps with
      | Single p => str (render p) (ch ";" acc)
      | PList l => ch "[" (fold_right (fun p a => str (render p) (ch ";" a)) (ch "]" acc) l)
      end
  | Scope pfx _ kids _ _ =>
      str (render pfx) (ch "(" (fold_right node_texts (ch ")" acc) kids))
  end.

Definition run_C09 (c : case) : V :=
  match c with
  | K calls rs =>
      let a := build_app calls in
      (* the F26 class of the table (RouteSpec.Known_F26), diffed against the harness's classifier *)
      let k := (if existsb (bad_in false) (a_children a) then "K" else "k")%string in
      VH (fold_right node_texts (ch "#" (ch k (run_reqs a rs))) (a_children a))
  end.
