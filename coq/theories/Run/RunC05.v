(* Driver for the C05 (and, through RunC04, the C04) correspondence: replays a scenario
   (stream items, handler scripts, rounds of environment changes) on the poll composer of
   H1/Gates.v and prints, after every poll, the black-box quantities the harness measures at the
   scripted socket and the recording service. *)
From Coq Require Import String.
From AV Require Import Lib.Base Lib.V Gen.Consts H1.Flush H1.Gates H1.GatesCfg.
Open Scope N_scope.

Record case := mk_case
  { k_wbs : N                    (* h1_write_buffer_size *)
  ; k_r : N                      (* read chunk of the scripted socket (<= LW_BUFFER_SIZE) *)
  ; k_h431 : N                   (* length of the 431 response the harness expects *)
  ; k_fix21 : bool               (* the tree under test carries the F21 repair *)
  ; k_fix28 : bool               (* ... and its generalisation to every closed decode gate *)
  ; k_items : list item
  ; k_handlers : list (list hact)
  ; k_rounds : list round }.

Definition cfg_of (k : case) : cfg := std_cfg2 (k_wbs k) (k_r k) (k_h431 k) (k_fix21 k) (k_fix28 k).

(* compact notation for long repetitive scripts *)
Definition repN {A} (n : N) (x : A) : list A := repeat x (N.to_nat n).

Definition pres_code (p : pres) : N :=
  match p with PPend => 0 | PDone => 1 | PFailTooLarge => 2 | PFailIo => 3 end.

Definition VRound (x : sim) (p : pres) : V :=
  VT "r" [VN (taken x); VN (started x); VN (delivered x); VN (pulled x); VN (accepted x);
          VN (pres_code p); VBool (o_rreg x); VBool (o_wreg x); VBool (o_wake x); VBool (o_hreg x)].

Fixpoint run_rounds (c : cfg) (F : nat) (x : sim) (rs : list round) : list V * sim :=
  match rs with
  | [] => ([], x)
  | r :: rest =>
      let '(x1, p) := poll c F x r in
      match p with
      | PPend => let '(vs, xf) := run_rounds c F x1 rest in (VRound x1 p :: vs, xf)
      | _ => ([VRound x1 p], x1)
      end
  end.

(* certificate printed with every case: no guard was closed when the composer fired an event, and
   replaying the recorded event trace with [steps] from the initial state gives the composer's
   final state -- so every theorem about [steps] applies to the states this run went through *)
Definition st_eqb (a b : st) : bool :=
  (rb a =? rb b) && (lenN (q a) =? lenN (q b)) && (wb a =? wb b) && (nbl a =? nbl b)
  && Bool.eqb (rd_disc a) (rd_disc b) && Bool.eqb (pass a) (pass b)
  && match state a, state b with
     | SNone, SNone | SService, SService | SSendPayload, SSendPayload => true | _, _ => false end
  && match cpl a, cpl b with Some x, Some y => x =? y | None, None => true | _, _ => false end.

(* fuel for the outer loops: more than the number of things that can happen in the scenario *)
Definition bacts_len (b : option (list bact)) : nat := match b with Some l => length l | None => 0 end.
Definition hact_size (a : hact) : nat := match a with HRespond _ b => S (S (bacts_len b)) | _ => 1%nat end.
Definition fuel_of (k : case) : nat :=
  (16 + 4 * length (k_items k)
   + fold_right (fun h acc => fold_right (fun a n => hact_size a + n) acc h) 0 (k_handlers k))%nat.

Definition run_C05 (k : case) : V :=
  let c := cfg_of k in
  let '(vs, xf) := run_rounds c (fuel_of k) (sim_init (k_items k) (k_handlers k)) (k_rounds k) in
  let es := rev (trace xf) in
  VT "run" [VL vs;
            VBool (negb (bad xf));
            VBool (steps_ok c st_init es && st_eqb (steps c st_init es) (m xf))].
