(* Driver for the C18 correspondence: replays an operation script on the model and prints
   every observable in canonical (name-sorted) form. *)
From Coq Require Import String.
From AV Require Import Lib.Base Lib.V Header.Map.
Open Scope N_scope.

(* script operations carry RAW names (mixed case, possibly invalid for string-key lookups) *)
Inductive sop :=
| SInsert (s v : bytes) | SAppend (s v : bytes) | SRemove (s : bytes) | SRetain (pid : N)
| SClear | SDrain | SGet (s : bytes) | SGetAll (s : bytes) | SContains (s : bytes)
| SLens | SIter | SRoundtrip.

Definition case := list sop.

(* canonical ordering of entries: insertion sort by name bytes *)
Fixpoint bytes_leb (a b : bytes) : bool :=
  match a, b with
  | [], _ => true
  | _ :: _, [] => false
  | x :: a', y :: b' => if x <? y then true else if y <? x then false else bytes_leb a' b'
  end.
Fixpoint ins_sorted (e : entry) (l : list entry) : list entry :=
  match l with
  | [] => [e]
  | e' :: r => if bytes_leb (fst e) (fst e') then e :: l else e' :: ins_sorted e r
  end.
Definition sort_entries (m : hm) : list entry := fold_right ins_sorted [] m.

Definition VEntries (m : hm) : V :=
  VL (map (fun e : entry => VT "e" [VBytes (fst e); VL (map VBytes (snd e))]) (sort_entries m)).
Definition VRemoved (r : removed) : V :=
  let h := removed_size_hint r in
  VT "removed" [VL (map VBytes (match r with Some vs => vs | None => [] end));
                VBool (removed_is_empty r);
                match exact_len h with Val n => VN n | Panic => VT "panic" [] end].
Definition VR {A} (f : A -> V) (r : R A) : V :=
  match r with Val a => f a | Panic => VT "panic" [] end.

(* group-wise view of an iterator run: per name, the values in order; plus the hint list *)
Definition VIter (m : hm) : V :=
  let es := sort_entries m in
  match iter_collect (S (N.to_nat (len m))) (iter_new es (len m)) with
  | Panic => VT "panic" []
  | Val items =>
      VT "iter" [VL (map (fun x => VT "kv" [VBytes (fst (fst x)); VBytes (snd (fst x))]) items);
                 VL (map (fun x => VN (snd x)) items)]
  end.
Definition VDrain (m : hm) : V :=
  let es := sort_entries m in
  match drain_collect (S (N.to_nat (len m))) (drain_new es (len m)) with
  | Panic => VT "panic" []
  | Val items =>
      VT "drain" [VL (map (fun x => VT "kv" [VOpt VBytes (fst (fst x)); VBytes (snd (fst x))]) items);
                  VL (map (fun x => VN (snd x)) items)]
  end.

Definition with_key (s : bytes) (f : name -> V) (dflt : V) : V :=
  match key_of s with Some k => f k | None => dflt end.

Definition exec (m : hm) (o : sop) : hm * V :=
  match o with
  | SInsert s v => let '(m', r) := insert (canon s) v m in (m', VRemoved r)
  | SAppend s v => (append (canon s) v m, VT "unit" [])
  | SRemove s => match key_of s with
                 | Some k => let '(m', r) := remove k m in (m', VRemoved r)
                 | None => (m, VRemoved None)
                 end
  | SRetain pid => (retain (retain_pred pid) m, VT "unit" [])
  | SClear => (clear m, VT "unit" [])
  | SDrain => ([], VDrain m)
  | SGet s => (m, with_key s (fun k => VR (VOpt VBytes) (get k m)) (VOpt VBytes None))
  | SGetAll s => (m, with_key s (fun k => VL (map VBytes (get_all k m))) (VL []))
  | SContains s => (m, with_key s (fun k => VBool (contains_key k m)) (VBool false))
  | SLens => (m, VT "lens" [VN (len m); VN (len_keys m); VBool (is_empty m)])
  | SIter => (m, VIter m)
  | SRoundtrip =>
      (* HeaderMap -> http::HeaderMap -> HeaderMap, entries compared name-sorted *)
      (m, match drain_collect (S (N.to_nat (len m))) (drain_new (sort_entries m) (len m)) with
          | Val items => VR VEntries (match map fst items with
                                      | [] => Val hm_new
                                      | l => from_drain l end)
          | Panic => VT "panic" []
          end)
  end.

Fixpoint exec_all (m : hm) (os : list sop) : list V :=
  match os with
  | [] => [VEntries m]
  | o :: r => let '(m', v) := exec m o in v :: exec_all m' r
  end.

Definition run_C18 (c : case) : V := VL (exec_all hm_new c).
