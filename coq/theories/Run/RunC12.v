(* Driver for the C12 correspondence: runs one extractor of Web/Extract.v on one case and renders
   the outcome and the number of wire polls canonically. *)
From Coq Require Import String.
From AV Require Import Lib.Base Lib.V Gen.Consts Web.Extract.
Open Scope N_scope.

(* chunks are written structurally so that a 256 KiB body costs a few tokens *)
Inductive seg := Lit (b : bytes) | Rep (n : N) (b : N).
Definition chunk := list seg.
Definition expand_seg (s : seg) : bytes :=
  match s with Lit b => b | Rep n b => repeat b (N.to_nat n) end.
Definition expand (c : chunk) : bytes := concat (map expand_seg c).

(* what the harness saw the real `Decoder` make of each wire chunk (identity: every chunk is [Wo]) *)
Inductive wi := Wo (c : chunk) | Ws | Wf | Wn (n : N) (c : chunk) (* n times [Wo c] *).
Inductive wtail := TNone | TData (c : chunk) | TFail.
Definition wire_of (ws : list wi) (t : wtail) : wire :=
  {| w_items := flat_map (fun w => match w with
                                   | Wo c => [WOut (expand c)] | Ws => [WSkip] | Wf => [WFail]
                                   | Wn n c => repeat (WOut (expand c)) (N.to_nat n)
                                   end) ws;
     w_tail := match t with TNone => None | TData c => Some (Data (expand c)) | TFail => Some Fail end |}.

(* one multipart field as the real `Multipart` delivered it: name id, kind, T::limit(name), chunks *)
Inductive mfield := MF (name : N) (kind : fkind) (flimit : option N) (chunks : list chunk).

Inductive case :=
(* limit = None: no config in app data (the extractor's DEFAULT_CONFIG) *)
| CBytes (limit : option N) (cl : clen) (ws : list wi) (t : wtail)
| CString (limit : option N) (cl : clen) (ws : list wi) (t : wtail) (valid_text : bool)
| CJson (limit : option N) (ctype_ok : bool) (cl : clen) (ws : list wi) (t : wtail) (parses : bool)
| CForm (limit : option N) (ctype_ok : bool) (cl : clen) (ws : list wi) (t : wtail) (parses : bool)
| CPayloadTBL (limit : N) (ws : list wi) (t : wtail)
| CBodyTBL (size : bsize) (limit : N) (chunks : list chunk)
| CFieldBytes (limit : N) (chunks : list chunk)
| CMultipart (total memory : option N) (fields : list mfield).

(* order-sensitive checksum of a byte string: sum of (position+1) * (byte+1) *)
Definition hash (b : bytes) : N :=
  snd (fold_left (fun (a : N * N) x => (fst a + 1, snd a + (fst a + 1) * (x + 1))) b (0, 0)).

Definition VErr (e : xerr) : V :=
  match e with
  | EOverflow => VT "overflow" []
  | EOverflowAt s l => VT "overflow_at" [VN s; VN l]
  | EOverflowKnown s l => VT "overflow_known" [VN s; VN l]
  | EUnknownLength => VT "unknown_length" []
  | EContentType => VT "content_type" []
  | EStream => VT "stream" []
  end.

(* the external parser that runs on the collected buffer (str::from_utf8, serde_json,
   serde_urlencoded): its verdict on the whole body is part of the case *)
Definition VRes (parses : bool) (r : res) : V :=
  match r with
  | Ok b => if parses then VT "ok" [VN (lenN b); VN (hash b)] else VT "parse" []
  | Err e => VErr e
  end.

Definition out (parses : bool) (ws : list wi) (t : wtail) (r : res * ghost) : V :=
  VT "r" [VRes parses (fst r); VN (wire_pulls (w_items (wire_of ws t)) (g_pulled (snd r)) 0)].

Definition dflt (d : N) (o : option N) : N := match o with Some n => n | None => d end.

Definition to_field (m : mfield) : field :=
  match m with
  | MF n k fl cs => {| f_name := n; f_kind := k; f_limit := fl; f_items := map (fun c => Data (expand c)) cs |}
  end.

(* kept fields in member order (ascending name id), occurrences of one name in arrival order *)
Fixpoint ins_kept (e : N * bytes) (l : list (N * bytes)) : list (N * bytes) :=
  match l with
  | [] => [e]
  | e' :: r => if fst e <? fst e' then e :: l else e' :: ins_kept e r
  end.
Definition sort_kept (l : list (N * bytes)) : list (N * bytes) := fold_left (fun a e => ins_kept e a) l [].

Definition run_C12 (c : case) : V :=
  match c with
  | CBytes limit cl ws t =>
      out true ws t (bytes_extract PAYLOAD_DEFAULT_CONFIG_LIMIT (dflt PAYLOAD_DEFAULT_CONFIG_LIMIT limit) cl
                                   (decoded (wire_of ws t)))
  | CString limit cl ws t valid =>
      out valid ws t (bytes_extract PAYLOAD_DEFAULT_CONFIG_LIMIT (dflt PAYLOAD_DEFAULT_CONFIG_LIMIT limit) cl
                                    (decoded (wire_of ws t)))
  | CJson limit ct cl ws t parses =>
      out parses ws t (json_extract JSON_DEFAULT_LIMIT (dflt JSON_DEFAULT_LIMIT limit) ct cl
                                    (decoded (wire_of ws t)))
  | CForm limit ct cl ws t parses =>
      out parses ws t (form_extract (dflt FORM_DEFAULT_LIMIT limit) ct cl (decoded (wire_of ws t)))
  | CPayloadTBL limit ws t =>
      out true ws t (payload_to_bytes_limited limit (decoded (wire_of ws t)))
  | CBodyTBL size limit cs =>
      let r := to_bytes_limited size limit (map (fun c => Data (expand c)) cs) in
      VT "r" [VRes true (fst r); VN (g_pulled (snd r))]
  | CFieldBytes limit cs =>
      (* polls of the Field stream are not observable from outside: result only *)
      VT "r" [VRes true (fst (field_bytes limit (map (fun c => Data (expand c)) cs)))]
  | CMultipart total memory fs =>
      match form_collect (dflt MULTIPART_FORM_TOTAL_LIMIT total) (dflt MULTIPART_FORM_MEMORY_LIMIT memory)
                         (map to_field fs) with
      | FormOk kept _ => VT "form_ok" [VL (map (fun kv => VT "f" [VN (fst kv); VN (lenN (snd kv)); VN (hash (snd kv))]) (sort_kept kept))]
      | FormOverflow => VT "form_overflow" []
      | FormStream => VT "form_stream" []
      end
  end.
