(* Driver for the C13 correspondence.  The abstract codec of Web/ContentCoding.v is instantiated
   with a SCRIPTED codec: the case carries what the real library returned for every
   write+take / finish (encoder) and for every feed / feed_eof (decoder), recorded by a twin run of
   flate2 / brotli / zstd in the harness.  Outputs are tokens [len; checksum] ([] = empty output),
   so the machines' treatment of empty outputs, of the finish chunk and of the end is exercised
   without shipping compressed bytes to Coq. *)
From Coq Require Import String.
From AV Require Import Lib.Base Lib.V Gen.Consts Web.ContentCoding Web.Negotiate Web.ContentCodingSelect.
Open Scope N_scope.

(* ---- scripted encoder: state = (outputs of the takes still to come, output of finish) *)
Definition SE := (list bytes * bytes)%type.
Definition se_write (e : SE) (_ : bytes) : SE := e.
Definition se_take (e : SE) : bytes * SE :=
  match fst e with t :: r => (t, (r, snd e)) | [] => ([], e) end.
Definition se_finish (e : SE) : bytes := snd e.

(* ---- scripted decoder: state = (results of the feeds still to come, result of feed_eof) *)
Definition SD := (list (option bytes) * option bytes)%type.
Definition sd_feed (d : SD) (_ : bytes) : option (bytes * SD) :=
  match fst d with
  | Some out :: r => Some (out, (r, snd d))
  | None :: _ => None
  | [] => Some ([], d)
  end.
Definition sd_eof (d : SD) : option bytes := snd d.

Definition e_poll := enc_poll SE se_write se_take se_finish ENC_MAX_CHUNK_SIZE_ENCODE_IN_PLACE.
Definition e_drive := enc_drive_obs SE se_write se_take se_finish ENC_MAX_CHUNK_SIZE_ENCODE_IN_PLACE.
Definition d_poll := dec_poll SD sd_feed sd_eof DEC_MAX_CHUNK_SIZE_DECODE_IN_PLACE.
Definition d_drive := dec_drive SD sd_feed sd_eof DEC_MAX_CHUNK_SIZE_DECODE_IN_PLACE.

(* a body / wire chunk as the machines need it: its length (capped at 4096, which preserves the
   comparisons with the in-place thresholds 1024 / 2049) and its token for the pass-through case *)
Inductive bchunk := BC (len_capped : N) (token : bytes).
Definition bc_sized (c : bchunk) : bytes := match c with BC n _ => repeat 0 (N.to_nat n) end.
Definition bc_token (c : bchunk) : bytes := match c with BC _ t => t end.

Inductive case :=
(* Compress middleware + Encoder: parsed Accept-Encoding (None: header absent / unparsable),
   compressible content type, status, handler-set Content-Encoding, handler Vary values, the
   handler's NO_CHUNKING flag and Content-Length header (`.no_chunking(len)` sets both), body size,
   body chunks, scripted takes (one per body chunk) and finish; [after] = how many times the consumer
   polls again after the end (0 when the handler's body does not tolerate polls after its end) *)
| CResp (ae : option (list qitem)) (compressible : bool) (status : N) (ce : option bytes)
        (vary : list bytes) (no_chunking : bool) (cl : option bytes) (size : bsize) (body : list bchunk) (takes : list bytes) (finish : bytes)
        (oracle : list bool) (after : nat)
(* request Decoder: the values of the request's Content-Encoding fields (Decoder::from_headers
   decides whether there is a decoder), wire chunks, scripted feed
   results (one per wire chunk; None = io error) and feed_eof result *)
| CDec (ce_values : list bytes) (wire : list bchunk) (feeds : list (option bytes)) (eof : option bytes)
       (oracle : list bool)
(* negotiation alone *)
| CNeg (h : list qitem).

Definition VCoding (c : coding) : V := VBytes (coding_name c).
(* tokens are [len; checksum], not byte strings *)
Definition VTok (t : bytes) : V := VL (map VN t).
Definition VSize (s : bsize) : V :=
  match s with SzNone => VT "none" [] | SzSized n => VT "sized" [VN n] | SzStream => VT "stream" [] end.
Definition VHead (h : head) : V :=
  VT "head" [VN (h_status h); VOpt VBytes (h_content_encoding h); VL (map VBytes (h_vary h));
             VBool (h_no_chunking h); VOpt VBytes (h_content_length h)].

(* after the end has been reported: three more polls *)
Fixpoint e_after (n : nat) (s : enc_st SE) : list V :=
  match n with
  | O => []
  | S n => match e_poll (enc_fuel SE s) s [] with
           | (Pending, s', _) => VT "pending" [] :: e_after n s'
           | (Ready None, s', _) => VT "end" [] :: e_after n s'
           | (Ready (Some c), s', _) => VT "chunk" [VTok c] :: e_after n s'
           end
  end.
Fixpoint d_after (n : nat) (s : dec_st SD) : list V :=
  match n with
  | O => []
  | S n => match d_poll (dec_fuel SD s) s [] with
           | (Pending, s', _) => VT "pending" [] :: d_after n s'
           | (Ready None, s', _) => VT "end" [] :: d_after n s'
           | (Ready (Some (DChunk c)), s', _) => VT "chunk" [VTok c] :: d_after n s'
           | (Ready (Some DErr), s', _) => VT "err" [] :: d_after n s'
           end
  end.

Definition run_C13 (c : case) : V :=
  match c with
  | CResp ae compressible status ce vary nochunk cl size body takes finish o n_after =>
      let h := {| h_status := status; h_content_encoding := ce; h_vary := vary; h_no_chunking := nochunk;
                  h_content_length := cl |} in
      match compress ae compressible h size with
      | NotAcceptable => VT "not_acceptable" []
      | Responded a h' sz =>
          let '(enc, chunks) :=
              match a with
              | BEncode _ => (Some (takes, finish), map bc_sized body)
              | BPass => (None, map bc_token body)
              | BNone | BEmpty => (None, [])
              end in
          let s0 := match a with
                    | BNone | BEmpty => {| e_body := []; e_encoder := None; e_fut := None; e_eof := true |}
                    | _ => enc_init SE enc chunks
                    end in
          (* [nones]: how often the handler's body answered None up to the answer's end; every one
             after the first is a poll of the body after its end *)
          let '(outs, sf, fin, nones) := e_drive (enc_budget chunks o) s0 o in
          VT "resp" [VHead h'; VSize sz; VL (map VTok outs); VBool fin; VL (e_after n_after sf);
                     VN (N.of_nat (Nat.pred nones))]
      end
  | CDec values wire feeds eof o =>
      let has := decoder_new_has (decoder_from_headers values) in
      let chunks := if has then map bc_sized wire else map bc_token wire in
      let s0 := dec_init SD (if has then Some (feeds, eof) else None) chunks in
      let '(outs, sf, fin) := d_drive (dec_budget chunks o) s0 o in
      VT "dec" [VL (map (fun i => match i with DChunk c => VTok c | DErr => VT "err" [] end) outs);
                VBool fin;
                VL (match outs with
                    | _ => if existsb (fun i => match i with DErr => true | _ => false end) outs
                           then [] else d_after 3 sf
                    end)]
  | CNeg h =>
      VT "neg" [VOpt VCoding (negotiate h supported_encodings);
                VL (map (fun p => match p with PAny => VT "any" [] | PSpec c => VT "spec" [VCoding c] end)
                        (ranked h))]
  end.
