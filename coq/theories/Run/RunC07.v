(* Driver for the C07 correspondence: replays an operation history on the model of
   h1/payload.rs and prints, per operation, its result and the wakers it woke; last, the value
   of the known-class classifier (diffed against the harness's Rust twin). Chunks are
   structural (fill byte, length): the model only looks at lengths. *)
From Coq Require Import String.
From AV Require Import Lib.Base Lib.V Gen.Consts H1.Payload H1.PayloadSpec.
Open Scope N_scope.

Definition schunk := (N * N)%type.                 (* (fill byte, length) *)
Definition sclen (c : schunk) : N := snd c.
Definition scbytes (c : schunk) : bytes := repeat (fst c) (N.to_nat (snd c)).

Inductive sop :=
| SFeed (fill n : N) | SEof | SErr (kind : N) | SSenderDrop | SNeedRead (w : N) | SIsDropped
| SPoll (w : N) | SUnread (fill n : N) | SReaderDrop.

Definition case := (bool * list sop)%type.

Definition err_of (k : N) : perr := if k =? 0 then EIncomplete else EOther k.
Definition kind_of (e : perr) : N := match e with EIncomplete => 0 | EOther k => k end.

Definition op_of (o : sop) : op schunk :=
  match o with
  | SFeed f n => OFeedData (f, n)
  | SEof => OFeedEof
  | SErr k => OSetError (err_of k)
  | SSenderDrop => OSenderDrop
  | SNeedRead w => ONeedRead w
  | SIsDropped => OIsDropped
  | SPoll w => OPoll w
  | SUnread f n => OUnread (f, n)
  | SReaderDrop => OReaderDrop
  end.

Definition VRes (r : res schunk) : V :=
  match r with
  | RUnit => VT "unit" []
  | RNoHandle => VT "nohandle" []
  | RStatus Read => VT "Read" []
  | RStatus Pause => VT "Pause" []
  | RStatus Dropped => VT "Dropped" []
  | RBool b => VBool b
  | RPoll (PData (f, n)) => VT "data" [VN (if n =? 0 then 0 else f); VN n]
  | RPoll (PErr e) => VT "err" [VN (kind_of e)]
  | RPoll PEnd => VT "end" []
  | RPoll PPending => VT "pending" []
  | RPanic => VT "panic" []
  end.

Definition VEvent (ev : event schunk) : V :=
  match ev with (_, r, w) => VT "ev" [VRes r; VL (map VN w)] end.

Definition run_C07 (c : case) : V :=
  let os := map op_of (snd c) in
  let '(_, t) := run sclen H1_PAYLOAD_MAX_BUFFER_SIZE (fst c) os in
  VL (map VEvent t ++ [VT "known" [VBool (known_case (fst c) os)]]).
