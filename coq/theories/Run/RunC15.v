(* Driver for the C15 correspondence: the consumer loop of harness/src/bin/c15.rs replayed on
   the model: poll the Multipart; on a field, poll the field to its end (or drop the handle
   after [c_consume] data chunks); re-poll after Pending only when the poll was woken (a
   Pending that is not woken ends the run: hang).  Every poll result is printed. *)
From Coq Require Import String.
From AV Require Import Lib.Base.
From AV Require Import Lib.V.
From AV Require Import Gen.Consts.
From AV Require Import Multipart.Buffer.
From AV Require Import Multipart.Scan.
From AV Require Import Multipart.Parser.
Open Scope N_scope.

(* upstream script, run-length encoded: chunk of the next n body bytes, Pending, stream error,
   k chunks of n bytes, k times (chunk of n bytes, Pending) *)
Inductive pl := PC (n : N) | PP | PE | PRepC (k n : N) | PRepCP (k n : N).

Fixpoint rep_chunks (k : nat) (n : nat) (pend : bool) (body : bytes) : list ev * bytes :=
  match k with
  | O => ([], body)
  | S k' => let '(r, b) := rep_chunks k' n pend (skipn n body) in
            (EChunk (firstn n body) :: (if pend then EPending :: r else r), b)
  end.

Fixpoint expand (plan : list pl) (body : bytes) : list ev :=
  match plan with
  | [] => []
  | PC n :: r => EChunk (firstn (N.to_nat n) body) :: expand r (skipn (N.to_nat n) body)
  | PP :: r => EPending :: expand r body
  | PE :: r => EErr :: expand r body
  | PRepC k n :: r => let '(e, b) := rep_chunks (N.to_nat k) (N.to_nat n) false body in e ++ expand r b
  | PRepCP k n :: r => let '(e, b) := rep_chunks (N.to_nat k) (N.to_nat n) true body in e ++ expand r b
  end.

Record case := mkCase {
  c_bnd : bytes;
  c_limit : option N;                 (* MultipartConfig::buffer_limit; None = default *)
  c_body : bytes;                     (* all chunk bytes of the upstream script, concatenated *)
  c_plan : list pl;                   (* how they arrive *)
  c_consume : option N;
  c_hdrs : list (bytes * hres);       (* header-block oracle, tabulated by the harness *)
  c_orig24 : bool;                    (* implementation under test has the original `len > 4` *)
  c_orig7 : bool;                     (* ... the original Pending-at-eof exits *)
  c_orig25 : bool                     (* ... the original `if appended` wake after 16 chunks *)
}.

Fixpoint lookup (t : list (bytes * hres)) (b : bytes) : hres :=
  match t with
  | [] => HErr (hx "6f7261636c652d6d697373")      (* "oracle-miss" *)
  | (k, v) :: r => if bytes_eqb k b then v else lookup r b
  end.

Definition err_tag (e : merr) : bytes :=
  match e with
  | EIncomplete => hx "696e636f6d706c657465"
  | EBoundary => hx "626f756e64617279"
  | EOverflow => hx "6f766572666c6f77"
  | EPayload => hx "7061796c6f6164"
  | EHdr t => t
  | EFuel => hx "6675656c"
  | EPanic => hx "70616e6963"
  end.

Inductive tev := TPend (w : bool) | TField (name : option bytes) (cl : option N) | TData (b : bytes)
             | TFieldEnd | TDropped | TErr (e : merr) | TEnd | TBudget.

Inductive dmode := AtMp | InField (n : N).

Section Drive.
Variable hdr : bytes -> hres.
Variables o24 o7 o25 : bool.
Variable consume : option N.

Fixpoint drive (fuel : nat) (m : mp) (mode : dmode) : list tev :=
  match fuel with
  | O => [TBudget]
  | S k =>
      match mode with
      | AtMp =>
          match mp_poll_next hdr o24 o7 o25 m with
          | (Pending, w, m1) => TPend w :: (if w then drive k m1 AtMp else [])
          | (Ready MEnd, _, _) => [TEnd]
          | (Ready (MErr e), _, _) => [TErr e]
          | (Ready (MField name cl), _, m1) => TField name cl :: drive k m1 (InField 0)
          end
      | InField n =>
          if match consume with Some j => j =? n | None => false end
          then TDropped :: drive k m AtMp
          else
            match field_poll_next o24 o7 o25 m with
            | (Pending, w, m1) => TPend w :: (if w then drive k m1 (InField n) else [])
            | (Ready IEnd, _, m1) => TFieldEnd :: drive k m1 AtMp
            | (Ready (IErr e), _, _) => [TErr e]
            | (Ready (IData b), _, m1) => TData b :: drive k m1 (InField (n + 1))
            end
      end
  end.
End Drive.

(* compact, information-preserving rendering (same as transcript_v in c15.rs) *)
Definition code (e : tev) : N :=
  match e with
  | TPend w => if w then 1 else 0
  | TField _ _ => 2 | TFieldEnd => 3 | TDropped => 4 | TEnd => 5 | TErr _ => 6 | TBudget => 7
  | TData b => 10 + lenN b
  end.
Definition render (t : list tev) : V :=
  VT "t" [VL (map (fun e => VN (code e)) t);
          VBytes (flat_map (fun e => match e with TData b => b | _ => [] end) t);
          VL (flat_map (fun e => match e with TField n cl => [VT "F" [VOpt VBytes n; VOpt VN cl]] | _ => [] end) t);
          VBytes (flat_map (fun e => match e with TErr x => err_tag x | _ => [] end) t)].

Fixpoint body_len (s : list ev) : N :=
  match s with
  | [] => 0
  | EChunk b :: r => lenN b + body_len r
  | _ :: r => body_len r
  end.

Definition run_C15 (c : case) : V :=
  let limit := match c_limit c with Some n => n | None => MULTIPART_DEFAULT_BUFFER_LIMIT end in
  let script := expand (c_plan c) (c_body c) in
  let fuel := N.to_nat (20000 + 40 * lenN script + 8 * body_len script) in
  render (drive (lookup (c_hdrs c)) (c_orig24 c) (c_orig7 c) (c_orig25 c) (c_consume c) fuel
                (mp_new (c_bnd c) script limit) AtMp).
