(* Driver for the C15 correspondence: the consumer loop of harness/src/bin/c15.rs replayed on
   the model: poll the Multipart; on a field, poll the field to its end (or drop the handle
   after [c_consume] data chunks); re-poll after Pending only when the poll was woken (a
   Pending that is not woken ends the run: hang).  Every poll result is printed. *)
From Coq Require Import String.
From AV Require Import Lib.Base.
From AV Require Import Lib.V.
From AV Require Import Gen.Consts.
From AV Require Import Multipart.Buffer.
From AV Require Import Multipart.Scan.
From AV Require Import Multipart.Parser.
Open Scope N_scope.

Record case := mkCase {
  c_bnd : bytes;
  c_limit : option N;                 (* MultipartConfig::buffer_limit; None = default *)
  c_script : list ev;
  c_consume : option N;
  c_hdrs : list (bytes * hres);       (* header-block oracle, tabulated by the harness *)
  c_orig24 : bool;                    (* implementation under test has the original `len > 4` *)
  c_orig7 : bool                      (* ... the original Pending-at-eof exits *)
}.

Fixpoint lookup (t : list (bytes * hres)) (b : bytes) : hres :=
  match t with
  | [] => HErr (hx "6f7261636c652d6d697373")      (* "oracle-miss" *)
  | (k, v) :: r => if bytes_eqb k b then v else lookup r b
  end.

Definition err_tag (e : merr) : bytes :=
  match e with
  | EIncomplete => hx "696e636f6d706c657465"
  | EBoundary => hx "626f756e64617279"
  | EOverflow => hx "6f766572666c6f77"
  | EPayload => hx "7061796c6f6164"
  | EHdr t => t
  | EFuel => hx "6675656c"
  | EPanic => hx "70616e6963"
  end.

Definition VP (w : bool) : V := VT "P" [VBool w].
Definition VE (e : merr) : V := VT "E" [VBytes (err_tag e)].

Inductive dmode := AtMp | InField (n : N).

Section Drive.
Variable c : case.
Let hdr := lookup (c_hdrs c).
Let o24 := c_orig24 c.
Let o7 := c_orig7 c.

Fixpoint drive (fuel : nat) (m : mp) (mode : dmode) : list V :=
  match fuel with
  | O => [VT "budget" []]
  | S k =>
      match mode with
      | AtMp =>
          match mp_poll_next hdr o24 o7 m with
          | (Pending, w, m1) => VP w :: (if w then drive k m1 AtMp else [])
          | (Ready MEnd, _, _) => [VT "End" []]
          | (Ready (MErr e), _, _) => [VE e]
          | (Ready (MField name cl), _, m1) =>
              VT "F" [VOpt VBytes name; VOpt VN cl] :: drive k m1 (InField 0)
          end
      | InField n =>
          if match c_consume c with Some j => j =? n | None => false end
          then VT "X" [] :: drive k m AtMp
          else
            match field_poll_next o24 o7 m with
            | (Pending, w, m1) => VP w :: (if w then drive k m1 (InField n) else [])
            | (Ready IEnd, _, m1) => VT "N" [] :: drive k m1 AtMp
            | (Ready (IErr e), _, _) => [VE e]
            | (Ready (IData b), _, m1) => VT "D" [VBytes b] :: drive k m1 (InField (n + 1))
            end
      end
  end.
End Drive.

Fixpoint body_len (s : list ev) : N :=
  match s with
  | [] => 0
  | EChunk b :: r => lenN b + body_len r
  | _ :: r => body_len r
  end.

Definition run_C15 (c : case) : V :=
  let limit := match c_limit c with Some n => n | None => MULTIPART_DEFAULT_BUFFER_LIMIT end in
  let fuel := N.to_nat (20000 + 40 * lenN (c_script c) + 8 * body_len (c_script c)) in
  VL (drive c fuel (mp_new (c_bnd c) (c_script c) limit) AtMp).
