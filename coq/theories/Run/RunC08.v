(* Driver for the C08 correspondence: runs `handle_response` of the model for every stream of a
   case under the given grant sequence and renders what an h2 client can observe: head (status,
   content-length values, forbidden connection-specific headers present, x-keep values, date
   present, END_STREAM on the head), DATA frame lengths, body length / digest / first bytes, how the
   stream ended. *)
From Coq Require Import String.
From AV Require Import Lib.Base Lib.V Gen.Consts.
From AV Require Export H2.Prepare H2.SendLoop.
From AV Require Import H2.Spec H2.RecvPayload.
Open Scope N_scope.

Inductive cev := BC (len fill : N) | BP | BE.
(* request side: answers of the RecvStream, as the handler's items reveal them *)
Inductive uev := UD (len start : N) | UE (e : N) | UEnd.

Record scase := mkS {
  s_head : bool; s_status : N; s_size : bsize; s_hdrs : list (bytes * bytes);
  s_body : list cev;
  s_caps : list cap_ans;      (* grant sequence the model is run under *)
  s_seen : option N;          (* Some k: the client saw only k DATA frames (reset / failure) *)
  s_cut : bool;               (* the client itself ended the stream: end tag not compared *)
  s_up : option (list uev)    (* Some: the request carried a body read through h2::Payload *)
}.
Definition case := list scase.

(* chunk bytes: byte i = (fill + i) mod 251, fill < 251 (written as a wrapping counter) *)
Fixpoint genb (n : nat) (i : N) : bytes :=
  match n with O => [] | S n' => i :: genb n' (if i + 1 =? 251 then 0 else i + 1) end.
Definition ev_of (e : cev) : bev :=
  match e with BC len fill => BChunk (genb (N.to_nat len) (fill mod 251)) | BP => BPending | BE => BErr end.

(* position-sensitive checksum: running sums s1 = sum (b+1), s2 = sum of the partial s1 *)
Definition digest (b : bytes) : N * N :=
  fold_left (fun '(s1, s2) x => let s1' := s1 + x + 1 in (s1', s2 + s1')) b (0, 0).

Definition x_keep : bytes := [120;45;107;101;101;112].
(* alphabetical, as the harness sorts them *)
Definition forbidden_names : list bytes :=
  [h_connection; h_keep_alive; h_proxy_connection; h_transfer_encoding; h_upgrade].

Definition VHead (status : N) (hs : list header) (eos : bool) : V :=
  VT "head" [VN status;
             VL (map VBytes (values_of h_content_length hs));
             VL (map VBytes (filter (fun n => has_header n hs) forbidden_names));
             VL (map VBytes (values_of x_keep hs));
             VBool (has_header h_date hs);
             VBool eos].

Definition end_tag (o : outcome) : string :=
  match o with
  | ODone => "complete" | ODropped => "dropped" | OBlocked => "hang"
  | OErrResponse | OErrSend | OErrBody => "server-reset"
  end.

Definition rev_of (u : uev) : rev :=
  match u with
  | UD len start => RData (genb (N.to_nat len) (start mod 251))
  | UE e => RErr e
  | UEnd => REnd
  end.

(* what the handler observes on `h2::Payload`: item lengths, bytes, terminal item *)
Definition up_items (us : list uev) : list pitem := fst (drain (map rev_of us) []).
Definition up_failed (us : list uev) : bool :=
  match last (up_items us) PPending with PErr _ => true | _ => false end.
Definition VUp (us : list uev) : V :=
  let its := up_items us in
  let chunks := delivered its in
  let data := concat chunks in
  let d := digest data in
  VT "up" [VL (map (fun b => VN (lenN b)) chunks); VN (lenN data); VN (fst d); VN (snd d);
           VT (match last its PPending with
               | PEnd => "end" | PErr (Http2Payload _) => "h2" | _ => "open" end) []].

Definition run_stream (s : scase) : V :=
  if (100 <=? s_status s) && (s_status s <? 200) then VT "informational" [] else
  if match s_up s with Some us => up_failed us | None => false end
  then VT "upcut" [match s_up s with Some us => VUp us | None => VT "noup" [] end] else
  let r := mkResp (s_head s) (s_status s) (s_hdrs s) (s_size s) (map ev_of (s_body s)) in
  let '(t, o) := handle_response H2_CHUNK_SIZE [] r true (s_caps s) [] in
  let head := match t with OHead hs eos :: _ => VHead (s_status s) hs eos | _ => VT "nohead" [] end in
  let fr := frames_of t in
  let fr := match s_seen s with Some k => firstn (N.to_nat k) fr | None => fr end in
  let data := concat (map fst fr) in
  let d := digest data in
  VT "s" [head; VL (map (fun f => VN (lenN (fst f))) fr); VN (lenN data); VN (fst d); VN (snd d);
          VBytes (firstn 16 data);
          VT (if s_cut s then "cut" else end_tag o) [];
          match s_up s with Some us => VUp us | None => VT "noup" [] end].

(* the known-finding classifier of H2/Spec.v, evaluated on the case (diffed against the harness's) *)
Definition known_stream (s : scase) : bool :=
  known_status_body (mkResp (s_head s) (s_status s) (s_hdrs s) (s_size s) []).


Definition run_C08 (c : case) : V :=
  VT "case" [VBool (existsb known_stream c); VL (map run_stream c)].
