(* Driver for the C08 correspondence: runs `handle_response` of the model for every stream of a
   case under the given grant sequence and renders what an h2 client can observe: head (status,
   content-length values, forbidden connection-specific headers present, x-keep values, date
   present, END_STREAM on the head), DATA frame lengths, body length / digest / first bytes, how the
   stream ended. *)
From Coq Require Import String.
From AV Require Import Lib.Base Lib.V Gen.Consts H2.Prepare H2.SendLoop.
Open Scope N_scope.

Inductive cev := BC (len fill : N) | BP | BE.

Record scase := mkS {
  s_head : bool; s_status : N; s_size : bsize; s_hdrs : list (bytes * bytes);
  s_body : list cev;
  s_caps : list cap_ans;      (* grant sequence the model is run under *)
  s_seen : option N;          (* Some k: the client saw only k DATA frames (reset / failure) *)
  s_cut : bool                (* the client itself ended the stream: end tag not compared *)
}.
Definition case := list scase.

(* chunk bytes: byte i = (fill + i) mod 251 *)
Fixpoint genb (n : nat) (i : N) : bytes :=
  match n with O => [] | S n' => (i mod 251) :: genb n' (i + 1) end.
Definition ev_of (e : cev) : bev :=
  match e with BC len fill => BChunk (genb (N.to_nat len) fill) | BP => BPending | BE => BErr end.

Definition digest (b : bytes) : N :=
  fold_left (fun h x => (h * 31 + x + 1) mod 4294967291) b 7.

Definition x_keep : bytes := [120;45;107;101;101;112].
(* alphabetical, as the harness sorts them *)
Definition forbidden_names : list bytes :=
  [h_connection; h_keep_alive; h_proxy_connection; h_transfer_encoding; h_upgrade].

Definition VHead (status : N) (hs : list header) (eos : bool) : V :=
  VT "head" [VN status;
             VL (map VBytes (values_of h_content_length hs));
             VL (map VBytes (filter (fun n => has_header n hs) forbidden_names));
             VL (map VBytes (values_of x_keep hs));
             VBool (has_header h_date hs);
             VBool eos].

Definition end_tag (o : outcome) : string :=
  match o with
  | ODone => "complete" | ODropped => "dropped" | OBlocked => "hang"
  | OErrResponse | OErrSend | OErrBody => "server-reset"
  end.

Definition run_stream (s : scase) : V :=
  if (100 <=? s_status s) && (s_status s <? 200) then VT "informational" [] else
  let r := mkResp (s_head s) (s_status s) (s_hdrs s) (s_size s) (map ev_of (s_body s)) in
  let '(t, o) := handle_response H2_CHUNK_SIZE [] r true (s_caps s) [] in
  let head := match t with OHead hs eos :: _ => VHead (s_status s) hs eos | _ => VT "nohead" [] end in
  let fr := frames_of t in
  let fr := match s_seen s with Some k => firstn (N.to_nat k) fr | None => fr end in
  let data := concat (map fst fr) in
  VT "s" [head; VL (map (fun f => VN (lenN (fst f))) fr); VN (lenN data); VN (digest data);
          VBytes (firstn 16 data);
          VT (if s_cut s then "cut" else end_tag o) []].

Definition run_C08 (c : case) : V := VL (map run_stream c).
