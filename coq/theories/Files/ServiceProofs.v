(* Proofs about FilesService::call / find_compressed: whatever the file system contains, whatever
   the negotiation order, the path that is opened is the configured directory followed by normal
   segments -- provided the configured directory is a directory. *)
From AV Require Import Lib.Base Files.PathBuf Files.PathBufSpec Files.PathBufProofs Files.Service.

Lemma rev_map_snoc (A : list component) (segs : list bytes) (s : bytes) :
  rev (A ++ map CNormal (segs ++ [s])) = CNormal s :: rev (A ++ map CNormal segs).
Proof. rewrite map_app, app_assoc, rev_app_distr. reflexivity. Qed.

Lemma snoc_cases {X} (l : list X) : l = [] \/ exists l' x, l = l' ++ [x].
Proof.
  destruct l as [|a l]; [left; reflexivity|right].
  exists (removelast (a :: l)), (last (a :: l) a). apply app_removelast_last. discriminate.
Qed.

Lemma file_name_snoc A segs s : file_name (A ++ map CNormal (segs ++ [s])) = Some s.
Proof. unfold file_name. rewrite rev_map_snoc. reflexivity. Qed.

Lemma set_file_name_snoc A segs s name :
  set_file_name (A ++ map CNormal (segs ++ [s])) name = A ++ map CNormal (segs ++ [name]).
Proof.
  unfold set_file_name. rewrite file_name_snoc.
  rewrite map_app, app_assoc. cbn [map]. rewrite removelast_last.
  rewrite map_app, <- app_assoc. reflexivity.
Qed.

Lemma ext_normal e x f : ext_of e = Some x -> normal_seg f -> normal_seg (f ++ x).
Proof.
  intros He (Hne & _ & _ & Hs).
  assert (Hx : (3 <= length x)%nat /\ ~ In SLASH x).
  { unfold ext_of in He.
    destruct (e =? 0); [inversion He; subst; split; [cbn; lia|cbn; unfold SLASH; intuition discriminate]|].
    destruct (e =? 1); [inversion He; subst; split; [cbn; lia|cbn; unfold SLASH; intuition discriminate]|].
    destruct (e =? 2); [inversion He; subst; split; [cbn; lia|cbn; unfold SLASH; intuition discriminate]|].
    discriminate. }
  destruct Hx as (Hl & Hxs).
  assert (Hlen : (3 <= length (f ++ x))%nat) by (rewrite app_length; lia).
  repeat split.
  - intro E. rewrite E in Hlen. cbn in Hlen. lia.
  - intro E. rewrite E in Hlen. cbn in Hlen. lia.
  - intro E. rewrite E in Hlen. cbn in Hlen. lia.
  - intro K. apply in_app_or in K as [K|K]; [apply Hs|apply Hxs]; assumption.
Qed.

Section Under.
  Variable fs : list component -> fkind.
  Variable root : bytes.
  Let A := components root.

  Definition under (cs : list component) : Prop :=
    exists segs', Forall normal_seg segs' /\ cs = A ++ map CNormal segs'.

  Lemma find_loop_under segs s neg c e :
    Forall normal_seg (segs ++ [s]) ->
    find_loop fs (A ++ map CNormal (segs ++ [s])) s neg = Some (c, e) -> under c.
  Proof.
    intros HF. induction neg as [|e0 rest IH]; cbn [find_loop]; [discriminate|].
    destruct (ext_of e0) as [x|] eqn:Ex; [|discriminate].
    rewrite set_file_name_snoc.
    match goal with |- context [if ?b then _ else _] => destruct b end.
    - intro H; inversion H; subst. exists (segs ++ [s ++ x]). split; [|reflexivity].
      apply Forall_app in HF as (H1 & H2). apply Forall_app. split; [assumption|].
      inversion H2; subst. constructor; [eapply ext_normal; eassumption|constructor].
    - exact IH.
  Qed.

  Lemma find_compressed_under segs neg c e :
    Forall normal_seg segs -> segs <> [] ->
    find_compressed fs (A ++ map CNormal segs) neg = Some (c, e) -> under c.
  Proof.
    intros HF Hne. destruct (snoc_cases segs) as [->|(l & s & ->)]; [congruence|].
    unfold find_compressed. rewrite file_name_snoc. apply find_loop_under. assumption.
  Qed.

  (* THE statement: every path the service opens is lexically under the configured directory *)
  Lemma call_under_root tc index segs neg opened enc :
    fs A = KDir ->
    Forall normal_seg segs ->
    match index with Some ix => normal_seg ix | None => True end ->
    call fs tc index root segs neg = Served opened enc -> under opened.
  Proof.
    intros Hroot HF Hix. unfold call. rewrite (join_under_root root segs HF). fold A.
    destruct (tc && negb (is_dir (fs (A ++ map CNormal segs)))) eqn:EG.
    - (* pre-compressed lookup for a non-directory: the root itself is excluded *)
      assert (Hne : segs <> []).
      { intros ->. cbn [map] in EG. rewrite app_nil_r, Hroot in EG. cbn in EG.
        rewrite andb_false_r in EG. discriminate. }
      destruct (find_compressed fs (A ++ map CNormal segs) neg) as [[c e]|] eqn:EF.
      + intros [= <- <-]. eapply find_compressed_under; eassumption.
      + apply andb_true_iff in EG as (_ & EG). apply negb_true_iff in EG.
        destruct (fs (A ++ map CNormal segs)); try discriminate.
        intros [= <- <-]. exists segs. split; [assumption|reflexivity].
    - destruct (fs (A ++ map CNormal segs)) eqn:EK; try discriminate.
      + intros [= <- <-]. exists segs. split; [assumption|reflexivity].
      + destruct index as [ix|]; [|discriminate].
        assert (HF' : Forall normal_seg (segs ++ [ix]))
          by (apply Forall_app; split; [assumption|constructor; [assumption|constructor]]).
        assert (Enamed : (A ++ map CNormal segs) ++ [CNormal ix] = A ++ map CNormal (segs ++ [ix]))
          by (rewrite map_app, app_assoc; reflexivity).
        rewrite Enamed.
        destruct (if tc then find_compressed fs (A ++ map CNormal (segs ++ [ix])) neg else None) as [[c e]|] eqn:EF.
        * intros [= <- <-]. destruct tc; [|discriminate].
          eapply find_compressed_under; [exact HF'| |exact EF]. destruct segs; discriminate.
        * destruct (is_file (fs (A ++ map CNormal (segs ++ [ix])))); [|discriminate].
          intros [= <- <-]. exists (segs ++ [ix]). split; [assumption|reflexivity].
  Qed.

  (* without the `!path.is_dir()` guard the lookup for the root itself would look at a SIBLING of
     the root: the candidate drops the root's own last component *)
  Lemma sibling_of_root_is_outside rootdirs name x :
    A = rootdirs ++ [CNormal name] ->
    set_file_name A (name ++ x) = rootdirs ++ [CNormal (name ++ x)].
  Proof.
    intro E. unfold set_file_name, file_name. rewrite E, rev_app_distr. cbn [rev app].
    rewrite removelast_last. reflexivity.
  Qed.
End Under.
