(* Model of actix_files::HttpRange::parse = http_range::HttpRange::parse_bytes (http-range 0.1.5),
   which actix-files/src/range.rs wraps field by field.  u64 arithmetic is explicit: every
   subtraction/addition goes through [usub]/[uadd], which panic on wrap-around (debug build);
   `checked_mul`/`checked_add` of parse_u64 return None. No proofs here. *)
From AV Require Import Lib.Base.

Definition usub (a b : N) : R N := if b <=? a then Val (a - b) else Panic.
Definition uadd (a b : N) : R N := if a + b <=? u64_max then Val (a + b) else Panic.

Definition COMMA : N := 44.
Definition DASH : N := 45.
Definition PREFIX : bytes := [98; 121; 116; 101; 115; 61].  (* "bytes=" *)

Definition is_ws (c : N) : bool := (c =? 9) || (c =? 32).
Fixpoint drop_ws (s : bytes) : bytes :=
  match s with
  | c :: r => if is_ws c then drop_ws r else s
  | [] => []
  end.
(* SliceExt::trim : strip leading and trailing TAB / SPACE *)
Definition trim (s : bytes) : bytes := rev (drop_ws (rev (drop_ws s))).

(* SliceExt::parse_u64 *)
Fixpoint parse_u64_go (s : bytes) (res : N) : option N :=
  match s with
  | [] => Some res
  | b :: r =>
      if (48 <=? b) && (b <=? 57) then
        let m := res * 10 in
        if u64_max <? m then None                      (* checked_mul(10) *)
        else let a := m + (b - 48) in
             if u64_max <? a then None                 (* checked_add *)
             else parse_u64_go r a
      else None
  end.
Definition parse_u64 (s : bytes) : option N :=
  match s with [] => None | _ => parse_u64_go s 0 end.

(* slice.split(|b| b == c) : always at least one piece *)
Fixpoint split_byte (c : N) (s : bytes) : list bytes :=
  match s with
  | [] => [[]]
  | b :: r =>
      if b =? c then [] :: split_byte c r
      else match split_byte c r with
           | p :: ps => (b :: p) :: ps
           | [] => [[b]]
           end
  end.

(* slice.splitn(2, |b| b == c) : (first piece, Some rest) or (whole, None) *)
Fixpoint splitn2 (c : N) (s : bytes) : bytes * option bytes :=
  match s with
  | [] => ([], None)
  | b :: r =>
      if b =? c then ([], Some r)
      else let '(p, q) := splitn2 c r in (b :: p, q)
  end.

Fixpoint starts_with_bytes (p s : bytes) : bool :=
  match p, s with
  | [], _ => true
  | a :: p', b :: s' => (a =? b) && starts_with_bytes p' s'
  | _ :: _, [] => false
  end.

Definition is_nil (s : bytes) : bool := match s with [] => true | _ => false end.

Inductive range_err := InvalidRange | NoOverlap.
Record range := mkRange { r_start : N; r_length : N }.

(* Result<Option<HttpRange>, HttpRangeParseError>, panic-aware *)
Inductive single := SRange (r : range) | SNone | SErr.

Definition parse_single_range (s : bytes) (size : N) : R single :=
  let '(p, q) := splitn2 DASH s in
  let start_str := trim p in
  match q with
  | None => Val SErr
  | Some q =>
      let end_str := trim q in
      if is_nil start_str then
        (* suffix-length form *)
        match end_str with
        | [] => Val SErr
        | c :: _ =>
            if c =? DASH then Val SErr
            else match parse_u64 end_str with
                 | None => Val SErr
                 | Some length =>
                     if length =? 0 then Val SNone
                     else
                       let length := if size <? length then size else length in
                       rbind (usub size length) (fun st => Val (SRange (mkRange st length)))
                 end
        end
      else
        match parse_u64 start_str with
        | None => Val SErr
        | Some start =>
            if size <=? start then Val SNone
            else
              match end_str with
              | [] => rbind (usub size start) (fun l => Val (SRange (mkRange start l)))
              | _ =>
                  match parse_u64 end_str with
                  | None => Val SErr
                  | Some e =>
                      if e <? start then Val SErr
                      else
                        rbind (if size <=? e then usub size 1 else Val e) (fun e' =>
                        rbind (usub e' start) (fun d =>
                        rbind (uadd d 1) (fun l => Val (SRange (mkRange start l)))))
                  end
              end
        end
  end.

(* the filter_map + collect::<Result<_,_>> over the comma-separated pieces: stops at the first Err *)
Fixpoint collect_ranges (pieces : list bytes) (size : N) (no_overlap : bool) (acc : list range)
  : R (option (list range * bool)) :=
  match pieces with
  | [] => Val (Some (acc, no_overlap))
  | ra :: rest =>
      match trim ra with
      | [] => collect_ranges rest size no_overlap acc
      | ra' =>
          match parse_single_range ra' size with
          | Panic => Panic
          | Val SErr => Val None
          | Val SNone => collect_ranges rest size true acc
          | Val (SRange r) => collect_ranges rest size no_overlap (acc ++ [r])
          end
      end
  end.

Inductive parse_result := ROk (rs : list range) | RErr (e : range_err).

Definition parse_bytes (header : bytes) (size : N) : R parse_result :=
  match header with
  | [] => Val (ROk [])
  | _ =>
      if negb (starts_with_bytes PREFIX header) then Val (RErr InvalidRange)
      else
        match collect_ranges (split_byte COMMA (skipn 6 header)) size false [] with
        | Panic => Panic
        | Val None => Val (RErr InvalidRange)
        | Val (Some (ranges, no_overlap)) =>
            if no_overlap && (match ranges with [] => true | _ => false end)
            then Val (RErr NoOverlap)
            else Val (ROk ranges)
        end
  end.
