(* Model of actix-files/src/path_buf.rs : PathBufWrap::parse_path (no proofs here).

   Strings are byte lists (UTF-8).  All characters the code tests ('/', '.', '*', ':', '<', '>',
   '\\', '%') are ASCII, so `starts_with(char)`, `ends_with(char)`, `split('/')`, `matches('/')`
   on a &str are byte-level operations on its UTF-8 bytes.

   External code:
     - percent_encoding::percent_decode_str(..).decode_utf8()  : [pct_decode], [pct_any] (transcribed
       from percent-encoding 2.3.2) followed by the UTF-8 validity test, which is a Section variable
       [valid_utf8] (the theorems hold for EVERY validity predicate; the driver instantiates it with
       the Unicode table 3-7 validator [utf8_valid] below).
     - std::path::PathBuf (Unix): the buffer is represented by the list of pushed segments
       ([push] = append one segment, [pop] = drop the last one); [render] gives the byte string the
       PathBuf holds and [components] is std's Unix `Path::components`, used by the final asserts.
   `cfg!(windows)` is the Section variable [windows]. *)
From AV Require Import Lib.Base.

Definition SLASH : N := 47.
Definition DOT : N := 46.
Definition STAR : N := 42.
Definition COLON : N := 58.
Definition LT : N := 60.
Definition GT : N := 62.
Definition BACKSLASH : N := 92.
Definition PCT : N := 37.

(* char::from(b).to_digit(16) *)
Definition hex_digit (b : N) : option N :=
  if (48 <=? b) && (b <=? 57) then Some (b - 48)
  else if (97 <=? b) && (b <=? 102) then Some (b - 87)
  else if (65 <=? b) && (b <=? 70) then Some (b - 55)
  else None.

(* PercentDecode::next, collected: "%XY" with two hex digits becomes one byte, any other '%' stays *)
Fixpoint pct_decode (s : bytes) : bytes :=
  match s with
  | [] => []
  | b :: r =>
      if b =? PCT then
        match r with
        | h :: l :: r2 =>
            match hex_digit h, hex_digit l with
            | Some hv, Some lv => (hv * 16 + lv) :: pct_decode r2
            | _, _ => b :: pct_decode r
            end
        | _ => b :: pct_decode r
        end
      else b :: pct_decode r
  end.

(* PercentDecode::if_any : is the result Cow::Owned (at least one escape decoded)? *)
Fixpoint pct_any (s : bytes) : bool :=
  match s with
  | [] => false
  | b :: r =>
      if b =? PCT then
        match r with
        | h :: l :: r2 =>
            match hex_digit h, hex_digit l with
            | Some _, Some _ => true
            | _, _ => pct_any r
            end
        | _ => pct_any r
        end
      else pct_any r
  end.

(* str::matches(c).count() *)
Fixpoint count_byte (c : N) (s : bytes) : N :=
  match s with
  | [] => 0
  | b :: r => (if b =? c then 1 else 0) + count_byte c r
  end.

(* str::split(c): always at least one piece *)
Fixpoint split_on (c : N) (s : bytes) : list bytes :=
  match s with
  | [] => [[]]
  | b :: r =>
      if b =? c then [] :: split_on c r
      else match split_on c r with
           | p :: ps => (b :: p) :: ps
           | [] => [[b]]
           end
  end.

Definition starts_with (c : N) (s : bytes) : bool :=
  match s with b :: _ => b =? c | [] => false end.
Definition ends_with (c : N) (s : bytes) : bool :=
  match rev s with b :: _ => b =? c | [] => false end.
Fixpoint contains (c : N) (s : bytes) : bool :=
  match s with [] => false | b :: r => (b =? c) || contains c r end.
Definition is_empty (s : bytes) : bool := match s with [] => true | _ => false end.

Inductive seg_err :=
| BadStartDot | BadStartStar | BadEndColon | BadEndGt | BadEndLt
| BadCharSlash | BadCharBackslash | BadCharColon | NotValidUtf8.

Inductive parsed := POk (segs : list bytes) | PErr (e : seg_err).

(* ---- std::path (Unix) ---- *)
Inductive component := CRoot | CCur | CParent | CNormal (s : bytes).

(* the byte string held by a PathBuf after pushing the segments in order onto an empty buffer *)
Fixpoint render (buf : list bytes) : bytes :=
  match buf with
  | [] => []
  | [s] => s
  | s :: r => s ++ SLASH :: render r
  end.

(* components of the pieces between separators: empty pieces vanish, "." only survives as the very
   first piece of a relative path, ".." is ParentDir *)
Fixpoint comps_of (first : bool) (parts : list bytes) : list component :=
  match parts with
  | [] => []
  | p :: r =>
      (if is_empty p then []
       else if bytes_eqb p [DOT] then (if first then [CCur] else [])
       else if bytes_eqb p [DOT; DOT] then [CParent]
       else [CNormal p]) ++ comps_of false r
  end.

Definition components (p : bytes) : list component :=
  let has_root := starts_with SLASH p in
  (if has_root then [CRoot] else []) ++ comps_of (negb has_root) (split_on SLASH p).

(* Path::join / PathBuf::push (Unix): an absolute argument REPLACES the base *)
Definition join (base p : bytes) : bytes :=
  if starts_with SLASH p then p
  else if is_empty base then p
  else if ends_with SLASH base then base ++ p
  else base ++ SLASH :: p.

(* `for (i, component) in buf.components().enumerate()`: both assert!s *)
Fixpoint check_asserts (comps : list component) (i cnt : N) : R unit :=
  match comps with
  | [] => Val tt
  | CNormal _ :: r => if i <? cnt then check_asserts r (i + 1) cnt else Panic
  | _ :: _ => Panic
  end.

Section ParsePath.
  Variable valid_utf8 : bytes -> bool.
  Variable windows : bool.

  (* the `for segment in path.split('/')` loop; [cnt] is `segment_count` (usize: `-= 1` on 0
     would panic in a debug build) *)
  Fixpoint seg_loop (hidden : bool) (segs : list bytes) (buf : list bytes) (cnt : N)
    : R (seg_err + list bytes * N) :=
    match segs with
    | [] => Val (inr (buf, cnt))
    | seg :: rest =>
        if bytes_eqb seg [DOT] then Val (inl BadStartDot)
        else if bytes_eqb seg [DOT; DOT] then
          if cnt =? 0 then Panic else seg_loop hidden rest (removelast buf) (cnt - 1)
        else if negb hidden && starts_with DOT seg then Val (inl BadStartDot)
        else if starts_with STAR seg then Val (inl BadStartStar)
        else if ends_with COLON seg then Val (inl BadEndColon)
        else if ends_with GT seg then Val (inl BadEndGt)
        else if ends_with LT seg then Val (inl BadEndLt)
        else if is_empty seg then
          if cnt =? 0 then Panic else seg_loop hidden rest buf (cnt - 1)
        else if windows && contains BACKSLASH seg then Val (inl BadCharBackslash)
        else if windows && contains COLON seg then Val (inl BadCharColon)
        else seg_loop hidden rest (buf ++ [seg]) cnt
    end.

  Definition parse_path (hidden : bool) (path : bytes) : R parsed :=
    let cnt := count_byte SLASH path + 1 in
    let dec := pct_decode path in
    if negb (valid_utf8 dec) then Val (PErr NotValidUtf8)
    else if pct_any path && negb (cnt =? count_byte SLASH dec + 1) then Val (PErr BadCharSlash)
    else
      match seg_loop hidden (split_on SLASH dec) [] cnt with
      | Panic => Panic
      | Val (inl e) => Val (PErr e)
      | Val (inr (buf, cnt')) =>
          match check_asserts (components (render buf)) 0 cnt' with
          | Panic => Panic
          | Val _ => Val (POk buf)
          end
      end.
End ParsePath.

(* core::str::from_utf8 acceptance (Unicode 15 table 3-7): no overlongs, no surrogates, <= U+10FFFF *)
Definition in_rng (lo hi b : N) : bool := (lo <=? b) && (b <=? hi).
Definition cont (b : N) : bool := in_rng 128 191 b.

Fixpoint utf8_valid (s : bytes) : bool :=
  match s with
  | [] => true
  | b0 :: r =>
      if b0 <? 128 then utf8_valid r
      else if in_rng 194 223 b0 then
        match r with b1 :: r1 => cont b1 && utf8_valid r1 | _ => false end
      else if in_rng 224 239 b0 then
        match r with
        | b1 :: b2 :: r2 =>
            (if b0 =? 224 then in_rng 160 191 b1
             else if b0 =? 237 then in_rng 128 159 b1
             else cont b1) && cont b2 && utf8_valid r2
        | _ => false
        end
      else if in_rng 240 244 b0 then
        match r with
        | b1 :: b2 :: b3 :: r3 =>
            (if b0 =? 240 then in_rng 144 191 b1
             else if b0 =? 244 then in_rng 128 143 b1
             else cont b1) && cont b2 && cont b3 && utf8_valid r3
        | _ => false
        end
      else false
  end.
