(* Proofs about the Range parser, the into_response decision and the chunked reader. *)
From AV Require Import Lib.Base Files.Range Files.Named Files.ChunkedRead.

(* ---------- http-range ---------- *)
Lemma parse_u64_go_bound s : forall acc n, acc <= u64_max -> parse_u64_go s acc = Some n -> n <= u64_max.
Proof.
  induction s as [|b r IH]; intros acc n Ha H; cbn [parse_u64_go] in H.
  - inversion H; subst; assumption.
  - destruct ((48 <=? b) && (b <=? 57)); [|discriminate].
    destruct (u64_max <? acc * 10) eqn:E1; [discriminate|].
    destruct (u64_max <? acc * 10 + (b - 48)) eqn:E2; [discriminate|].
    apply N.ltb_ge in E2. eapply IH; eassumption.
Qed.

Lemma parse_u64_bound s n : parse_u64 s = Some n -> n <= u64_max.
Proof.
  destruct s as [|b r]; [discriminate|]. unfold parse_u64.
  apply parse_u64_go_bound. unfold u64_max. lia.
Qed.

(* a range handed out by the parser lies inside the file and is empty only for an empty file *)
Definition range_ok (size : N) (r : range) : Prop :=
  r_start r + r_length r <= size /\ (r_length r = 0 -> size = 0).

Lemma parse_single_range_spec s size :
  size <= u64_max ->
  match parse_single_range s size with
  | Panic => False
  | Val (SRange r) => range_ok size r
  | Val _ => True
  end.
Proof.
  intro Hs. unfold parse_single_range.
  destruct (splitn2 DASH s) as [p [q|]]; [|exact I].
  destruct (is_nil (trim p)).
  - destruct (trim q) as [|c t] eqn:ET; [exact I|].
    destruct (c =? DASH); [exact I|].
    destruct (parse_u64 (c :: t)) as [len|]; [|exact I].
    destruct (len =? 0) eqn:E0; [exact I|]. apply N.eqb_neq in E0.
    destruct (size <? len) eqn:E1.
    + unfold usub. rewrite N.leb_refl. cbn [rbind]. unfold range_ok. cbn [r_start r_length].
      split; [lia|tauto].
    + apply N.ltb_ge in E1. unfold usub.
      destruct (len <=? size) eqn:E2; [|apply N.leb_gt in E2; lia].
      cbn [rbind]. unfold range_ok. cbn [r_start r_length]. split; lia.
  - destruct (parse_u64 (trim p)) as [start|]; [|exact I].
    destruct (size <=? start) eqn:E0; [exact I|]. apply N.leb_gt in E0.
    destruct (trim q) as [|c t] eqn:ET.
    + unfold usub. destruct (start <=? size) eqn:E1; [|apply N.leb_gt in E1; lia].
      cbn [rbind]. unfold range_ok. cbn [r_start r_length]. split; lia.
    + destruct (parse_u64 (c :: t)) as [e|]; [|exact I].
      destruct (e <? start) eqn:E1; [exact I|]. apply N.ltb_ge in E1.
      destruct (size <=? e) eqn:E2.
      * unfold usub at 1. destruct (1 <=? size) eqn:E3; [|apply N.leb_gt in E3; lia].
        cbn [rbind]. unfold usub. destruct (start <=? size - 1) eqn:E4; [|apply N.leb_gt in E4; lia].
        cbn [rbind]. unfold uadd.
        destruct (size - 1 - start + 1 <=? u64_max) eqn:E5; [|apply N.leb_gt in E5; lia].
        cbn [rbind]. unfold range_ok. cbn [r_start r_length]. split; lia.
      * apply N.leb_gt in E2. cbn [rbind]. unfold usub.
        destruct (start <=? e) eqn:E4; [|apply N.leb_gt in E4; lia].
        cbn [rbind]. unfold uadd.
        destruct (e - start + 1 <=? u64_max) eqn:E5; [|apply N.leb_gt in E5; lia].
        cbn [rbind]. unfold range_ok. cbn [r_start r_length]. split; lia.
Qed.

Lemma collect_ranges_spec size : size <= u64_max -> forall pieces no acc,
  Forall (range_ok size) acc ->
  match collect_ranges pieces size no acc with
  | Panic => False
  | Val None => True
  | Val (Some (rs, _)) => Forall (range_ok size) rs
  end.
Proof.
  intros Hs. induction pieces as [|ra rest IH]; intros no acc HF; cbn [collect_ranges]; [assumption|].
  destruct (trim ra) as [|c t] eqn:ET; [apply IH; assumption|].
  pose proof (parse_single_range_spec (c :: t) size Hs) as H.
  destruct (parse_single_range (c :: t) size) as [[r| |]|]; try exact I.
  - apply IH. apply Forall_app. split; [assumption|constructor; [assumption|constructor]].
  - apply IH. assumption.
  - exact H.
Qed.

Lemma parse_bytes_spec hdr size :
  size <= u64_max ->
  match parse_bytes hdr size with
  | Panic => False
  | Val (ROk rs) => Forall (range_ok size) rs
  | Val (RErr _) => True
  end.
Proof.
  intro Hs. unfold parse_bytes. destruct hdr as [|b r]; [constructor|].
  destruct (negb (starts_with_bytes PREFIX (b :: r))); [exact I|].
  pose proof (collect_ranges_spec size Hs (split_byte COMMA (skipn 6 (b :: r))) false [] (Forall_nil _)) as H.
  destruct (collect_ranges (split_byte COMMA (skipn 6 (b :: r))) size false []) as [[[rs no]|]|];
    [|exact I|exact H].
  destruct (no && match rs with [] => true | _ => false end); [exact I|assumption].
Qed.

(* ---------- NamedFile::into_response ---------- *)
Definition status_ok (s : N) : Prop :=
  s = 200 \/ s = 206 \/ s = 304 \/ s = 412 \/ s = 416 \/ s = 400.

Definition resp_ok (flen : N) (range_hdr : option bytes) (r : resp) : Prop :=
  status_ok (status r) /\
  (status r = 206 ->
     exists offset length,
       body r = Some (offset, length) /\ 0 < length /\ offset + length <= flen /\
       content_range r = Some (CRBytes offset (offset + length - 1) flen) /\
       offset <= offset + length - 1 /\ offset + length - 1 < flen) /\
  (status r = 200 -> body r = Some (0, flen) /\ content_range r = None /\ range_hdr = None) /\
  (status r = 416 -> content_range r = Some (CRUnsat flen) /\ body r = None) /\
  (status r = 304 \/ status r = 412 \/ status r = 400 -> body r = None) /\
  (forall offset length, body r = Some (offset, length) -> offset + length <= flen).

Lemma finish_cases c ranged length offset cr :
  let r := finish c ranged length offset cr in
  content_range r = cr /\
  ((status r = 412 /\ body r = None) \/ (status r = 304 /\ body r = None) \/
   (status r = (if ranged then 206 else 200) /\ body r = Some (offset, length))).
Proof.
  unfold finish. destruct (precondition_failed c); [cbn; auto|].
  destruct (not_modified c); cbn; auto.
Qed.

Lemma into_response_spec flen range_hdr c :
  flen <= u64_max ->
  match into_response true flen range_hdr c with
  | Panic => False
  | Val r => resp_ok flen range_hdr r
  end.
Proof.
  intro Hs. unfold into_response. destruct range_hdr as [hv|].
  2:{ destruct (finish_cases c false flen 0 None) as (Hcr & [[S B]|[[S B]|[S B]]]);
        unfold resp_ok, status_ok; rewrite ?S, ?B, ?Hcr; repeat split; try lia; try tauto; try discriminate;
        try (intros [?|[?|?]]; discriminate); try (intros ? ? [=]; lia).
      all: intros o l [= <- <-]; lia. }
  destruct (to_str_ok hv).
  2:{ unfold resp_ok, status_ok. cbn [status body content_range].
      repeat split; try lia; try tauto; try discriminate; intros ? ? [=]. }
  pose proof (parse_bytes_spec hv flen Hs) as HP.
  destruct (parse_bytes hv flen) as [pr|]; [|exact HP].
  set (first0 := match pr with ROk (r :: _) => Some r | _ => None end).
  assert (H0 : match first0 with Some r => range_ok flen r | None => True end).
  { unfold first0. destruct pr as [[|r rs]|e]; try exact I. inversion HP; assumption. }
  destruct first0 as [r|].
  2:{ unfold resp_ok, status_ok. cbn [status body content_range].
      repeat split; try lia; try tauto; try discriminate; try (intros [?|[?|?]]; discriminate); intros ? ? [=]. }
  cbn [andb]. destruct (r_length r =? 0) eqn:EL.
  { unfold resp_ok, status_ok. cbn [status body content_range].
    repeat split; try lia; try tauto; try discriminate; try (intros [?|[?|?]]; discriminate); intros ? ? [=]. }
  apply N.eqb_neq in EL. destruct H0 as (Hin & _).
  unfold uadd. destruct (r_start r + r_length r <=? u64_max) eqn:E1; [|apply N.leb_gt in E1; lia].
  cbn [rbind]. unfold usub. destruct (1 <=? r_start r + r_length r) eqn:E2; [|apply N.leb_gt in E2; lia].
  cbn [rbind].
  destruct (finish_cases c true (r_length r) (r_start r)
              (Some (CRBytes (r_start r) (r_start r + r_length r - 1) flen))) as (Hcr & [[S B]|[[S B]|[S B]]]);
    unfold resp_ok, status_ok; rewrite ?S, ?B, ?Hcr.
  - repeat split; try lia; try tauto; try discriminate; intros ? ? [=].
  - repeat split; try lia; try tauto; try discriminate; intros ? ? [=].
  - split; [tauto|]. split.
    { intros _. exists (r_start r), (r_length r). repeat split; try reflexivity; lia. }
    repeat split; try discriminate; try (intros [?|[?|?]]; discriminate).
    intros o l [= <- <-]. lia.
Qed.

(* before the repair: the suffix range on an empty file panics (debug build) *)
Lemma F8_before_fix c : into_response false 0 (Some [98; 121; 116; 101; 115; 61; 45; 53]) c = Panic.
Proof. reflexivity. Qed.

(* the repair only changes the answer for an empty file *)
Lemma fix_only_empty flen range_hdr c :
  flen <= u64_max -> flen <> 0 -> into_response false flen range_hdr c = into_response true flen range_hdr c.
Proof.
  intros Hs Hne. unfold into_response. destruct range_hdr as [hv|]; [|reflexivity].
  destruct (to_str_ok hv); [|reflexivity].
  pose proof (parse_bytes_spec hv flen Hs) as HP.
  destruct (parse_bytes hv flen) as [pr|]; [|reflexivity].
  destruct pr as [[|r rs]|e]; try reflexivity.
  inversion HP as [|? ? (_ & Hz) _]; subst. cbn [andb].
  destruct (r_length r =? 0) eqn:E; [apply N.eqb_eq in E; apply Hz in E; contradiction|reflexivity].
Qed.

(* ---------- ChunkedReadFile ---------- *)
Lemma firstn_app_skipn {A} (l : list A) n m :
  firstn n l ++ firstn m (skipn n l) = firstn (n + m) l.
Proof.
  revert l. induction n as [|n IH]; intros l; [reflexivity|].
  destruct l as [|x l]; [cbn; rewrite firstn_nil; reflexivity|].
  cbn [firstn skipn Nat.add app]. f_equal. apply IH.
Qed.

Lemma skipn_add {A} (l : list A) a b : skipn (a + b) l = skipn b (skipn a l).
Proof.
  revert l. induction a as [|a IH]; intros l; [reflexivity|].
  destruct l as [|x l]; [cbn; rewrite skipn_nil; reflexivity|]. cbn [Nat.add skipn]. apply IH.
Qed.

Lemma slice_app {A} (file : list A) off n m :
  slice file off n ++ slice file (off + n) m = slice file off (n + m).
Proof.
  unfold slice. rewrite !N2Nat.inj_add. rewrite skipn_add. apply firstn_app_skipn.
Qed.

Lemma min3_bounds k a b c :
  let n := N.min (N.min k (N.min a b)) c in
  n <= k /\ n <= a /\ n <= b /\ n <= c /\ (1 <= k -> 1 <= a -> 1 <= b -> 1 <= c -> 1 <= n).
Proof.
  intro n. unfold n.
  destruct (N.min_spec a b) as [[? ->]|[? ->]];
    destruct (N.min_spec k a) as [[? E1]|[? E1]]; destruct (N.min_spec k b) as [[? E2]|[? E2]];
    rewrite ?E1, ?E2;
    try (destruct (N.min_spec k c) as [[? ->]|[? ->]]); try (destruct (N.min_spec a c) as [[? ->]|[? ->]]);
    try (destruct (N.min_spec b c) as [[? ->]|[? ->]]); lia.
Qed.

Section Reader.
  Variable chunk : N.
  Variable A : Type.
  Variable file : list A.
  Variable flen : N.   (* length of the file on disk as the reads see it *)
  Variable mode : read_mode.

  Lemma callback_snd pend k offset max_bytes :
    snd (callback flen mode pend k offset max_bytes) = callback_sync flen k offset max_bytes.
  Proof. destruct mode; reflexivity. Qed.

  Lemma body_of_waits w evs : body_of file (waits w ++ evs) = body_of file evs.
  Proof. destruct w; reflexivity. Qed.
  Lemma finished_waits w evs : finished (waits w ++ evs) = finished evs.
  Proof. destruct w; reflexivity. Qed.

  Definition chunk_ok (e : ev) : Prop := match e with EChunk _ n => 0 < n /\ n <= chunk | _ => True end.

  Lemma Forall_waits w evs : Forall chunk_ok evs -> Forall chunk_ok (waits w ++ evs).
  Proof. destruct w; cbn [waits app]; [tauto|]. intro H. constructor; [exact I|assumption]. Qed.

  (* every completed stream delivered exactly file[offset .. offset + (size - counter)),
     which therefore exists on disk; no chunk is empty or larger than [chunk]; in both read modes *)
  Lemma read_loop_exact : forall sched size offset counter evs,
    counter <= size ->
    read_loop chunk flen mode sched size offset counter = Val evs ->
    Forall chunk_ok evs /\
    (finished evs = true ->
     body_of file evs = slice file offset (size - counter) /\
     (counter < size -> offset + (size - counter) <= flen)).
  Proof.
    induction sched as [|[pend k] sched IH]; intros size offset counter evs Hc H; cbn [read_loop] in H.
    - destruct (size =? counter) eqn:E.
      + apply N.eqb_eq in E. inversion H; subst. split; [constructor|]. intros _.
        rewrite N.sub_diag. split; [reflexivity|lia].
      + inversion H; subst. split; [repeat constructor|]. cbn [finished]. discriminate.
    - destruct (size =? counter) eqn:E.
      + apply N.eqb_eq in E. inversion H; subst. split; [constructor|]. intros _.
        rewrite N.sub_diag. split; [reflexivity|lia].
      + apply N.eqb_neq in E. rewrite callback_snd in H. unfold callback_sync in H.
        set (w := fst (callback flen mode pend k offset (N.min (size - counter) chunk))) in *.
        set (n := N.min (N.min k (N.min (size - counter) chunk)) (flen - offset)) in *.
        destruct (n =? 0) eqn:En.
        * inversion H; subst. split; [apply Forall_waits; repeat constructor|].
          rewrite finished_waits. cbn [finished]. discriminate.
        * apply N.eqb_neq in En. unfold uadd in H.
          destruct (offset + n <=? u64_max); [|discriminate]. cbn [rbind] in H.
          destruct (counter + n <=? u64_max); [|discriminate]. cbn [rbind] in H.
          destruct (read_loop chunk flen mode sched size (offset + n) (counter + n)) as [evs'|] eqn:ER; [|discriminate].
          cbn [rbind] in H. inversion H; subst evs.
          assert (Hn : n <= size - counter /\ n <= chunk /\ n <= flen - offset)
            by (pose proof (min3_bounds k (size - counter) chunk (flen - offset)) as Hm; cbv zeta in Hm; fold n in Hm; tauto).
          destruct (IH size (offset + n) (counter + n) evs' ltac:(lia) ER) as (HF & HB).
          split; [apply Forall_waits; constructor; [cbn; lia|assumption]|].
          rewrite finished_waits, body_of_waits. cbn [finished body_of]. intro Hfin. destruct (HB Hfin) as (HB1 & HB2).
          rewrite HB1. rewrite slice_app. split; [f_equal; lia|lia].
  Qed.

  (* progress: if the requested window exists on disk and every read returns at least one byte,
     a long enough schedule completes the stream without error or panic *)
  Lemma read_loop_completes : forall sched size offset counter,
    0 < chunk -> counter <= size -> offset + (size - counter) <= flen -> flen <= u64_max -> size <= u64_max ->
    Forall (fun pk => 1 <= snd pk) sched -> size - counter <= N.of_nat (length sched) ->
    exists evs, read_loop chunk flen mode sched size offset counter = Val evs /\ finished evs = true.
  Proof.
    induction sched as [|[pend k] sched IH]; intros size offset counter Hch Hc Hw Hf Hsz HF Hl; cbn [read_loop].
    - cbn [length] in Hl. destruct (size =? counter) eqn:E; [exists []; split; reflexivity|].
      apply N.eqb_neq in E. lia.
    - destruct (size =? counter) eqn:E; [exists []; split; reflexivity|]. apply N.eqb_neq in E.
      inversion HF as [|? ? Hk HF']; subst. cbn [snd] in Hk.
      rewrite callback_snd. unfold callback_sync.
      set (w := fst (callback flen mode pend k offset (N.min (size - counter) chunk))).
      set (n := N.min (N.min k (N.min (size - counter) chunk)) (flen - offset)).
      assert (Hn : 1 <= n /\ n <= size - counter /\ n <= flen - offset).
      { pose proof (min3_bounds k (size - counter) chunk (flen - offset)) as Hm. cbv zeta in Hm. fold n in Hm.
        destruct Hm as (_ & H2 & _ & H4 & H5). split; [apply H5; lia|]. split; assumption. }
      destruct (n =? 0) eqn:En; [apply N.eqb_eq in En; lia|].
      unfold uadd. destruct (offset + n <=? u64_max) eqn:E1; [|apply N.leb_gt in E1; lia].
      cbn [rbind]. destruct (counter + n <=? u64_max) eqn:E2; [|apply N.leb_gt in E2; lia].
      cbn [rbind]. cbn [length] in Hl.
      destruct (IH size (offset + n) (counter + n) Hch ltac:(lia) ltac:(lia) Hf Hsz HF' ltac:(lia)) as (evs & -> & Hfin).
      cbn [rbind]. eexists. split; [reflexivity|]. rewrite finished_waits. cbn [finished]. assumption.
  Qed.

  (* a Sync stream never yields Pending *)
  Lemma sync_never_waits : mode = Sync -> forall sched size offset counter evs,
    read_loop chunk flen mode sched size offset counter = Val evs ->
    Forall (fun e => match e with EWait _ => False | _ => True end) evs.
  Proof.
    intros ->. induction sched as [|[pend k] sched IH]; intros size offset counter evs H; cbn [read_loop] in H.
    - destruct (size =? counter); inversion H; subst; repeat constructor.
    - destruct (size =? counter); [inversion H; subst; constructor|].
      cbn [callback fst snd waits app] in H.
      destruct (callback_sync flen k offset (N.min (size - counter) chunk) =? 0); [inversion H; subst; repeat constructor|].
      unfold uadd in H.
      destruct (_ <=? u64_max); [|discriminate]. cbn [rbind] in H.
      destruct (_ <=? u64_max); [|discriminate]. cbn [rbind] in H.
      destruct (read_loop chunk flen Sync sched size _ _) as [evs'|] eqn:ER; [|discriminate].
      cbn [rbind] in H. inversion H; subst. constructor; [exact I|]. eapply IH. exact ER.
  Qed.
End Reader.
