(* Model of actix-files/src/chunked.rs : ChunkedReadFile (new_chunked_read, the callback with its
   two read modes, and the offset/counter bookkeeping of poll_next) over an abstract file.
   No proofs here.

   One callback invocation = chunked_read_file_callback(file, offset, max_bytes, read_mode):
     ReadMode::Sync  => chunked_read_file_callback_sync(..) run inline (the future is ready at its
                        first poll);
     ReadMode::Async => web::block(|| chunked_read_file_callback_sync(..)): the same read on the
                        blocking pool, the future is Pending for some polls first.
   chunked_read_file_callback_sync = `file.seek(Start(offset)); file.take(max_bytes).read_to_end(buf)`:
   it returns the bytes file[offset .. offset+n) for some n <= max_bytes (n = 0 at or past the end of
   the file, reported as UnexpectedEof).  The schedule gives, per read, how many polls an Async
   future stays Pending and an upper bound the operating system imposes on that read, so that
   "every read-size schedule" is a quantifier over lists.
   poll_next, `File` state: stop when size == counter, else create the future with the CURRENT
   offset and go to the `Future` state; `Future` state, once ready: put the file back,
   `offset += bytes.len(); counter += bytes.len()`, yield the bytes.  Both modes go through this
   one bookkeeping site.  The model records WHICH bytes were read ([EChunk off n] =
   file[off .. off+n)); the bytes themselves are [slice file off n]. *)
From AV Require Import Lib.Base Files.Range.

Inductive read_mode := Sync | Async.

(* new_chunked_read: `if size < read_mode_threshold { Sync } else { Async }` *)
Definition mode_of (size threshold : N) : read_mode := if size <? threshold then Sync else Async.

Inductive ev :=
| EChunk (off n : N)   (* Poll::Ready(Some(Ok(bytes))) with bytes = file[off .. off+n) *)
| EWait (polls : nat)  (* Poll::Pending that many times (Async future not finished yet) *)
| EErr                 (* Poll::Ready(Some(Err(UnexpectedEof))) *)
| EPending.            (* schedule exhausted: the stream has not finished *)

Section Reader.
  Variable chunk : N.   (* 65_536, from Gen/Consts.v *)
  Variable flen : N.    (* length of the file on disk while it is read *)

  (* chunked_read_file_callback_sync: number of bytes obtained for a read of [max_bytes] at [offset]
     when the operating system hands over at most [k] *)
  Definition callback_sync (k offset max_bytes : N) : N :=
    N.min (N.min k max_bytes) (flen - offset).

  (* chunked_read_file_callback: (polls the future stays Pending, bytes obtained) *)
  Definition callback (mode : read_mode) (pend : nat) (k offset max_bytes : N) : nat * N :=
    match mode with
    | Sync => (0%nat, callback_sync k offset max_bytes)
    | Async => (pend, callback_sync k offset max_bytes)
    end.

  Definition waits (w : nat) : list ev := match w with O => [] | _ => [EWait w] end.

  Fixpoint read_loop (mode : read_mode) (sched : list (nat * N)) (size offset counter : N) : R (list ev) :=
    if size =? counter then Val []                       (* Poll::Ready(None) *)
    else
      match sched with
      | [] => Val [EPending]
      | (pend, k) :: sched' =>
          let max_bytes := N.min (size - counter) chunk in   (* saturating_sub, then min *)
          (* fut = callback(file, offset, max_bytes, read_mode); state := Future; poll it *)
          let wn := callback mode pend k offset max_bytes in
          let n := snd wn in
          if n =? 0 then Val (waits (fst wn) ++ [EErr])      (* ready!(fut.poll(cx))? *)
          else
            rbind (uadd offset n) (fun offset' =>            (* *this.offset += bytes.len() *)
            rbind (uadd counter n) (fun counter' =>          (* *this.counter += bytes.len() *)
            rbind (read_loop mode sched' size offset' counter') (fun evs =>
            Val (waits (fst wn) ++ EChunk offset n :: evs))))
      end.
End Reader.

Definition slice {A} (l : list A) (off n : N) : list A := firstn (N.to_nat n) (skipn (N.to_nat off) l).

Fixpoint body_of {A} (file : list A) (evs : list ev) : list A :=
  match evs with
  | [] => []
  | EChunk off n :: r => slice file off n ++ body_of file r
  | _ :: r => body_of file r
  end.

Fixpoint finished (evs : list ev) : bool :=
  match evs with
  | [] => true
  | EChunk _ _ :: r => finished r
  | EWait _ :: r => finished r
  | _ => false
  end.
