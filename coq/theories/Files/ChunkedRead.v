(* Model of actix-files/src/chunked.rs : the offset/counter loop of ChunkedReadFile::poll_next
   over an abstract file.  No proofs here.

   One callback invocation = `file.seek(Start(offset)); file.take(max_bytes).read_to_end(buf)`;
   it returns the bytes file[offset .. offset+n) for some n <= max_bytes (n = 0 at or past the end
   of the file, reported as UnexpectedEof).  How many bytes a particular read returns is taken from
   a schedule (one entry per read: an upper bound the operating system imposes on that read), so
   that "every read-size schedule" is a quantifier over lists.  The model records WHICH bytes were
   read ([EChunk off n] = file[off .. off+n)); the bytes themselves are [slice file off n]. *)
From AV Require Import Lib.Base Files.Range.

Inductive ev :=
| EChunk (off n : N)   (* Poll::Ready(Some(Ok(bytes))) with bytes = file[off .. off+n) *)
| EErr                 (* Poll::Ready(Some(Err(UnexpectedEof))) *)
| EPending.            (* schedule exhausted: the stream has not finished *)

Section Reader.
  Variable chunk : N.   (* 65_536, from Gen/Consts.v *)
  Variable flen : N.    (* length of the file on disk while it is read *)

  Fixpoint read_loop (sched : list N) (size offset counter : N) : R (list ev) :=
    if size =? counter then Val []                       (* Poll::Ready(None) *)
    else
      match sched with
      | [] => Val [EPending]
      | k :: sched' =>
          let max_bytes := N.min (size - counter) chunk in   (* saturating_sub, then min *)
          let n := N.min (N.min k max_bytes) (flen - offset) in
          if n =? 0 then Val [EErr]
          else
            rbind (uadd offset n) (fun offset' =>            (* *this.offset += bytes.len() *)
            rbind (uadd counter n) (fun counter' =>          (* *this.counter += bytes.len() *)
            rbind (read_loop sched' size offset' counter') (fun evs =>
            Val (EChunk offset n :: evs))))
      end.
End Reader.

Definition slice {A} (l : list A) (off n : N) : list A := firstn (N.to_nat n) (skipn (N.to_nat off) l).

Fixpoint body_of {A} (file : list A) (evs : list ev) : list A :=
  match evs with
  | [] => []
  | EChunk off n :: r => slice file off n ++ body_of file r
  | _ :: r => body_of file r
  end.

Fixpoint finished (evs : list ev) : bool :=
  match evs with
  | [] => true
  | EChunk _ _ :: r => finished r
  | _ => false
  end.
