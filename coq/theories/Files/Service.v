(* Model of the path-selection part of actix-files/src/service.rs : FilesService::call (one
   directory, no redirect, no listing, no default handler, path filter accepting) together with
   find_compressed.  No proofs here.

   Paths are handled in component space (std::path, Unix): [components (join root (render segs))]
   is the path `directory.join(&path_on_disk)`; `Path::file_name` is the last component if it is
   Normal; `set_file_name(name)` pops it and pushes [name]; `path.join(index)` appends the index
   file name.  The file system is an oracle [fs] from component lists to {file, directory, nothing}.
   Content negotiation (actix-web's AcceptEncoding::negotiate over the shrinking `supported` set)
   is outside C16: the model receives the order [neg] in which it hands out the pre-compressed
   encodings (0 br, 1 gzip, 2 zstd; empty when the header is absent), as observed by the harness. *)
From AV Require Import Lib.Base Files.PathBuf.

Inductive fkind := KFile | KDir | KNone.
Definition is_dir (k : fkind) : bool := match k with KDir => true | _ => false end.
Definition is_file (k : fkind) : bool := match k with KFile => true | _ => false end.

Definition file_name (cs : list component) : option bytes :=
  match rev cs with CNormal s :: _ => Some s | _ => None end.

(* PathBuf::set_file_name: `if self.file_name().is_some() { self.pop(); } self.push(name)` *)
Definition set_file_name (cs : list component) (name : bytes) : list component :=
  (match file_name cs with Some _ => removelast cs | None => cs end) ++ [CNormal name].

(* ".br" / ".gz" / ".zst"; anything else is Identity / not pre-compressible: the search stops *)
Definition ext_of (e : N) : option bytes :=
  if e =? 0 then Some [46; 98; 114]
  else if e =? 1 then Some [46; 103; 122]
  else if e =? 2 then Some [46; 122; 115; 116]
  else None.

Section Service.
  Variable fs : list component -> fkind.

  (* the `loop` of find_compressed: first negotiated encoding whose sibling `<file_name><ext>` opens *)
  Fixpoint find_loop (cs : list component) (fname : bytes) (neg : list N) : option (list component * N) :=
    match neg with
    | [] => None
    | e :: rest =>
        match ext_of e with
        | None => None
        | Some x =>
            let cand := set_file_name cs (fname ++ x) in
            if is_file (fs cand) then Some (cand, e) else find_loop cs fname rest
        end
    end.

  Definition find_compressed (cs : list component) (neg : list N) : option (list component * N) :=
    match file_name cs with           (* get_content_type_and_disposition / file_name()? *)
    | None => None
    | Some fname => find_loop cs fname neg
    end.

  Inductive outcome :=
  | Served (opened : list component) (enc : option N)   (* NamedFile::open(opened) is answered *)
  | Miss.                                                (* 404 *)

  Definition call (try_compressed : bool) (index : option bytes) (root : bytes) (segs : list bytes)
             (neg : list N) : outcome :=
    let path := components (join root (render segs)) in
    match (if try_compressed && negb (is_dir (fs path)) then find_compressed path neg else None) with
    | Some (c, e) => Served c (Some e)
    | None =>
        match fs path with
        | KNone => Miss                                   (* canonicalize(): NotFound *)
        | KFile => Served path None
        | KDir =>
            match index with
            | None => Miss                                (* found_unrenderable_dir *)
            | Some ix =>
                let named := path ++ [CNormal ix] in      (* path.join(index) *)
                match (if try_compressed then find_compressed named neg else None) with
                | Some (c, e) => Served c (Some e)
                | None => if is_file (fs named) then Served named None else Miss
                end
            end
        end
    end.
End Service.
