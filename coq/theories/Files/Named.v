(* Model of the decision part of actix-files/src/named.rs : NamedFile::into_response
   (status_code == OK branch), AS REPAIRED by fixes/F8.patch when [fixed] = true and as the code
   was before the repair when [fixed] = false (kept so that the defect F8 stays a theorem).
   No proofs here.

   Abstracted: the four conditional headers are evaluated by typed-header parsing and ETag /
   HttpDate comparison (actix-http); the model receives their outcomes ([cond]).  Content-Type,
   Content-Disposition, ETag, Last-Modified, Accept-Ranges headers are not modelled. *)
From AV Require Import Lib.Base Files.Range.

Record cond := mkCond {
  c_any_match : bool;        (* any_match(etag, req): no If-Match, `*`, or a strongly equal tag *)
  c_ius : option bool;       (* Some b: Last-Modified known and If-Unmodified-Since parsed; b = (t1 > t2) *)
  c_none_match : bool;       (* none_match(etag, req) *)
  c_has_inm : bool;          (* req.headers().contains_key(IF_NONE_MATCH) *)
  c_ims : option bool        (* Some b: Last-Modified known and If-Modified-Since parsed; b = (t1 <= t2) *)
}.

Definition precondition_failed (c : cond) : bool :=
  if negb (c_any_match c) then true
  else match c_ius c with Some b => b | None => false end.

Definition not_modified (c : cond) : bool :=
  if negb (c_none_match c) then true
  else if c_has_inm c then false
  else match c_ims c with Some b => b | None => false end.

(* HeaderValue::to_str : every byte visible ASCII or TAB *)
Definition to_str_ok (v : bytes) : bool :=
  forallb (fun b => ((32 <=? b) && (b <? 127)) || (b =? 9)) v.

Inductive crange :=
| CRBytes (first last total : N)    (* "bytes {first}-{last}/{total}" *)
| CRUnsat (total : N).              (* "bytes */{total}" *)

(* Display of a u64 (decimal, no padding) *)
Fixpoint dec_go (fuel : nat) (n : N) (acc : bytes) : bytes :=
  match fuel with
  | O => acc
  | S f => let d := 48 + n mod 10 in
           if n <? 10 then d :: acc else dec_go f (n / 10) (d :: acc)
  end.
Definition dec (n : N) : bytes := dec_go 40 n [].

(* the header value text: "bytes {}-{}/{}" / "bytes */{}" *)
Definition render_cr (c : crange) : bytes :=
  match c with
  | CRBytes f l t => [98; 121; 116; 101; 115; 32] ++ dec f ++ [45] ++ dec l ++ [47] ++ dec t
  | CRUnsat t => [98; 121; 116; 101; 115; 32; 42; 47] ++ dec t
  end.

(* format!(template, args..): every "{}" is replaced by the next argument's Display *)
Fixpoint fmt (tpl : bytes) (args : list bytes) : bytes :=
  match tpl with
  | [] => []
  | b :: r =>
      match r with
      | c :: r' =>
          if (b =? 123) && (c =? 125) then
            match args with
            | a :: args' => a ++ fmt r' args'
            | [] => fmt r' []
            end
          else b :: fmt r args
      | [] => [b]
      end
  end.

Record resp := mkResp {
  status : N;
  content_range : option crange;
  body : option (N * N)   (* Some (offset, length): SizedStream::new(length, new_chunked_read(length, offset, ..));
                             None: empty body (finish() / body::None) *)
}.

Definition finish (c : cond) (ranged : bool) (length offset : N) (cr : option crange) : resp :=
  if precondition_failed c then mkResp 412 cr None
  else if not_modified c then mkResp 304 cr None
  else mkResp (if ranged then 206 else 200) cr (Some (offset, length)).

Definition into_response (fixed : bool) (flen : N) (range_hdr : option bytes) (c : cond) : R resp :=
  match range_hdr with
  | None => Val (finish c false flen 0 None)
  | Some hv =>
      if to_str_ok hv then
        match parse_bytes hv flen with
        | Panic => Panic
        | Val pr =>
            (* HttpRange::parse(..).ok().and_then(|ranges| ranges.first().copied()) *)
            let first := match pr with ROk (r :: _) => Some r | _ => None end in
            (* repair: .filter(|range| range.length > 0) *)
            let first := match first with
                         | Some r => if fixed && (r_length r =? 0) then None else Some r
                         | None => None
                         end in
            match first with
            | Some r =>
                let length := r_length r in
                let offset := r_start r in
                (* format!("bytes {}-{}/{}", offset, offset + length - 1, self.md.len()) *)
                rbind (uadd offset length) (fun s =>
                rbind (usub s 1) (fun last =>
                Val (finish c true length offset (Some (CRBytes offset last flen)))))
            | None => Val (mkResp 416 (Some (CRUnsat flen)) None)
            end
        end
      else Val (mkResp 400 None None)
  end.
