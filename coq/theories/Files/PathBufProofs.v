(* Proofs about PathBufWrap::parse_path: every accepted path is a list of normal segments, the
   asserts never fire, the count never underflows, decoding happens once. *)
From AV Require Import Lib.Base Files.PathBuf Files.PathBufSpec.

(* ---------- small list facts ---------- *)
Lemma eqb_false_neq a b : bytes_eqb a b = false -> a <> b.
Proof. apply bytes_eqb_neq. Qed.

Lemma Forall_removelast {A} (P : A -> Prop) l : Forall P l -> Forall P (removelast l).
Proof.
  induction l as [|x l IH]; intro H; [constructor|].
  inversion H; subst. destruct l as [|y l]; cbn [removelast]; [constructor|].
  constructor; [assumption|]. apply IH. assumption.
Qed.

Lemma length_removelast_le {A} (l : list A) : (length (removelast l) <= length l)%nat.
Proof.
  induction l as [|x l IH]; [cbn; lia|]. destruct l as [|y l]; [cbn; lia|].
  change (removelast (x :: y :: l)) with (x :: removelast (y :: l)). cbn [length] in *. lia.
Qed.

Lemma length_removelast_lt {A} (l : list A) : l <> [] -> (length (removelast l) < length l)%nat.
Proof.
  induction l as [|x l IH]; [congruence|]. intros _. destruct l as [|y l]; [cbn; lia|].
  change (removelast (x :: y :: l)) with (x :: removelast (y :: l)). cbn [length].
  assert (y :: l <> []) by discriminate. specialize (IH H). cbn [length] in IH. lia.
Qed.

Lemma In_removelast {A} (x : A) l : In x (removelast l) -> In x l.
Proof.
  induction l as [|y l IH]; [intros []|]. destruct l as [|z l]; [intros []|].
  change (removelast (y :: z :: l)) with (y :: removelast (z :: l)).
  intros [H|H]; [left; assumption|right; apply IH; assumption].
Qed.

(* ---------- split_on ---------- *)
Lemma split_on_nonempty c s : split_on c s <> [].
Proof.
  destruct s as [|b r]; cbn [split_on]; [discriminate|].
  destruct (b =? c); [discriminate|]. destruct (split_on c r); discriminate.
Qed.

Lemma split_on_no_sep c s : forall p, In p (split_on c s) -> ~ In c p.
Proof.
  induction s as [|b r IH]; cbn [split_on]; intros p Hp.
  - destruct Hp as [<-|[]]. intros [].
  - destruct (b =? c) eqn:E.
    + destruct Hp as [<-|Hp]; [intros []|apply IH; assumption].
    + destruct (split_on c r) as [|q qs] eqn:S; [exfalso; eapply split_on_nonempty; eassumption|].
      destruct Hp as [<-|Hp].
      * intros [H|H]; [apply N.eqb_neq in E; congruence|]. apply (IH q); [left; reflexivity|assumption].
      * apply IH. right. assumption.
Qed.

Lemma split_on_length c s : N.of_nat (length (split_on c s)) = count_byte c s + 1.
Proof.
  induction s as [|b r IH]; cbn [split_on count_byte]; [reflexivity|].
  destruct (b =? c).
  - cbn [length]. lia.
  - destruct (split_on c r) as [|q qs] eqn:S; [exfalso; eapply split_on_nonempty; eassumption|].
    cbn [length] in *. lia.
Qed.

Lemma split_on_single c s : ~ In c s -> split_on c s = [s].
Proof.
  induction s as [|b r IH]; intro H; [reflexivity|]. cbn [split_on].
  destruct (b =? c) eqn:E; [apply N.eqb_eq in E; exfalso; apply H; left; assumption|].
  rewrite IH; [reflexivity|]. intro K. apply H. right. assumption.
Qed.

Lemma split_on_app c a b : split_on c (a ++ c :: b) = split_on c a ++ split_on c b.
Proof.
  induction a as [|x a IH]; cbn [app split_on].
  - rewrite N.eqb_refl. reflexivity.
  - destruct (x =? c); [rewrite IH; reflexivity|]. rewrite IH.
    destruct (split_on c a) as [|p ps] eqn:S; [exfalso; eapply split_on_nonempty; eassumption|].
    reflexivity.
Qed.

(* ---------- percent decoding ---------- *)
Lemma pct_any_false_id s : pct_any s = false -> pct_decode s = s.
Proof.
  (* strong induction through the two-byte look-ahead *)
  assert (H : forall n s, (length s <= n)%nat -> pct_any s = false -> pct_decode s = s).
  { induction n as [|n IH]; intros [|b r] Hl Ha; try reflexivity; cbn [length] in Hl; [lia|].
    cbn [pct_any pct_decode] in *.
    destruct (b =? PCT).
    - destruct r as [|h [|l r2]].
      + reflexivity.
      + f_equal. apply IH; [cbn [length] in *; lia|assumption].
      + destruct (hex_digit h), (hex_digit l); try discriminate;
          f_equal; apply IH; try assumption; cbn [length] in *; lia.
    - f_equal. apply IH; [lia|assumption]. }
  intro Ha. apply (H (length s)); [lia|assumption].
Qed.

(* decoding never removes a separator: a literal '/' is never part of an escape *)
Lemma hex_digit_not_slash b : b = SLASH -> hex_digit b = None.
Proof. intros ->. reflexivity. Qed.

(* ---------- render / components ---------- *)
Lemma normal_no_slash_start s : normal_seg s -> starts_with SLASH s = false.
Proof.
  intros (Hne & _ & _ & Hs). destruct s as [|b r]; [congruence|]. cbn [starts_with].
  apply N.eqb_neq. intro E. apply Hs. left. assumption.
Qed.

Lemma split_render segs :
  Forall normal_seg segs -> segs <> [] -> split_on SLASH (render segs) = segs.
Proof.
  induction segs as [|s r IH]; intros HF Hne; [congruence|].
  inversion HF as [|? ? Hs Hr]; subst. destruct r as [|s2 r].
  - cbn [render]. apply split_on_single. apply Hs.
  - change (render (s :: s2 :: r)) with (s ++ SLASH :: render (s2 :: r)).
    rewrite split_on_app. rewrite split_on_single by apply Hs.
    rewrite IH; [reflexivity|assumption|discriminate].
Qed.

Lemma comps_of_normal first segs : Forall normal_seg segs -> comps_of first segs = map CNormal segs.
Proof.
  revert first. induction segs as [|s r IH]; intros first HF; [reflexivity|].
  inversion HF as [|? ? (Hne & Hd & Hdd & _) Hr]; subst. cbn [comps_of map].
  destruct s as [|b s']; [congruence|]. cbn [is_empty].
  destruct (bytes_eqb (b :: s') [DOT]) eqn:E1; [apply bytes_eqb_eq in E1; congruence|].
  destruct (bytes_eqb (b :: s') [DOT; DOT]) eqn:E2; [apply bytes_eqb_eq in E2; congruence|].
  cbn [app]. f_equal. apply IH. assumption.
Qed.

Lemma comps_of_app f l1 l2 : l1 <> [] -> comps_of f (l1 ++ l2) = comps_of f l1 ++ comps_of false l2.
Proof.
  revert f. induction l1 as [|p r IH]; intros f Hne; [congruence|]. cbn [app comps_of].
  destruct r as [|q r].
  - cbn [app comps_of]. rewrite app_nil_r. reflexivity.
  - rewrite IH by discriminate. rewrite app_assoc. reflexivity.
Qed.

Lemma comps_split_render f segs :
  Forall normal_seg segs -> comps_of f (split_on SLASH (render segs)) = map CNormal segs.
Proof.
  intro HF. destruct segs as [|s r]; [reflexivity|].
  rewrite split_render by (assumption || discriminate). apply comps_of_normal. assumption.
Qed.

Lemma render_no_root segs : Forall normal_seg segs -> starts_with SLASH (render segs) = false.
Proof.
  intro HF. destruct segs as [|s r]; [reflexivity|]. inversion HF as [|? ? Hs Hr]; subst.
  pose proof (normal_no_slash_start s Hs) as E.
  destruct r as [|s2 r]; [exact E|].
  change (render (s :: s2 :: r)) with (s ++ SLASH :: render (s2 :: r)).
  destruct s as [|b s']; [destruct Hs as (K & _); congruence|exact E].
Qed.

Lemma components_render segs : Forall normal_seg segs -> components (render segs) = map CNormal segs.
Proof.
  intro HF. unfold components. rewrite render_no_root by assumption. cbn [app negb].
  apply comps_split_render. assumption.
Qed.

Lemma starts_with_app c a b : a <> [] -> starts_with c (a ++ b) = starts_with c a.
Proof. destruct a; [congruence|reflexivity]. Qed.

Lemma components_snoc_slash a : a <> [] -> components (a ++ [SLASH]) = components a.
Proof.
  intro Hne. unfold components. rewrite starts_with_app by assumption.
  rewrite split_on_app. rewrite comps_of_app by apply split_on_nonempty.
  cbn [split_on comps_of is_empty app]. rewrite app_nil_r. reflexivity.
Qed.

Lemma components_app_slash a b :
  components (a ++ SLASH :: b) = components (a ++ [SLASH]) ++ comps_of false (split_on SLASH b).
Proof.
  destruct a as [|x a].
  - cbn [app]. unfold components. cbn [starts_with]. rewrite N.eqb_refl. cbn [negb split_on].
    rewrite N.eqb_refl. cbn [comps_of is_empty app]. reflexivity.
  - unfold components. rewrite !starts_with_app by discriminate.
    rewrite !split_on_app. rewrite !comps_of_app by apply split_on_nonempty.
    cbn [split_on comps_of is_empty app]. rewrite app_nil_r. rewrite app_assoc. reflexivity.
Qed.

Lemma ends_with_snoc c s : ends_with c s = true -> exists s', s = s' ++ [c].
Proof.
  unfold ends_with. intro H. destruct (rev s) as [|b r] eqn:E; [discriminate|].
  apply N.eqb_eq in H. subst b. exists (rev r).
  rewrite <- (rev_involutive s), E. reflexivity.
Qed.

Lemma join_under_root root segs :
  Forall normal_seg segs ->
  components (join root (render segs)) = components root ++ map CNormal segs.
Proof.
  intro HF. unfold join. rewrite render_no_root by assumption.
  destruct root as [|r0 root'] eqn:ER.
  - cbn [is_empty]. rewrite components_render by assumption. reflexivity.
  - cbn [is_empty]. rewrite <- ER.
    destruct (ends_with SLASH root) eqn:EW.
    + destruct (ends_with_snoc _ _ EW) as [r' Hr'].
      rewrite Hr'. rewrite <- app_assoc. cbn [app].
      rewrite components_app_slash. rewrite comps_split_render by assumption. reflexivity.
    + rewrite components_app_slash. rewrite comps_split_render by assumption.
      rewrite components_snoc_slash by (rewrite ER; discriminate). reflexivity.
Qed.

(* ---------- the asserts ---------- *)
Lemma check_asserts_ok segs : forall i cnt,
  i + N.of_nat (length segs) <= cnt -> check_asserts (map CNormal segs) i cnt = Val tt.
Proof.
  induction segs as [|s r IH]; intros i cnt H; [reflexivity|]. cbn [map check_asserts].
  cbn [length] in H. destruct (i <? cnt) eqn:E; [apply IH; lia|]. apply N.ltb_ge in E. lia.
Qed.

(* ---------- the segment loop ---------- *)
Section Loop.
  Variable valid_utf8 : bytes -> bool.
  Variable windows : bool.

  Variable hidden : bool.

  Definition seg_ok (s : bytes) : Prop :=
    normal_seg s /\ (windows = true -> windows_seg s) /\ (hidden = false -> starts_with DOT s = false).

  Lemma contains_false c s : contains c s = false -> ~ In c s.
  Proof.
    induction s as [|b r IH]; cbn [contains]; intros H [].
    - apply orb_false_iff in H as [H _]. apply N.eqb_neq in H. congruence.
    - apply orb_false_iff in H as [_ H]. apply IH; assumption.
  Qed.

  Lemma seg_loop_inv : forall segs buf cnt,
    Forall seg_ok buf ->
    (forall s, In s segs -> ~ In SLASH s) ->
    N.of_nat (length segs) + N.of_nat (length buf) <= cnt ->
    match seg_loop windows hidden segs buf cnt with
    | Panic => False
    | Val (inl _) => True
    | Val (inr (buf', cnt')) =>
        Forall seg_ok buf' /\ N.of_nat (length buf') <= cnt' /\
        (forall s, In s buf' -> In s buf \/ In s segs)
    end.
  Proof.
    induction segs as [|seg rest IH]; intros buf cnt HF Hs Hc.
    - cbn [seg_loop]. cbn [length] in Hc. split; [assumption|]. split; [lia|]. intros s H; left; assumption.
    - cbn [seg_loop]. cbn [length] in Hc.
      assert (Hrest : forall s, In s rest -> ~ In SLASH s) by (intros s H; apply Hs; right; assumption).
      destruct (bytes_eqb seg [DOT]) eqn:E1; [exact I|].
      destruct (bytes_eqb seg [DOT; DOT]) eqn:E2.
      { destruct (cnt =? 0) eqn:E0; [apply N.eqb_eq in E0; lia|].
        pose proof (length_removelast_le buf) as Hl.
        specialize (IH (removelast buf) (cnt - 1) (Forall_removelast _ _ HF) Hrest ltac:(lia)).
        destruct (seg_loop windows hidden rest (removelast buf) (cnt - 1)) as [[e|[b' c']]|]; try exact IH.
        destruct IH as (A & B & C). split; [assumption|]. split; [assumption|].
        intros s H. destruct (C s H) as [K|K]; [left; apply In_removelast; assumption|right; right; assumption]. }
      destruct (negb hidden && starts_with DOT seg) eqn:EH; [exact I|].
      destruct (starts_with STAR seg); [exact I|].
      destruct (ends_with COLON seg); [exact I|].
      destruct (ends_with GT seg); [exact I|].
      destruct (ends_with LT seg); [exact I|].
      destruct (is_empty seg) eqn:E3.
      { destruct (cnt =? 0) eqn:E0; [apply N.eqb_eq in E0; lia|].
        specialize (IH buf (cnt - 1) HF Hrest ltac:(lia)).
        destruct (seg_loop windows hidden rest buf (cnt - 1)) as [[e|[b' c']]|]; try exact IH.
        destruct IH as (A & B & C). split; [assumption|]. split; [assumption|].
        intros s H. destruct (C s H) as [K|K]; [left; assumption|right; right; assumption]. }
      destruct (windows && contains BACKSLASH seg) eqn:E4; [exact I|].
      destruct (windows && contains COLON seg) eqn:E5; [exact I|].
      assert (Hok : seg_ok seg).
      { split.
        - repeat split.
          + intro K; subst seg; discriminate.
          + apply eqb_false_neq; assumption.
          + apply eqb_false_neq; assumption.
          + apply Hs. left. reflexivity.
        - split.
          + intro W. rewrite W in E4, E5. cbn [andb] in E4, E5.
            split; apply contains_false; assumption.
          + intro Hh. rewrite Hh in EH. exact EH. }
      assert (HF' : Forall seg_ok (buf ++ @cons bytes seg (@nil bytes))) by (apply Forall_app; split; [assumption|constructor; [assumption|constructor]]).
      specialize (IH (buf ++ @cons bytes seg (@nil bytes)) cnt HF' Hrest).
      rewrite app_length in IH. cbn [length] in IH. specialize (IH ltac:(lia)).
      destruct (seg_loop windows hidden rest (buf ++ @cons bytes seg (@nil bytes)) cnt) as [[e|[b' c']]|]; try exact IH.
      destruct IH as (A & B & C). split; [assumption|]. split; [assumption|].
      intros s H. destruct (C s H) as [K|K]; [|right; right; assumption].
      apply in_app_or in K as [K|[K|[]]]; [left; assumption|right; left; assumption].
  Qed.

  (* the summary of one call *)
  Lemma parse_path_spec path :
    match parse_path valid_utf8 windows hidden path with
    | Panic => False
    | Val (PErr _) => True
    | Val (POk segs) =>
        Forall seg_ok segs /\
        (forall s, In s segs -> In s (split_on SLASH (pct_decode path))) /\
        count_byte SLASH (pct_decode path) = count_byte SLASH path
    end.
  Proof.
    unfold parse_path.
    destruct (negb (valid_utf8 (pct_decode path))); [exact I|].
    set (cnt := count_byte SLASH path + 1).
    assert (Hcnt : (pct_any path && negb (cnt =? count_byte SLASH (pct_decode path) + 1)) = false ->
                   count_byte SLASH (pct_decode path) = count_byte SLASH path).
    { intro H. apply andb_false_iff in H as [H|H].
      - rewrite pct_any_false_id by assumption. reflexivity.
      - apply negb_false_iff in H. apply N.eqb_eq in H. unfold cnt in H. lia. }
    destruct (pct_any path && negb (cnt =? count_byte SLASH (pct_decode path) + 1)) eqn:EG; [exact I|].
    specialize (Hcnt eq_refl).
    pose proof (seg_loop_inv (split_on SLASH (pct_decode path)) [] cnt (Forall_nil _)
                  (split_on_no_sep SLASH (pct_decode path))) as H.
    rewrite split_on_length in H. cbn [length] in H. specialize (H ltac:(unfold cnt; lia)).
    destruct (seg_loop windows hidden (split_on SLASH (pct_decode path)) [] cnt) as [[e|[buf c']]|];
      [exact I| |exact H].
    destruct H as (A & B & C).
    assert (HN : Forall normal_seg buf) by (eapply Forall_impl; [|exact A]; intros s Hs; apply Hs).
    rewrite components_render by assumption.
    rewrite check_asserts_ok by lia.
    split; [assumption|]. split; [|assumption].
    intros s Hs. destruct (C s Hs) as [[]|K]. assumption.
  Qed.
End Loop.
