(* Ties between the C16 models and the literals extracted from the Rust sources on every check run
   (Gen/FilesTables.v, written by tools/gen/files.py).  A literal that changes in the source changes
   the generated definition and breaks the corresponding lemma here (all by computation on the finite
   domain concerned); an anchored pattern that no longer matches omits the definition and this file
   stops compiling. *)
From AV Require Import Lib.Base Gen.Consts Gen.FilesTables.
From AV Require Import Files.PathBuf Files.PathBufSpec Files.PathBufProofs Files.Range Files.Named Files.ChunkedRead Files.Service.

Definition bytes256 : list N := map N.of_nat (seq 0 256).
Definition mem (b : N) (l : list N) : bool := existsb (N.eqb b) l.

(* the segment loop of parse_path run on ONE segment (unix/windows, hidden files allowed or not) *)
Definition loop1 (windows hidden : bool) (seg : bytes) := seg_loop windows hidden [seg] [] 1.
Definition is_bad_start (r : R (seg_err + list bytes * N)) : bool :=
  match r with Val (inl BadStartDot) | Val (inl BadStartStar) => true | _ => false end.
Definition is_bad_end (r : R (seg_err + list bytes * N)) : bool :=
  match r with Val (inl BadEndColon) | Val (inl BadEndGt) | Val (inl BadEndLt) => true | _ => false end.
Definition is_bad_char (r : R (seg_err + list bytes * N)) : bool :=
  match r with Val (inl BadCharBackslash) | Val (inl BadCharColon) => true | _ => false end.
Definition popped (r : R (seg_err + list bytes * N)) : bool :=
  match r with Val (inr ([], _)) => true | _ => false end.

(* separator: what is counted, split on, and reported for an encoded slash *)
Lemma tie_sep : SLASH = FILES_PP_SEP /\ FILES_PP_ENC_SEP_ERR = SLASH.
Proof. split; reflexivity. Qed.

(* forbidden FIRST characters, on all 256 bytes: with hidden files allowed exactly the generated
   list; with hidden files off additionally the generated hidden prefix *)
Lemma tie_bad_start :
  forallb (fun b => Bool.eqb (is_bad_start (loop1 false true [b; 97])) (mem b FILES_PP_BAD_START)) bytes256 = true /\
  forallb (fun b => Bool.eqb (is_bad_start (loop1 false false [b; 97]))
                             (mem b FILES_PP_BAD_START || (b =? FILES_PP_HIDDEN_PREFIX))) bytes256 = true.
Proof. split; vm_compute; reflexivity. Qed.

(* forbidden LAST characters, on all 256 bytes, and which error each one yields (source order) *)
Lemma tie_bad_end :
  forallb (fun b => Bool.eqb (is_bad_end (loop1 false true [97; b])) (mem b FILES_PP_BAD_END)) bytes256 = true /\
  map (fun b => loop1 false true [97; b]) FILES_PP_BAD_END =
    [Val (inl BadEndColon); Val (inl BadEndGt); Val (inl BadEndLt)].
Proof. split; vm_compute; reflexivity. Qed.

(* cfg!(windows) rules: forbidden anywhere in the segment, on all 256 bytes; never on unix *)
Lemma tie_windows :
  forallb (fun b => Bool.eqb (is_bad_char (loop1 true true [97; b; 97])) (mem b FILES_PP_WIN_FORBIDDEN)) bytes256 = true /\
  forallb (fun b => negb (is_bad_char (loop1 false true [97; b; 97]))) bytes256 = true /\
  map (fun b => loop1 true true [97; b; 97]) FILES_PP_WIN_FORBIDDEN =
    [Val (inl BadCharBackslash); Val (inl BadCharColon)].
Proof. repeat split; vm_compute; reflexivity. Qed.

(* "." is rejected, ".." pops, the empty segment is skipped -- and among ALL one- and two-byte
   segments these are the only ones treated that way *)
Lemma tie_dots :
  loop1 false true FILES_PP_CURDIR = Val (inl BadStartDot) /\
  seg_loop false true [[97]; FILES_PP_PARENT] [] 2 = Val (inr ([], 1)) /\
  FILES_PP_EMPTY_SKIPPED = true /\ loop1 false true [] = Val (inr ([], 0)) /\
  forallb (fun b => Bool.eqb (match loop1 false true [b] with Val (inl BadStartDot) => true | _ => false end)
                             (bytes_eqb [b] FILES_PP_CURDIR)) bytes256 = true /\
  forallb (fun b1 => forallb (fun b2 =>
     Bool.eqb (popped (seg_loop false true [[97]; [b1; b2]] [] 2)) (bytes_eqb [b1; b2] FILES_PP_PARENT)) bytes256) bytes256 = true.
Proof. repeat split; vm_compute; reflexivity. Qed.

(* http-range literals *)
Lemma tie_range :
  PREFIX = FILES_RANGE_PREFIX /\ lenN PREFIX = FILES_RANGE_PREFIX_LEN /\
  (forall h : bytes, skipn 6 h = skipn (N.to_nat FILES_RANGE_PREFIX_LEN) h) /\
  COMMA = FILES_RANGE_LIST_SEP /\ DASH = FILES_RANGE_DASH /\
  forallb (fun b => Bool.eqb (is_ws b) (mem b FILES_RANGE_WS)) bytes256 = true /\
  FILES_RANGE_WRAPS_HTTP_RANGE = true.
Proof. repeat split; vm_compute; reflexivity. Qed.

(* status codes of the decision *)
Lemma tie_status_finish c ranged length offset cr :
  status (finish c ranged length offset cr) =
    if precondition_failed c then FILES_ST_PRECONDITION
    else if not_modified c then FILES_ST_NOT_MODIFIED
    else if ranged then FILES_ST_PARTIAL else FILES_ST_OK.
Proof.
  unfold finish. destruct (precondition_failed c); [reflexivity|].
  destruct (not_modified c); [reflexivity|]. destruct ranged; reflexivity.
Qed.

Lemma tie_status_bad_value flen hv c :
  to_str_ok hv = false -> into_response true flen (Some hv) c = Val (mkResp FILES_ST_BAD_VALUE None None).
Proof. intro H. unfold into_response. rewrite H. reflexivity. Qed.

(* both sites that answer "unsatisfiable": no usable first range, and (F8 repair) a zero-length one *)
Lemma tie_status_unsat c :
  into_response true 10 (Some [98; 121; 116; 101; 115; 61; 50; 48; 45]) c
    = Val (mkResp FILES_ST_UNSAT (Some (CRUnsat 10)) None) /\
  FILES_ZERO_LENGTH_UNSAT = true /\
  into_response true 0 (Some [98; 121; 116; 101; 115; 61; 45; 53]) c
    = Val (mkResp FILES_ST_UNSAT (Some (CRUnsat 0)) None).
Proof. repeat split; reflexivity. Qed.

(* Content-Range texts are the source's format strings applied to (offset, last, total) / (total) *)
Lemma tie_content_range_format :
  (forall f l t, render_cr (CRBytes f l t) = fmt FILES_CR_RANGE_FMT [dec f; dec l; dec t]) /\
  (forall t, render_cr (CRUnsat t) = fmt FILES_CR_UNSAT_FMT [dec t]).
Proof. split; intros; cbv -[dec app]; rewrite ?app_nil_r; reflexivity. Qed.

(* pre-compressed variants: the extension list, and the lookup is skipped for directories *)
Lemma tie_extensions :
  ext_of 0 = Some FILES_EXT_BR /\ ext_of 1 = Some FILES_EXT_GZ /\ ext_of 2 = Some FILES_EXT_ZST /\
  forallb (fun e => match ext_of e with None => true | Some _ => e <? 3 end) bytes256 = true.
Proof. repeat split; vm_compute; reflexivity. Qed.

Lemma tie_dir_guard :
  FILES_COMPRESSED_SKIPS_DIRS = true /\ FILES_COMPRESSED_NAME_IS_SIBLING = true /\
  forall (fs : list component -> fkind) (root : bytes) (neg : list N),
    fs (components root) = KDir -> call fs true None root [] neg = Miss.
Proof.
  split; [reflexivity|]. split; [reflexivity|]. intros fs root neg H. unfold call.
  rewrite (join_under_root root [] (Forall_nil _)). cbn [map]. rewrite app_nil_r, H. reflexivity.
Qed.

(* the read size and the single bookkeeping site: a three-chunk read in both modes *)
Lemma tie_read :
  FILES_READ_SIZE = FILES_CHUNK_SIZE /\
  FILES_OFFSET_COUNTER_ADVANCE = true /\ FILES_COUNTER_ADVANCED_ONCE = true /\
  (forall mode, read_loop FILES_READ_SIZE 200000 mode (repeat (0%nat, u64_max) 4) 150000 1000 0 =
     Val [EChunk 1000 FILES_READ_SIZE; EChunk (1000 + FILES_READ_SIZE) FILES_READ_SIZE;
          EChunk (1000 + 2 * FILES_READ_SIZE) (150000 - 2 * FILES_READ_SIZE)]).
Proof. repeat split. intros [|]; vm_compute; reflexivity. Qed.
