(* What "stays inside the root" means, lexically. *)
From AV Require Import Lib.Base Files.PathBuf.

(* a path segment that names exactly one directory entry: non-empty, not "." or "..", no separator *)
Definition normal_seg (s : bytes) : Prop :=
  s <> [] /\ s <> [DOT] /\ s <> [DOT; DOT] /\ ~ In SLASH s.

(* the extra Windows rule of the code (cfg!(windows)) *)
Definition windows_seg (s : bytes) : Prop := ~ In BACKSLASH s /\ ~ In COLON s.

(* [p] is [root] followed by plain names only: no RootDir, no ParentDir, no CurDir is added, so
   resolving it (without symbolic links) never leaves [root] *)
Definition lexically_under (root p : bytes) : Prop :=
  exists segs, Forall normal_seg segs /\ components p = components root ++ map CNormal segs.
