(* Model of actix-http/src/header/map.rs (HeaderMap and its iterators).

   The map is `FoldHashMap<HeaderName, Value>` with `Value` a SmallVec of header values.
   Model: an association list `hm` from canonical (lower-case) names to value lists.
   The order in which the hash map yields its entries is NOT part of the model: iterator
   machines take the entry sequence `es` they walk over as an argument, and the theorems
   quantify over every permutation of the map's entries.

   Panic-aware: `Value::first` (`inner[0]`), `remaining -= 1` and `ExactSizeIterator::len`
   (asserts `upper == Some(lower)`) are partial. *)
From AV Require Import Lib.Base.

Definition name := bytes.          (* canonical: lower-case, valid token *)
Definition value := bytes.
Definition entry := (name * list value)%type.
Definition hm := list entry.

(* http::HeaderName::from_bytes accepts non-empty names made of token characters and
   lower-cases them (HEADER_CHARS table of the http crate). *)
Definition is_tchar (b : N) : bool :=
  ((48 <=? b) && (b <=? 57)) || ((65 <=? b) && (b <=? 90)) || ((97 <=? b) && (b <=? 122)) ||
  (b =? 33) || ((35 <=? b) && (b <=? 39)) || (b =? 42) || (b =? 43) || (b =? 45) || (b =? 46) ||
  (b =? 94) || (b =? 95) || (b =? 96) || (b =? 124) || (b =? 126).
Definition valid_name (s : bytes) : bool :=
  match s with [] => false | _ => forallb is_tchar s end.
Definition canon (s : bytes) : name := map lower_byte s.
(* AsHeaderName::try_as_name for &str / String / &[u8] keys *)
Definition key_of (s : bytes) : option name := if valid_name s then Some (canon s) else None.

Fixpoint find (k : name) (m : hm) : option (list value) :=
  match m with
  | [] => None
  | (k', vs) :: r => if bytes_eqb k k' then Some vs else find k r
  end.

Fixpoint set (k : name) (vs : list value) (m : hm) : hm :=
  match m with
  | [] => [(k, vs)]
  | (k', vs') :: r => if bytes_eqb k k' then (k', vs) :: r else (k', vs') :: set k vs r
  end.

Fixpoint del (k : name) (m : hm) : hm :=
  match m with
  | [] => []
  | (k', vs') :: r => if bytes_eqb k k' then r else (k', vs') :: del k r
  end.

(* --- HeaderMap methods --- *)
Definition hm_new : hm := [].
Definition len (m : hm) : N := sumN (map (fun e : entry => lenN (snd e)) m).
Definition len_keys (m : hm) : N := lenN m.
Definition is_empty (m : hm) : bool := len_keys m =? 0.
Definition clear (m : hm) : hm := [].

(* Value::first = self.inner[0] *)
Definition first (vs : list value) : R value :=
  match vs with v :: _ => Val v | [] => Panic end.

Definition get (k : name) (m : hm) : R (option value) :=
  match find k m with
  | None => Val None
  | Some vs => rbind (first vs) (fun v => Val (Some v))
  end.
Definition get_all (k : name) (m : hm) : list value :=
  match find k m with Some vs => vs | None => [] end.
Definition contains_key (k : name) (m : hm) : bool :=
  match find k m with Some _ => true | None => false end.

(* `Removed` wraps Option<smallvec::IntoIter>: None for an absent key *)
Definition removed := option (list value).
Definition insert (k : name) (v : value) (m : hm) : hm * removed := (set k [v] m, find k m).
Definition append (k : name) (v : value) (m : hm) : hm :=
  match find k m with
  | Some vs => set k (vs ++ [v]) m
  | None => m ++ [(k, [v])]
  end.
Definition remove (k : name) (m : hm) : hm * removed := (del k m, find k m).

Definition retain (p : name -> value -> bool) (m : hm) : hm :=
  filter (fun e : entry => negb (match snd e with [] => true | _ => false end))
         (map (fun e : entry => (fst e, filter (p (fst e)) (snd e))) m).

(* Removed iterator *)
Definition removed_is_empty (r : removed) : bool :=
  match r with Some vs => match vs with [] => true | _ => false end | None => true end.
Definition removed_next (r : removed) : option value * removed :=
  match r with
  | Some (v :: vs) => (Some v, Some vs)
  | Some [] => (None, Some [])
  | None => (None, None)
  end.
(* size_hint: smallvec's exact hint when present; for an absent key (0, Some 0) *)
Definition removed_size_hint (r : removed) : N * option N :=
  match r with
  | Some vs => (lenN vs, Some (lenN vs))
  | None => (0, Some 0)
  end.
(* ExactSizeIterator::len: assert_eq!(upper, Some(lower)); lower *)
Definition exact_len (h : N * option N) : R N :=
  match h with
  | (lo, Some hi) => if lo =? hi then Val lo else Panic
  | (_, None) => Panic
  end.

(* --- Iter / IntoIter: (inner, multi_inner, multi_idx, remaining) ---
   Iter keeps a borrowed value list and an index; IntoIter consumes a smallvec::IntoIter.
   Both are represented by the not-yet-yielded suffix of the current value list. *)
Record iter := { it_inner : list entry; it_multi : option (name * list value); it_rem : N }.
Definition iter_new (es : list entry) (remaining : N) : iter :=
  {| it_inner := es; it_multi := None; it_rem := remaining |}.

Definition dec (n : N) : R N := if n =? 0 then Panic else Val (n - 1).

(* after multi_inner has been reset: pull entries until one yields a value *)
Fixpoint iter_pull (inner : list entry) (remaining : N) : R (option (name * value) * iter) :=
  match inner with
  | [] => Val (None, {| it_inner := []; it_multi := None; it_rem := remaining |})
  | (k, vs) :: rest =>
      match vs with
      | v :: vs' => rbind (dec remaining) (fun r' =>
                      Val (Some (k, v), {| it_inner := rest; it_multi := Some (k, vs'); it_rem := r' |}))
      | [] => iter_pull rest remaining
      end
  end.

Definition iter_next (it : iter) : R (option (name * value) * iter) :=
  match it_multi it with
  | Some (k, v :: vs') =>
      rbind (dec (it_rem it)) (fun r' =>
        Val (Some (k, v), {| it_inner := it_inner it; it_multi := Some (k, vs'); it_rem := r' |}))
  | _ => iter_pull (it_inner it) (it_rem it)
  end.
Definition iter_size_hint (it : iter) : N * option N := (it_rem it, Some (it_rem it)).

(* --- Drain: yields (Some name) only with the first value of each group --- *)
Record drain := { dr_inner : list entry; dr_multi : option (option name * list value); dr_rem : N }.
Definition drain_new (es : list entry) (remaining : N) : drain :=
  {| dr_inner := es; dr_multi := None; dr_rem := remaining |}.

Fixpoint drain_pull (inner : list entry) (remaining : N) : R (option (option name * value) * drain) :=
  match inner with
  | [] => Val (None, {| dr_inner := []; dr_multi := None; dr_rem := remaining |})
  | (k, vs) :: rest =>
      match vs with
      | v :: vs' => rbind (dec remaining) (fun r' =>
                      Val (Some (Some k, v), {| dr_inner := rest; dr_multi := Some (None, vs'); dr_rem := r' |}))
      | [] => drain_pull rest remaining
      end
  end.
Definition drain_next (d : drain) : R (option (option name * value) * drain) :=
  match dr_multi d with
  | Some (on, v :: vs') =>
      rbind (dec (dr_rem d)) (fun r' =>
        Val (Some (on, v), {| dr_inner := dr_inner d; dr_multi := Some (None, vs'); dr_rem := r' |}))
  | _ => drain_pull (dr_inner d) (dr_rem d)
  end.

(* run an iterator to exhaustion, recording each item and the size_hint seen after it *)
Fixpoint iter_collect (fuel : nat) (it : iter) : R (list (name * value * N)) :=
  match fuel with
  | O => Val []
  | S f => rbind (iter_next it) (fun '(o, it') =>
             match o with
             | None => Val []
             | Some kv => rbind (iter_collect f it') (fun l => Val ((kv, it_rem it') :: l))
             end)
  end.
Fixpoint drain_collect (fuel : nat) (d : drain) : R (list (option name * value * N)) :=
  match fuel with
  | O => Val []
  | S f => rbind (drain_next d) (fun '(o, d') =>
             match o with
             | None => Val []
             | Some kv => rbind (drain_collect f d') (fun l => Val ((kv, dr_rem d') :: l))
             end)
  end.

(* HeaderMap::from_drain over an http::HeaderMap-like drain sequence *)
Fixpoint from_drain_go (m : hm) (prev : name) (l : list (option name * value)) : hm :=
  match l with
  | [] => m
  | (on, v) :: r => let k := match on with Some k => k | None => prev end in
                    from_drain_go (append k v m) k r
  end.
Definition from_drain (l : list (option name * value)) : R hm :=
  match l with
  | [] => Val hm_new
  | (Some k, v) :: r => Val (from_drain_go (append k v hm_new) k r)
  | (None, _) :: _ => Panic            (* expect("drained first item had no name") *)
  end.

(* --- operations as data, for histories --- *)
Inductive op :=
| OInsert (k : name) (v : value) | OAppend (k : name) (v : value) | ORemove (k : name)
| ORetain (pid : N) | OClear | ODrain.

(* a small family of retain predicates, indexed so that histories are first-order data:
   keep a value iff (len name + first byte of value + pid) is even / not equal ... *)
Definition retain_pred (pid : N) (k : name) (v : value) : bool :=
  match pid with
  | 0 => false
  | 1 => true
  | 2 => N.even (lenN v)
  | 3 => negb (bytes_eqb k (canon [120; 45; 97]))          (* drop "x-a" *)
  | _ => N.even (lenN k + match v with b :: _ => b | [] => 0 end + pid)
  end.

Definition step (m : hm) (o : op) : hm :=
  match o with
  | OInsert k v => fst (insert k v m)
  | OAppend k v => append k v m
  | ORemove k => fst (remove k m)
  | ORetain pid => retain (retain_pred pid) m
  | OClear => clear m
  | ODrain => []                       (* hash_map::drain empties the map *)
  end.
Definition run (ops : list op) : hm := fold_left step ops hm_new.
