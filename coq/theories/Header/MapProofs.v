(* HeaderMap (Map.v) refines the reference multimap (MapSpec.v) for every operation history;
   iterator machines yield exactly the contents with exact size hints and never panic. *)
From Coq Require Import Permutation.
From AV Require Import Lib.Base Header.Map Header.MapSpec.

Definition keys (m : hm) : list name := map fst m.
Definition Inv (m : hm) : Prop := NoDup (keys m) /\ Forall (fun e : entry => snd e <> []) m.
Definition Rel (m : hm) (l : spec) : Prop := Inv m /\ forall k, get_all k m = values k l.

(* ---------- association-list lemmas ---------- *)
Lemma find_None_iff k m : find k m = None <-> ~ In k (keys m).
Proof.
  induction m as [|[k' vs] m IH]; cbn [find keys map fst].
  - split; [intros _ []|reflexivity].
  - destruct (bytes_eqb k k') eqn:E.
    + apply bytes_eqb_eq in E; subst. split; [discriminate|intro H; exfalso; apply H; left; reflexivity].
    + apply bytes_eqb_neq in E. rewrite IH. cbn [In]. split; intro H.
      * intros [H1|H1]; [congruence|contradiction].
      * intro H1. apply H. right. exact H1.
Qed.

Lemma find_set_same k vs m : find k (set k vs m) = Some vs.
Proof.
  induction m as [|[k' vs'] m IH]; cbn [set find].
  - rewrite bytes_eqb_refl. reflexivity.
  - destruct (bytes_eqb k k') eqn:E; cbn [find]; rewrite E; [reflexivity|exact IH].
Qed.

Lemma find_set_other k k2 vs m : k <> k2 -> find k2 (set k vs m) = find k2 m.
Proof.
  intro Hne. induction m as [|[k' vs'] m IH]; cbn [set find].
  - destruct (bytes_eqb k2 k) eqn:E; [apply bytes_eqb_eq in E; congruence|reflexivity].
  - destruct (bytes_eqb k k') eqn:E; cbn [find].
    + apply bytes_eqb_eq in E; subst k'.
      destruct (bytes_eqb k2 k) eqn:E2; [apply bytes_eqb_eq in E2; congruence|reflexivity].
    + rewrite IH. reflexivity.
Qed.

Lemma keys_set k vs m :
  keys (set k vs m) = if find k m then keys m else keys m ++ [k].
Proof.
  induction m as [|[k' vs'] m IH]; cbn [set find keys map fst app]; [reflexivity|].
  destruct (bytes_eqb k k') eqn:E; cbn [keys map fst]; [reflexivity|].
  fold (keys (set k vs m)). rewrite IH. fold (keys m). destruct (find k m); reflexivity.
Qed.

Lemma find_del_other k k2 m : k <> k2 -> find k2 (del k m) = find k2 m.
Proof.
  intro Hne. induction m as [|[k' vs'] m IH]; cbn [del find]; [reflexivity|].
  destruct (bytes_eqb k k') eqn:E; cbn [find].
  - apply bytes_eqb_eq in E; subst k'.
    destruct (bytes_eqb k2 k) eqn:E2; [apply bytes_eqb_eq in E2; congruence|reflexivity].
  - rewrite IH. reflexivity.
Qed.

Lemma keys_del_incl k m x : In x (keys (del k m)) -> In x (keys m).
Proof.
  induction m as [|[k' vs'] m IH]; cbn [del keys map fst]; [tauto|].
  destruct (bytes_eqb k k'); cbn [keys map fst In]; [tauto|].
  intros [H|H]; [left; exact H|right; apply IH; exact H].
Qed.

Lemma find_del_same k m : NoDup (keys m) -> find k (del k m) = None.
Proof.
  induction m as [|[k' vs'] m IH]; cbn [del keys map fst]; intro Hnd; [reflexivity|].
  inversion Hnd as [|? ? Hni Hnd']; subst.
  destruct (bytes_eqb k k') eqn:E.
  - apply bytes_eqb_eq in E; subst k'. apply find_None_iff. exact Hni.
  - cbn [find]. rewrite E. apply IH. exact Hnd'.
Qed.

Lemma NoDup_del k m : NoDup (keys m) -> NoDup (keys (del k m)).
Proof.
  induction m as [|[k' vs'] m IH]; cbn [del keys map fst]; intro Hnd; [constructor|].
  inversion Hnd as [|? ? Hni Hnd']; subst.
  destruct (bytes_eqb k k'); [exact Hnd'|].
  cbn [keys map fst]. constructor; [|apply IH; exact Hnd'].
  intro H. apply Hni. eapply keys_del_incl. exact H.
Qed.

Lemma Forall_del (P : entry -> Prop) k m : Forall P m -> Forall P (del k m).
Proof.
  induction m as [|[k' vs'] m IH]; cbn [del]; intro H; [constructor|].
  inversion H; subst. destruct (bytes_eqb k k'); [assumption|constructor; auto].
Qed.

Lemma Forall_set (P : entry -> Prop) k vs m :
  (forall k', P (k', vs)) -> Forall P m -> Forall P (set k vs m).
Proof.
  intros Hp. induction m as [|[k' vs'] m IH]; cbn [set]; intro H.
  - constructor; [apply Hp|constructor].
  - inversion H; subst. destruct (bytes_eqb k k'); constructor; auto.
Qed.

Lemma NoDup_set k vs m : NoDup (keys m) -> NoDup (keys (set k vs m)).
Proof.
  intro Hnd. rewrite keys_set. destruct (find k m) eqn:E; [exact Hnd|].
  apply find_None_iff in E.
  apply NoDup_rev in Hnd. rewrite <- (rev_involutive (keys m ++ [k])).
  apply NoDup_rev. rewrite rev_app_distr. cbn [rev app].
  constructor; [|exact Hnd]. rewrite <- in_rev. exact E.
Qed.

Lemma find_app_None k m m2 : find k m = None -> find k (m ++ m2) = find k m2.
Proof.
  induction m as [|[k' vs'] m IH]; cbn [find app]; [reflexivity|].
  destruct (bytes_eqb k k'); [discriminate|exact IH].
Qed.

Lemma set_absent k vs m : find k m = None -> set k vs m = m ++ [(k, vs)].
Proof.
  induction m as [|[k' vs'] m IH]; cbn [find set app]; [reflexivity|].
  destruct (bytes_eqb k k'); [discriminate|]. intro H. rewrite IH by exact H. reflexivity.
Qed.

(* ---------- spec-side lemmas ---------- *)
Lemma values_app k l1 l2 : values k (l1 ++ l2) = values k l1 ++ values k l2.
Proof. unfold values. rewrite filter_app, map_app. reflexivity. Qed.

Lemma values_one_same k v : values k [(k, v)] = [v].
Proof. unfold values. cbn [filter fst]. rewrite bytes_eqb_refl. reflexivity. Qed.

Lemma values_one_other k k2 v : k <> k2 -> values k2 [(k, v)] = [].
Proof.
  intro H. unfold values. cbn [filter fst].
  destruct (bytes_eqb k2 k) eqn:E; [apply bytes_eqb_eq in E; congruence|reflexivity].
Qed.

Lemma values_without_same k l : values k (without k l) = [].
Proof.
  unfold values, without. induction l as [|[k' v] l IH]; cbn [filter fst]; [reflexivity|].
  destruct (bytes_eqb k k') eqn:E; cbn [negb filter fst]; [exact IH|]. rewrite E. exact IH.
Qed.

Lemma values_without_other k k2 l : k <> k2 -> values k2 (without k l) = values k2 l.
Proof.
  intro Hne. unfold values, without. induction l as [|[k' v] l IH]; cbn [filter fst]; [reflexivity|].
  destruct (bytes_eqb k k') eqn:E; cbn [negb filter fst].
  - apply bytes_eqb_eq in E; subst k'.
    destruct (bytes_eqb k2 k) eqn:E2; [apply bytes_eqb_eq in E2; congruence|exact IH].
  - destruct (bytes_eqb k2 k'); cbn [map snd]; [f_equal|]; exact IH.
Qed.

Lemma values_filter k (p : name -> value -> bool) l :
  values k (filter (fun q => p (fst q) (snd q)) l) = filter (p k) (values k l).
Proof.
  unfold values. induction l as [|[k' v] l IH]; cbn [filter fst snd]; [reflexivity|].
  destruct (bytes_eqb k k') eqn:E.
  - apply bytes_eqb_eq in E; subst k'.
    destruct (p k v) eqn:Ep; cbn [filter fst map snd]; rewrite ?bytes_eqb_refl;
      cbn [map snd filter]; rewrite ?Ep; [f_equal|]; exact IH.
  - destruct (p k' v); cbn [filter fst]; rewrite ?E; exact IH.
Qed.

(* ---------- get_all through each operation ---------- *)
Lemma get_all_retain p k m : NoDup (keys m) ->
  get_all k (retain p m) = filter (p k) (get_all k m).
Proof.
  unfold get_all, retain. induction m as [|[k' vs] m IH]; cbn [map filter find fst snd keys];
    intro Hnd; [reflexivity|].
  inversion Hnd as [|? ? Hni Hnd']; subst. specialize (IH Hnd').
  destruct (bytes_eqb k k') eqn:E.
  - apply bytes_eqb_eq in E; subst k'.
    destruct (filter (p k) vs) as [|v0 vr] eqn:Ef; cbn [negb find].
    + (* entry dropped: k is in no later entry *)
      rewrite IH. apply find_None_iff in Hni. rewrite Hni. reflexivity.
    + rewrite bytes_eqb_refl. reflexivity.
  - destruct (filter (p k') vs); cbn [negb find]; rewrite ?E; exact IH.
Qed.

Lemma keys_retain_incl p m x : In x (keys (retain p m)) -> In x (keys m).
Proof.
  unfold retain, keys. induction m as [|[k' vs] m IH]; cbn [map filter fst snd]; [tauto|].
  destruct (filter (p k') vs); cbn [negb map fst In]; [intro H; right; apply IH; exact H|].
  intros [H|H]; [left; exact H|right; apply IH; exact H].
Qed.

Lemma Inv_retain p m : Inv m -> Inv (retain p m).
Proof.
  intros [Hnd Hne]. split.
  - clear Hne. induction m as [|[k' vs] m IH].
    + constructor.
    + cbn [keys map fst] in Hnd. inversion Hnd as [|? ? Hni Hnd']; subst.
      unfold retain. cbn [map filter fst snd].
      destruct (filter (p k') vs); cbn [negb].
      * apply IH. exact Hnd'.
      * cbn [keys map fst]. constructor; [|apply IH; exact Hnd'].
        intro H. apply Hni. eapply keys_retain_incl. exact H.
  - unfold retain. apply Forall_forall. intros [k vs] Hin.
    apply filter_In in Hin as [_ H]. cbn [snd] in *. destruct vs; [discriminate|discriminate].
Qed.

Lemma Inv_nil : Inv [].
Proof. split; constructor. Qed.

(* ---------- the refinement step ---------- *)
Lemma step_refines m l o : Rel m l -> Rel (step m o) (spec_step l o).
Proof.
  intros [[Hnd Hne] Hv]. destruct o as [k v|k v|k|pid| |]; cbn [step spec_step insert append remove fst].
  - (* insert *)
    split; [split; [apply NoDup_set; exact Hnd|apply Forall_set; [intros ? ; cbn; discriminate|exact Hne]]|].
    intro k2. rewrite values_app. unfold get_all.
    destruct (bytes_eqb k k2) eqn:E.
    + apply bytes_eqb_eq in E; subst k2. rewrite find_set_same, values_without_same, values_one_same. reflexivity.
    + apply bytes_eqb_neq in E. rewrite find_set_other by exact E.
      rewrite values_without_other, values_one_other by exact E. rewrite app_nil_r. apply Hv.
  - (* append *)
    unfold append. destruct (find k m) as [vs|] eqn:Ef.
    + split; [split; [apply NoDup_set; exact Hnd|apply Forall_set; [|exact Hne]]|].
      { intros ?. cbn [snd]. destruct vs; discriminate. }
      intro k2. rewrite values_app. unfold get_all.
      destruct (bytes_eqb k k2) eqn:E.
      * apply bytes_eqb_eq in E; subst k2. rewrite find_set_same, values_one_same.
        specialize (Hv k). unfold get_all in Hv. rewrite Ef in Hv. rewrite Hv. reflexivity.
      * apply bytes_eqb_neq in E. rewrite find_set_other by exact E.
        rewrite values_one_other, app_nil_r by exact E. apply Hv.
    + rewrite <- (set_absent k [v] m Ef).
      split; [split; [apply NoDup_set; exact Hnd|apply Forall_set; [intros ?; cbn; discriminate|exact Hne]]|].
      intro k2. rewrite values_app. unfold get_all.
      destruct (bytes_eqb k k2) eqn:E.
      * apply bytes_eqb_eq in E; subst k2. rewrite find_set_same, values_one_same.
        specialize (Hv k). unfold get_all in Hv. rewrite Ef in Hv. rewrite <- Hv. reflexivity.
      * apply bytes_eqb_neq in E. rewrite find_set_other by exact E.
        rewrite values_one_other, app_nil_r by exact E. apply Hv.
  - (* remove *)
    split; [split; [apply NoDup_del; exact Hnd|apply Forall_del; exact Hne]|].
    intro k2. unfold get_all. destruct (bytes_eqb k k2) eqn:E.
    + apply bytes_eqb_eq in E; subst k2. rewrite find_del_same by exact Hnd.
      rewrite values_without_same. reflexivity.
    + apply bytes_eqb_neq in E. rewrite find_del_other, values_without_other by exact E. apply Hv.
  - (* retain *)
    split; [apply Inv_retain; split; assumption|].
    intro k2. rewrite get_all_retain by exact Hnd. rewrite values_filter. rewrite Hv. reflexivity.
  - split; [apply Inv_nil|reflexivity].
  - split; [apply Inv_nil|reflexivity].
Qed.

Lemma removed_refines m l o : Rel m l ->
  match o with
  | OInsert k v => match snd (insert k v m) with Some vs => vs | None => [] end = spec_removed l o
  | ORemove k => match snd (remove k m) with Some vs => vs | None => [] end = spec_removed l o
  | _ => True
  end.
Proof.
  intros [_ Hv]. destruct o; cbn [insert remove snd spec_removed]; try exact I; apply Hv.
Qed.

Theorem run_refines ops : Rel (run ops) (spec_run ops).
Proof.
  unfold run, spec_run.
  assert (H0 : Rel hm_new []) by (split; [apply Inv_nil|reflexivity]).
  revert H0. generalize hm_new as m. generalize (@nil (name * value)) as l.
  induction ops as [|o ops IH]; intros l m H; cbn [fold_left]; [exact H|].
  apply IH. apply step_refines. exact H.
Qed.

(* ---------- point queries ---------- *)
Lemma get_refines m l k : Rel m l ->
  get k m = Val (match values k l with v :: _ => Some v | [] => None end).
Proof.
  intros [[_ Hne] Hv]. specialize (Hv k). unfold get_all in Hv. unfold get.
  destruct (find k m) as [vs|] eqn:E.
  - rewrite <- Hv. destruct vs as [|v vs]; [|reflexivity].
    exfalso. clear Hv. induction m as [|[k' vs'] m IH]; [discriminate|].
    inversion Hne; subst. cbn [find] in E. destruct (bytes_eqb k k').
    + inversion E; subst. cbn [snd] in *. congruence.
    + apply IH; assumption.
  - rewrite <- Hv. reflexivity.
Qed.

Lemma contains_refines m l k : Rel m l ->
  contains_key k m = negb (match values k l with [] => true | _ => false end).
Proof.
  intros [[_ Hne] Hv]. specialize (Hv k). unfold get_all in Hv. unfold contains_key.
  destruct (find k m) as [vs|] eqn:E; rewrite <- Hv; [|reflexivity].
  destruct vs; [|reflexivity]. exfalso.
  clear Hv. induction m as [|[k' vs'] m IH]; [discriminate|].
  inversion Hne; subst. cbn [find] in E. destruct (bytes_eqb k k').
  - inversion E; subst. cbn [snd] in *. congruence.
  - apply IH; assumption.
Qed.

(* ---------- counting ---------- *)
Definition flatten (es : list entry) : list (name * value) :=
  flat_map (fun e : entry => map (fun v => (fst e, v)) (snd e)) es.

Lemma len_flatten m : len m = lenN (flatten m).
Proof.
  unfold len, lenN. induction m as [|[k vs] m IH]; cbn [map sumN flatten flat_map fst snd]; [reflexivity|].
  rewrite app_length, map_length. fold (flatten m). rewrite IH. lia.
Qed.

Definition in_keys (ks : list name) (p : name * value) : bool :=
  existsb (fun k => bytes_eqb k (fst p)) ks.

Lemma count_split k ks l :
  length (filter (in_keys (k :: ks)) l) =
  (length (filter (fun p => bytes_eqb k (fst p)) l) + length (filter (in_keys ks) (without k l)))%nat.
Proof.
  unfold without. induction l as [|[k' v] l IHl]; [reflexivity|].
  cbn [filter fst in_keys existsb].
  destruct (bytes_eqb k k') eqn:E; cbn [negb orb filter length plus].
  - f_equal. exact IHl.
  - change (existsb (fun k0 : bytes => bytes_eqb k0 k') ks) with (in_keys ks (k', v)).
    destruct (in_keys ks (k', v)); cbn [length]; rewrite IHl; lia.
Qed.

Lemma count_keys (m : hm) (l : spec) :
  NoDup (keys m) -> (forall k, get_all k m = values k l) ->
  len m = lenN (filter (in_keys (keys m)) l).
Proof.
  revert l. induction m as [|[k vs] m IH]; intros l Hnd Hv.
  - assert (H : filter (in_keys (keys [])) l = [])
      by (clear; induction l as [|p l IHl]; [reflexivity|exact IHl]).
    rewrite H. reflexivity.
  - cbn [keys map fst] in Hnd. inversion Hnd as [|? ? Hni Hnd']; subst.
    assert (Hvs : vs = values k l).
    { specialize (Hv k). unfold get_all in Hv. cbn [find] in Hv. rewrite bytes_eqb_refl in Hv. exact Hv. }
    assert (Hrest : forall k2, get_all k2 m = values k2 (without k l)).
    { intro k2. destruct (bytes_eqb k k2) eqn:E.
      - apply bytes_eqb_eq in E; subst k2. rewrite values_without_same. unfold get_all.
        apply find_None_iff in Hni. rewrite Hni. reflexivity.
      - pose proof E as E'. apply bytes_eqb_neq in E. rewrite values_without_other by exact E.
        rewrite <- Hv. unfold get_all. cbn [find].
        destruct (bytes_eqb k2 k) eqn:E2; [apply bytes_eqb_eq in E2; congruence|reflexivity]. }
    specialize (IH (without k l) Hnd' Hrest).
    unfold len in *. cbn [map sumN snd]. rewrite IH. subst vs.
    cbn [keys map fst]. fold (keys m). unfold lenN. rewrite count_split.
    unfold values. rewrite map_length. lia.
Qed.

Lemma len_refines m l : Rel m l -> len m = lenN l.
Proof.
  intros [[Hnd Hne] Hv]. rewrite (count_keys m l Hnd Hv). f_equal.
  (* every pair of l has its key in keys m *)
  assert (H : forall p, In p l -> in_keys (keys m) p = true).
  { intros [k v] Hin. unfold in_keys. apply existsb_exists. exists k. split; [|apply bytes_eqb_refl].
    destruct (find k m) eqn:E.
    - destruct (find_None_iff k m) as [_ H2].
      destruct (in_dec (list_eq_dec N.eq_dec) k (keys m)) as [Hi|Hn]; [exact Hi|].
      rewrite (H2 Hn) in E. discriminate.
    - exfalso. specialize (Hv k). unfold get_all in Hv. rewrite E in Hv.
      assert (In v (values k l)).
      { unfold values. apply in_map_iff. exists (k, v). split; [reflexivity|].
        apply filter_In. split; [exact Hin|apply bytes_eqb_refl]. }
      rewrite <- Hv in H. exact H. }
  clear - H. induction l as [|p l IH]; [reflexivity|].
  cbn [filter]. rewrite (H p (or_introl eq_refl)). f_equal. apply IH. intros q Hq. apply H. right. exact Hq.
Qed.

Lemma is_empty_refines m l : Rel m l -> is_empty m = (lenN l =? 0).
Proof.
  intros HR. pose proof (len_refines m l HR) as Hl. destruct HR as [[_ Hne] _].
  unfold is_empty, len_keys. rewrite <- Hl. unfold len, lenN.
  destruct m as [|[k vs] m]; [reflexivity|].
  inversion Hne; subst. cbn [snd] in *. destruct vs as [|v vs]; [congruence|].
  cbn [map sumN snd length]. unfold lenN. cbn [length]. lia.
Qed.

(* ---------- iterators ---------- *)
(* `es` is the sequence the hash map hands out: any permutation of the entries. *)
Definition nonempty_entries (es : list entry) := Forall (fun e : entry => snd e <> []) es.

Fixpoint hints (n : nat) (total : N) : list N :=
  match n with O => [] | S n' => (total - 1) :: hints n' (total - 1) end.

(* the general statement about the machine in the middle of a group *)
Lemma iter_collect_spec : forall es k vs rem fuel,
  rem = lenN vs + lenN (flatten es) -> (length vs + length (flatten es) < fuel)%nat ->
  iter_collect fuel {| it_inner := es; it_multi := Some (k, vs); it_rem := rem |} =
  Val (combine (map (fun v => (k, v)) vs ++ flatten es) (hints (length vs + length (flatten es)) rem)).
Proof.
  intros es k vs rem fuel. revert es k vs rem.
  induction fuel as [|f IH]; intros es k vs rem Hrem Hf; [lia|].
  cbn [iter_collect]. unfold iter_next. cbn [it_multi it_rem it_inner].
  destruct vs as [|v vs'].
  - (* group exhausted: pull *)
    cbn [length map app plus] in *.
    revert Hrem Hf. induction es as [|[k2 vs2] es IHes]; intros Hrem Hf.
    + cbn. reflexivity.
    + cbn [iter_pull]. destruct vs2 as [|v2 vs2'].
      * cbn [flatten flat_map fst snd map app] in *. apply IHes; assumption.
      * cbn [flatten flat_map fst snd map app length] in *. fold (flatten es) in *.
        unfold dec. unfold lenN in Hrem. cbn [length] in Hrem.
        destruct (rem =? 0) eqn:E0; [lia|]. cbn [rbind].
        rewrite (IH es k2 vs2' (rem - 1)).
        -- cbn [rbind it_rem]. rewrite ?app_length, ?map_length. cbn [hints combine].
           reflexivity.
        -- unfold lenN. rewrite app_length, map_length in Hrem. lia.
        -- rewrite app_length, map_length in Hf. lia.
  - unfold dec. unfold lenN in Hrem. cbn [length] in Hrem.
    destruct (rem =? 0) eqn:E0; [lia|]. cbn [rbind].
    rewrite (IH es k vs' (rem - 1)).
    + cbn [rbind it_rem length map app plus hints combine]. reflexivity.
    + unfold lenN. lia.
    + cbn [length] in Hf. lia.
Qed.

Theorem iter_exact es :
  iter_collect (S (length (flatten es))) (iter_new es (lenN (flatten es))) =
  Val (combine (flatten es) (hints (length (flatten es)) (lenN (flatten es)))).
Proof.
  (* a fresh iterator behaves like one whose current group is empty *)
  pose proof (iter_collect_spec es [] [] (lenN (flatten es)) (S (length (flatten es)))) as H.
  cbn [length map app plus] in H. unfold lenN at 2 in H. cbn [length] in H.
  rewrite <- H by (unfold lenN; lia).
  unfold iter_new. cbn [iter_collect]. unfold iter_next. cbn [it_multi]. reflexivity.
Qed.

Lemma hints_last n total : N.of_nat n = total -> last (hints n total) 0 = 0.
Proof.
  revert total. induction n as [|n IH]; intros total H; [reflexivity|].
  cbn [hints]. destruct n as [|n'].
  - cbn. lia.
  - change (hints (S n') (total - 1)) with ((total - 1 - 1) :: hints n' (total - 1 - 1)).
    cbn [last]. specialize (IH (total - 1) ltac:(lia)). cbn [hints] in IH. exact IH.
Qed.

(* Drain: same walk, Some name exactly on the first value of each group *)
Definition drain_items (es : list entry) : list (option name * value) :=
  flat_map (fun e : entry => match snd e with
                             | [] => []
                             | v :: vs => (Some (fst e), v) :: map (fun v' => (None, v')) vs
                             end) es.

Lemma drain_items_length es : length (drain_items es) = length (flatten es).
Proof.
  induction es as [|[k vs] es IH]; [reflexivity|].
  cbn [drain_items flatten flat_map fst snd]. rewrite !app_length. fold (drain_items es) (flatten es).
  rewrite IH. destruct vs; cbn [length map]; rewrite ?map_length; reflexivity.
Qed.

Lemma drain_collect_spec : forall es vs rem fuel,
  rem = lenN vs + lenN (flatten es) -> (length vs + length (flatten es) < fuel)%nat ->
  drain_collect fuel {| dr_inner := es; dr_multi := Some (None, vs); dr_rem := rem |} =
  Val (combine (map (fun v => (None, v)) vs ++ drain_items es) (hints (length vs + length (flatten es)) rem)).
Proof.
  intros es vs rem fuel. revert es vs rem.
  induction fuel as [|f IH]; intros es vs rem Hrem Hf; [lia|].
  cbn [drain_collect]. unfold drain_next. cbn [dr_multi dr_rem dr_inner].
  destruct vs as [|v vs'].
  - cbn [length map app plus] in *.
    revert Hrem Hf. induction es as [|[k2 vs2] es IHes]; intros Hrem Hf.
    + cbn. reflexivity.
    + cbn [drain_pull]. destruct vs2 as [|v2 vs2'].
      * cbn [flatten drain_items flat_map fst snd map app] in *. apply IHes; assumption.
      * cbn [flatten drain_items flat_map fst snd map app length] in *.
        fold (flatten es) (drain_items es) in *.
        unfold dec. unfold lenN in Hrem. cbn [length] in Hrem.
        destruct (rem =? 0) eqn:E0; [lia|]. cbn [rbind].
        rewrite (IH es vs2' (rem - 1)).
        -- cbn [rbind dr_rem]. rewrite ?app_length, ?map_length. cbn [hints combine app].
           reflexivity.
        -- unfold lenN. rewrite app_length, map_length in Hrem. lia.
        -- rewrite app_length, map_length in Hf. lia.
  - unfold dec. unfold lenN in Hrem. cbn [length] in Hrem.
    destruct (rem =? 0) eqn:E0; [lia|]. cbn [rbind].
    rewrite (IH es vs' (rem - 1)).
    + cbn [rbind dr_rem length map app plus hints combine]. reflexivity.
    + unfold lenN. lia.
    + cbn [length] in Hf. lia.
Qed.

Theorem drain_exact es :
  drain_collect (S (length (flatten es))) (drain_new es (lenN (flatten es))) =
  Val (combine (drain_items es) (hints (length (flatten es)) (lenN (flatten es)))).
Proof.
  pose proof (drain_collect_spec es [] (lenN (flatten es)) (S (length (flatten es)))) as H.
  cbn [length map app plus] in H. unfold lenN at 2 in H. cbn [length] in H.
  rewrite <- H by (unfold lenN; lia).
  unfold drain_new. cbn [drain_collect]. unfold drain_next. cbn [dr_multi]. reflexivity.
Qed.

(* Removed: exact size hint, len never panics (F13 repaired) *)
Theorem removed_len_total (r : removed) :
  exact_len (removed_size_hint r) = Val (match r with Some vs => lenN vs | None => 0 end).
Proof. destruct r as [vs|]; cbn [removed_size_hint exact_len]; rewrite N.eqb_refl; reflexivity. Qed.

(* ---------- conversion from http::HeaderMap's drain ---------- *)
(* get_all after from_drain_go: appending the drained pairs in order *)
Fixpoint resolve (prev : name) (l : list (option name * value)) : list (name * value) :=
  match l with
  | [] => []
  | (on, v) :: r => let k := match on with Some k => k | None => prev end in (k, v) :: resolve k r
  end.

Lemma from_drain_go_refines : forall l m s prev, Rel m s ->
  Rel (from_drain_go m prev l) (s ++ resolve prev l).
Proof.
  induction l as [|[on v] l IH]; intros m s prev HR; cbn [from_drain_go resolve].
  - rewrite app_nil_r. exact HR.
  - set (k := match on with Some k => k | None => prev end).
    replace (s ++ (k, v) :: resolve k l) with ((s ++ [(k, v)]) ++ resolve k l)
      by (rewrite <- app_assoc; reflexivity).
    apply IH. exact (step_refines m s (OAppend k v) HR).
Qed.

Theorem from_drain_refines k v l :
  exists m, from_drain ((Some k, v) :: l) = Val m /\ Rel m ((k, v) :: resolve k l).
Proof.
  eexists. split; [reflexivity|].
  change ((k, v) :: resolve k l) with ([(k, v)] ++ resolve k l).
  apply from_drain_go_refines.
  exact (step_refines hm_new [] (OAppend k v) (conj Inv_nil (fun _ => eq_refl))).
Qed.

(* a drain of a well-formed map followed by from_drain gives back the same multimap:
   resolving the Option names of drain_items yields flatten *)
Lemma resolve_drain_items es prev : nonempty_entries es ->
  resolve prev (drain_items es) = flatten es.
Proof.
  intro Hne. revert prev. induction es as [|[k vs] es IH]; intro prev; [reflexivity|].
  inversion Hne; subst. cbn [snd] in *.
  cbn [drain_items flatten flat_map fst snd]. fold (drain_items es) (flatten es).
  destruct vs as [|v vs]; [congruence|].
  cbn [app resolve map]. f_equal.
  assert (Hg : forall vs0 rest, resolve k (map (fun v' => (None, v')) vs0 ++ rest) =
                                 map (fun v0 => (k, v0)) vs0 ++ resolve k rest).
  { induction vs0 as [|v0 vs0 IHv]; intro rest; [reflexivity|].
    cbn [map app resolve]. f_equal. apply IHv. }
  rewrite Hg. f_equal. apply IH. assumption.
Qed.

(* ---------- entry sequences in any order ---------- *)
Lemma find_In k vs m : NoDup (keys m) -> In (k, vs) m -> find k m = Some vs.
Proof.
  induction m as [|[k' vs'] m IH]; cbn [keys map fst In find]; intros Hnd Hin; [contradiction|].
  inversion Hnd as [|? ? Hni Hnd']; subst.
  destruct Hin as [Hin|Hin].
  - inversion Hin; subst. rewrite bytes_eqb_refl. reflexivity.
  - destruct (bytes_eqb k k') eqn:E; [|apply IH; assumption].
    apply bytes_eqb_eq in E; subst k'. exfalso. apply Hni.
    change k with (fst (k, vs)). apply in_map. exact Hin.
Qed.

Lemma find_Some_In k vs m : find k m = Some vs -> In (k, vs) m.
Proof.
  induction m as [|[k' vs'] m IH]; cbn [find In]; [discriminate|].
  destruct (bytes_eqb k k') eqn:E.
  - apply bytes_eqb_eq in E; subst. intro H; inversion H; subst. left; reflexivity.
  - intro H. right. apply IH. exact H.
Qed.

Lemma get_all_perm es m k : NoDup (keys m) -> Permutation es m -> get_all k es = get_all k m.
Proof.
  intros Hnd Hp. assert (Hnd' : NoDup (keys es)).
  { unfold keys. eapply Permutation_NoDup; [apply Permutation_map; apply Permutation_sym; exact Hp|exact Hnd]. }
  unfold get_all. destruct (find k m) as [vs|] eqn:E.
  - apply find_Some_In in E. rewrite (find_In k vs es Hnd'); [reflexivity|].
    eapply Permutation_in; [apply Permutation_sym; exact Hp|exact E].
  - destruct (find k es) as [vs|] eqn:E2; [|reflexivity].
    apply find_Some_In in E2. apply find_None_iff in E. exfalso. apply E.
    change k with (fst (k, vs)). apply in_map. eapply Permutation_in; [exact Hp|exact E2].
Qed.

Lemma values_flatten k es : NoDup (keys es) -> values k (flatten es) = get_all k es.
Proof.
  unfold get_all. induction es as [|[k' vs] es IH]; cbn [keys map fst]; intro Hnd; [reflexivity|].
  inversion Hnd as [|? ? Hni Hnd']; subst.
  cbn [flatten flat_map fst snd find]. fold (flatten es). rewrite values_app, IH by exact Hnd'.
  assert (Hg : forall vs0, values k (map (fun v => (k', v)) vs0) = if bytes_eqb k k' then vs0 else []).
  { induction vs0 as [|v0 vs0 IHv]; [destruct (bytes_eqb k k'); reflexivity|].
    unfold values in *. cbn [map filter fst]. destruct (bytes_eqb k k'); cbn [map snd]; [f_equal|]; exact IHv. }
  rewrite Hg. destruct (bytes_eqb k k') eqn:E; [|reflexivity].
  apply bytes_eqb_eq in E; subst k'. apply find_None_iff in Hni. rewrite Hni. apply app_nil_r.
Qed.

Lemma len_perm es m : Permutation es m -> lenN (flatten es) = len m.
Proof.
  intro Hp. rewrite len_flatten. unfold lenN. f_equal. apply Permutation_length.
  unfold flatten. apply Permutation_flat_map. exact Hp.
Qed.

(* HeaderMap -> http::HeaderMap -> HeaderMap: whatever order either hash map uses, every
   name keeps exactly its values in order. [es] = the entries as http's drain groups them. *)
Theorem http_roundtrip es : NoDup (keys es) -> nonempty_entries es ->
  match drain_items es with
  | [] => es = []
  | _ => exists m', from_drain (drain_items es) = Val m' /\ Inv m' /\
                    forall k, get_all k m' = get_all k es
  end.
Proof.
  intros Hnd Hne. destruct es as [|[k vs] es]; [reflexivity|].
  inversion Hne as [|? ? Hvs Hne']; subst. cbn [snd] in Hvs. destruct vs as [|v vs]; [congruence|].
  pose proof (resolve_drain_items ((k, v :: vs) :: es) k Hne) as Hres.
  cbn [drain_items flat_map fst snd app] in *. fold (drain_items es) in *.
  destruct (from_drain_refines k v (map (fun v' => (None, v')) vs ++ drain_items es)) as (m' & Hm & HR).
  exists m'. split; [exact Hm|]. split; [apply HR|].
  intro k2. destruct HR as [_ Hv]. rewrite Hv.
  cbn [resolve] in Hres. rewrite Hres. apply values_flatten. exact Hnd.
Qed.
