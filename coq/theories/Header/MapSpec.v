(* Reference multimap for C18: the flat list of (name, value) pairs in insertion order.
   Short enough to read in a minute; HeaderMap (Map.v) is proved to refine it. *)
From AV Require Import Lib.Base Header.Map.

Definition spec := list (name * value).

Definition values (k : name) (l : spec) : list value :=
  map snd (filter (fun p => bytes_eqb k (fst p)) l).
Definition without (k : name) (l : spec) : spec :=
  filter (fun p => negb (bytes_eqb k (fst p))) l.

Definition spec_step (l : spec) (o : op) : spec :=
  match o with
  | OInsert k v => without k l ++ [(k, v)]
  | OAppend k v => l ++ [(k, v)]
  | ORemove k => without k l
  | ORetain pid => filter (fun p => retain_pred pid (fst p) (snd p)) l
  | OClear => []
  | ODrain => []
  end.
Definition spec_run (ops : list op) : spec := fold_left spec_step ops [].

(* what insert / remove hand back *)
Definition spec_removed (l : spec) (o : op) : list value :=
  match o with
  | OInsert k _ | ORemove k => values k l
  | _ => []
  end.
