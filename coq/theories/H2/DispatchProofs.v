From AV Require Import Lib.Base H2.Dispatch.

(* the ping-pong block always terminates within three rounds of its loop *)
Lemma pp_poll_total : forall in_flight pongs timer ping_ok,
  pp_poll in_flight false pongs timer ping_ok <> None.
Proof.
  intros [] pongs timer ping_ok; unfold pp_poll; cbn [pp_loop].
  - destruct (next_pong pongs) as [[] ps]; cbn [orb negb andb]; discriminate.
  - cbn [orb]. destruct timer; cbn [negb]; [|discriminate].
    destruct ping_ok; cbn [negb]; [|discriminate].
    destruct (next_pong pongs) as [[] ps]; cbn [orb negb andb]; discriminate.
Qed.

(* per poll call: at most one PING is sent, only while none is outstanding at that moment; the
   connection is closed for a missing pong only if a ping was outstanding when the call began;
   a ping is marked outstanding afterwards only if one was before or one was sent; a new PING
   while one was outstanding is only sent after its pong arrived *)
Lemma pp_poll_spec : forall in_flight pongs timer ping_ok r fl acts ps,
  pp_poll in_flight false pongs timer ping_ok = Some (r, fl, acts, ps) ->
  (pings acts <= 1)%nat /\
  (r = PClose -> in_flight = true /\ timer = true /\ acts = []) /\
  (fl = true -> in_flight = true \/ pings acts = 1%nat) /\
  (in_flight = true -> pings acts = 1%nat -> fst (next_pong pongs) = PgReady).
Proof.
  intros [] pongs timer ping_ok r fl acts ps; unfold pp_poll; cbn [pp_loop].
  - destruct (next_pong pongs) as [[] p1] eqn:E1; cbn [orb negb andb fst].
    + intro H; inversion H; subst. cbn. repeat split; try lia; try discriminate.
      * destruct timer; [reflexivity|discriminate].
    + intro H; inversion H; subst. cbn. repeat split; try lia; try discriminate.
    + intro H; inversion H; subst. cbn. repeat split; try lia; discriminate.
  - cbn [orb]. destruct timer; cbn [negb].
    + destruct ping_ok; cbn [negb].
      * destruct (next_pong pongs) as [[] p1]; cbn [orb negb andb]; intro H; inversion H; subst;
          cbn; repeat split; try lia; try discriminate.
      * intro H; inversion H; subst. cbn. repeat split; try lia; discriminate.
    + intro H; inversion H; subst. cbn. repeat split; try lia; discriminate.
Qed.

(* accept loop: the spawned tasks are exactly the accepted requests of a prefix of the answers, in
   order, each once, with its HEAD flag; nothing is spawned after the connection ended *)
Lemma dispatch_spawns : forall ka accs fl ppos sp res acts,
  dispatch ka fl accs ppos = (sp, res, acts) ->
  exists k, sp = reqs_of (firstn k accs).
Proof.
  induction accs as [|a accs IH]; intros fl ppos sp res acts H; cbn [dispatch] in H.
  - inversion H; subst. exists O. reflexivity.
  - destruct a as [id h| | |].
    + destruct (dispatch ka fl accs ppos) as [[sp' res'] acts'] eqn:D. inversion H; subst.
      destruct (IH _ _ _ _ _ D) as [k ->]. exists (S k). reflexivity.
    + inversion H; subst. exists O. reflexivity.
    + inversion H; subst. exists O. reflexivity.
    + destruct (negb ka).
      * destruct (IH _ _ _ _ _ H) as [k ->]. exists (S k). reflexivity.
      * destruct (next_ppo ppos) as [o ppos'].
        destruct (pp_poll fl false (o_pongs o) (o_timer o) (o_ping_ok o)) as [[[[r fl'] a1] ps]|];
          [|inversion H; subst; exists O; reflexivity].
        destruct r; try (inversion H; subst; exists O; reflexivity).
        destruct (dispatch ka fl' accs ppos') as [[sp' res'] acts'] eqn:D. inversion H; subst.
        destruct (IH _ _ _ _ _ D) as [k ->]. exists (S k). reflexivity.
Qed.

(* while the connection neither ends nor fails (keep-alive off: no timer can close it), every
   accepted request gets its task *)
Lemma dispatch_all : forall accs fl ppos,
  forallb (fun a => negb (is_stop a)) accs = true ->
  dispatch false fl accs ppos = (reqs_of accs, DOpen, []).
Proof.
  induction accs as [|a accs IH]; intros fl ppos H; [reflexivity|].
  cbn [forallb] in H. apply andb_true_iff in H as [Ha H].
  destruct a; cbn [is_stop negb] in Ha; try discriminate; cbn [dispatch negb reqs_of];
    rewrite IH by exact H; reflexivity.
Qed.
