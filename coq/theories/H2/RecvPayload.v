(* Model of `h2::Payload` (actix-http/src/h2/mod.rs): the request-body stream handed to the
   handler. `poll_next` forwards `RecvStream::poll_data` and, for every chunk it delivers, gives the
   chunk's length back to the peer with `flow_control().release_capacity(len)`.

   `h2::RecvStream` is external: its answers are an oracle list of [rev]; the results of
   `release_capacity` are an oracle list [rels] ([None] = Ok(()), [Some e] = Err(e); an exhausted
   list answers Ok). h2 errors are opaque codes; `err.into()` is `PayloadError::Http2Payload(err)`
   for both sources. No proofs in this file. *)
From AV Require Import Lib.Base.

Inductive rev :=
| RData (b : bytes)     (* Ready(Some(Ok(chunk))) *)
| RErr (e : N)          (* Ready(Some(Err(e))) *)
| RPending              (* Pending *)
| REnd.                 (* Ready(None) *)

Inductive payload_error := Http2Payload (e : N).

(* what one `poll_next` call returns to the handler *)
Inductive pitem :=
| PChunk (b : bytes)               (* Ready(Some(Ok(chunk))) *)
| PErr (e : payload_error)         (* Ready(Some(Err(e))) *)
| PPending
| PEnd.                            (* Ready(None) *)

(* calls of release_capacity: amount and whether it succeeded *)
Inductive relop := RelOk (n : N) | RelFail (n : N).

Definition next_rel (rels : list (option N)) : option N * list (option N) :=
  match rels with [] => (None, []) | r :: rest => (r, rest) end.

(* Payload::poll_next for one answer of the stream *)
Definition poll_next (ev : rev) (rels : list (option N)) : pitem * list relop * list (option N) :=
  match ev with
  | RPending => (PPending, [], rels)                      (* ready! *)
  | RData chunk =>
      let len := lenN chunk in
      let '(r, rels') := next_rel rels in
      match r with
      | None => (PChunk chunk, [RelOk len], rels')
      | Some err => (PErr (Http2Payload err), [RelFail len], rels')
      end
  | RErr err => (PErr (Http2Payload err), [], rels)
  | REnd => (PEnd, [], rels)
  end.

(* the handler polls once per stream answer (any polling discipline is a prefix of this) *)
Fixpoint drain (evs : list rev) (rels : list (option N)) : list pitem * list relop :=
  match evs with
  | [] => ([], [])
  | ev :: r =>
      let '(it, ops, rels') := poll_next ev rels in
      let '(its, ops') := drain r rels' in
      (it :: its, ops ++ ops')
  end.

(* observations *)
Fixpoint received (evs : list rev) : list bytes :=
  match evs with [] => [] | RData b :: r => b :: received r | _ :: r => received r end.
Fixpoint delivered (its : list pitem) : list bytes :=
  match its with [] => [] | PChunk b :: r => b :: delivered r | _ :: r => delivered r end.
Fixpoint released (ops : list relop) : N :=
  match ops with [] => 0 | RelOk n :: r => n + released r | RelFail _ :: r => released r end.
Definition rel_amount (o : relop) : N := match o with RelOk n | RelFail n => n end.
Definition rel_ok (r : option N) : bool := match r with None => true | Some _ => false end.
