(* Model of `handle_response` (actix-http/src/h2/dispatcher.rs) against an abstract
   `h2::SendStream`.

   The stream is external code. Its answers are oracles:
     - [caps]  : the successive results of `poll_fn(|cx| stream.poll_capacity(cx)).await`
                 ([CapNone] = `None`, [CapErr] = `Some(Err _)`, [CapOk n] = `Some(Ok(n))` with ANY n,
                 0 and values larger than requested included); an exhausted list means the await
                 never completes (the task stays parked: [OBlocked]);
     - [sds]   : the successive results of `send_data` ([true] = Ok; exhausted list = Ok);
     - [sr_ok] : the result of `send_response`.
   The body is a script of `poll_next` answers; the end of the list is `Ready(None)`;
   [BPending] is a `Pending` followed by a wake-up (the `.await` polls again).

   [body_loop] is the code after the F10 repair (empty chunks are skipped); [body_loop_orig] is the
   loop as it was, with the behaviour of h2 on a zero-capacity request as an explicit parameter.
   No proofs in this file. *)
From AV Require Import Lib.Base H2.Prepare.

Inductive cap_ans := CapNone | CapErr | CapOk (n : N).
Inductive bev := BChunk (b : bytes) | BPending | BErr.

(* calls on the stream that succeeded, in order *)
Inductive sop :=
| OHead (hs : list header) (eos : bool)     (* send_response(res, eos) *)
| OReserve (n : N)                          (* reserve_capacity(n) *)
| OData (b : bytes) (eos : bool).           (* send_data(b, eos) *)

Inductive outcome :=
| ODone         (* Ok(()) after END_STREAM was sent *)
| ODropped      (* poll_capacity = None: "No capacity left. drop body and return" Ok(()) *)
| OErrResponse  (* Err(DispatchError::SendResponse) *)
| OErrSend      (* Err(DispatchError::SendData) *)
| OErrBody      (* Err(DispatchError::ResponseBody) *)
| OBlocked.     (* parked in poll_capacity for ever *)

Definition next_sd (sds : list bool) : bool * list bool :=
  match sds with [] => (true, []) | b :: r => (b, r) end.

Inductive sres := SBreak (caps : list cap_ans) (sds : list bool) | SStop (o : outcome).

Section Loop.
  Variable CHUNK : N.   (* CHUNK_SIZE *)

  (* the `'send: loop` for one chunk *)
  Fixpoint send_chunk (chunk : bytes) (caps : list cap_ans) (sds : list bool) : list sop * sres :=
    let chunk_size := N.min (lenN chunk) CHUNK in
    match caps with
    | [] => ([OReserve chunk_size], SStop OBlocked)
    | CapNone :: _ => ([OReserve chunk_size], SStop ODropped)
    | CapErr :: _ => ([OReserve chunk_size], SStop OErrSend)
    | CapOk cap :: caps' =>
        let k := N.to_nat (N.min (lenN chunk) cap) in
        let bytes := firstn k chunk in       (* chunk.split_to(min(len, cap)) *)
        let rest := skipn k chunk in
        let '(ok, sds') := next_sd sds in
        if negb ok then ([OReserve chunk_size], SStop OErrSend)
        else match rest with
             | [] => ([OReserve chunk_size; OData bytes false], SBreak caps' sds')
             | _ :: _ =>
                 let '(t, r) := send_chunk rest caps' sds' in
                 (OReserve chunk_size :: OData bytes false :: t, r)
             end
    end.

  (* the closing `send_data(Bytes::new(), true)` *)
  Definition finish (sds : list bool) : list sop * outcome :=
    if fst (next_sd sds) then ([OData [] true], ODone) else ([], OErrSend).

  (* `while let Some(res) = poll_fn(|cx| body.poll_next(cx)).await` -- repaired code *)
  Fixpoint body_loop (evs : list bev) (caps : list cap_ans) (sds : list bool) : list sop * outcome :=
    match evs with
    | [] => finish sds
    | BPending :: r => body_loop r caps sds
    | BErr :: _ => ([], OErrBody)
    | BChunk [] :: r => body_loop r caps sds            (* if chunk.is_empty() { continue; } *)
    | BChunk c :: r =>
        match send_chunk c caps sds with
        | (t, SStop o) => (t, o)
        | (t, SBreak caps' sds') => let '(t', o) := body_loop r caps' sds' in (t ++ t', o)
        end
    end.

  (* the loop before the repair. [zero_pends]: what `poll_capacity` does after
     `reserve_capacity(0)` when no capacity event is outstanding -- [true]: it never becomes
     ready (h2 0.3.27: `send_capacity_inc` is only set when capacity is assigned, and a request of 0
     assigns nothing); [false]: it answers from the oracle like any other request *)
  Fixpoint body_loop_orig (zero_pends : bool) (evs : list bev) (caps : list cap_ans) (sds : list bool)
    : list sop * outcome :=
    match evs with
    | [] => finish sds
    | BPending :: r => body_loop_orig zero_pends r caps sds
    | BErr :: _ => ([], OErrBody)
    | BChunk c :: r =>
        match (match c with
               | [] => if zero_pends then ([OReserve 0], SStop OBlocked) else send_chunk c caps sds
               | _ => send_chunk c caps sds
               end) with
        | (t, SStop o) => (t, o)
        | (t, SBreak caps' sds') =>
            let '(t', o) := body_loop_orig zero_pends r caps' sds' in (t ++ t', o)
        end
    end.

  Record response := mkResp {
    r_head_req : bool;            (* request method was HEAD *)
    r_status : N;
    r_hdrs : list header;
    r_size : bsize;               (* body.size() *)
    r_body : list bev;
  }.

  (* handle_response *)
  Definition handle_response (now : bytes) (r : response) (sr_ok : bool)
             (caps : list cap_ans) (sds : list bool) : list sop * outcome :=
    let '(hs, size) := prepare_response now (r_status r) (r_hdrs r) (r_size r) in
    let eof_or_head := is_eof size || r_head_req r in
    if negb sr_ok then ([], OErrResponse)
    else if eof_or_head then ([OHead hs true], ODone)
    else let '(t, o) := body_loop (r_body r) caps sds in (OHead hs false :: t, o).
End Loop.

(* observations on a trace *)
Fixpoint data_of (t : list sop) : bytes :=
  match t with
  | [] => []
  | OData b _ :: r => b ++ data_of r
  | _ :: r => data_of r
  end.
Fixpoint frames_of (t : list sop) : list (bytes * bool) :=
  match t with
  | [] => []
  | OData b e :: r => (b, e) :: frames_of r
  | _ :: r => frames_of r
  end.
Fixpoint eos_count (t : list sop) : nat :=
  match t with
  | [] => O
  | OData _ true :: r => S (eos_count r)
  | OHead _ true :: r => S (eos_count r)
  | _ :: r => eos_count r
  end.
Fixpoint reserves_of (t : list sop) : list N :=
  match t with
  | [] => []
  | OReserve n :: r => n :: reserves_of r
  | _ :: r => reserves_of r
  end.

(* the bytes of the chunks of a script, up to the first error *)
Fixpoint body_bytes (evs : list bev) : bytes :=
  match evs with
  | [] => []
  | BChunk c :: r => c ++ body_bytes r
  | BPending :: r => body_bytes r
  | BErr :: _ => []
  end.
Fixpoint body_fails (evs : list bev) : bool :=
  match evs with
  | [] => false
  | BErr :: _ => true
  | _ :: r => body_fails r
  end.
