(* Translator tie for C08: the literals of h2/dispatcher.rs that tools/gen/h2.py writes into
   Gen/H2Tables.v on every check run are the ones the model is built from. If one of them changes in
   the source (a status added to the BodySize::None arm, a header name added to or removed from the
   skip arms, the content-length guard, the end-of-stream rule, ...) a lemma below stops compiling or
   stops being true, in addition to the correspondence check. *)
From AV Require Import Lib.Base Gen.H2Tables H2.Prepare H2.SendLoop H2.Spec H2.PrepareProofs H2.LengthProofs.

Definition memN (s : N) (l : list N) : bool := existsb (N.eqb s) l.
Definition memB (k : bytes) (l : list bytes) : bool := existsb (bytes_eqb k) l.

Definition range (lo : N) (n : nat) : list N := map (fun i => lo + N.of_nat i) (seq 0 n).

Lemma in_range lo n s : lo <= s < lo + N.of_nat n -> In s (range lo n).
Proof.
  intro H. unfold range. apply in_map_iff. exists (N.to_nat (s - lo)). split; [lia|].
  apply in_seq. lia.
Qed.

(* the `match head.status` block as the generated tables describe it *)
Definition status_size_gen (status : N) (skip_len : bool) (size : bsize) : bool * bsize :=
  if memN status H2_NONE_STATUSES then (skip_len, SNone)
  else if memN status H2_STREAM_STATUSES then (H2_STREAM_SETS_SKIP_LEN || skip_len, SStream)
  else (skip_len, size).

Definition status_rule_agrees (status : N) : bool :=
  Bool.eqb (code_bodiless status) (memN status H2_NONE_STATUSES)
  && Bool.eqb (status =? 101) (memN status H2_STREAM_STATUSES).

(* finite sweep over every status code an http::StatusCode can hold *)
Lemma status_rule_sweep : forallb status_rule_agrees (range 100 900) = true.
Proof. vm_compute. reflexivity. Qed.

Lemma status_rule_matches_generated : forall status,
  100 <= status <= 999 ->
  code_bodiless status = memN status H2_NONE_STATUSES /\
  code_no_length status = (memN status H2_NONE_STATUSES || memN status H2_STREAM_STATUSES) /\
  forall skip_len size, status_size status skip_len size = status_size_gen status skip_len size.
Proof.
  intros status Hr.
  assert (Hin : In status (range 100 900)) by (apply in_range; lia).
  pose proof (proj1 (forallb_forall _ _) status_rule_sweep status Hin) as H.
  unfold status_rule_agrees in H. apply andb_true_iff in H as [H1 H2].
  apply Bool.eqb_prop in H1, H2.
  split; [exact H1|]. split; [unfold code_no_length; rewrite H1, H2; reflexivity|].
  intros sl size. unfold status_size, status_size_gen. fold (code_bodiless status).
  rewrite <- H1, <- H2.
  replace H2_STREAM_SETS_SKIP_LEN with true by reflexivity. reflexivity.
Qed.

(* header names: the model's skip predicate is membership in the generated name lists, for EVERY
   byte string (not a sweep): the model's name set and the generated one are the same set *)
Definition generated_skipped : list bytes := H2_SKIPPED_CONSTS ++ H2_SKIPPED_STATIC.

Lemma memB_In k l : memB k l = true <-> In k l.
Proof.
  unfold memB. rewrite existsb_exists. split.
  - intros [x [Hin E]]. apply bytes_eqb_eq in E. subst. exact Hin.
  - intro H. exists k. split; [exact H|apply bytes_eqb_refl].
Qed.

Lemma memB_same_set l1 l2 :
  forallb (fun x => memB x l2) l1 && forallb (fun x => memB x l1) l2 = true ->
  forall k, memB k l1 = memB k l2.
Proof.
  intros H k. apply andb_true_iff in H as [H1 H2].
  rewrite forallb_forall in H1, H2.
  destruct (memB k l1) eqn:E1, (memB k l2) eqn:E2; try reflexivity.
  - apply memB_In in E1. apply H1 in E1. apply memB_In in E1. apply memB_In in E1. congruence.
  - apply memB_In in E2. apply H2 in E2. apply memB_In in E2. apply memB_In in E2. congruence.
Qed.

Lemma dropped_is_membership skip k :
  dropped skip k = memB k forbidden || (bytes_eqb k h_content_length && skip).
Proof.
  unfold dropped, memB, forbidden. cbn [existsb].
  destruct (bytes_eqb k h_connection), (bytes_eqb k h_transfer_encoding), (bytes_eqb k h_upgrade),
    (bytes_eqb k h_keep_alive), (bytes_eqb k h_proxy_connection), (bytes_eqb k h_content_length), skip;
    reflexivity.
Qed.

Lemma skipped_headers_match_generated : forall skip k,
  dropped skip k = memB k generated_skipped || (bytes_eqb k h_content_length && skip).
Proof.
  intros skip k. rewrite dropped_is_membership.
  rewrite (memB_same_set forbidden generated_skipped); [reflexivity|vm_compute; reflexivity].
Qed.

Lemma spec_names_match_generated : forall k,
  memB k connection_specific = memB k generated_skipped.
Proof. apply memB_same_set. vm_compute. reflexivity. Qed.

(* rules that are tied as literal presence checks: each definition exists only while the anchored
   source pattern is found; the arm counts pin that no further case was added *)
Lemma literal_rules_present :
  H2_SKIP_LEN_UNLESS_STREAM && H2_CL_SKIPPED_IF_SKIP_LEN && H2_DATE_NOTED_AND_KEPT
  && H2_STREAM_SETS_SKIP_LEN && H2_EOS_RULE && H2_IS_EOF_NONE_OR_SIZED0
  && H2_CHUNK_CAP_RULE && H2_SPLIT_RULE && H2_SKIP_EMPTY_CHUNK && H2_FINAL_FRAME_RULE
  && (H2_STATUS_ARMS =? 2) && (H2_COPY_ARMS =? 5) = true.
Proof. reflexivity. Qed.

(* the initialiser of skip_len, evaluated by the translator for each BodySize variant from the
   expression as written in the source (`size != &BodySize::Stream`), is the model's
   (prepare_response uses it: LengthProofs.prepare_uses_skip_len_init, by reflexivity) *)
Lemma skip_len_init_matches_generated : forall size,
  skip_len_init size =
  match size with
  | SNone => H2_SKIP_LEN_INIT_NONE
  | SSized _ => H2_SKIP_LEN_INIT_SIZED
  | SStream => H2_SKIP_LEN_INIT_STREAM
  end.
Proof. intros []; reflexivity. Qed.
