(* Proofs about `handle_response` as a whole (head + body loop). *)
From AV Require Import Lib.Base H2.Prepare H2.SendLoop H2.Spec H2.PrepareProofs H2.SendLoopProofs.

Section Resp.
  Variable CHUNK : N.

  (* exactly one END_STREAM, on the last operation, iff the response completes *)
  Lemma one_end_stream : forall now r caps sds t o,
    handle_response CHUNK now r true caps sds = (t, o) ->
    (o = ODone -> exists t0 x, t = t0 ++ [x] /\ is_eos_op x = true /\ eos_count t0 = O) /\
    (o <> ODone -> eos_count t = O).
  Proof.
    intros now r caps sds t o H. apply handle_response_spec in H. cbn zeta in H.
    destruct (is_eof _ || r_head_req r).
    - destruct H as [-> ->]. split; [|intro C; contradiction].
      intros _. exists [], (OHead (fst (prepare_response now (r_status r) (r_hdrs r) (r_size r))) true).
      repeat split.
    - destruct H as [tb [-> Hb]]. apply body_loop_spec in Hb as [rest [_ [Hdone Hnd]]]. split.
      + intro Ho. destruct (Hdone Ho) as [_ [_ [t0 [-> Hz]]]].
        exists (OHead (fst (prepare_response now (r_status r) (r_hdrs r) (r_size r))) false :: t0), (OData [] true).
        repeat split. cbn [eos_count]. exact Hz.
      + intro Ho. cbn [eos_count]. apply Hnd; exact Ho.
  Qed.

  (* the DATA payloads are a prefix of the handler's body; all of it when the response completes *)
  Lemma response_data : forall now r caps sds t o,
    handle_response CHUNK now r true caps sds = (t, o) ->
    exists rest, body_bytes (r_body r) = data_of t ++ rest /\
      (o = ODone ->
       r_head_req r = false ->
       is_eof (snd (prepare_response now (r_status r) (r_hdrs r) (r_size r))) = false ->
       rest = [] /\ body_fails (r_body r) = false).
  Proof.
    intros now r caps sds t o H. apply handle_response_spec in H. cbn zeta in H.
    destruct (is_eof _ || r_head_req r) eqn:E.
    - destruct H as [-> ->]. exists (body_bytes (r_body r)). split; [reflexivity|].
      intros _ Hh He. rewrite Hh, He in E. discriminate.
    - destruct H as [tb [-> Hb]]. apply body_loop_spec in Hb as [rest [Hd [Hdone _]]].
      exists rest. cbn [data_of]. split; [exact Hd|].
      intros Ho _ _. destruct (Hdone Ho) as [Hr [Hf _]]. split; assumption.
  Qed.

  Lemma bodiless_outside_known : forall now r caps sds,
    (r_head_req r = true \/ rfc_bodiless (r_status r) = true) ->
    known_status_body r = false ->
    handle_response CHUNK now r true caps sds =
      ([OHead (fst (prepare_response now (r_status r) (r_hdrs r) (r_size r))) true], ODone).
  Proof.
    intros now r caps sds H K. apply handle_response_bodiless; [|reflexivity].
    destruct (r_head_req r) eqn:Eh; [left; reflexivity|right].
    destruct H as [H|H]; [discriminate|].
    rewrite prepare_size. unfold known_status_body in K. rewrite Eh in K. cbn [negb andb] in K.
    unfold rfc_bodiless in H. unfold code_bodiless.
    destruct (r_status r =? 204) eqn:E204; [reflexivity|].
    destruct (r_status r =? 100) eqn:E100; [reflexivity|].
    destruct (r_status r =? 102) eqn:E102; [reflexivity|].
    cbn [orb negb andb] in *.
    destruct (r_status r =? 101) eqn:E101; [discriminate|]. cbn [orb] in K.
    rewrite andb_true_r in K. rewrite orb_false_r in H. rewrite andb_true_r in K.
    rewrite orb_comm in H. rewrite H in K. cbn [andb] in K.
    destruct (is_eof (r_size r)); [reflexivity|discriminate].
  Qed.

  (* honest body: the declared length is the number of bytes the client gets *)
  Lemma content_length_matches : forall now r caps sds t,
    handle_response CHUNK now r true caps sds = (t, ODone) ->
    r_head_req r = false -> code_no_length (r_status r) = false ->
    r_size r = SSized (lenN (body_bytes (r_body r))) ->
    exists hs eos tb, t = OHead hs eos :: tb /\
      values_of h_content_length hs = [itoa (lenN (data_of t))].
  Proof.
    intros now r caps sds t H Hh Hs Hsz.
    assert (Hcl : values_of h_content_length (fst (prepare_response now (r_status r) (r_hdrs r) (r_size r)))
                  = [itoa (lenN (body_bytes (r_body r)))]).
    { rewrite content_length_rule; [rewrite Hsz, Hs; reflexivity|rewrite Hsz; discriminate]. }
    pose proof (response_data _ _ _ _ _ _ H) as [rest [Hd Hdone]].
    pose proof (prepare_size now (r_status r) (r_hdrs r) (r_size r)) as Hps.
    unfold code_no_length in Hs. apply orb_false_iff in Hs as [Hb H101]. rewrite Hb, H101 in Hps.
    apply handle_response_spec in H. cbn zeta in H. rewrite Hh, orb_false_r in *.
    destruct (is_eof (snd (prepare_response now (r_status r) (r_hdrs r) (r_size r)))) eqn:Ee.
    - destruct H as [-> _]. eexists _, true, []. split; [reflexivity|]. rewrite Hcl. cbn [data_of].
      rewrite Hps, Hsz in Ee. cbn [is_eof] in Ee.
      destruct (lenN (body_bytes (r_body r))); [reflexivity|discriminate].
    - destruct H as [tb [-> _]]. eexists _, false, tb. split; [reflexivity|]. rewrite Hcl.
      destruct (Hdone eq_refl eq_refl eq_refl) as [-> _]. rewrite app_nil_r in Hd.
      rewrite Hd. reflexivity.
  Qed.
End Resp.
