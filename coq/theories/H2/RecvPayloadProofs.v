(* Proofs about `h2::Payload::poll_next`, for every sequence of stream answers and every sequence
   of release_capacity results. *)
From AV Require Import Lib.Base H2.RecvPayload.

Lemma released_app a b : released (a ++ b) = released a + released b.
Proof. induction a as [|[] a IH]; cbn [released app]; rewrite ?IH; lia. Qed.

Lemma lenN_concat_cons (b : bytes) (l : list bytes) : lenN (concat (b :: l)) = lenN b + lenN (concat l).
Proof. cbn [concat]. unfold lenN. rewrite app_length. lia. Qed.

(* capacity given back = bytes handed to the handler: never more, never less *)
Lemma released_eq_delivered : forall evs rels its ops,
  drain evs rels = (its, ops) -> released ops = lenN (concat (delivered its)).
Proof.
  induction evs as [|ev evs IH]; intros rels its ops H; cbn [drain] in H.
  - inversion H; subst. reflexivity.
  - destruct (poll_next ev rels) as [[it o1] rels'] eqn:E.
    destruct (drain evs rels') as [its' ops'] eqn:D. inversion H; subst.
    specialize (IH _ _ _ D). rewrite released_app, IH.
    destruct ev as [b|e| |]; cbn [poll_next] in E.
    + destruct (next_rel rels) as [[err|] r']; inversion E; subst; cbn [released delivered].
      * lia.
      * rewrite lenN_concat_cons. lia.
    + inversion E; subst. cbn [released delivered]. lia.
    + inversion E; subst. cbn [released delivered]. lia.
    + inversion E; subst. cbn [released delivered]. lia.
Qed.

(* release_capacity is called exactly once per data chunk, with that chunk's length, and for
   nothing else (not for an error item, not at the end, not on Pending) *)
Lemma release_calls : forall evs rels its ops,
  drain evs rels = (its, ops) -> map rel_amount ops = map lenN (received evs).
Proof.
  induction evs as [|ev evs IH]; intros rels its ops H; cbn [drain] in H.
  - inversion H; subst. reflexivity.
  - destruct (poll_next ev rels) as [[it o1] rels'] eqn:E.
    destruct (drain evs rels') as [its' ops'] eqn:D. inversion H; subst.
    specialize (IH _ _ _ D). rewrite map_app, IH.
    destruct ev as [b|e| |]; cbn [poll_next] in E.
    + destruct (next_rel rels) as [[err|] r']; inversion E; subst; reflexivity.
    + inversion E; subst. reflexivity.
    + inversion E; subst. reflexivity.
    + inversion E; subst. reflexivity.
Qed.

(* item-by-item view when release_capacity never fails: the handler sees the stream's answers *)
Definition item_of (ev : rev) : pitem :=
  match ev with
  | RData b => PChunk b | RErr e => PErr (Http2Payload e) | RPending => PPending | REnd => PEnd
  end.

Lemma next_rel_ok rels : forallb rel_ok rels = true ->
  fst (next_rel rels) = None /\ forallb rel_ok (snd (next_rel rels)) = true.
Proof.
  destruct rels as [|[e|] r]; cbn [next_rel forallb rel_ok fst snd andb]; intro H;
    try discriminate; split; auto.
Qed.

Lemma transparent_when_release_ok : forall evs rels its ops,
  forallb rel_ok rels = true -> drain evs rels = (its, ops) ->
  its = map item_of evs /\ delivered its = received evs.
Proof.
  induction evs as [|ev evs IH]; intros rels its ops Hok H; cbn [drain] in H.
  - inversion H; subst. split; reflexivity.
  - destruct (poll_next ev rels) as [[it o1] rels'] eqn:E.
    destruct (drain evs rels') as [its' ops'] eqn:D. inversion H; subst.
    destruct ev as [b|e| |]; cbn [poll_next] in E.
    + destruct (next_rel_ok rels Hok) as [H1 H2].
      destruct (next_rel rels) as [r r']. cbn [fst snd] in *. subst r. inversion E; subst.
      destruct (IH _ _ _ H2 D) as [-> Hd]. cbn [map item_of delivered received]. rewrite Hd. split; reflexivity.
    + inversion E; subst. destruct (IH _ _ _ Hok D) as [-> Hd]. cbn [map item_of delivered received]. split; [reflexivity|exact Hd].
    + inversion E; subst. destruct (IH _ _ _ Hok D) as [-> Hd]. cbn [map item_of delivered received]. split; [reflexivity|exact Hd].
    + inversion E; subst. destruct (IH _ _ _ Hok D) as [-> Hd]. cbn [map item_of delivered received]. split; [reflexivity|exact Hd].
Qed.

(* in general the delivered chunks are a subsequence of the received ones (a chunk is lost only
   when its release_capacity fails, and then the handler gets that error instead) *)
Inductive subseq {A} : list A -> list A -> Prop :=
| sub_nil : subseq [] []
| sub_keep x a b : subseq a b -> subseq (x :: a) (x :: b)
| sub_skip x a b : subseq a b -> subseq a (x :: b).

Lemma delivered_subseq : forall evs rels its ops,
  drain evs rels = (its, ops) -> subseq (delivered its) (received evs).
Proof.
  induction evs as [|ev evs IH]; intros rels its ops H; cbn [drain] in H.
  - inversion H; subst. constructor.
  - destruct (poll_next ev rels) as [[it o1] rels'] eqn:E.
    destruct (drain evs rels') as [its' ops'] eqn:D. inversion H; subst.
    specialize (IH _ _ _ D).
    destruct ev as [b|e| |]; cbn [poll_next] in E.
    + destruct (next_rel rels) as [[err|] r']; inversion E; subst; cbn [delivered received];
        constructor; exact IH.
    + inversion E; subst. exact IH.
    + inversion E; subst. exact IH.
    + inversion E; subst. exact IH.
Qed.

(* every error the handler sees is an h2 error, wrapped as Http2Payload, that came from the
   stream or from a failed release_capacity; and every stream error is passed on *)
Lemma error_sources : forall evs rels its ops e,
  drain evs rels = (its, ops) -> In (PErr (Http2Payload e)) its ->
  In (RErr e) evs \/ In (Some e) rels.
Proof.
  induction evs as [|ev evs IH]; intros rels its ops e H Hin; cbn [drain] in H.
  - inversion H; subst. contradiction.
  - destruct (poll_next ev rels) as [[it o1] rels'] eqn:E.
    destruct (drain evs rels') as [its' ops'] eqn:D. inversion H; subst.
    destruct Hin as [Hin|Hin].
    + destruct ev as [b|e'| |]; cbn [poll_next] in E.
      * destruct rels as [|[err|] r']; cbn [next_rel] in E; inversion E; subst; try discriminate.
        right. left. congruence.
      * inversion E; subst. left. left. congruence.
      * inversion E; subst; discriminate.
      * inversion E; subst; discriminate.
    + destruct (IH _ _ _ _ D Hin) as [H1|H1]; [left; right; exact H1|right].
      destruct ev as [b|e'| |]; cbn [poll_next] in E; try (inversion E; subst; exact H1).
      destruct rels as [|r r']; cbn [next_rel] in E.
      * inversion E; subst. contradiction.
      * destruct r; inversion E; subst; right; exact H1.
Qed.

Lemma stream_errors_forwarded : forall evs rels its ops e,
  drain evs rels = (its, ops) -> In (RErr e) evs -> In (PErr (Http2Payload e)) its.
Proof.
  induction evs as [|ev evs IH]; intros rels its ops e H Hin; [contradiction|]. cbn [drain] in H.
  destruct (poll_next ev rels) as [[it o1] rels'] eqn:E.
  destruct (drain evs rels') as [its' ops'] eqn:D. inversion H; subst.
  destruct Hin as [->|Hin].
  - cbn [poll_next] in E. inversion E; subst. left. reflexivity.
  - right. eapply IH; eassumption.
Qed.
