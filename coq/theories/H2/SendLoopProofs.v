(* Proofs about the send loop: all statements are over every body script, every sequence of
   poll_capacity answers and every sequence of send_data results. *)
From AV Require Import Lib.Base H2.Prepare H2.SendLoop.

Lemma data_of_app a b : data_of (a ++ b) = data_of a ++ data_of b.
Proof. induction a as [|[] a IH]; cbn [data_of app]; rewrite ?IH, ?app_assoc; reflexivity. Qed.

Lemma eos_count_app a b : eos_count (a ++ b) = (eos_count a + eos_count b)%nat.
Proof.
  induction a as [|x a IH]; [reflexivity|].
  destruct x as [hs []|n|bs []]; cbn [eos_count app]; rewrite IH; reflexivity.
Qed.

Lemma reserves_of_app a b : reserves_of (a ++ b) = reserves_of a ++ reserves_of b.
Proof. induction a as [|[] a IH]; cbn [reserves_of app]; rewrite ?IH; reflexivity. Qed.

Lemma frames_of_app a b : frames_of (a ++ b) = frames_of a ++ frames_of b.
Proof. induction a as [|[] a IH]; cbn [frames_of app]; rewrite ?IH; reflexivity. Qed.

Lemma lenN_nil {A} : lenN (@nil A) = 0. Proof. reflexivity. Qed.
Lemma lenN_cons {A} (x : A) l : lenN (x :: l) = lenN l + 1.
Proof. unfold lenN. cbn [length]. lia. Qed.
Lemma lenN_app {A} (a b : list A) : lenN (a ++ b) = lenN a + lenN b.
Proof. unfold lenN. rewrite app_length. lia. Qed.

Section Proofs.
  Variable CHUNK : N.

  (* ---------------------------------------------------------------- one chunk *)
  Lemma send_chunk_spec : forall caps chunk sds t r,
    send_chunk CHUNK chunk caps sds = (t, r) ->
    exists rest, chunk = data_of t ++ rest /\ eos_count t = O /\
                 match r with SBreak _ _ => rest = [] | SStop o => o <> ODone end.
  Proof.
    induction caps as [|a caps IH]; intros chunk sds t r H; cbn [send_chunk] in H.
    - inversion H; subst. exists chunk. repeat split; discriminate.
    - destruct a as [| |cap].
      + inversion H; subst. exists chunk. repeat split; discriminate.
      + inversion H; subst. exists chunk. repeat split; discriminate.
      + destruct (next_sd sds) as [ok sds'] eqn:Esd. destruct ok; cbn [negb] in H.
        * set (k := N.to_nat (N.min (lenN chunk) cap)) in *.
          pose proof (firstn_skipn k chunk) as Hfs.
          destruct (skipn k chunk) as [|b l] eqn:Esk.
          -- inversion H; subst. exists []. cbn [data_of]. rewrite !app_nil_r in *.
             split; [symmetry; exact Hfs|split; reflexivity].
          -- destruct (send_chunk CHUNK (b :: l) caps sds') as [t' r'] eqn:Erec.
             inversion H; subst. apply IH in Erec as [rest [Hc [He Hr]]].
             exists rest. cbn [data_of eos_count]. repeat split; [|exact He|exact Hr].
             rewrite <- app_assoc, <- Hc. symmetry; exact Hfs.
        * inversion H; subst. exists chunk. repeat split; discriminate.
  Qed.

  (* a granted capacity > 0 strictly shrinks what is left of a non-empty chunk *)
  Lemma split_progress : forall (chunk : bytes) (cap : N),
    chunk <> [] -> 0 < cap ->
    lenN (skipn (N.to_nat (N.min (lenN chunk) cap)) chunk) < lenN chunk.
  Proof.
    intros chunk cap Hne Hcap. unfold lenN. rewrite skipn_length.
    destruct chunk; [contradiction|]. cbn [length]. lia.
  Qed.

  (* requests: between 1 and CHUNK for a non-empty chunk *)
  Lemma send_chunk_reserves : forall caps chunk sds t r,
    0 < CHUNK -> chunk <> [] ->
    send_chunk CHUNK chunk caps sds = (t, r) ->
    Forall (fun n => 0 < n <= CHUNK) (reserves_of t).
  Proof.
    induction caps as [|a caps IH]; intros chunk sds t r HC Hne H; cbn [send_chunk] in H.
    - inversion H; subst. cbn [reserves_of]. constructor; [|constructor].
      destruct chunk; [contradiction|]. rewrite lenN_cons. lia.
    - assert (Hreq : 0 < N.min (lenN chunk) CHUNK <= CHUNK).
      { destruct chunk; [contradiction|]. rewrite lenN_cons. lia. }
      destruct a as [| |cap].
      + inversion H; subst. cbn [reserves_of]. constructor; [exact Hreq|constructor].
      + inversion H; subst. cbn [reserves_of]. constructor; [exact Hreq|constructor].
      + destruct (next_sd sds) as [ok sds'] eqn:Esd. destruct ok; cbn [negb] in H.
        * destruct (skipn (N.to_nat (N.min (lenN chunk) cap)) chunk) as [|b l] eqn:Esk.
          -- inversion H; subst. cbn [reserves_of]. constructor; [exact Hreq|constructor].
          -- destruct (send_chunk CHUNK (b :: l) caps sds') as [t' r'] eqn:Erec.
             inversion H; subst. cbn [reserves_of]. constructor; [exact Hreq|].
             eapply IH; [exact HC| |exact Erec]. discriminate.
        * inversion H; subst. cbn [reserves_of]. constructor; [exact Hreq|constructor].
  Qed.

  (* with [length chunk] positive grants the chunk is sent completely *)
  Definition positive_grant (a : cap_ans) : Prop :=
    match a with CapOk n => 0 < n | _ => False end.

  Lemma send_chunk_completes : forall caps chunk,
    Forall positive_grant caps -> (length chunk <= length caps)%nat -> chunk <> [] ->
    exists t caps',
      send_chunk CHUNK chunk caps [] = (t, SBreak caps' []) /\
      (length caps' + length chunk >= length caps)%nat /\ Forall positive_grant caps'.
  Proof.
    induction caps as [|a caps IH]; intros chunk HF Hlen Hne.
    - destruct chunk; [contradiction|cbn [length] in Hlen; lia].
    - inversion HF as [|a' l' Ha HF']; subst. destruct a as [| |cap]; cbn [positive_grant] in Ha; try contradiction.
      cbn [send_chunk next_sd negb].
      set (k := N.to_nat (N.min (lenN chunk) cap)).
      assert (Hk : (0 < k)%nat).
      { unfold k. destruct chunk; [contradiction|]. rewrite lenN_cons. lia. }
      assert (Hcl : (0 < length chunk)%nat) by (destruct chunk; [contradiction|cbn [length]; lia]).
      pose proof (skipn_length k chunk) as Hsl.
      destruct (skipn k chunk) as [|b l] eqn:Esk.
      + eexists _, caps. split; [reflexivity|]. split; [cbn [length]; lia|exact HF'].
      + destruct (IH (b :: l) HF') as [t' [caps' [E [Hl Hp]]]].
        * cbn [length] in *. lia.
        * discriminate.
        * rewrite E. eexists _, caps'. split; [reflexivity|]. split; [|exact Hp]. cbn [length] in *. lia.
  Qed.

  (* ---------------------------------------------------------------- whole body *)
  Lemma finish_spec sds t o :
    finish sds = (t, o) ->
    (o = ODone /\ t = [OData [] true]) \/ (o = OErrSend /\ t = []).
  Proof.
    unfold finish. destruct (fst (next_sd sds)); intro H; inversion H; subst; auto.
  Qed.

  Lemma body_loop_spec : forall evs caps sds t o,
    body_loop CHUNK evs caps sds = (t, o) ->
    exists rest, body_bytes evs = data_of t ++ rest /\
      (o = ODone -> rest = [] /\ body_fails evs = false /\
                    exists t0, t = t0 ++ [OData [] true] /\ eos_count t0 = O) /\
      (o <> ODone -> eos_count t = O).
  Proof.
    induction evs as [|e evs IH]; intros caps sds t o H; cbn [body_loop] in H.
    - apply finish_spec in H as [[-> ->]|[-> ->]].
      + exists []. repeat split; try reflexivity.
        * exists []. split; reflexivity.
        * intro C; contradiction.
      + exists []. repeat split; try discriminate.
    - destruct e as [c| |].
      + destruct c as [|b l].
        * apply IH in H as [rest [Hd [Hdone Hnd]]]. exists rest. cbn [body_bytes body_fails app].
          repeat split; [exact Hd|apply Hdone; assumption|apply Hdone; assumption|apply Hdone; assumption|exact Hnd].
        * destruct (send_chunk CHUNK (b :: l) caps sds) as [t1 r1] eqn:Esc.
          pose proof (send_chunk_spec _ _ _ _ _ Esc) as [rest1 [Hc [He Hr]]].
          destruct r1 as [caps' sds'|o1].
          -- subst rest1. rewrite app_nil_r in Hc.
             destruct (body_loop CHUNK evs caps' sds') as [t2 o2] eqn:Ebl.
             inversion H; subst t o. apply IH in Ebl as [rest [Hd [Hdone Hnd]]].
             exists rest. cbn [body_bytes body_fails]. rewrite data_of_app, Hc, Hd, app_assoc.
             split; [rewrite <- Hc; reflexivity|]. split.
             ++ intro Ho. destruct (Hdone Ho) as [Hr0 [Hf [t0 [Ht Hz]]]].
                repeat split; [exact Hr0|exact Hf|].
                exists (t1 ++ t0). subst t2. rewrite app_assoc. split; [reflexivity|].
                rewrite eos_count_app, He, Hz. reflexivity.
             ++ intro Ho. rewrite eos_count_app, He, (Hnd Ho). reflexivity.
          -- inversion H; subst t o. exists (rest1 ++ body_bytes evs). cbn [body_bytes].
             rewrite Hc at 1. rewrite <- app_assoc. split; [reflexivity|]. split.
             ++ intro Ho. contradiction.
             ++ intros _. exact He.
      + apply IH in H as [rest [Hd [Hdone Hnd]]]. exists rest. cbn [body_bytes body_fails].
        repeat split; [exact Hd|apply Hdone; assumption|apply Hdone; assumption|apply Hdone; assumption|exact Hnd].
      + inversion H; subst. exists []. cbn [body_bytes data_of eos_count app].
        repeat split; try discriminate.
  Qed.

  (* the repaired loop never asks for zero capacity *)
  Lemma body_loop_reserves : forall evs caps sds t o,
    0 < CHUNK -> body_loop CHUNK evs caps sds = (t, o) ->
    Forall (fun n => 0 < n <= CHUNK) (reserves_of t).
  Proof.
    induction evs as [|e evs IH]; intros caps sds t o HC H; cbn [body_loop] in H.
    - apply finish_spec in H as [[-> ->]|[-> ->]]; constructor.
    - destruct e as [c| |].
      + destruct c as [|b l]; [eapply IH; eassumption|].
        destruct (send_chunk CHUNK (b :: l) caps sds) as [t1 r1] eqn:Esc.
        assert (H1 : Forall (fun n => 0 < n <= CHUNK) (reserves_of t1)).
        { eapply send_chunk_reserves; [exact HC| |exact Esc]. discriminate. }
        destruct r1 as [caps' sds'|o1].
        * destruct (body_loop CHUNK evs caps' sds') as [t2 o2] eqn:Ebl. inversion H; subst.
          rewrite reserves_of_app. apply Forall_app. split; [exact H1|eapply IH; eassumption].
        * inversion H; subst. exact H1.
      + eapply IH; eassumption.
      + inversion H; subst. constructor.
  Qed.

  (* liveness under fair grants: if every grant is positive and there are at least as many as
     body bytes, the body is sent completely and END_STREAM follows *)
  Lemma body_loop_completes : forall evs caps,
    body_fails evs = false -> Forall positive_grant caps ->
    (length (body_bytes evs) <= length caps)%nat ->
    snd (body_loop CHUNK evs caps []) = ODone.
  Proof.
    induction evs as [|e evs IH]; intros caps Hf HF Hlen; cbn [body_loop].
    - reflexivity.
    - destruct e as [c| |]; cbn [body_fails body_bytes] in *.
      + destruct c as [|b l]; [apply IH; assumption|].
        rewrite app_length in Hlen.
        destruct (send_chunk_completes caps (b :: l) HF) as [t [caps' [E [Hl Hp]]]];
          [lia|discriminate|].
        rewrite E. destruct (body_loop CHUNK evs caps' []) as [t2 o2] eqn:Ebl. cbn [snd].
        change o2 with (snd (t2, o2)). rewrite <- Ebl. apply IH; [exact Hf|exact Hp|lia].
      + apply IH; assumption.
      + discriminate.
  Qed.

  (* ---------------------------------------------------------------- the loop before the repair *)
  Definition has_empty_chunk (evs : list bev) : bool :=
    existsb (fun e => match e with BChunk [] => true | _ => false end) evs.

  Lemma orig_agrees_without_empty : forall zp evs caps sds,
    has_empty_chunk evs = false ->
    body_loop_orig CHUNK zp evs caps sds = body_loop CHUNK evs caps sds.
  Proof.
    induction evs as [|e evs IH]; intros caps sds Hne; [reflexivity|].
    cbn [has_empty_chunk existsb] in Hne. apply orb_false_iff in Hne as [He Hne].
    fold (has_empty_chunk evs) in Hne.
    destruct e as [c| |]; cbn [body_loop_orig body_loop].
    - destruct c as [|b l]; [discriminate|].
      destruct (send_chunk CHUNK (b :: l) caps sds) as [t1 [caps' sds'|o1]]; [|reflexivity].
      rewrite IH by exact Hne. reflexivity.
    - apply IH; exact Hne.
    - reflexivity.
  Qed.

  (* under "a zero-capacity request pends", an empty chunk that is reached parks the task for ever:
     the run never completes and never sends anything after the chunks before it *)
  Lemma orig_empty_chunk_stalls : forall pre post caps sds t o,
    body_loop_orig CHUNK true (map BChunk pre ++ BChunk [] :: post) caps sds = (t, o) ->
    Forall (fun c => c <> []) pre ->
    o <> ODone /\ exists rest, concat pre = data_of t ++ rest.
  Proof.
    induction pre as [|c pre IH]; intros post caps sds t o H Hne; cbn [map app body_loop_orig] in H.
    - inversion H; subst. split; [discriminate|]. exists []. reflexivity.
    - inversion Hne as [|c' l' Hc Hne']; subst. destruct c as [|b l]; [contradiction|].
      destruct (send_chunk CHUNK (b :: l) caps sds) as [t1 r1] eqn:Esc.
      pose proof (send_chunk_spec _ _ _ _ _ Esc) as [rest1 [Hd [He Hr]]].
      destruct r1 as [caps' sds'|o1].
      + subst rest1. rewrite app_nil_r in Hd.
        destruct (body_loop_orig CHUNK true (map BChunk pre ++ BChunk [] :: post) caps' sds') as [t2 o2] eqn:Ebl.
        inversion H; subst t o. destruct (IH _ _ _ _ _ Ebl Hne') as [Ho [rest Hr2]].
        split; [exact Ho|]. exists rest. cbn [concat]. rewrite data_of_app, Hd, Hr2, app_assoc.
        rewrite <- Hd. reflexivity.
      + inversion H; subst t o. split; [exact Hr|].
        exists (rest1 ++ concat pre). cbn [concat]. rewrite Hd at 1. rewrite app_assoc. reflexivity.
  Qed.

  (* ---------------------------------------------------------------- handle_response *)
  Lemma handle_response_bodiless : forall now r sr caps sds,
    (r_head_req r = true \/
     is_eof (snd (prepare_response now (r_status r) (r_hdrs r) (r_size r))) = true) ->
    sr = true ->
    handle_response CHUNK now r sr caps sds =
      ([OHead (fst (prepare_response now (r_status r) (r_hdrs r) (r_size r))) true], ODone).
  Proof.
    intros now r sr caps sds H ->. unfold handle_response.
    destruct (prepare_response now (r_status r) (r_hdrs r) (r_size r)) as [hs size].
    cbn [fst snd negb] in *.
    replace (is_eof size || r_head_req r) with true; [reflexivity|].
    destruct H as [-> | ->]; [rewrite orb_true_r|]; reflexivity.
  Qed.

  Lemma handle_response_spec : forall now r caps sds t o,
    handle_response CHUNK now r true caps sds = (t, o) ->
    let hs := fst (prepare_response now (r_status r) (r_hdrs r) (r_size r)) in
    let size := snd (prepare_response now (r_status r) (r_hdrs r) (r_size r)) in
    if is_eof size || r_head_req r
    then t = [OHead hs true] /\ o = ODone
    else exists tb, t = OHead hs false :: tb /\ body_loop CHUNK (r_body r) caps sds = (tb, o).
  Proof.
    intros now r caps sds t o H. unfold handle_response in H.
    destruct (prepare_response now (r_status r) (r_hdrs r) (r_size r)) as [hs size].
    cbn [fst snd negb] in *.
    destruct (is_eof size || r_head_req r).
    - inversion H; subst. split; reflexivity.
    - destruct (body_loop CHUNK (r_body r) caps sds) as [tb ob]. inversion H; subst.
      exists tb. split; reflexivity.
  Qed.
End Proofs.
