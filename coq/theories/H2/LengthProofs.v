(* content-length on the wire against the DATA bytes, for every handler header set (a
   handler-supplied content-length included) and every declared body size. *)
From AV Require Import Lib.Base H2.Prepare H2.SendLoop H2.Spec H2.PrepareProofs H2.SendLoopProofs
  H2.ResponseProofs.

(* the initialiser `let mut skip_len = size != &BodySize::Stream;` per BodySize variant *)
Definition skip_len_init (size : bsize) : bool := negb (bsize_is_stream size).

Lemma prepare_uses_skip_len_init now status hdrs size :
  prepare_response now status hdrs size =
  (let '(skip_len, size1) := status_size status (skip_len_init size) size in
   let inserted := length_header size1 in
   let '(copied, has_date) := copy_headers skip_len hdrs false in
   let date := if has_date then [] else [(h_date, now)] in
   (inserted ++ copied ++ date, size1)).
Proof. reflexivity. Qed.

(* skip_len after the status block, for the four BodySize cases (None, Sized(0), Sized(n), Stream)
   and every status: a handler-supplied content-length is copied iff this is false *)
Lemma skip_len_final status size :
  fst (status_size status (skip_len_init size) size) =
  match size with
  | SNone | SSized _ => true
  | SStream => status =? 101
  end.
Proof.
  unfold status_size, skip_len_init.
  destruct size; cbn [bsize_is_stream negb];
    destruct ((status =? 204) || (status =? 100) || (status =? 102)) eqn:E; cbn [fst]; try reflexivity;
    destruct (status =? 101) eqn:E1; try reflexivity.
  apply orb_true_iff in E as [E|E]; [apply orb_true_iff in E as [E|E]|];
    apply N.eqb_eq in E; apply N.eqb_eq in E1; lia.
Qed.

(* the content-length values of the emitted head, for EVERY size, status and handler header set *)
Lemma content_length_values_all : forall now status hdrs size,
  values_of h_content_length (fst (prepare_response now status hdrs size)) =
  (match snd (prepare_response now status hdrs size) with SSized n => [itoa n] | _ => [] end)
  ++ (match size with
      | SStream => if status =? 101 then [] else values_of h_content_length hdrs
      | _ => []
      end).
Proof.
  intros now status hdrs size. rewrite prepare_values, length_header_values.
  fold (skip_len_init size). rewrite skip_len_final.
  assert (Hdr : forall s, dropped s h_content_length = s) by (intros []; reflexivity).
  rewrite Hdr.
  assert (Hdate : (if has_header h_date hdrs then [] else values_of h_content_length [(h_date, now)]) = []).
  { destruct (has_header h_date hdrs); reflexivity. }
  rewrite Hdate, app_nil_r. f_equal.
  destruct size; try reflexivity.
Qed.

Section Len.
  Variable CHUNK : N.

  (* None / Sized body, any handler header set (honest or not about content-length), any status:
     whatever content-length is on the wire of a completed non-HEAD response is the number of DATA
     bytes -- provided a Sized body yields the bytes it declares *)
  Lemma content_length_wire : forall now r caps sds t,
    handle_response CHUNK now r true caps sds = (t, ODone) ->
    r_head_req r = false ->
    r_size r <> SStream ->
    (forall n, r_size r = SSized n -> n = lenN (body_bytes (r_body r))) ->
    exists hs eos tb, t = OHead hs eos :: tb /\
      forall v, In v (values_of h_content_length hs) -> v = itoa (lenN (data_of t)).
  Proof.
    intros now r caps sds t H Hh Hns Hhon.
    destruct (r_size r) as [|n|] eqn:Es; [| |contradiction].
    - (* None *)
      pose proof (handle_response_spec CHUNK _ _ _ _ _ _ H) as Hsp. cbn zeta in Hsp.
      pose proof (content_length_values_all now (r_status r) (r_hdrs r) (r_size r)) as Hv.
      pose proof (prepare_size now (r_status r) (r_hdrs r) (r_size r)) as Hps.
      rewrite Es in *.
      assert (Hs : snd (prepare_response now (r_status r) (r_hdrs r) SNone) = SNone \/
                   snd (prepare_response now (r_status r) (r_hdrs r) SNone) = SStream).
      { rewrite Hps. destruct (code_bodiless (r_status r)); [left; reflexivity|].
        destruct (r_status r =? 101); [right|left]; reflexivity. }
      assert (Hnil : values_of h_content_length (fst (prepare_response now (r_status r) (r_hdrs r) SNone)) = []).
      { rewrite Hv. destruct Hs as [-> | ->]; reflexivity. }
      destruct (is_eof _ || r_head_req r).
      + destruct Hsp as [-> _]. eexists _, true, []. split; [reflexivity|].
        rewrite Hnil. intros v [].
      + destruct Hsp as [tb [-> _]]. eexists _, false, tb. split; [reflexivity|].
        rewrite Hnil. intros v [].
    - destruct (code_no_length (r_status r)) eqn:Ec.
      + pose proof (handle_response_spec CHUNK _ _ _ _ _ _ H) as Hsp. cbn zeta in Hsp.
        pose proof (content_length_values_all now (r_status r) (r_hdrs r) (r_size r)) as Hv.
        pose proof (prepare_size now (r_status r) (r_hdrs r) (r_size r)) as Hps.
        rewrite Es in *.
        assert (Hnil : values_of h_content_length (fst (prepare_response now (r_status r) (r_hdrs r) (SSized n))) = []).
        { rewrite Hv, Hps. unfold code_no_length in Ec.
          destruct (code_bodiless (r_status r)); [reflexivity|]. cbn [orb] in Ec. rewrite Ec. reflexivity. }
        destruct (is_eof _ || r_head_req r).
        * destruct Hsp as [-> _]. eexists _, true, []. split; [reflexivity|]. rewrite Hnil. intros v [].
        * destruct Hsp as [tb [-> _]]. eexists _, false, tb. split; [reflexivity|]. rewrite Hnil. intros v [].
      + assert (Hsz : r_size r = SSized (lenN (body_bytes (r_body r)))).
        { rewrite Es. f_equal. apply Hhon. reflexivity. }
        destruct (content_length_matches CHUNK _ _ _ _ _ H Hh Ec Hsz) as [hs [eos [tb [-> Hcl]]]].
        exists hs, eos, tb. split; [reflexivity|]. rewrite Hcl. intros v [<-|[]]. reflexivity.
  Qed.

  (* Task 2 -- a Sized(n) body that yields another number of bytes. Nothing in handle_response
     compares n with the bytes: the head announces n, the DATA frames carry what the body yields,
     END_STREAM follows, the function returns Ok(()). *)
  Lemma sized_claim_unchecked : forall now r caps sds t n,
    handle_response CHUNK now r true caps sds = (t, ODone) ->
    r_head_req r = false -> code_no_length (r_status r) = false ->
    r_size r = SSized n -> n <> 0 ->
    exists hs tb, t = OHead hs false :: tb /\
      values_of h_content_length hs = [itoa n] /\
      data_of t = body_bytes (r_body r) /\ body_fails (r_body r) = false /\
      exists t0, t = t0 ++ [OData [] true].
  Proof.
    intros now r caps sds t n H Hh Hc Hs Hn.
    pose proof (content_length_values_all now (r_status r) (r_hdrs r) (r_size r)) as Hv.
    pose proof (prepare_size now (r_status r) (r_hdrs r) (r_size r)) as Hps.
    unfold code_no_length in Hc. apply orb_false_iff in Hc as [Hb H1]. rewrite Hb, H1 in Hps.
    pose proof (response_data CHUNK _ _ _ _ _ _ H) as [rest [Hd Hdone]].
    pose proof (one_end_stream CHUNK _ _ _ _ _ _ H) as [Hone _].
    apply handle_response_spec in H. cbn zeta in H. rewrite Hps, Hs in *. rewrite Hh in *.
    assert (He : is_eof (SSized n) = false) by (destruct n; [contradiction|reflexivity]).
    rewrite He in *. cbn [orb] in H. destruct H as [tb [-> Hbl]].
    exists (fst (prepare_response now (r_status r) (r_hdrs r) (SSized n))), tb.
    split; [reflexivity|]. split; [rewrite Hv, app_nil_r; reflexivity|].
    destruct (Hdone eq_refl eq_refl eq_refl) as [-> Hf]. rewrite app_nil_r in Hd.
    split; [symmetry; exact Hd|]. split; [exact Hf|].
    apply body_loop_spec in Hbl as [rest' [_ [Hd' _]]]. destruct (Hd' eq_refl) as [_ [_ [t0 [-> _]]]].
    exists (OHead (fst (prepare_response now (r_status r) (r_hdrs r) (SSized n))) false :: t0). reflexivity.
  Qed.
End Len.
