(* Connection-level flow control around `handle_response`: several response tasks (one per stream,
   actix-http/src/h2/dispatcher.rs) share ONE connection send window that h2 distributes.

   What actix does per stream is the code's: `reserve_capacity(rsv(len))` for the unsent remainder
   [len] of the current chunk (the code: rsv len = min(len, CHUNK_SIZE)), `poll_capacity`,
   `split_to(min(len, cap))`, `send_data`, and -- while the handler's body is idle (`poll_next` is
   Pending) -- nothing at all.

   What h2 does is external: per stream it keeps the requested capacity ([s_req], set by
   `reserve_capacity`, lowered by the bytes sent) and the capacity assigned to the stream and not
   yet used ([s_asg]); the connection has [c_win] bytes of window not assigned to any stream.
   `reserve_capacity(n)` with n below the assigned amount hands the surplus back to the connection
   (prioritize.rs: `assign_connection_capacity(diff)`); otherwise NOTHING takes assigned capacity
   away from an open stream: reserved-but-unused capacity stays assigned.  How h2 distributes the
   connection window among the requesting streams is the Section variable [assign] with explicit
   hypotheses.  No proofs in this file. *)
From AV Require Import Lib.Base.

Record sst := mkSst {
  s_pend : N;    (* actix: unsent remainder of the current chunk; 0 = waiting for the body *)
  s_req : N;     (* h2: requested_send_capacity *)
  s_asg : N      (* h2: capacity assigned to the stream, not yet used *)
}.
Record cst := mkC { c_win : N; c_streams : list sst }.

Definition sum_asg (l : list sst) : N := fold_right (fun s a => s_asg s + a) 0 l.
Definition sumN (l : list N) : N := fold_right N.add 0 l.

(* h2 `reserve_capacity(n)`: new stream state and the capacity handed back to the connection *)
Definition reserve_s (n : N) (s : sst) : sst * N :=
  if n <? s_asg s then (mkSst (s_pend s) n n, s_asg s - n)
  else (mkSst (s_pend s) n (s_asg s), 0).

(* apply a stream operation to stream [i] *)
Fixpoint app_at (i : nat) (f : sst -> sst * N) (l : list sst) : list sst * N :=
  match l with
  | [] => ([], 0)
  | s :: r =>
      match i with
      | O => let '(s', d) := f s in (s' :: r, d)
      | S j => let '(r', d) := app_at j f r in (s :: r', d)
      end
  end.

Section Conn.
  Variable rsv : N -> N.          (* argument of reserve_capacity for a remainder of [len] bytes *)
  Variable assign : cst -> cst.   (* h2 distributing the connection window (prioritize.rs) *)

  (* the body yields a chunk of [len] bytes (only polled when the previous one is sent);
     an empty chunk is skipped (`continue`) *)
  Definition chunk_s (len : N) (s : sst) : sst * N :=
    if (s_pend s =? 0) && (0 <? len)
    then reserve_s (rsv len) (mkSst len (s_req s) (s_asg s))
    else (s, 0).

  (* `poll_capacity` is Ready(cap = assigned capacity): split_to(min(len, cap)), send_data; if a
     remainder is left the loop goes round: reserve_capacity(rsv(remainder)) *)
  Definition send_s (s : sst) : sst * N :=
    if (0 <? s_pend s) && (0 <? s_asg s)
    then let n := N.min (s_pend s) (s_asg s) in
         let s1 := mkSst (s_pend s - n) (s_req s - n) (s_asg s - n) in
         if 0 <? s_pend s1 then reserve_s (rsv (s_pend s1)) s1 else (s1, 0)
    else (s, 0).

  Inductive ev :=
  | EChunk (i : nat) (len : N)   (* stream i's body yields a chunk *)
  | ESend (i : nat)              (* stream i's task is woken with capacity and sends *)
  | EGrant (g : N).              (* the peer grants g bytes of connection window *)

  Definition step (c : cst) (e : ev) : cst :=
    match e with
    | EChunk i len => let '(l, d) := app_at i (chunk_s len) (c_streams c) in assign (mkC (c_win c + d) l)
    | ESend i => let '(l, d) := app_at i send_s (c_streams c) in assign (mkC (c_win c + d) l)
    | EGrant g => assign (mkC (c_win c + g) (c_streams c))
    end.

  (* one response body (chunk lengths) on stream 0 while nothing else on the connection moves:
     the task takes a chunk when the previous one is sent, sends when it holds capacity, and
     otherwise waits for the next grant of the peer; no grant left = blocked *)
  Inductive res := Done (grants_left : list N) | Blocked | OutOfFuel.

  Fixpoint run (fuel : nat) (grants : list N) (body : list N) (c : cst) : res :=
    match fuel with
    | O => OutOfFuel
    | S f =>
        match c_streams c with
        | [] => OutOfFuel
        | a :: _ =>
            if s_pend a =? 0 then
              match body with
              | [] => Done grants
              | len :: r => run f grants r (step c (EChunk 0 len))
              end
            else if 0 <? s_asg a then run f grants body (step c (ESend 0))
            else match grants with
                 | [] => Blocked
                 | g :: gs => run f gs body (step c (EGrant g))
                 end
        end
    end.
End Conn.

(* a stream holds no more capacity than it asked for, and asked for no more than it has to send *)
Definition held_ok (s : sst) : Prop := s_asg s <= s_req s /\ s_req s <= s_pend s.
(* an idle stream: nothing to send, nothing requested, nothing held *)
Definition idle_ok (s : sst) : Prop := s_pend s = 0 /\ s_req s = 0 /\ s_asg s = 0.

(* a reference distribution satisfying the hypotheses (non-vacuity): first come, first served *)
Fixpoint assign_fifo (win : N) (l : list sst) : N * list sst :=
  match l with
  | [] => (win, [])
  | s :: r =>
      let give := N.min win (s_req s - s_asg s) in
      let '(w, r') := assign_fifo (win - give) r in
      (w, mkSst (s_pend s) (s_req s) (s_asg s + give) :: r')
  end.
Definition assign_ref (c : cst) : cst :=
  let '(w, l) := assign_fifo (c_win c) (c_streams c) in mkC w l.
