(* Model of `prepare_response` (actix-http/src/h2/dispatcher.rs), reduced to what frames the
   response: the status-dependent body size, the content-length header the function inserts, which
   of the handler's headers are copied and which are skipped, the date header.
   Header names are the canonical (lower-case) bytes of `HeaderName`; `hdrs` is the handler's header
   map in the order `HeaderMap::iter` yields it. No proofs in this file. *)
From AV Require Import Lib.Base.

Inductive bsize := SNone | SSized (n : N) | SStream.

(* BodySize::is_eof *)
Definition is_eof (s : bsize) : bool :=
  match s with SNone => true | SSized 0 => true | _ => false end.

Definition bsize_is_stream (s : bsize) : bool :=
  match s with SStream => true | _ => false end.

Definition header := (bytes * bytes)%type.

(* ASCII of the header names the function looks at *)
Definition h_connection : bytes := [99;111;110;110;101;99;116;105;111;110].
Definition h_transfer_encoding : bytes := [116;114;97;110;115;102;101;114;45;101;110;99;111;100;105;110;103].
Definition h_upgrade : bytes := [117;112;103;114;97;100;101].
Definition h_content_length : bytes := [99;111;110;116;101;110;116;45;108;101;110;103;116;104].
Definition h_date : bytes := [100;97;116;101].
Definition h_keep_alive : bytes := [107;101;101;112;45;97;108;105;118;101].
Definition h_proxy_connection : bytes := [112;114;111;120;121;45;99;111;110;110;101;99;116;105;111;110].

(* itoa::Buffer::format on a u64: decimal digits, most significant first; 20 digits suffice *)
Fixpoint digits (fuel : nat) (n : N) (acc : bytes) : bytes :=
  match fuel with
  | O => acc
  | S f => let acc' := (48 + n mod 10) :: acc in
           if n / 10 =? 0 then acc' else digits f (n / 10) acc'
  end.
Definition itoa (n : N) : bytes := digits 20 n [].

(* the `match head.status` block: returns (skip_len, size) *)
Definition status_size (status : N) (skip_len : bool) (size : bsize) : bool * bsize :=
  if (status =? 204) || (status =? 100) || (status =? 102) then (skip_len, SNone)
  else if status =? 101 then (true, SStream)
  else (skip_len, size).

(* the `match size` block: headers inserted into the fresh map *)
Definition length_header (size : bsize) : list header :=
  match size with
  | SNone | SStream => []
  | SSized 0 => [(h_content_length, [48])]
  | SSized len => [(h_content_length, itoa len)]
  end.

(* the `for (key, value) in head.headers.iter()` loop, same arm order; returns the appended
   headers and `has_date` *)
Fixpoint copy_headers (skip_len : bool) (hdrs : list header) (has_date : bool) : list header * bool :=
  match hdrs with
  | [] => ([], has_date)
  | (k, v) :: r =>
      if bytes_eqb k h_connection || bytes_eqb k h_transfer_encoding || bytes_eqb k h_upgrade
      then copy_headers skip_len r has_date
      else if bytes_eqb k h_content_length && skip_len then copy_headers skip_len r has_date
      else if bytes_eqb k h_date
      then let '(o, d) := copy_headers skip_len r true in ((k, v) :: o, d)
      else if bytes_eqb k h_keep_alive || bytes_eqb k h_proxy_connection
      then copy_headers skip_len r has_date
      else let '(o, d) := copy_headers skip_len r has_date in ((k, v) :: o, d)
  end.

(* prepare_response: emitted header list (insertion order) and the updated size.
   [now] is the cached date value of the ServiceConfig. *)
Definition prepare_response (now : bytes) (status : N) (hdrs : list header) (size : bsize)
  : list header * bsize :=
  let skip_len0 := negb (bsize_is_stream size) in
  let '(skip_len, size1) := status_size status skip_len0 size in
  let inserted := length_header size1 in
  let '(copied, has_date) := copy_headers skip_len hdrs false in
  let date := if has_date then [] else [(h_date, now)] in
  (inserted ++ copied ++ date, size1).

(* values of one header name in an emitted list *)
Definition values_of (name : bytes) (hs : list header) : list bytes :=
  map snd (filter (fun kv => bytes_eqb (fst kv) name) hs).
Definition has_header (name : bytes) (hs : list header) : bool :=
  existsb (fun kv => bytes_eqb (fst kv) name) hs.
