(* What C08 demands, stated without reference to how the code decides it. *)
From AV Require Import Lib.Base H2.Prepare H2.SendLoop.

(* RFC 9110: responses that never carry content: 1xx, 204, 304 *)
Definition rfc_bodiless (status : N) : bool :=
  ((100 <=? status) && (status <? 200)) || (status =? 204) || (status =? 304).

(* headers that must not appear in an HTTP/2 message (RFC 9113 8.2.2) *)
Definition connection_specific : list bytes :=
  [h_connection; h_transfer_encoding; h_upgrade; h_keep_alive; h_proxy_connection].

(* Known finding `status-304-body` (with its 1xx relatives): the code treats only 204, 100 and 102
   as body-less; a non-HEAD response with status 304 -- or a 1xx other than 100/102 -- whose body
   size is not None / Sized(0) is streamed; 101 is always streamed (size forced to Stream). *)
Definition known_status_body (r : response) : bool :=
  negb (r_head_req r) &&
  ((r_status r =? 101) ||
   (((r_status r =? 304) ||
     ((100 <=? r_status r) && (r_status r <? 200) && negb (r_status r =? 100) && negb (r_status r =? 102)))
    && negb (is_eof (r_size r)))).

(* the stream carries no DATA and ends with the head *)
Definition ends_with_head (t : list sop) (o : outcome) : Prop :=
  o = ODone /\ exists hs, t = [OHead hs true].

Definition is_eos_op (x : sop) : bool :=
  match x with OData _ true | OHead _ true => true | _ => false end.
