(* Proofs about `prepare_response`: which headers reach the client, for every handler header list. *)
From AV Require Import Lib.Base H2.Prepare.

(* is a handler header with this name dropped by the copy loop *)
Definition dropped (skip_len : bool) (k : bytes) : bool :=
  (bytes_eqb k h_connection || bytes_eqb k h_transfer_encoding || bytes_eqb k h_upgrade)
  || (bytes_eqb k h_content_length && skip_len)
  || (bytes_eqb k h_keep_alive || bytes_eqb k h_proxy_connection).

Lemma copy_headers_filter : forall skip hdrs d,
  fst (copy_headers skip hdrs d) = filter (fun kv => negb (dropped skip (fst kv))) hdrs.
Proof.
  induction hdrs as [|[k v] r IH]; intro d; [reflexivity|].
  cbn [copy_headers filter fst]. unfold dropped at 1.
  destruct (bytes_eqb k h_connection || bytes_eqb k h_transfer_encoding || bytes_eqb k h_upgrade) eqn:E1;
    cbn [orb negb]; [apply IH|].
  destruct (bytes_eqb k h_content_length && skip) eqn:E2; cbn [orb negb]; [apply IH|].
  destruct (bytes_eqb k h_date) eqn:E3.
  - apply bytes_eqb_eq in E3; subst k. cbn [orb negb].
    replace (bytes_eqb h_date h_keep_alive || bytes_eqb h_date h_proxy_connection) with false by reflexivity.
    cbn [negb]. specialize (IH true). destruct (copy_headers skip r true). cbn [fst] in *. rewrite IH. reflexivity.
  - destruct (bytes_eqb k h_keep_alive || bytes_eqb k h_proxy_connection) eqn:E4; cbn [negb]; [apply IH|].
    specialize (IH d). destruct (copy_headers skip r d). cbn [fst] in *. rewrite IH. reflexivity.
Qed.

Lemma copy_headers_date : forall skip hdrs d,
  snd (copy_headers skip hdrs d) = d || has_header h_date hdrs.
Proof.
  unfold has_header.
  induction hdrs as [|[k v] r IH]; intro d; [cbn; rewrite orb_false_r; reflexivity|].
  cbn [copy_headers existsb fst].
  destruct (bytes_eqb k h_date) eqn:E3.
  - apply bytes_eqb_eq in E3; subst k.
    replace (bytes_eqb h_date h_connection || bytes_eqb h_date h_transfer_encoding || bytes_eqb h_date h_upgrade) with false by reflexivity.
    replace (bytes_eqb h_date h_content_length) with false by reflexivity. cbn [andb orb].
    specialize (IH true). destruct (copy_headers skip r true). cbn [snd] in *. rewrite IH.
    rewrite orb_true_r. reflexivity.
  - cbn [orb].
    destruct (bytes_eqb k h_connection || bytes_eqb k h_transfer_encoding || bytes_eqb k h_upgrade); [apply IH|].
    destruct (bytes_eqb k h_content_length && skip); [apply IH|].
    destruct (bytes_eqb k h_keep_alive || bytes_eqb k h_proxy_connection); [apply IH|].
    specialize (IH d). destruct (copy_headers skip r d). cbn [snd] in *. exact IH.
Qed.

Lemma filter_name_filter : forall (q : bytes -> bool) (name : bytes) (l : list header),
  filter (fun kv => bytes_eqb (fst kv) name) (filter (fun kv => q (fst kv)) l) =
  if q name then filter (fun kv => bytes_eqb (fst kv) name) l else [].
Proof.
  induction l as [|[k v] l IH]; [destruct (q name); reflexivity|].
  cbn [filter fst]. destruct (bytes_eqb k name) eqn:E.
  - apply bytes_eqb_eq in E; subst k. destruct (q name) eqn:Q.
    + cbn [filter fst]. rewrite bytes_eqb_refl, IH. reflexivity.
    + exact IH.
  - destruct (q k); [cbn [filter fst]; rewrite E|]; exact IH.
Qed.

Lemma values_of_app name a b : values_of name (a ++ b) = values_of name a ++ values_of name b.
Proof. unfold values_of. rewrite filter_app, map_app. reflexivity. Qed.

Definition code_bodiless (status : N) : bool :=
  (status =? 204) || (status =? 100) || (status =? 102).

Lemma prepare_size now status hdrs size :
  snd (prepare_response now status hdrs size) =
  if code_bodiless status then SNone else if status =? 101 then SStream else size.
Proof.
  unfold prepare_response, status_size, code_bodiless.
  destruct ((status =? 204) || (status =? 100) || (status =? 102));
    [|destruct (status =? 101)]; destruct (copy_headers _ hdrs false); reflexivity.
Qed.

Lemma length_header_values size :
  values_of h_content_length (length_header size) =
  match size with SSized n => [itoa n] | _ => [] end.
Proof. destruct size as [|n|]; try reflexivity. destruct n; reflexivity. Qed.

Lemma length_header_other name size :
  bytes_eqb h_content_length name = false -> values_of name (length_header size) = [].
Proof.
  intro H. destruct size as [|n|]; try reflexivity.
  destruct n; unfold values_of; cbn [length_header filter fst]; rewrite H; reflexivity.
Qed.

(* every value list the client sees, by name *)
Lemma prepare_values : forall now status hdrs size name,
  let skip_len := fst (status_size status (negb (bsize_is_stream size)) size) in
  let size1 := snd (prepare_response now status hdrs size) in
  values_of name (fst (prepare_response now status hdrs size)) =
    values_of name (length_header size1)
    ++ (if dropped skip_len name then [] else values_of name hdrs)
    ++ (if has_header h_date hdrs then [] else values_of name [(h_date, now)]).
Proof.
  intros now status hdrs size name. cbn zeta. unfold prepare_response.
  destruct (status_size status (negb (bsize_is_stream size)) size) as [skip size1] eqn:Ess.
  pose proof (copy_headers_filter skip hdrs false) as Hf.
  pose proof (copy_headers_date skip hdrs false) as Hd.
  destruct (copy_headers skip hdrs false) as [copied has_date]. cbn [fst snd orb] in *. subst.
  rewrite !values_of_app. f_equal. f_equal.
  - unfold values_of.
    rewrite (filter_name_filter (fun k => negb (dropped skip k)) name hdrs).
    destruct (dropped skip name); reflexivity.
  - destruct (has_header h_date hdrs); reflexivity.
Qed.

Definition forbidden : list bytes :=
  [h_connection; h_transfer_encoding; h_upgrade; h_keep_alive; h_proxy_connection].

Lemma has_header_values name hs : has_header name hs = false <-> values_of name hs = [].
Proof.
  unfold has_header, values_of. induction hs as [|[k v] hs IH]; [split; reflexivity|].
  cbn [existsb filter fst]. destruct (bytes_eqb k name); cbn [orb map]; [split; discriminate|exact IH].
Qed.

Lemma no_forbidden_header : forall now status hdrs size name,
  In name forbidden -> has_header name (fst (prepare_response now status hdrs size)) = false.
Proof.
  intros now status hdrs size name Hin. apply has_header_values. rewrite prepare_values.
  set (skip := fst (status_size status (negb (bsize_is_stream size)) size)).
  assert (Hdrop : dropped skip name = true /\ bytes_eqb h_content_length name = false /\ bytes_eqb h_date name = false).
  { cbn [forbidden In] in Hin.
    destruct Hin as [<-|[<-|[<-|[<-|[<-|[]]]]]]; destruct skip; repeat split; reflexivity. }
  destruct Hdrop as [Hd [Hcl Hdt]]. rewrite Hd, (length_header_other _ _ Hcl). cbn [app].
  destruct (has_header h_date hdrs); [reflexivity|]. unfold values_of. cbn [filter fst]. rewrite Hdt. reflexivity.
Qed.

(* statuses for which the function emits no content-length of its own *)
Definition code_no_length (status : N) : bool := code_bodiless status || (status =? 101).

Lemma content_length_rule : forall now status hdrs size,
  (size = SStream -> values_of h_content_length hdrs = []) ->
  values_of h_content_length (fst (prepare_response now status hdrs size)) =
  match size with
  | SSized n => if code_no_length status then [] else [itoa n]
  | _ => []
  end.
Proof.
  intros now status hdrs size Huser. rewrite prepare_values, prepare_size, length_header_values.
  assert (Hdate : (if has_header h_date hdrs then [] else values_of h_content_length [(h_date, now)]) = []).
  { destruct (has_header h_date hdrs); reflexivity. }
  rewrite Hdate, app_nil_r. unfold code_no_length, status_size. fold (code_bodiless status).
  assert (Hdr : forall s, dropped s h_content_length = s) by (intros []; reflexivity).
  destruct (code_bodiless status) eqn:Eb; cbn [orb fst app].
  - rewrite Hdr. destruct size; cbn [bsize_is_stream negb]; try reflexivity. apply Huser; reflexivity.
  - destruct (status =? 101) eqn:E1; cbn [fst app].
    + rewrite Hdr. destruct size; reflexivity.
    + rewrite Hdr. destruct size; cbn [bsize_is_stream negb app]; try reflexivity.
      rewrite Huser by reflexivity. reflexivity.
Qed.

(* a user-supplied content-length survives only next to a Stream body *)
Lemma user_length_dropped_when_sized : forall now status hdrs size,
  size <> SStream ->
  values_of h_content_length (fst (prepare_response now status hdrs size)) =
  match snd (prepare_response now status hdrs size) with SSized n => [itoa n] | _ => [] end.
Proof.
  intros now status hdrs size Hs. rewrite prepare_values, length_header_values.
  assert (Hskip : fst (status_size status (negb (bsize_is_stream size)) size) = true).
  { unfold status_size. destruct size; [| |contradiction]; cbn [bsize_is_stream negb];
      destruct ((status =? 204) || (status =? 100) || (status =? 102)); try reflexivity;
      destruct (status =? 101); reflexivity. }
  rewrite Hskip. replace (dropped true h_content_length) with true by reflexivity.
  destruct (has_header h_date hdrs); cbn [app]; rewrite ?app_nil_r; reflexivity.
Qed.

(* ---------------------------------------------------------------- itoa is the decimal numeral *)
Definition atoi_from (a : N) (b : bytes) : N := fold_left (fun a d => a * 10 + (d - 48)) b a.
Definition atoi (b : bytes) : N := atoi_from 0 b.

Lemma digits_value : forall fuel n acc,
  n < 10 ^ N.of_nat (S fuel) -> atoi_from 0 (digits (S fuel) n acc) = atoi_from n acc.
Proof.
  induction fuel as [|f IH]; intros n acc Hn.
  - change (10 ^ N.of_nat 1) with 10 in Hn. cbn [digits].
    destruct (n / 10 =? 0); unfold atoi_from; cbn [fold_left]; f_equal;
      rewrite N.mod_small by exact Hn; lia.
  - remember (S f) as f1. cbn [digits]. destruct (n / 10 =? 0) eqn:E.
    + apply N.eqb_eq in E. assert (n < 10) by (apply N.div_small_iff in E; lia).
      unfold atoi_from. cbn [fold_left]. f_equal. rewrite N.mod_small by assumption. lia.
    + subst f1. rewrite IH.
      * unfold atoi_from. cbn [fold_left]. f_equal.
        pose proof (N.div_mod n 10 ltac:(lia)). lia.
      * replace (N.of_nat (S (S f))) with (N.succ (N.of_nat (S f))) in Hn by lia.
        rewrite N.pow_succ_r' in Hn. apply N.div_lt_upper_bound; [lia|exact Hn].
Qed.

Lemma atoi_itoa : forall n, n < 2 ^ 64 -> atoi (itoa n) = n.
Proof.
  intros n Hn. unfold atoi, itoa. rewrite digits_value; [reflexivity|].
  eapply N.lt_trans; [exact Hn|]. reflexivity.
Qed.
