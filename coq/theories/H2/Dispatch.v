(* Model of `Dispatcher::poll` (actix-http/src/h2/dispatcher.rs) as far as it is pure bookkeeping:
   the accept loop (one spawned `handle_response` task per accepted request, `head_req` taken from
   the method) and the keep-alive ping-pong state machine.

   `Connection::poll_accept`, `PingPong::{poll_pong, send_ping}` and the `Sleep` timer are external:
   oracle answers. One element of [accs] is one answer of poll_accept; [APending] ends the current
   `poll` call (after the ping-pong block) and the next element is the first answer of the next
   call. Hypothesis built into [pp_loop] (flag [fresh]): a timer that was reset during this call
   answers Pending for the rest of the call (its deadline is in the future). No proofs here. *)
From AV Require Import Lib.Base.

Inductive acc :=
| AReq (id : N) (is_head : bool)   (* Ready(Some((req, tx))), parts.method == HEAD *)
| AEnd                             (* Ready(None) *)
| AErr                             (* Err(_) : `?` *)
| APending.

Inductive pong := PgPending | PgReady | PgErr.
Inductive ppact := PSendPing | PResetTimer.
Inductive ppres := PPend | PClose (* Ready(Ok(())) : no pong before the timer fired *) | PFail.

Definition next_pong (pongs : list pong) : pong * list pong :=
  match pongs with [] => (PgPending, []) | p :: r => (p, r) end.

(* the `Some(ping_pong) => loop { .. }` block of one poll call.
   [timer_fired]: answer of the timer when it was not reset in this call; [ping_ok]: send_ping *)
Fixpoint pp_loop (fuel : nat) (in_flight fresh : bool) (pongs : list pong) (timer_fired ping_ok : bool)
  : option (ppres * bool * list ppact * list pong) :=
  match fuel with
  | O => None
  | S f =>
      if in_flight then
        let '(p, pongs') := next_pong pongs in
        match p with
        | PgErr => Some (PFail, true, [], pongs')
        | PgReady =>
            match pp_loop f false true pongs' timer_fired ping_ok with
            | Some (r, fl, acts, ps) => Some (r, fl, PResetTimer :: acts, ps)
            | None => None
            end
        | PgPending => Some (if negb fresh && timer_fired then PClose else PPend, true, [], pongs')
        end
      else if fresh || negb timer_fired then Some (PPend, false, [], pongs)   (* ready!(timer) *)
      else if negb ping_ok then Some (PFail, false, [], pongs)
      else match pp_loop f true true pongs timer_fired ping_ok with
           | Some (r, fl, acts, ps) => Some (r, fl, PSendPing :: PResetTimer :: acts, ps)
           | None => None
           end
  end.

Definition pp_poll := pp_loop 3.

Inductive dres := DOpen (* still Pending when the answers ran out *) | DOk | DErr.

Record pporacle := mkPP { o_pongs : list pong; o_timer : bool; o_ping_ok : bool }.
Definition next_ppo (l : list pporacle) : pporacle * list pporacle :=
  match l with [] => (mkPP [] false true, []) | x :: r => (x, r) end.

(* the whole life of the dispatcher future: spawned tasks in order, result, pings sent *)
Fixpoint dispatch (keep_alive : bool) (in_flight : bool) (accs : list acc) (ppos : list pporacle)
  : list (N * bool) * dres * list ppact :=
  match accs with
  | [] => ([], DOpen, [])
  | AReq id h :: r =>
      let '(sp, res, acts) := dispatch keep_alive in_flight r ppos in ((id, h) :: sp, res, acts)
  | AEnd :: _ => ([], DOk, [])
  | AErr :: _ => ([], DErr, [])
  | APending :: r =>
      if negb keep_alive then dispatch keep_alive in_flight r ppos
      else
        let '(o, ppos') := next_ppo ppos in
        match pp_poll in_flight false (o_pongs o) (o_timer o) (o_ping_ok o) with
        | Some (PPend, fl, acts, _) =>
            let '(sp, res, acts') := dispatch keep_alive fl r ppos' in (sp, res, acts ++ acts')
        | Some (PClose, _, acts, _) => ([], DOk, acts)
        | Some (PFail, _, acts, _) => ([], DErr, acts)
        | None => ([], DErr, [])      (* unreachable: see DispatchProofs.pp_poll_total *)
        end
  end.

Fixpoint reqs_of (accs : list acc) : list (N * bool) :=
  match accs with [] => [] | AReq id h :: r => (id, h) :: reqs_of r | _ :: r => reqs_of r end.
Definition is_stop (a : acc) : bool := match a with AEnd | AErr => true | _ => false end.
Definition pings (acts : list ppact) : nat :=
  length (filter (fun a => match a with PSendPing => true | _ => false end) acts).
