(* The error paths of `handle_response`: what causes each abnormal outcome, and that each cause
   produces it. For every body script, grant sequence and send_data result sequence. *)
From AV Require Import Lib.Base H2.Prepare H2.SendLoop H2.SendLoopProofs.

Section Err.
  Variable CHUNK : N.

  Lemma next_sd_incl sds : incl (snd (next_sd sds)) sds.
  Proof. destruct sds; cbn [next_sd snd]; [apply incl_refl|apply incl_tl, incl_refl]. Qed.

  Lemma next_sd_false sds : fst (next_sd sds) = false -> In false sds.
  Proof. destruct sds as [|[] r]; cbn [next_sd fst]; intro H; try discriminate. left; reflexivity. Qed.

  (* one chunk: a stop has a cause in the oracles; a break hands back suffixes of them *)
  Lemma send_chunk_causes : forall caps chunk sds t r,
    send_chunk CHUNK chunk caps sds = (t, r) ->
    match r with
    | SBreak caps' sds' => incl caps' caps /\ incl sds' sds
    | SStop OErrSend => In CapErr caps \/ In false sds
    | SStop ODropped => In CapNone caps
    | SStop OBlocked => True
    | SStop _ => False
    end.
  Proof.
    induction caps as [|a caps IH]; intros chunk sds t r H; cbn [send_chunk] in H.
    - inversion H; subst. exact I.
    - destruct a as [| |cap].
      + inversion H; subst. left; reflexivity.
      + inversion H; subst. left; left; reflexivity.
      + pose proof (next_sd_incl sds) as Hi. pose proof (next_sd_false sds) as Hf.
        destruct (next_sd sds) as [ok sds']. cbn [fst snd] in *. destruct ok; cbn [negb] in H.
        * destruct (skipn (N.to_nat (N.min (lenN chunk) cap)) chunk) as [|b l].
          -- inversion H; subst. split; [apply incl_tl, incl_refl|exact Hi].
          -- destruct (send_chunk CHUNK (b :: l) caps sds') as [t' r'] eqn:E. inversion H; subst.
             apply IH in E. destruct r as [c' s'|o].
             ++ destruct E as [E1 E2]. split; [apply incl_tl; exact E1|].
                intros x Hx. apply Hi, E2, Hx.
             ++ destruct o; try exact E.
                ** right; exact E.
                ** destruct E as [E|E]; [left; right; exact E|right; apply Hi; exact E].
        * inversion H; subst. right. apply Hf. reflexivity.
  Qed.

  Lemma body_loop_causes : forall evs caps sds t o,
    body_loop CHUNK evs caps sds = (t, o) ->
    match o with
    | OErrSend => In CapErr caps \/ In false sds
    | ODropped => In CapNone caps
    | OErrBody => body_fails evs = true
    | OErrResponse => False
    | ODone | OBlocked => True
    end.
  Proof.
    induction evs as [|e evs IH]; intros caps sds t o H; cbn [body_loop] in H.
    - unfold finish in H. pose proof (next_sd_false sds) as Hf.
      destruct (fst (next_sd sds)); inversion H; subst; [exact I|right; apply Hf; reflexivity].
    - destruct e as [c| |].
      + destruct c as [|b l]; [apply IH in H; destruct o; exact H|].
        destruct (send_chunk CHUNK (b :: l) caps sds) as [t1 r1] eqn:Esc.
        apply send_chunk_causes in Esc. destruct r1 as [caps' sds'|o1].
        * destruct Esc as [E1 E2].
          destruct (body_loop CHUNK evs caps' sds') as [t2 o2] eqn:Ebl. inversion H; subst.
          apply IH in Ebl. destruct o; try exact Ebl.
          -- apply E1; exact Ebl.
          -- destruct Ebl as [Ebl|Ebl]; [left; apply E1|right; apply E2]; exact Ebl.
        * inversion H; subst. destruct o; try exact Esc; try contradiction.
      + apply IH in H. destruct o; exact H.
      + inversion H; subst. reflexivity.
  Qed.

  (* each cause produces its outcome at once *)
  Lemma cap_err_stops : forall chunk caps sds,
    snd (send_chunk CHUNK chunk (CapErr :: caps) sds) = SStop OErrSend.
  Proof. reflexivity. Qed.
  Lemma cap_none_stops : forall chunk caps sds,
    snd (send_chunk CHUNK chunk (CapNone :: caps) sds) = SStop ODropped.
  Proof. reflexivity. Qed.
  Lemma send_data_error_stops : forall chunk n caps sds,
    send_chunk CHUNK chunk (CapOk n :: caps) (false :: sds) =
      ([OReserve (N.min (lenN chunk) CHUNK)], SStop OErrSend).
  Proof. reflexivity. Qed.
  Lemma final_send_error : forall sds, finish (false :: sds) = ([], OErrSend).
  Proof. reflexivity. Qed.

  (* a failing body under fair grants: everything before the failure is sent, then the function
     returns the body error (the stream is dropped without END_STREAM => h2 resets it) *)
  Lemma body_loop_error : forall evs caps,
    body_fails evs = true -> Forall positive_grant caps ->
    (length (body_bytes evs) <= length caps)%nat ->
    snd (body_loop CHUNK evs caps []) = OErrBody.
  Proof.
    induction evs as [|e evs IH]; intros caps Hf HF Hlen; cbn [body_loop]; [discriminate|].
    destruct e as [c| |]; cbn [body_fails body_bytes] in *.
    - destruct c as [|b l]; [apply IH; assumption|].
      rewrite app_length in Hlen.
      destruct (send_chunk_completes CHUNK caps (b :: l) HF) as [t [caps' [E [Hl Hp]]]];
        [lia|discriminate|].
      rewrite E. destruct (body_loop CHUNK evs caps' []) as [t2 o2] eqn:Ebl. cbn [snd].
      change o2 with (snd (t2, o2)). rewrite <- Ebl. apply IH; [exact Hf|exact Hp|lia].
    - apply IH; assumption.
    - reflexivity.
  Qed.

  Lemma send_response_error : forall now r caps sds,
    handle_response CHUNK now r false caps sds = ([], OErrResponse).
  Proof.
    intros. unfold handle_response. destruct (prepare_response _ _ _ _). reflexivity.
  Qed.

  (* exactly one head per handle_response run that gets past send_response, none otherwise *)
  Fixpoint head_count (t : list sop) : nat :=
    match t with [] => O | OHead _ _ :: r => S (head_count r) | _ :: r => head_count r end.

  Lemma head_count_app a b : head_count (a ++ b) = (head_count a + head_count b)%nat.
  Proof. induction a as [|[] a IH]; cbn [head_count app]; rewrite ?IH; reflexivity. Qed.

  Lemma send_chunk_no_head : forall caps chunk sds t r,
    send_chunk CHUNK chunk caps sds = (t, r) -> head_count t = O.
  Proof.
    induction caps as [|a caps IH]; intros chunk sds t r H; cbn [send_chunk] in H.
    - inversion H; reflexivity.
    - destruct a as [| |cap]; try (inversion H; reflexivity).
      destruct (next_sd sds) as [ok sds']. destruct ok; cbn [negb] in H; [|inversion H; reflexivity].
      destruct (skipn _ chunk) as [|b l]; [inversion H; reflexivity|].
      destruct (send_chunk CHUNK (b :: l) caps sds') as [t' r'] eqn:E. inversion H; subst.
      cbn [head_count]. eapply IH; exact E.
  Qed.

  Lemma body_loop_no_head : forall evs caps sds t o,
    body_loop CHUNK evs caps sds = (t, o) -> head_count t = O.
  Proof.
    induction evs as [|e evs IH]; intros caps sds t o H; cbn [body_loop] in H.
    - unfold finish in H. destruct (fst (next_sd sds)); inversion H; reflexivity.
    - destruct e as [c| |]; [|eapply IH; exact H|inversion H; reflexivity].
      destruct c as [|b l]; [eapply IH; exact H|].
      destruct (send_chunk CHUNK (b :: l) caps sds) as [t1 r1] eqn:Esc.
      apply send_chunk_no_head in Esc. destruct r1 as [caps' sds'|o1]; [|inversion H; subst; exact Esc].
      destruct (body_loop CHUNK evs caps' sds') as [t2 o2] eqn:Ebl. inversion H; subst.
      rewrite head_count_app, Esc. eapply IH; exact Ebl.
  Qed.

  Lemma one_head : forall now r sr caps sds t o,
    handle_response CHUNK now r sr caps sds = (t, o) ->
    head_count t = (if sr then 1 else 0)%nat /\ (sr = false <-> o = OErrResponse).
  Proof.
    intros now r sr caps sds t o H. destruct sr.
    - pose proof (handle_response_spec CHUNK _ _ _ _ _ _ H) as S. cbn zeta in S.
      pose proof (body_loop_causes (r_body r) caps sds) as BC.
      destruct (is_eof _ || r_head_req r).
      + destruct S as [-> ->]. split; [reflexivity|]. split; discriminate.
      + destruct S as [tb [-> Hb]]. cbn [head_count]. rewrite (body_loop_no_head _ _ _ _ _ Hb).
        split; [reflexivity|]. split; [discriminate|]. intros ->. apply BC in Hb. destruct Hb.
    - rewrite send_response_error in H. inversion H; subst. split; [reflexivity|]. split; reflexivity.
  Qed.
End Err.
