(* Proofs about the shared connection window (H2/ConnWindow.v). *)
From AV Require Import Lib.Base H2.ConnWindow.

Lemma reserve_s_held n s : n <= s_pend s -> held_ok (fst (reserve_s n s)).
Proof.
  intro H. unfold reserve_s, held_ok. destruct (n <? s_asg s) eqn:E; cbn [fst s_asg s_req s_pend]; lia.
Qed.

Lemma reserve_s_pend n s : s_pend (fst (reserve_s n s)) = s_pend s /\ s_req (fst (reserve_s n s)) = n.
Proof. unfold reserve_s. destruct (n <? s_asg s); split; reflexivity. Qed.

Lemma app_at_Forall (P : sst -> Prop) f :
  (forall s, P s -> P (fst (f s))) ->
  forall i l, Forall P l -> Forall P (fst (app_at i f l)).
Proof.
  intros Hf i l. revert i. induction l as [|s r IH]; intros i H; [destruct i; constructor|].
  inversion H; subst. destruct i; cbn [app_at].
  - specialize (Hf s H2). destruct (f s) as [s' d]. cbn [fst] in *. constructor; assumption.
  - specialize (IH i H3). destruct (app_at i f r) as [r' d]. cbn [fst] in *. constructor; assumption.
Qed.

Section Inv.
  Variable rsv : N -> N.
  Variable assign : cst -> cst.

  (* h2, hypothesis 1: distributing the window changes only the assigned amounts; what a stream
     holds STAYS assigned (reserved-but-unused capacity is not taken back while the stream is
     open), and a stream is never given more than it requested *)
  Hypothesis assign_streams : forall c,
    Forall2 (fun s s' => s_pend s' = s_pend s /\ s_req s' = s_req s /\ s_asg s <= s_asg s' /\
                         (s_asg s <= s_req s -> s_asg s' <= s_req s'))
            (c_streams c) (c_streams (assign c)).

  Lemma assign_held c : Forall held_ok (c_streams c) -> Forall held_ok (c_streams (assign c)).
  Proof.
    intro H. pose proof (assign_streams c) as F.
    induction F as [|s s' l l' [Hp [Hr [Hm Hle]]] F IH]; [constructor|].
    inversion H; subst. constructor; [|apply IH; assumption].
    destruct H2 as [Ha Hq]. unfold held_ok. rewrite Hp, Hr. split; [apply Hle in Ha; lia|exact Hq].
  Qed.

  (* the code's rule: never reserve more than the unsent remainder (min(len, CHUNK_SIZE) <= len) *)
  Hypothesis rsv_le : forall len, rsv len <= len.

  Lemma chunk_s_held len s : held_ok s -> held_ok (fst (chunk_s rsv len s)).
  Proof.
    intro H. unfold chunk_s. destruct ((s_pend s =? 0) && (0 <? len)); [|exact H].
    apply reserve_s_held. cbn [s_pend]. apply rsv_le.
  Qed.

  Lemma send_s_held s : held_ok s -> held_ok (fst (send_s rsv s)).
  Proof.
    intros [Ha Hq]. unfold send_s. destruct ((0 <? s_pend s) && (0 <? s_asg s)); [|split; assumption].
    cbn zeta. cbn [s_pend].
    destruct (0 <? s_pend s - N.min (s_pend s) (s_asg s)).
    - apply reserve_s_held. cbn [s_pend]. apply rsv_le.
    - unfold held_ok. cbn [fst s_asg s_req s_pend]. lia.
  Qed.

  Lemma step_held c e : Forall held_ok (c_streams c) -> Forall held_ok (c_streams (step rsv assign c e)).
  Proof.
    intro H. destruct e as [i len|i|g]; cbn [step].
    - pose proof (app_at_Forall held_ok (chunk_s rsv len) (chunk_s_held len) i _ H) as H'.
      destruct (app_at i (chunk_s rsv len) (c_streams c)) as [l d]. apply assign_held. exact H'.
    - pose proof (app_at_Forall held_ok (send_s rsv) send_s_held i _ H) as H'.
      destruct (app_at i (send_s rsv) (c_streams c)) as [l d]. apply assign_held. exact H'.
    - apply assign_held. exact H.
  Qed.

  (* every reachable state, any interleaving of the streams' tasks and the peer's grants *)
  Theorem held_le_pending : forall evs c,
    Forall held_ok (c_streams c) -> Forall held_ok (c_streams (fold_left (step rsv assign) evs c)).
  Proof.
    induction evs as [|e evs IH]; intros c H; [exact H|]. cbn [fold_left]. apply IH, step_held, H.
  Qed.

  Corollary idle_streams_hold_nothing : forall evs c,
    Forall held_ok (c_streams c) ->
    Forall (fun s => s_pend s = 0 -> s_asg s = 0) (c_streams (fold_left (step rsv assign) evs c)).
  Proof.
    intros evs c H. eapply Forall_impl; [|apply held_le_pending; exact H].
    intros s [Ha Hq] Hp. lia.
  Qed.
End Inv.

(* ---------------------------------------------------------------- progress next to idle streams *)
Section Progress.
  Variable assign : cst -> cst.
  Hypothesis assign_streams : forall c,
    Forall2 (fun s s' => s_pend s' = s_pend s /\ s_req s' = s_req s /\ s_asg s <= s_asg s' /\
                         (s_asg s <= s_req s -> s_asg s' <= s_req s'))
            (c_streams c) (c_streams (assign c)).
  (* h2, hypothesis 2: distributing neither creates nor loses window *)
  Hypothesis assign_conserves : forall c,
    c_win (assign c) + sum_asg (c_streams (assign c)) = c_win c + sum_asg (c_streams c).
  (* h2, hypothesis 3: no window is left unassigned while some stream still asks for capacity *)
  Hypothesis assign_work_conserving : forall c,
    c_win (assign c) = 0 \/ Forall (fun s => s_req s <= s_asg s) (c_streams (assign c)).

  Lemma idle_sum l : Forall idle_ok l -> sum_asg l = 0.
  Proof. induction 1 as [|s l [_ [_ Ha]] _ IH]; [reflexivity|]. cbn [sum_asg fold_right]. fold (sum_asg l). lia. Qed.

  (* one stream wants to send, every other stream of the connection is idle: the whole of whatever
     the peer grants (up to the request) goes to that stream -- the idle streams take nothing *)
  Lemma assign_next_to_idle : forall win a idles,
    held_ok a -> Forall idle_ok idles ->
    exists a' idles',
      c_streams (assign (mkC win (a :: idles))) = a' :: idles' /\
      s_pend a' = s_pend a /\ s_req a' = s_req a /\ s_asg a <= s_asg a' <= s_req a /\
      Forall idle_ok idles' /\
      c_win (assign (mkC win (a :: idles))) + s_asg a' = win + s_asg a /\
      (c_win (assign (mkC win (a :: idles))) = 0 \/ s_asg a' = s_req a).
  Proof.
    intros win a idles [Ha Hq] Hi.
    pose proof (assign_streams (mkC win (a :: idles))) as F.
    pose proof (assign_conserves (mkC win (a :: idles))) as Hc.
    pose proof (assign_work_conserving (mkC win (a :: idles))) as Hw.
    cbn [c_streams c_win] in *.
    destruct (c_streams (assign (mkC win (a :: idles)))) as [|a' idles'] eqn:E; inversion F; subst.
    destruct H2 as [Hp [Hr [Hm Hle]]].
    assert (Hi' : Forall idle_ok idles').
    { clear - Hi H4. induction H4 as [|s s' l l' [Hp [Hr [Hm Hle]]] F IH]; [constructor|].
      inversion Hi; subst. destruct H1 as [P0 [R0 A0]]. constructor; [|apply IH; assumption].
      unfold idle_ok. rewrite Hp, Hr. repeat split; try assumption.
      assert (s_asg s <= s_req s) by lia. apply Hle in H. lia. }
    exists a', idles'. split; [reflexivity|]. split; [exact Hp|]. split; [exact Hr|].
    specialize (Hle Ha). split; [lia|]. split; [exact Hi'|].
    cbn [sum_asg fold_right] in Hc. fold (sum_asg idles') in Hc. fold (sum_asg idles) in Hc.
    rewrite (idle_sum _ Hi), (idle_sum _ Hi') in Hc. split; [lia|].
    destruct Hw as [Hw|Hw]; [left; exact Hw|right]. inversion Hw; subst. lia.
  Qed.

  (* a positive grant reaches the waiting stream: afterwards it holds capacity, min(grant, request)
     at least, whatever the number of idle streams on the connection *)
  Theorem grant_reaches_waiting_stream : forall rsv win a idles g,
    held_ok a -> Forall idle_ok idles -> 0 < s_req a -> 0 < g ->
    exists a' idles',
      c_streams (step rsv assign (mkC win (a :: idles)) (EGrant g)) = a' :: idles' /\
      s_pend a' = s_pend a /\ s_req a' = s_req a /\
      N.min (s_asg a + win + g) (s_req a) <= s_asg a' /\ 0 < s_asg a' /\
      Forall idle_ok idles'.
  Proof.
    intros rsv win a idles g Ha Hi Hr Hg. cbn [step c_win c_streams].
    destruct (assign_next_to_idle (win + g) a idles Ha Hi) as [a' [idles' [E [Hp [Hq [Hb [Hi' [Hc Hw]]]]]]]].
    exists a', idles'. split; [exact E|]. split; [exact Hp|]. split; [exact Hq|].
    split; [|split; [|exact Hi']]; destruct Hw as [Hw|Hw]; lia.
  Qed.
End Progress.

(* ---------------------------------------------------------------- the hypotheses are satisfiable *)
Lemma assign_fifo_streams : forall l win,
  Forall2 (fun s s' => s_pend s' = s_pend s /\ s_req s' = s_req s /\ s_asg s <= s_asg s' /\
                       (s_asg s <= s_req s -> s_asg s' <= s_req s'))
          l (snd (assign_fifo win l)).
Proof.
  induction l as [|s r IH]; intro win; cbn [assign_fifo]; [constructor|].
  specialize (IH (win - N.min win (s_req s - s_asg s))).
  destruct (assign_fifo (win - N.min win (s_req s - s_asg s)) r) as [w r']. cbn [snd] in *.
  constructor; [|exact IH]. cbn [s_pend s_req s_asg]. repeat split; lia.
Qed.

Lemma assign_ref_streams : forall c,
  Forall2 (fun s s' => s_pend s' = s_pend s /\ s_req s' = s_req s /\ s_asg s <= s_asg s' /\
                       (s_asg s <= s_req s -> s_asg s' <= s_req s'))
          (c_streams c) (c_streams (assign_ref c)).
Proof.
  intro c. unfold assign_ref. pose proof (assign_fifo_streams (c_streams c) (c_win c)) as H.
  destruct (assign_fifo (c_win c) (c_streams c)) as [w l]. exact H.
Qed.
