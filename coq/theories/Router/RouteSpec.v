(* C09 specification: "a request is handled by the first registered service (searching
   depth-first in registration order) whose pattern matches the not-yet-matched part of the path
   and whose guards accept it, otherwise by the nearest enclosing default".

   Declarative: no Path threading by a loop, no router; what "matches" and "captures" mean for ONE
   resource definition is C10's (`is_match`, `capture_match_info`, characterised there by the
   pattern language [Matches] and by [captured]). *)
(* C10's interface: wf_patterns, members, path_ok, captured *)
From AV Require Import Router.ResourceProofs.
From AV Require Import Lib.Base Router.Pattern Router.Match Router.Path Router.ResourceDef
  Router.Quoter Router.Spec Router.RouteTree.

Section Spec.
Variable MAX : N.
Variable rq : req.

(* the ResourceDef a service is registered with *)
Definition node_rdef (c : node) : R rdef := construct MAX (node_pats c) (node_prefix c).

(* the service's pattern matches the not-yet-matched part of the path, and its guards accept *)
Definition accepts (c : node) (pth : path) : Prop :=
  (exists rd, node_rdef c = Val rd /\ is_match rd (unprocessed pth) = true) /\
  guards_ok rq (node_guards c) = true.

(* committing to the service: its match is recorded in the Path (C10: skip advanced by the
   matched length, the captures of the matching pattern appended) *)
Definition committed (c : node) (pth pth' : path) : Prop :=
  exists rd, node_rdef c = Val rd /\ capture_match_info MAX rd pth = Val (true, pth').

(* the first registered service that accepts *)
Definition first_accepting (cs : list node) (pth : path) (i : nat) (c : node) : Prop :=
  nth_error cs i = Some c /\ accepts c pth /\
  forall j c', (j < i)%nat -> nth_error cs j = Some c' -> ~ accepts c' pth.

(* inside a resource: the first route whose guards accept, else the resource's default *)
Definition Selects (routes : list route_entry) (dflt h : handler) : Prop :=
  (exists i gs id, nth_error routes i = Some (gs, id) /\ guards_ok rq gs = true /\ h = HRoute id /\
     forall j gs' id', (j < i)%nat -> nth_error routes j = Some (gs', id') -> guards_ok rq gs' = false) \/
  ((forall gs id, In (gs, id) routes -> guards_ok rq gs = false) /\ h = dflt).

(* [nearest] = the inheritance rule for default services:
     true  : the property — a scope without a default service uses the NEAREST ENCLOSING one;
     false : Scope::register as it is — the services inside a scope are registered with the
             default of the configuration the scope itself was registered in (finding F26).
   [Routes_in cfg own cs pth st ids o] : the router over the services [cs], whose own default is
   [own] and whose services inherit [cfg], answers with [o] when entered with Path [pth], data
   containers [st] and resource-id path [ids]. *)
Variable nearest : bool.

Inductive Routes_in : handler -> handler -> list node -> path -> list data -> list nat -> outcome -> Prop :=
| RI_hit : forall cfg own cs pth st ids i c pth' o,
    first_accepting cs pth i c ->
    committed c pth pth' ->
    Enters c cfg pth' st (ids ++ [i]) o ->
    Routes_in cfg own cs pth st ids o
| RI_default : forall cfg own cs pth st ids,
    (forall c, In c cs -> ~ accepts c pth) ->
    Routes_in cfg own cs pth st ids (mkOut own ids false pth st)
(* the committed service is entered: its data container is pushed; a resource selects a route, a
   scope routes among its children *)
with Enters : node -> handler -> path -> list data -> list nat -> outcome -> Prop :=
| E_resource : forall ps gs routes dflt dat cfg pth st ids h,
    Selects routes (default_handler dflt H405) h ->
    Enters (Resource ps gs routes dflt dat) cfg pth st ids (mkOut h ids true pth (push dat st))
| E_scope : forall pfx gs kids dflt dat cfg pth st ids o,
    Routes_in (if nearest then default_handler dflt cfg else cfg) (default_handler dflt cfg)
              kids pth (push dat st) ids o ->
    Enters (Scope pfx gs kids dflt dat) cfg pth st ids o.

End Spec.

(* the routed path: every escape decoded except those of '%', '/' and '+' (C10 reference decoder) *)
Definition routed_path (rq : req) : path := path_new (spec_decode [37; 47; 43] (r_uri_path rq)).

Definition app_default (a : app) : handler := default_handler (a_default a) H404.

(* the property's relation: nearest enclosing default *)
Definition Routes (MAX : N) (a : app) (rq : req) (o : outcome) : Prop :=
  Routes_in MAX rq true (app_default a) (app_default a) (a_children a) (routed_path rq) [a_data a] [] o.

(* the same search with the inheritance rule of Scope::register as it is *)
Definition RoutesCode (MAX : N) (a : app) (rq : req) (o : outcome) : Prop :=
  Routes_in MAX rq false (app_default a) (app_default a) (a_children a) (routed_path rq) [a_data a] [] o.

(* ------------------------------------------------------------------------- finding F26: class *)
(* [ctx] = some enclosing scope has a default service of its own.  A table is in the class when
   it contains a default-less scope nested (at any depth) in a scope with a default service. *)
Fixpoint bad_in (ctx : bool) (c : node) : bool :=
  match c with
  | Resource _ _ _ _ _ => false
  | Scope _ _ kids dflt _ =>
      match dflt with
      | None => ctx || existsb (bad_in ctx) kids
      | Some _ => existsb (bad_in true) kids
      end
  end.
Definition Known_F26 (a : app) : Prop := existsb (bad_in false) (a_children a) = true.

(* ------------------------------------------------------------------------------ well-formedness *)
(* the application can be built: every pattern has distinct non-empty names (the regex crate
   rejects others) and at most MAX dynamic segments (`ResourceDef::parse` asserts) *)
Definition wf_def (MAX : N) (c : node) : Prop :=
  wf_patterns (node_pats c) /\ exists rd, node_rdef MAX c = Val rd.

Inductive wf_node (MAX : N) : node -> Prop :=
| WF_resource : forall ps gs routes dflt dat,
    wf_def MAX (Resource ps gs routes dflt dat) -> wf_node MAX (Resource ps gs routes dflt dat)
| WF_scope : forall pfx gs kids dflt dat,
    wf_def MAX (Scope pfx gs kids dflt dat) -> Forall (wf_node MAX) kids ->
    wf_node MAX (Scope pfx gs kids dflt dat).

Definition wf_app (MAX : N) (a : app) : Prop := Forall (wf_node MAX) (a_children a).

(* ------------------------------------------------------- the chain of services a request took *)
(* [Trace cs pth ids pth' steps] : following the resource ids [ids] down from the services [cs],
   each service on the way matched one of its patterns [p] on the then-unprocessed part, with
   matched length [n] and decomposition [ws] (C10 [captured]); [pth'] is the Path at the end *)
Inductive Trace : list node -> path -> list nat -> path -> list (node * pattern * nat * list bytes) -> Prop :=
| T_nil : forall cs pth, Trace cs pth [] pth []
| T_step : forall cs pth i c p n ws pth1 ids pth2 steps,
    nth_error cs i = Some c ->
    In p (members (node_pats c)) ->
    captured (node_prefix c) p pth n ws pth1 ->
    Trace (node_children c) pth1 ids pth2 steps ->
    Trace cs pth (i :: ids) pth2 ((c, p, n, ws) :: steps).

(* the parameters contributed by the chain, in order *)
Definition chain_values (steps : list (node * pattern * nat * list bytes)) : list (name * bytes) :=
  concat (map (fun s : node * pattern * nat * list bytes =>
                 match s with (_, p, _, ws) => values (p_segs p) ws end) steps).
Definition chain_len (steps : list (node * pattern * nat * list bytes)) : nat :=
  fold_right (fun (s : node * pattern * nat * list bytes) acc =>
                match s with (_, _, n, _) => (n + acc)%nat end) 0%nat steps.
(* the data containers pushed along the chain *)
Definition chain_stack (st : list data) (steps : list (node * pattern * nat * list bytes)) : list data :=
  fold_left (fun acc (s : node * pattern * nat * list bytes) =>
               match s with (c, _, _, _) => push (node_data c) acc end) steps st.
