(* Translator tie for C10: the literals of actix-router/src/quoter.rs and resource.rs that
   tools/extract_consts.py regenerates on every run (Gen/RouterTables.v) are exactly what the
   model interprets.  A changed literal in the Rust source changes the generated file and one of
   the lemmas below stops compiling (in addition to the correspondence check noticing). *)
From AV Require Import Lib.Base Gen.Consts Gen.RouterTables.
From AV Require Import Router.Pattern Router.Match Router.Quoter Router.Spec.

(* ======================================================================== regex fragments *)
(* A tiny reader for the regex text that `ResourceDef::parse` assembles, restricted to what the
   model supports: flags group "(?s-m)", "^", "(", "(?P<name>", ")", "(/|$)", "$", the classes
   of Pattern.v with quantifiers + * ? {n}, escaped and plain literals. *)
Definition is_digit (b : N) : bool := in_range 48 57 b.

Fixpoint read_nat (s : bytes) (acc : nat) : nat * bytes :=
  match s with
  | b :: r => if is_digit b then read_nat r (acc * 10 + N.to_nat (b - 48)) else (acc, s)
  | [] => (acc, s)
  end.

Definition read_quant (s : bytes) : quant * bytes :=
  match s with
  | 43 :: r => (QPlus, r)
  | 42 :: r => (QStar, r)
  | 63 :: r => (QOpt, r)
  | 123 :: r => let '(n, r') := read_nat r 0 in
                match r' with 125 :: r'' => (QRep n, r'') | _ => (QOne, s) end
  | _ => (QOne, s)
  end.

(* a character class at the head of [s] *)
Definition read_cls (s : bytes) : option (cls * bytes) :=
  match strip_prefix [91; 94; 47; 93] s with Some r => Some (CNotSlash, r) | None =>
  match strip_prefix [91; 97; 45; 122; 93] s with Some r => Some (CLower, r) | None =>
  match strip_prefix [91; 97; 45; 102; 48; 45; 57; 93] s with Some r => Some (CHexLower, r) | None =>
  match strip_prefix [92; 100] s with Some r => Some (CDigit, r) | None =>
  match strip_prefix [92; 119] s with Some r => Some (CWord, r) | None =>
  match strip_prefix [46] s with Some r => Some (CAny, r) | None => None
  end end end end end end.

Fixpoint take_until (c : N) (s : bytes) : option (bytes * bytes) :=
  match s with
  | [] => None
  | b :: r => if b =? c then Some ([], r)
              else match take_until c r with Some (a, r') => Some (b :: a, r') | None => None end
  end.

(* flags group: "(?" on-flags "-" off-flags ")" ; the model needs s (dot matches '\n', as
   [CAny] does) and needs m off ([IEnd] = end of haystack only) *)
Definition read_flags (s : bytes) : option (bool * bool * bytes) :=
  match s with
  | 40 :: 63 :: r =>
      match take_until 41 r with
      | Some (fl, rest) =>
          match take_until 45 (fl ++ [45]) with
          | Some (on, off) =>
              Some (existsb (fun b => b =? 115) on && negb (existsb (fun b => b =? 115) off),
                    existsb (fun b => b =? 109) on && negb (existsb (fun b => b =? 109) off), rest)
          | None => None
          end
      | None => None
      end
  | _ => None
  end.

Fixpoint read_items (fuel : nat) (s : bytes) : option regex :=
  match fuel with
  | O => match s with [] => Some [] | _ => None end
  | S f =>
      match s with
      | [] => Some []
      | b :: r =>
          let cont (it : item) (rest : bytes) :=
              match read_items f rest with Some l => Some (it :: l) | None => None end in
          match strip_prefix [40; 47; 124; 36; 41] s with
          | Some rest => cont IBoundary rest                       (* (/|$) *)
          | None =>
          match strip_prefix [40; 63; 80; 60] s with               (* (?P< name > *)
          | Some rest => match take_until 62 rest with
                         | Some (nm, rest') => cont (IOpen nm) rest'
                         | None => None
                         end
          | None =>
          match read_cls s with
          | Some (c, rest) => let '(q, rest') := read_quant rest in cont (ICls c q) rest'
          | None =>
              if b =? 40 then cont (IOpen group1) r
              else if b =? 41 then cont IClose r
              else if b =? 36 then cont IEnd r
              else if b =? 92 then match r with x :: r' => cont (ILit x) r' | [] => None end
              else cont (ILit b) r
          end end end
      end
  end.

(* "(" "(?s-m)" "^" ... : the flags group sits right after the opening parenthesis of group 1 *)
Definition read_regex (s : bytes) : option regex :=
  match s with
  | 40 :: r =>
      match read_flags r with
      | Some (true, false, 94 :: rest) =>
          match read_items (length rest) rest with
          | Some l => Some (IOpen group1 :: l)
          | None => None
          end
      | _ => None
      end
  | _ => None
  end.

(* ------------------------------------------------- the text the code assembles (format!) *)
Fixpoint fmt (f : bytes) (args : list bytes) : bytes :=
  match f with
  | 123 :: 125 :: r => match args with a :: args' => a ++ fmt r args' | [] => fmt r [] end
  | b :: r => b :: fmt r args
  | [] => []
  end.

(* regex::escape *)
Definition is_meta (b : N) : bool :=
  existsb (fun m => m =? b) [92; 46; 43; 42; 63; 40; 41; 124; 91; 93; 123; 125; 94; 36; 35; 38; 45; 126].
Definition escape (s : bytes) : bytes := flat_map (fun b => if is_meta b then [92; b] else [b]) s.

Definition seg_text (last_tail : bool) (s : seg) : bytes :=
  match s with
  | SConst b => escape b
  | SVar nm r => fmt ROUTER_NAMED_GROUP_FORMAT
                   [nm; if last_tail then ROUTER_DEFAULT_PATTERN_TAIL else render_re r]
  end.

Fixpoint segs_text (tail : bool) (l : list seg) : bytes :=
  match l with
  | [] => []
  | [s] => seg_text tail s
  | s :: r => seg_text false s ++ segs_text tail r
  end.

(* `parse`: format!("{}^", REGEX_FLAGS) + segments, wrapped by format!("({})", re), + suffix *)
Definition regex_text (is_prefix : bool) (p : pattern) : bytes :=
  fmt ROUTER_GROUP1_FORMAT [fmt ROUTER_ANCHOR_FORMAT [ROUTER_REGEX_FLAGS] ++ segs_text (p_tail p) (p_segs p)]
  ++ (if p_tail p then [] else if is_prefix then ROUTER_SUFFIX_PREFIX else ROUTER_SUFFIX_FULL).

(* ---------------------------------------------------------------------------------- lemmas *)
(* DEFAULT_PATTERN is the model's default segment class, DEFAULT_PATTERN_TAIL the tail class *)
Lemma default_pattern_is_not_slash_plus :
  read_items (length ROUTER_DEFAULT_PATTERN) ROUTER_DEFAULT_PATTERN = Some (map compile_atom default_re) /\
  render_re default_re = ROUTER_DEFAULT_PATTERN.
Proof. split; vm_compute; reflexivity. Qed.

Lemma default_pattern_tail_is_any_star :
  read_items (length ROUTER_DEFAULT_PATTERN_TAIL) ROUTER_DEFAULT_PATTERN_TAIL = Some (map compile_atom tail_re) /\
  render_re tail_re = ROUTER_DEFAULT_PATTERN_TAIL.
Proof. split; vm_compute; reflexivity. Qed.

(* the suffix rule of the model is the interpretation of the two suffix literals *)
Lemma suffix_rule_is_generated :
  read_items (length ROUTER_SUFFIX_FULL) ROUTER_SUFFIX_FULL = Some (suffix false false) /\
  read_items (length ROUTER_SUFFIX_PREFIX) ROUTER_SUFFIX_PREFIX = Some (suffix true false).
Proof. split; vm_compute; reflexivity. Qed.

(* REGEX_FLAGS: dot matches every character ('\n' included), `$` is not multi-line *)
Lemma regex_flags_are_s_minus_m :
  read_flags ROUTER_REGEX_FLAGS = Some (true, false, []) /\ cls_mem CAny 10 = true.
Proof. split; vm_compute; reflexivity. Qed.

Lemma max_dynamic_segments_same : ROUTER_TABLE_MAX_DYNAMIC_SEGMENTS = ROUTER_MAX_DYNAMIC_SEGMENTS.
Proof. reflexivity. Qed.

(* whole regexes: reading the text assembled from the generated literals gives [compile] *)
Definition tie_patterns : list (bool * pattern) :=
  let v n r := SVar n r in
  [ (false, mkPattern [SConst [47; 117; 115; 101; 114; 47]; v [105; 100] default_re; SConst [47; 120]] false);
    (true,  mkPattern [SConst [47]; v [97] default_re; SConst [45]; v [98] [ACls CDigit (QRep 2)]] false);
    (false, mkPattern [SConst [47; 97; 46; 98; 47]; v [116] tail_re] true);
    (true,  mkPattern [SConst [47]; v [120] [ACls CLower QPlus; ACls CDigit QStar]; SConst [47];
                       v [121] [ACls CHexLower (QRep 8)]; SConst [47]; v [122] [ACls CWord QOpt; ACls CNotSlash QStar]] false);
    (false, mkPattern [SConst [47; 97]] false) ].

Lemma regex_text_reads_as_compile :
  forallb (fun x : bool * pattern =>
     match read_regex (regex_text (fst x) (snd x)) with
     | Some re => Nat.eqb (length re) (length (compile (fst x) (snd x))) &&
                  forallb (fun ab : item * item =>
                     match fst ab, snd ab with
                     | ILit a, ILit b => a =? b
                     | ICls p q, ICls p' q' => atom_eqb (ACls p q) (ACls p' q')
                     | IOpen a, IOpen b => bytes_eqb a b
                     | IClose, IClose | IEnd, IEnd | IBoundary, IBoundary => true
                     | _, _ => false
                     end) (combine re (compile (fst x) (snd x)))
     | None => false
     end) tie_patterns = true.
Proof. vm_compute. reflexivity. Qed.

(* ================================================================================== quoter *)
(* char::to_digit(radix) on a Latin-1 character *)
Definition to_digit (radix d : N) : option N :=
  let v := if in_range 48 57 d then Some (d - 48)
           else if in_range 97 122 d then Some (d - 87)
           else if in_range 65 90 d then Some (d - 55) else None in
  match v with Some x => if x <? radix then Some x else None | None => None end.

Lemma hex_digit_is_to_digit_radix : forall d, hex_digit d = to_digit QUOTER_HEX_RADIX d.
Proof.
  intro d. unfold hex_digit, to_digit, QUOTER_HEX_RADIX, in_range.
  destruct (48 <=? d) eqn:A, (d <=? 57) eqn:B, (97 <=? d) eqn:C, (d <=? 102) eqn:D, (d <=? 122) eqn:D',
           (65 <=? d) eqn:E, (d <=? 70) eqn:F, (d <=? 90) eqn:F'; cbn [andb]; try lia;
    repeat match goal with |- context [?x <? 16] => destruct (x <? 16) eqn:?; try lia end; reflexivity.
Qed.

(* (d_high << SHIFT) | d_low, the two nibbles being disjoint *)
Lemma hex_pair_uses_shift : forall d1 d2,
  hex_pair_to_char d1 d2 =
  match to_digit QUOTER_HEX_RADIX d1, to_digit QUOTER_HEX_RADIX d2 with
  | Some h, Some l => Some (h * 2 ^ QUOTER_HIGH_SHIFT + l)
  | _, _ => None
  end.
Proof.
  intros. unfold hex_pair_to_char. rewrite !hex_digit_is_to_digit_radix.
  destruct (to_digit QUOTER_HEX_RADIX d1), (to_digit QUOTER_HEX_RADIX d2); reflexivity.
Qed.

(* decode_next looks for the generated escape byte and spares protected bytes below the limit *)
Lemma escape_at_uses_generated : forall q b p1 p2 rem,
  escape_at q (b :: p1 :: p2 :: rem) =
  if bytes_eqb [b] QUOTER_ESCAPE_BYTE then
    match hex_pair_to_char p1 p2 with
    | Some ch => if (ch <? QUOTER_ASCII_LIMIT) && bit_at q ch then None else Some (ch, rem)
    | None => None
    end
  else None.
Proof.
  intros. unfold escape_at, QUOTER_ESCAPE_BYTE, QUOTER_ASCII_LIMIT. cbn [bytes_eqb]. rewrite andb_true_r. reflexivity.
Qed.

(* AsciiBitmap: `array[ch >> SHIFT] |= 1 << (ch & MASK)` with `array: [u8; BYTES]`:
   Quoter::new panics exactly when the index is out of bounds, i.e. for ch >= 128; (index, bit)
   identifies the byte, so the bit-set is faithfully a set of bytes (the model's list) *)
Lemma quoter_new_is_bitmap_bound : forall prot,
  quoter_new prot =
  if forallb (fun ch => N.shiftr ch QUOTER_BITMAP_INDEX_SHIFT <? QUOTER_BITMAP_BYTES) prot then Val prot else Panic.
Proof.
  intro prot. unfold quoter_new.
  assert (E : forall ch, (N.shiftr ch QUOTER_BITMAP_INDEX_SHIFT <? QUOTER_BITMAP_BYTES) = (ch <? 128)).
  { intro ch. unfold QUOTER_BITMAP_INDEX_SHIFT, QUOTER_BITMAP_BYTES. rewrite N.shiftr_div_pow2. change (2 ^ 3) with 8.
    destruct (ch <? 128) eqn:A, (ch / 8 <? 16) eqn:B; try reflexivity.
    - apply N.ltb_lt in A. apply N.ltb_ge in B. pose proof (N.div_lt_upper_bound ch 8 16). lia.
    - apply N.ltb_ge in A. apply N.ltb_lt in B. pose proof (N.div_le_lower_bound ch 8 16). lia. }
  replace (forallb (fun ch => N.shiftr ch QUOTER_BITMAP_INDEX_SHIFT <? QUOTER_BITMAP_BYTES) prot)
    with (forallb (fun ch => ch <? 128) prot); [reflexivity|].
  induction prot as [|ch r IH]; [reflexivity|]. cbn [forallb]. rewrite IH, E. reflexivity.
Qed.

Lemma bitmap_mask_matches_shift :
  QUOTER_BITMAP_BIT_MASK = N.ones QUOTER_BITMAP_INDEX_SHIFT /\
  QUOTER_BITMAP_BYTES * 2 ^ QUOTER_BITMAP_INDEX_SHIFT = QUOTER_ASCII_LIMIT.
Proof. split; reflexivity. Qed.

Lemma bitmap_position_injective : forall a b,
  N.shiftr a QUOTER_BITMAP_INDEX_SHIFT = N.shiftr b QUOTER_BITMAP_INDEX_SHIFT ->
  N.land a QUOTER_BITMAP_BIT_MASK = N.land b QUOTER_BITMAP_BIT_MASK -> a = b.
Proof.
  intros a b H1 H2. destruct bitmap_mask_matches_shift as (M & _). rewrite M, !N.land_ones in H2.
  rewrite !N.shiftr_div_pow2 in H1.
  rewrite (N.div_mod a (2 ^ QUOTER_BITMAP_INDEX_SHIFT)), (N.div_mod b (2 ^ QUOTER_BITMAP_INDEX_SHIFT)) by discriminate.
  rewrite H1, H2. reflexivity.
Qed.
