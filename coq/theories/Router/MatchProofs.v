(* Proofs about the matcher (Match.v) against the declarative language (Spec.v). *)
From AV Require Import Lib.Base Router.Pattern Router.Match Router.Spec.

Definition isSome {A} (o : option A) : bool := match o with Some _ => true | None => false end.

(* ------------------------------------------------------------------------------ list helpers *)
Lemma strip_prefix_spec : forall b s s', strip_prefix b s = Some s' <-> s = b ++ s'.
Proof.
  induction b as [|x b IH]; intros s s'; cbn [strip_prefix app].
  - split; intro H; [inversion H; reflexivity | subst; reflexivity].
  - destruct s as [|y s].
    + split; intro H; discriminate.
    + destruct (x =? y) eqn:E.
      * apply N.eqb_eq in E; subst y. rewrite IH. split; intro H; [subst; reflexivity | inversion H; reflexivity].
      * apply N.eqb_neq in E. split; intro H; [discriminate | inversion H; congruence].
Qed.

Lemma strip_prefix_app : forall b s', strip_prefix b (b ++ s') = Some s'.
Proof. intros. apply strip_prefix_spec. reflexivity. Qed.

Lemma firstn_skipn_len : forall (j : nat) (s : bytes), (j <= length s)%nat -> length (firstn j s) = j.
Proof. intros. rewrite firstn_length. lia. Qed.

(* -------------------------------------------------------------------------------- quantifiers *)
(* the admissible repetition counts of the matcher are exactly those of the specification *)
Lemma q_ok_iff : forall q j L, (j <= L)%nat ->
  (q_ok q j <-> (qmin q <= j)%nat /\ (j <= qmax q L)%nat).
Proof. intros q j L H. destruct q; cbn [q_ok qmin qmax]; lia. Qed.

(* ---------------------------------------------------------------------------- greedy / any_rep *)
Definition valid (p : cls) (lo n : nat) (s : bytes) (k j : nat) : Prop :=
  (j <= n)%nat /\ (j <= length s)%nat /\ forallb (cls_mem p) (firstn j s) = true /\ (lo <= k + j)%nat.

Lemma valid_0 : forall p lo n s k, valid p lo n s k 0 <-> (lo <= k)%nat.
Proof. intros. unfold valid. cbn [firstn forallb]. split; [intros (_&_&_&H); lia | intro; repeat split; lia]. Qed.

Lemma valid_S : forall p lo n c t k j,
  valid p lo (S n) (c :: t) k (S j) <-> cls_mem p c = true /\ valid p lo n t (S k) j.
Proof.
  intros. unfold valid. cbn [firstn forallb length]. rewrite andb_true_iff.
  split; [intros (A&B&(C&D)&E) | intros (C&A&B&D&E)]; repeat split; try assumption; lia.
Qed.

Lemma valid_nil : forall p lo n k j, valid p lo n [] k j -> j = 0%nat.
Proof. intros p lo n k j (_&H&_). cbn in H. lia. Qed.

Lemma valid_n0 : forall p lo s k j, valid p lo 0 s k j -> j = 0%nat.
Proof. intros p lo s k j (H&_). lia. Qed.

(* greedy fails only if the continuation fails at every admissible count *)
Lemma greedy_none : forall A p lo n s k (f : nat -> bytes -> option A),
  greedy p lo n s k f = None ->
  forall j, valid p lo n s k j -> f (k + j)%nat (skipn j s) = None.
Proof.
  intros A p lo. induction n as [|n IH]; intros s k f G j V.
  - pose proof (valid_n0 _ _ _ _ _ V) as ->. apply valid_0 in V. apply Nat.leb_le in V.
    rewrite Nat.add_0_r. cbn [skipn greedy] in *. rewrite V in G. destruct s; exact G.
  - destruct s as [|c t].
    + pose proof (valid_nil _ _ _ _ _ V) as ->. apply valid_0 in V. apply Nat.leb_le in V.
      rewrite Nat.add_0_r. cbn [skipn greedy] in *. rewrite V in G. exact G.
    + cbn [greedy] in G. destruct j as [|j].
      * apply valid_0 in V. apply Nat.leb_le in V. rewrite V in G. rewrite Nat.add_0_r. cbn [skipn].
        destruct (cls_mem p c); [destruct (greedy p lo n t (S k) f); [discriminate|]|]; exact G.
      * apply valid_S in V as (C & V). rewrite C in G.
        destruct (greedy p lo n t (S k) f) eqn:G'; [discriminate|].
        replace (k + S j)%nat with (S k + j)%nat by lia. cbn [skipn]. eapply IH; eassumption.
Qed.

(* what greedy returns: the continuation's answer at the LARGEST admissible count at which the
   continuation succeeds *)
Lemma greedy_spec : forall A p lo n s k (f : nat -> bytes -> option A) r,
  greedy p lo n s k f = Some r ->
  exists j, valid p lo n s k j /\ f (k + j)%nat (skipn j s) = Some r /\
            forall j', valid p lo n s k j' -> (j < j')%nat -> f (k + j')%nat (skipn j' s) = None.
Proof.
  intros A p lo. induction n as [|n IH]; intros s k f r H.
  - cbn [greedy] in H. destruct (Nat.leb lo k) eqn:E; [|destruct s; discriminate].
    assert (H' : f k s = Some r) by (destruct s; exact H). clear H.
    exists 0%nat. rewrite valid_0, Nat.add_0_r. cbn [skipn]. apply Nat.leb_le in E.
    split; [assumption|]. split; [assumption|]. intros j' V L. apply valid_n0 in V. lia.
  - cbn [greedy] in H. destruct s as [|c t].
    + destruct (Nat.leb lo k) eqn:E; [|discriminate].
      exists 0%nat. rewrite valid_0, Nat.add_0_r. cbn [skipn]. apply Nat.leb_le in E.
      split; [assumption|]. split; [assumption|]. intros j' V L. apply valid_nil in V. lia.
    + destruct (cls_mem p c) eqn:Ec.
      * destruct (greedy p lo n t (S k) f) as [r'|] eqn:G.
        -- inversion H; subst r'. apply IH in G as (j & V & F & M).
           exists (S j). rewrite valid_S. cbn [skipn]. replace (k + S j)%nat with (S k + j)%nat by lia.
           split; [split; assumption|]. split; [assumption|]. intros j' V' L. destruct j' as [|j']; [lia|].
           apply valid_S in V' as (_ & V'). replace (k + S j')%nat with (S k + j')%nat by lia.
           cbn [skipn]. apply M; [assumption | lia].
        -- destruct (Nat.leb lo k) eqn:E; [|discriminate].
           exists 0%nat. rewrite valid_0, Nat.add_0_r. cbn [skipn]. apply Nat.leb_le in E.
           split; [assumption|]. split; [assumption|]. intros j' V' L. destruct j' as [|j']; [lia|].
           apply valid_S in V' as (_ & V'). replace (k + S j')%nat with (S k + j')%nat by lia. cbn [skipn].
           eapply greedy_none; eassumption.
      * destruct (Nat.leb lo k) eqn:E; [|discriminate].
        exists 0%nat. rewrite valid_0, Nat.add_0_r. cbn [skipn]. apply Nat.leb_le in E.
        split; [assumption|]. split; [assumption|]. intros j' V' L. destruct j' as [|j']; [lia|].
        apply valid_S in V' as (C & _). congruence.
Qed.

(* completeness of greedy: it succeeds whenever the continuation succeeds at some admissible count *)
Lemma greedy_complete : forall A p lo n s k (f : nat -> bytes -> option A) j,
  valid p lo n s k j -> f (k + j)%nat (skipn j s) <> None -> greedy p lo n s k f <> None.
Proof.
  intros A p lo n s k f j V F G. apply F. eapply greedy_none; eassumption.
Qed.

Lemma any_rep_spec : forall p lo n s k (f : bytes -> bool),
  any_rep p lo n s k f = true <-> exists j, valid p lo n s k j /\ f (skipn j s) = true.
Proof.
  intros p lo. induction n as [|n IH]; intros s k f.
  - cbn [any_rep]. replace (match s with [] => false | _ :: _ => false end) with false by (destruct s; reflexivity).
    rewrite orb_false_r. split.
    + intro H. destruct (Nat.leb lo k) eqn:E; [|discriminate]. exists 0%nat. rewrite valid_0.
      apply Nat.leb_le in E. split; assumption.
    + intros (j & V & F). pose proof (valid_n0 _ _ _ _ _ V) as ->. apply valid_0 in V.
      apply Nat.leb_le in V. rewrite V. exact F.
  - destruct s as [|c t].
    + cbn [any_rep]. rewrite orb_false_r. split.
      * intro H. destruct (Nat.leb lo k) eqn:E; [|discriminate]. exists 0%nat. rewrite valid_0.
        apply Nat.leb_le in E. split; assumption.
      * intros (j & V & F). pose proof (valid_nil _ _ _ _ _ V) as ->. apply valid_0 in V.
        apply Nat.leb_le in V. rewrite V. exact F.
    + cbn [any_rep]. rewrite orb_true_iff, andb_true_iff, IH. split.
      * intros [H | (C & j & V & F)].
        -- destruct (Nat.leb lo k) eqn:E; [|discriminate]. exists 0%nat. rewrite valid_0.
           apply Nat.leb_le in E. split; assumption.
        -- exists (S j). rewrite valid_S. cbn [skipn]. split; [split; assumption | assumption].
      * intros (j & V & F). destruct j as [|j].
        -- left. apply valid_0 in V. apply Nat.leb_le in V. rewrite V. exact F.
        -- right. apply valid_S in V as (C & V). split; [assumption|]. exists j. split; assumption.
Qed.

(* -------------------------------------------------------------------- list helpers (continued) *)
Lemma firstn_len_app : forall (a b : bytes), firstn (length a) (a ++ b) = a.
Proof. induction a as [|x a IH]; intro b; cbn [length firstn app]; [reflexivity | rewrite IH; reflexivity]. Qed.

Lemma skipn_len_app : forall (a b : bytes), skipn (length a) (a ++ b) = b.
Proof. induction a as [|x a IH]; intro b; cbn [length skipn app]; [reflexivity | apply IH]. Qed.

Lemma firstn_skipn_app : forall (j : nat) (s : bytes), s = firstn j s ++ skipn j s.
Proof. intros. symmetry. apply firstn_skipn. Qed.

(* ------------------------------------------------------------- is_match agrees with captures *)
(* the existence search and the backtracking search succeed on exactly the same inputs *)
Lemma accepts_m : forall its s pos oa cs, isSome (m its s pos oa cs) = accepts its s.
Proof.
  induction its as [|a r IH]; intros s pos oa cs; [reflexivity|].
  destruct a; cbn [m accepts].
  - destruct s as [|c' s]; [reflexivity|]. destruct (c =? c'); cbn [andb]; [apply IH | reflexivity].
  - destruct (greedy p (qmin q) (qmax q (length s)) s 0 (fun k s' => m r s' (pos + k)%nat oa cs)) eqn:G.
    + apply greedy_spec in G as (j & V & F & _). cbn beta in F. symmetry. apply any_rep_spec.
      exists j. split; [exact V|]. rewrite <- (IH _ (pos + (0 + j))%nat oa cs), F. reflexivity.
    + symmetry. apply not_true_iff_false. intro A. apply any_rep_spec in A as (j & V & F).
      eapply greedy_none in G; [|exact V]. cbn beta in G.
      rewrite <- (IH _ (pos + (0 + j))%nat oa cs), G in F. discriminate.
  - apply IH.
  - destruct oa as [|[n st] oa]; apply IH.
  - destruct s; [apply IH | reflexivity].
  - destruct s as [|c s]; [apply IH|]. destruct (c =? 47); cbn [andb]; [apply IH | reflexivity].
Qed.

Lemma re_captures_is_match : forall re s, isSome (re_captures re s) = re_is_match re s.
Proof.
  intros. unfold re_captures, re_is_match. rewrite <- (accepts_m re s 0%nat [] []).
  destruct (m re s 0%nat [] []) as [[? ?]|]; reflexivity.
Qed.

(* ------------------------------------------------------------------------------- literal text *)
Lemma m_lits : forall b r s pos oa cs,
  m (map ILit b ++ r) s pos oa cs =
  match strip_prefix b s with Some s' => m r s' (pos + length b)%nat oa cs | None => None end.
Proof.
  induction b as [|x b IH]; intros; cbn [map app strip_prefix length].
  - rewrite Nat.add_0_r. reflexivity.
  - cbn [m]. destruct s as [|y s]; [reflexivity|]. destruct (x =? y); [|reflexivity].
    rewrite IH. replace (S pos + length b)%nat with (pos + S (length b))%nat by lia. reflexivity.
Qed.

Lemma accepts_lits : forall b r s,
  accepts (map ILit b ++ r) s = match strip_prefix b s with Some s' => accepts r s' | None => false end.
Proof.
  induction b as [|x b IH]; intros; cbn [map app strip_prefix]; [reflexivity|].
  cbn [accepts]. destruct s as [|y s]; [reflexivity|]. destruct (x =? y); cbn [andb]; [apply IH | reflexivity].
Qed.

(* -------------------------------------------------------------------------------- soundness *)
Lemma q_valid_lang : forall p q s j,
  valid p (qmin q) (qmax q (length s)) s 0 j -> atom_lang (ACls p q) (firstn j s) /\ (j <= length s)%nat.
Proof.
  intros p q s j (A & B & C & D). split; [|exact B]. cbn [atom_lang]. split; [exact C|].
  rewrite firstn_length, Nat.min_l by exact B. apply (q_ok_iff q j (length s) B). lia.
Qed.

Lemma m_atoms_sound : forall re rest s pos oa cs res,
  m (map compile_atom re ++ rest) s pos oa cs = Some res ->
  exists w s', s = w ++ s' /\ re_lang re w /\ m rest s' (pos + length w)%nat oa cs = Some res.
Proof.
  induction re as [|a re IH]; intros rest s pos oa cs res H; cbn [map app] in H.
  - exists [], s. cbn [app length re_lang]. rewrite Nat.add_0_r. repeat split; assumption.
  - destruct a as [c|p q]; cbn [compile_atom m] in H.
    + destruct s as [|c' s]; [discriminate|]. destruct (c =? c') eqn:E; [|discriminate].
      apply N.eqb_eq in E; subst c'. apply IH in H as (w & s' & -> & L & M).
      exists (c :: w), s'. split; [reflexivity|]. split.
      * cbn [re_lang]. exists [c], w. split; [reflexivity|]. split; [reflexivity | assumption].
      * cbn [length]. replace (pos + S (length w))%nat with (S pos + length w)%nat by lia. exact M.
    + apply greedy_spec in H as (j & V & F & _). cbn beta in F.
      apply q_valid_lang in V as (LA & B). apply IH in F as (w & s' & E & L & M).
      exists (firstn j s ++ w), s'. split; [|split].
      * rewrite <- app_assoc, <- E. apply firstn_skipn_app.
      * cbn [re_lang]. exists (firstn j s), w. split; [reflexivity|]. split; assumption.
      * rewrite app_length, firstn_length, Nat.min_l by exact B.
        replace (pos + (j + length w))%nat with (pos + (0 + j) + length w)%nat by lia. exact M.
Qed.

Lemma compile_segs_cons : forall sg r, compile_segs (sg :: r) = compile_seg sg ++ compile_segs r.
Proof. reflexivity. Qed.

Lemma m_segs_sound : forall segs rest s pos oa cs res,
  m (compile_segs segs ++ rest) s pos oa cs = Some res ->
  exists ws s', decomp segs ws /\ s = concat ws ++ s' /\
    m rest s' (pos + length (concat ws))%nat oa (cs ++ spans pos segs ws) = Some res.
Proof.
  induction segs as [|sg segs IH]; intros rest s pos oa cs res H.
  - exists [], s. cbn [concat app length spans]. rewrite Nat.add_0_r, app_nil_r.
    repeat split; [constructor | assumption].
  - rewrite compile_segs_cons, <- app_assoc in H. destruct sg as [b|nm re]; cbn [compile_seg] in H.
    + rewrite m_lits in H. destruct (strip_prefix b s) as [s1|] eqn:E; [|discriminate].
      apply strip_prefix_spec in E; subst s. apply IH in H as (ws & s' & D & -> & M).
      exists (b :: ws), s'. split; [constructor; [reflexivity | exact D]|]. split.
      * cbn [concat]. rewrite app_assoc. reflexivity.
      * cbn [concat spans]. rewrite app_length.
        replace (pos + (length b + length (concat ws)))%nat with (pos + length b + length (concat ws))%nat by lia.
        exact M.
    + cbn [app m] in H. rewrite <- app_assoc in H. apply m_atoms_sound in H as (w & s1 & -> & L & M).
      cbn [app m] in M. apply IH in M as (ws & s' & D & -> & M).
      exists (w :: ws), s'. split; [constructor; [exact L | exact D]|]. split.
      * cbn [concat]. rewrite app_assoc. reflexivity.
      * cbn [concat spans]. rewrite app_length, <- app_assoc in *. cbn [app] in M.
        replace (pos + (length w + length (concat ws)))%nat with (pos + length w + length (concat ws))%nat by lia.
        exact M.
Qed.

Lemma nth_error_skipn_head : forall (s : bytes) n c, nth_error s n = Some c <-> exists t, skipn n s = c :: t.
Proof.
  induction s as [|x s IH]; intros n c.
  - destruct n; cbn; split; [discriminate | intros (? & ?); discriminate | discriminate | intros (? & ?); discriminate].
  - destruct n; cbn [nth_error skipn].
    + split; [intro H; inversion H; eauto | intros (t & H); inversion H; reflexivity].
    + apply IH.
Qed.

Lemma skipn_nil_iff : forall (s : bytes) n, (n <= length s)%nat -> (skipn n s = [] <-> n = length s).
Proof.
  intros s n L. split; intro H.
  - pose proof (skipn_length n s) as E. rewrite H in E. cbn in E. lia.
  - subst. apply skipn_all.
Qed.

(* a successful `captures` is an instance of the pattern, and the groups are its spans *)
Theorem captures_sound : forall is_prefix p s cs,
  re_captures (compile is_prefix p) s = Some cs ->
  exists n ws, Matches is_prefix p s n ws /\ cs = spans 0 (p_segs p) ws ++ [(group1, 0%nat, n)].
Proof.
  intros pre p s cs H. unfold re_captures in H.
  destruct (m (compile pre p) s 0 [] []) as [[e cs']|] eqn:M; [|discriminate]. inversion H; subst cs'; clear H.
  unfold compile in M. cbn [m] in M. apply m_segs_sound in M as (ws & s' & D & E & M).
  cbn [m app] in M. rewrite Nat.add_0_l in M.
  set (n := length (concat ws)) in *.
  assert (F : concat ws = firstn n s) by (subst s n; rewrite firstn_len_app; reflexivity).
  assert (L : (n <= length s)%nat) by (subst s n; rewrite app_length; lia).
  assert (S' : s' = skipn n s) by (subst s n; rewrite skipn_len_app; reflexivity).
  exists n, ws. unfold Matches, ends_ok, suffix in *.
  destruct (p_tail p).
  - cbn [m] in M. inversion M. repeat split; assumption || reflexivity.
  - destruct pre; cbn [m] in M.
    + destruct s' as [|c s'].
      * inversion M. repeat split; try assumption. left. apply skipn_nil_iff; [assumption | congruence].
      * destruct (c =? 47) eqn:C; [|discriminate]. apply N.eqb_eq in C; subst c. inversion M.
        repeat split; try assumption. right. apply nth_error_skipn_head. exists s'. congruence.
    + destruct s' as [|c s']; [|discriminate]. inversion M.
      repeat split; try assumption. apply skipn_nil_iff; [assumption | congruence].
Qed.

(* ------------------------------------------------------------------------------ completeness *)
Lemma accepts_atoms : forall re rest w s',
  re_lang re w -> accepts rest s' = true -> accepts (map compile_atom re ++ rest) (w ++ s') = true.
Proof.
  induction re as [|a re IH]; intros rest w s' L A; cbn [map app re_lang] in *.
  - subst w. exact A.
  - destruct L as (w1 & w2 & -> & LA & L). rewrite <- app_assoc.
    destruct a as [c|p q]; cbn [compile_atom accepts atom_lang] in *.
    + subst w1. cbn [app]. rewrite N.eqb_refl. cbn [andb]. apply IH; assumption.
    + destruct LA as (C & Q). apply any_rep_spec. exists (length w1).
      rewrite skipn_len_app. split; [|apply IH; assumption].
      assert (B : (length w1 <= length (w1 ++ w2 ++ s'))%nat) by (rewrite app_length; lia).
      unfold valid. rewrite firstn_len_app.
      apply (q_ok_iff q _ _ B) in Q. repeat split; try assumption; lia.
Qed.

Lemma accepts_segs : forall segs rest ws s',
  decomp segs ws -> accepts rest s' = true -> accepts (compile_segs segs ++ rest) (concat ws ++ s') = true.
Proof.
  induction segs as [|sg segs IH]; intros rest ws s' D A; inversion D as [|? w ? ws' L D']; subst.
  - exact A.
  - rewrite compile_segs_cons. cbn [concat]. rewrite <- !app_assoc.
    destruct sg as [b|nm re]; cbn [compile_seg seg_lang] in *.
    + subst w. rewrite accepts_lits, strip_prefix_app. apply IH; assumption.
    + cbn [app accepts]. rewrite <- app_assoc. apply accepts_atoms; [assumption|].
      cbn [app accepts]. apply IH; assumption.
Qed.

(* every instance of the pattern (ending where the suffix rule allows) is matched *)
Theorem is_match_complete : forall is_prefix p s n ws,
  Matches is_prefix p s n ws -> re_is_match (compile is_prefix p) s = true.
Proof.
  intros pre p s n ws (D & F & L & E). unfold re_is_match, compile. cbn [accepts].
  rewrite (firstn_skipn_app n s), <- F. apply accepts_segs; [exact D|]. cbn [accepts].
  unfold ends_ok, suffix in *. destruct (p_tail p); [reflexivity|].
  destruct pre; cbn [accepts].
  - destruct E as [E | E].
    + apply skipn_nil_iff in E; [|exact L]. rewrite E. reflexivity.
    + apply nth_error_skipn_head in E as (t & ->). rewrite N.eqb_refl. reflexivity.
  - apply skipn_nil_iff in E; [|exact L]. rewrite E. reflexivity.
Qed.

Theorem is_match_sound : forall is_prefix p s,
  re_is_match (compile is_prefix p) s = true -> exists n ws, Matches is_prefix p s n ws.
Proof.
  intros pre p s H. rewrite <- re_captures_is_match in H.
  destruct (re_captures (compile pre p) s) as [cs|] eqn:C; [|discriminate].
  apply captures_sound in C as (n & ws & M & _). eauto.
Qed.

Theorem captures_complete : forall is_prefix p s n ws,
  Matches is_prefix p s n ws -> exists cs, re_captures (compile is_prefix p) s = Some cs.
Proof.
  intros pre p s n ws M. apply is_match_complete in M. rewrite <- re_captures_is_match in M.
  destruct (re_captures (compile pre p) s) as [cs|]; [eauto | discriminate].
Qed.

(* ---------------------------------------------------------- leftmost-first = greedy priority *)
(* [Run its s ks]: the regex matches a prefix of [s], its quantified classes (in order) taking
   [ks] characters; groups are transparent *)
Inductive Run : regex -> bytes -> list nat -> Prop :=
| RNil : forall s, Run [] s []
| RLit : forall c r s ks, Run r s ks -> Run (ILit c :: r) (c :: s) ks
| ROpen : forall n r s ks, Run r s ks -> Run (IOpen n :: r) s ks
| RClose : forall r s ks, Run r s ks -> Run (IClose :: r) s ks
| REnd : forall r ks, Run r [] ks -> Run (IEnd :: r) [] ks
| RBoundE : forall r ks, Run r [] ks -> Run (IBoundary :: r) [] ks
| RBoundS : forall r s ks, Run r s ks -> Run (IBoundary :: r) (47 :: s) ks
| RCls : forall p q r s j ks,
    valid p (qmin q) (qmax q (length s)) s 0 j -> Run r (skipn j s) ks -> Run (ICls p q :: r) s (j :: ks).

(* replay of given repetition counts: end offset and groups *)
Fixpoint exec (its : regex) (s : bytes) (ks : list nat) (pos : nat) (oa : list (name * nat)) (cs : caps)
  : option (nat * caps) :=
  match its with
  | [] => Some (pos, cs)
  | ILit c :: r =>
      match s with c' :: s' => if c =? c' then exec r s' ks (S pos) oa cs else None | [] => None end
  | IOpen n :: r => exec r s ks pos ((n, pos) :: oa) cs
  | IClose :: r =>
      match oa with
      | (n, st) :: oa' => exec r s ks pos oa' (cs ++ [(n, st, pos)])
      | [] => exec r s ks pos [] cs
      end
  | IEnd :: r => match s with [] => exec r s ks pos oa cs | _ :: _ => None end
  | IBoundary :: r =>
      match s with
      | [] => exec r s ks pos oa cs
      | c :: s' => if c =? 47 then exec r s' ks (S pos) oa cs else None
      end
  | ICls p q :: r =>
      match ks with j :: ks' => exec r (skipn j s) ks' (pos + j)%nat oa cs | [] => None end
  end.

Fixpoint lex_le (a b : list nat) : Prop :=
  match a, b with
  | x :: a', y :: b' => (x < y)%nat \/ (x = y /\ lex_le a' b')
  | _, _ => True
  end.

Lemma run_m : forall its s ks, Run its s ks -> forall pos oa cs, m its s pos oa cs <> None.
Proof.
  induction 1; intros pos oa cs; cbn [m]; try (apply IHRun); try discriminate.
  - rewrite N.eqb_refl. apply IHRun.
  - destruct oa as [|[n st] oa]; apply IHRun.
  - eapply greedy_complete; [exact H|]. cbn beta. apply IHRun.
Qed.

(* what [m] returns is the replay of the lexicographically greatest tuple of repetition counts
   among all ways the regex can match: every greedy quantifier takes as much as it can,
   earlier quantifiers having priority *)
Theorem m_leftmost_greedy : forall its s pos oa cs res,
  m its s pos oa cs = Some res ->
  exists ks, Run its s ks /\ exec its s ks pos oa cs = Some res /\
             forall ks', Run its s ks' -> lex_le ks' ks.
Proof.
  induction its as [|a r IH]; intros s pos oa cs res H.
  - exists []. cbn [m exec] in *. split; [constructor|]. split; [exact H|]. intros ks' R. destruct ks'; exact I.
  - destruct a; cbn [m] in H.
    + destruct s as [|c' s]; [discriminate|]. destruct (c =? c') eqn:E; [|discriminate].
      apply N.eqb_eq in E; subst c'. apply IH in H as (ks & R & X & M). exists ks.
      split; [constructor; exact R|]. split; [cbn [exec]; rewrite N.eqb_refl; exact X|].
      intros ks' R'. inversion R'; subst. apply M. assumption.
    + apply greedy_spec in H as (j & V & F & Mx). cbn beta in F, Mx.
      apply IH in F as (ks & R & X & M). exists (j :: ks).
      split; [constructor; assumption|]. split; [cbn [exec]; exact X|].
      intros ks' R'. inversion R' as [| | | | | | |? ? ? ? j' ks'' V' R'']; subst. cbn [lex_le].
      destruct (Nat.lt_trichotomy j' j) as [L | [-> | G]].
      * left. exact L.
      * right. split; [reflexivity|]. apply M. exact R''.
      * exfalso. specialize (Mx j' V' G). eapply run_m; [exact R'' | exact Mx].
    + apply IH in H as (ks & R & X & M). exists ks. split; [constructor; exact R|]. split; [exact X|].
      intros ks' R'. inversion R'; subst. apply M. assumption.
    + assert (G : exists ks, Run r s ks /\
                  exec (IClose :: r) s ks pos oa cs = Some res /\ forall ks', Run r s ks' -> lex_le ks' ks).
      { cbn [exec]. destruct oa as [|[n st] oa]; apply IH in H as (ks & R & X & M); exists ks; repeat split; assumption. }
      destruct G as (ks & R & X & M). exists ks. split; [constructor; exact R|]. split; [exact X|].
      intros ks' R'. inversion R'; subst. apply M. assumption.
    + destruct s; [|discriminate]. apply IH in H as (ks & R & X & M). exists ks.
      split; [constructor; exact R|]. split; [exact X|]. intros ks' R'. inversion R'; subst. apply M. assumption.
    + destruct s as [|c s].
      * apply IH in H as (ks & R & X & M). exists ks. split; [constructor; exact R|]. split; [exact X|].
        intros ks' R'. inversion R'; subst. apply M. assumption.
      * destruct (c =? 47) eqn:E; [|discriminate]. apply N.eqb_eq in E; subst c.
        apply IH in H as (ks & R & X & M). exists ks. split; [constructor; exact R|].
        split; [cbn [exec]; rewrite N.eqb_refl; exact X|]. intros ks' R'. inversion R'; subst. apply M. assumption.
Qed.
