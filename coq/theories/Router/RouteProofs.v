(* Proofs for C09: the routing model (RouteTree.v) refines the relational specification
   (RouteSpec.v), for all route trees and requests (structural induction on the tree). *)
From AV Require Import Router.MatchProofs Router.ResourceProofs Router.QuoterProofs.
From AV Require Import Lib.Base Router.Pattern Router.Match Router.Path Router.ResourceDef
  Router.Quoter Router.Spec Router.RouteTree Router.RouteSpec.

(* ------------------------------------------------------------ induction principle for [node] *)
Section NodeInd.
Variable P : node -> Prop.
Hypothesis Hres : forall ps gs rts d dat, P (Resource ps gs rts d dat).
Hypothesis Hscope : forall pfx gs kids d dat, Forall P kids -> P (Scope pfx gs kids d dat).
Fixpoint node_ind' (c : node) : P c :=
  match c with
  | Resource ps gs rts d dat => Hres ps gs rts d dat
  | Scope pfx gs kids d dat =>
      Hscope pfx gs kids d dat
        ((fix all (ks : list node) : Forall P ks :=
            match ks with
            | [] => Forall_nil P
            | k :: r => Forall_cons k (node_ind' k) (all r)
            end) kids)
  end.
End NodeInd.

Lemma existsb_false : forall {A} (f : A -> bool) l, existsb f l = false -> forall x, In x l -> f x = false.
Proof.
  intros A f l H x I. destruct (f x) eqn:E; [|reflexivity].
  assert (existsb f l = true) by (apply existsb_exists; exists x; split; assumption). congruence.
Qed.

Section WithConst.
Variable MAX : N.
Variable rq : req.

(* ------------------------------------------------------------- one candidate of the router *)
Lemma cmi_check_false : forall rd p b p',
  capture_match_info_fn MAX rd p true = Val (b, p') ->
  capture_match_info_fn MAX rd p false = Val (false, p).
Proof.
  intros rd p b p'. unfold capture_match_info_fn. cbv zeta.
  match goal with |- rbind ?s _ = _ -> _ => destruct s as [[[ml vars]|]|] end;
    cbn [rbind negb]; intro H; try reflexivity; discriminate.
Qed.

Lemma step_spec : forall c pth g, wf_def MAX c -> path_ok pth ->
  exists rd, node_rdef MAX c = Val rd /\
    ((is_match rd (unprocessed pth) = true /\
      exists pth', capture_match_info MAX rd pth = Val (true, pth') /\ path_ok pth' /\
        capture_match_info_fn MAX rd pth g = (if g then Val (true, pth') else Val (false, pth))) \/
     (is_match rd (unprocessed pth) = false /\ capture_match_info_fn MAX rd pth g = Val (false, pth))).
Proof.
  intros c pth g (WF & rd & C) OK. exists rd. split; [exact C|].
  destruct (three_ways_agree MAX (node_pats c) (node_prefix c) rd pth WF C OK) as (o & pth' & _ & IM & CM & REST).
  destruct o as [n|]; cbn [isSome] in *.
  - left. split; [exact IM|]. exists pth'. destruct REST as (_ & OK' & _). split; [exact CM|]. split; [exact OK'|].
    destruct g; [exact CM | exact (cmi_check_false _ _ _ _ CM)].
  - right. split; [exact IM|]. subst pth'.
    destruct g; [exact CM | exact (cmi_check_false _ _ _ _ CM)].
Qed.

Lemma accepts_rd : forall c pth rd, node_rdef MAX c = Val rd ->
  (accepts MAX rq c pth <-> is_match rd (unprocessed pth) = true /\ guards_ok rq (node_guards c) = true).
Proof.
  intros c pth rd C. unfold accepts. split.
  - intros ((rd' & C' & M) & G). rewrite C in C'. inversion C'; subst. split; assumption.
  - intros (M & G). split; [exists rd; split; assumption | exact G].
Qed.

(* ------------------------------------------------------------------- Router::recognize_fn *)
Lemma recognize_spec : forall A (enter : nat -> node -> path -> R A) (miss : path -> R A) cs i pth,
  Forall (wf_def MAX) cs -> path_ok pth ->
  (exists j c pth', first_accepting MAX rq cs pth j c /\ committed MAX c pth pth' /\ path_ok pth' /\
      recognize MAX rq enter miss i cs pth = enter (i + j)%nat c pth') \/
  ((forall c, In c cs -> ~ accepts MAX rq c pth) /\ recognize MAX rq enter miss i cs pth = miss pth).
Proof.
  intros A enter miss cs. induction cs as [|c cs IH]; intros i pth WF OK.
  - right. split; [intros c []|reflexivity].
  - inversion WF as [|? ? WFc WFcs]; subst.
    destruct (step_spec c pth (guards_ok rq (node_guards c)) WFc OK) as (rd & C & ST).
    pose proof (accepts_rd c pth rd C) as AR.
    assert (SKIP : capture_match_info_fn MAX rd pth (guards_ok rq (node_guards c)) = Val (false, pth) ->
                   ~ accepts MAX rq c pth ->
      (exists j c0 pth', first_accepting MAX rq (c :: cs) pth j c0 /\ committed MAX c0 pth pth' /\ path_ok pth' /\
          recognize MAX rq enter miss i (c :: cs) pth = enter (i + j)%nat c0 pth') \/
      ((forall c0, In c0 (c :: cs) -> ~ accepts MAX rq c0 pth) /\ recognize MAX rq enter miss i (c :: cs) pth = miss pth)).
    { intros E NA. cbn [recognize]. unfold node_rdef in C. rewrite C. cbn [rbind]. rewrite E. cbn [rbind fst snd].
      destruct (IH (S i) pth WFcs OK) as [(j & c0 & pth' & (N0 & A0 & F0) & CM & OK' & RE) | (NO & RE)].
      - left. exists (S j), c0, pth'. split; [|split; [exact CM|split; [exact OK'|]]].
        + split; [exact N0|]. split; [exact A0|]. intros j' c' L N'. destruct j' as [|j'].
          * cbn in N'. inversion N'; subst. exact NA.
          * cbn in N'. apply (F0 j' c'); [lia | exact N'].
        + rewrite RE. f_equal. lia.
      - right. split; [|exact RE]. intros c0 [->|I]; [exact NA | apply NO; exact I]. }
    destruct ST as [(IM & pth' & CM & OK' & FN) | (IM & FN)].
    + destruct (guards_ok rq (node_guards c)) eqn:G.
      * left. exists 0%nat, c, pth'. split; [|split; [exists rd; split; assumption|split; [exact OK'|]]].
        -- split; [reflexivity|]. split; [apply AR; split; [exact IM|reflexivity] | intros; lia].
        -- cbn [recognize]. unfold node_rdef in C. rewrite C. cbn [rbind]. rewrite G, FN. cbn [rbind fst snd].
           f_equal. lia.
      * apply SKIP; [exact FN|]. intro X. apply AR in X as (_ & X). discriminate.
    + apply SKIP; [exact FN|]. intro X. apply AR in X as (X & _). congruence.
Qed.

Lemma recognize_ext : forall A (e1 e2 : nat -> node -> path -> R A) (m1 m2 : path -> R A) cs i pth,
  (forall i k p, In k cs -> e1 i k p = e2 i k p) -> (forall p, m1 p = m2 p) ->
  recognize MAX rq e1 m1 i cs pth = recognize MAX rq e2 m2 i cs pth.
Proof.
  intros A e1 e2 m1 m2 cs. induction cs as [|c cs IH]; intros i pth HE HM; cbn [recognize]; [apply HM|].
  destruct (construct MAX (node_pats c) (node_prefix c)) as [rd|]; [|reflexivity]. cbn [rbind].
  destruct (capture_match_info_fn MAX rd pth (guards_ok rq (node_guards c))) as [[b p']|]; [|reflexivity].
  cbn [rbind fst snd]. destruct b.
  - apply HE. left. reflexivity.
  - apply IH; [|exact HM]. intros. apply HE. right. assumption.
Qed.

(* ------------------------------------------------------------------------ uniqueness helpers *)
Lemma first_accepting_unique : forall cs pth i c j c',
  first_accepting MAX rq cs pth i c -> first_accepting MAX rq cs pth j c' -> i = j /\ c = c'.
Proof.
  intros cs pth i c j c' (N1 & A1 & F1) (N2 & A2 & F2).
  assert (i = j).
  { destruct (Nat.lt_trichotomy i j) as [L|[E|L]]; [|exact E|].
    - exfalso. exact (F2 i c L N1 A1).
    - exfalso. exact (F1 j c' L N2 A2). }
  subst j. split; [reflexivity|congruence].
Qed.

Lemma committed_functional : forall c pth p1 p2,
  committed MAX c pth p1 -> committed MAX c pth p2 -> p1 = p2.
Proof.
  intros c pth p1 p2 (rd1 & C1 & E1) (rd2 & C2 & E2). rewrite C1 in C2. inversion C2; subst. congruence.
Qed.

(* ------------------------------------------------------------------- ResourceService::call *)
Lemma select_route_spec : forall rts d, Selects rq rts d (select_route rq rts d).
Proof.
  intros rts d. induction rts as [|[gs id] r IH]; cbn [select_route].
  - right. split; [intros gs id []|reflexivity].
  - destruct (guards_ok rq gs) eqn:G.
    + left. exists 0%nat, gs, id. repeat split; try reflexivity; try exact G. intros; lia.
    + destruct IH as [(i & gs' & id' & N & G' & H & F) | (F & H)].
      * left. exists (S i), gs', id'. split; [exact N|]. split; [exact G'|]. split; [exact H|].
        intros j gs2 id2 L N2. destruct j as [|j]; cbn in N2.
        -- inversion N2; subst. exact G.
        -- apply (F j gs2 id2); [lia|exact N2].
      * right. split; [|exact H]. intros gs2 id2 [E|I]; [inversion E; subst; exact G | apply (F gs2 id2 I)].
Qed.

Lemma selects_unique : forall rts d h, Selects rq rts d h -> h = select_route rq rts d.
Proof.
  intros rts d h. induction rts as [|[gs id] r IH]; intros S; cbn [select_route].
  - destruct S as [(i & gs & id & N & _) | (_ & H)]; [destruct i; discriminate | exact H].
  - destruct (guards_ok rq gs) eqn:G.
    + destruct S as [(i & gs' & id' & N & G' & H & F) | (F & H)].
      * destruct i as [|i]; cbn in N.
        -- inversion N; subst. reflexivity.
        -- specialize (F 0%nat gs id (Nat.lt_0_succ i) eq_refl). congruence.
      * specialize (F gs id (or_introl eq_refl)). congruence.
    + apply IH. destruct S as [(i & gs' & id' & N & G' & H & F) | (F & H)].
      * destruct i as [|i]; cbn in N.
        -- inversion N; subst. congruence.
        -- left. exists i, gs', id'. split; [exact N|]. split; [exact G'|]. split; [exact H|].
           intros j gs2 id2 L N2. apply (F (S j) gs2 id2); [lia|exact N2].
      * right. split; [|exact H]. intros gs2 id2 I. apply (F gs2 id2). right. exact I.
Qed.

(* ----------------------------------------------- the router with either inheritance rule *)
(* [enter_g false] is [enter_node] (the code); [enter_g true] hands the scope's own default down
   (the property's rule): a proof device, so that both relations get an executable counterpart *)
Fixpoint enter_g (nearest : bool) (cfg : handler) (c : node) (pth : path) (st : list data) (ids : list nat)
  : R outcome :=
  match c with
  | Resource _ _ routes dflt dat =>
      Val (mkOut (select_route rq routes (default_handler dflt H405)) ids true pth (push dat st))
  | Scope _ _ kids dflt dat =>
      let own := default_handler dflt cfg in
      let cfg' := if nearest then own else cfg in
      let st' := push dat st in
      recognize MAX rq
        (fun i k p => enter_g nearest cfg' k p st' (ids ++ [i]))
        (fun p => Val (mkOut own ids false p st'))
        0%nat kids pth
  end.

Lemma enter_g_false : forall c cfg pth st ids,
  enter_g false cfg c pth st ids = enter_node MAX rq cfg c pth st ids.
Proof.
  induction c as [|pfx gs kids d dat IH] using node_ind'; intros cfg pth st ids; [reflexivity|].
  cbn [enter_g enter_node]. apply recognize_ext; [|reflexivity].
  intros i k p I. rewrite Forall_forall in IH. apply IH. exact I.
Qed.

Definition route_g (nearest : bool) (a : app) : R outcome :=
  rbind (url_path (r_uri_path rq)) (fun p =>
  let own := default_handler (a_default a) H404 in
  let st := [a_data a] in
  recognize MAX rq
    (fun i k p' => enter_g nearest own k p' st [i])
    (fun p' => Val (mkOut own [] false p' st))
    0%nat (a_children a) (path_new p)).

Lemma route_g_false : forall a, route_g false a = route MAX a rq.
Proof.
  intro a. unfold route_g, route. destruct (url_path (r_uri_path rq)); [|reflexivity]. cbn [rbind].
  apply recognize_ext; [|reflexivity]. intros. apply enter_g_false.
Qed.

(* ------------------------------------------------------------- the refinement, node by node *)
Section Refine.
Variable nearest : bool.

Definition good (c : node) : Prop := forall cfg pth st ids, path_ok pth ->
  exists o, enter_g nearest cfg c pth st ids = Val o /\
    Enters MAX rq nearest c cfg pth st ids o /\
    (forall o', Enters MAX rq nearest c cfg pth st ids o' -> o' = o) /\
    exists ids' steps, o_ids o = ids ++ ids' /\ Trace (node_children c) pth ids' (o_path o) steps /\
      o_stack o = chain_stack (push (node_data c) st) steps.

Lemma router_good : forall cs, Forall (wf_def MAX) cs -> Forall good cs ->
  forall cfg own pth st ids, path_ok pth ->
  exists o,
    recognize MAX rq (fun i k p => enter_g nearest cfg k p st (ids ++ [i]))
              (fun p => Val (mkOut own ids false p st)) 0%nat cs pth = Val o /\
    Routes_in MAX rq nearest cfg own cs pth st ids o /\
    (forall o', Routes_in MAX rq nearest cfg own cs pth st ids o' -> o' = o) /\
    exists ids' steps, o_ids o = ids ++ ids' /\ Trace cs pth ids' (o_path o) steps /\
      o_stack o = chain_stack st steps.
Proof.
  intros cs WF GOOD cfg own pth st ids OK.
  destruct (recognize_spec outcome (fun i k p => enter_g nearest cfg k p st (ids ++ [i]))
              (fun p => Val (mkOut own ids false p st)) cs 0%nat pth WF OK)
    as [(j & c & pth' & FA & CM & OK' & RE) | (NO & RE)].
  - pose proof FA as (NTH & ACC & _).
    assert (I : In c cs) by (eapply nth_error_In; exact NTH).
    rewrite Forall_forall in GOOD, WF.
    destruct (GOOD c I cfg pth' st (ids ++ [j]) OK') as (o & EV & EN & UQ & ids' & steps & IDS & TR & STK).
    exists o. split; [rewrite RE; exact EV|]. split; [eapply RI_hit; eassumption|]. split.
    + intros o' H. inversion H; subst.
      * destruct (first_accepting_unique _ _ _ _ _ _ FA H0) as (<- & <-).
        rewrite (committed_functional _ _ _ _ H1 CM) in H2. apply UQ. exact H2.
      * exfalso. exact (H0 c I ACC).
    + destruct (WF c I) as (WFP & rd & C). destruct CM as (rd' & C' & CMI).
      rewrite C in C'. inversion C'; subst rd'.
      destruct (capture_detailed MAX (node_pats c) (node_prefix c) rd pth pth' WFP C OK CMI)
        as (idx & p & n & ws & NP & CAP & _).
      exists (j :: ids'), ((c, p, n, ws) :: steps). split; [rewrite IDS, <- app_assoc; reflexivity|]. split.
      * eapply T_step; [exact NTH | eapply nth_error_In; exact NP | exact CAP | exact TR].
      * rewrite STK. reflexivity.
  - exists (mkOut own ids false pth st). split; [exact RE|]. split; [apply RI_default; exact NO|]. split.
    + intros o' H. inversion H; subst; [|reflexivity].
      exfalso. destruct H0 as (NTH & ACC & _). apply (NO c); [eapply nth_error_In; exact NTH | exact ACC].
    + exists [], []. cbn [o_ids o_path o_stack]. split; [rewrite app_nil_r; reflexivity|]. split; [constructor|reflexivity].
Qed.

Lemma wf_node_def : forall c, wf_node MAX c -> wf_def MAX c.
Proof. intros c H. inversion H; assumption. Qed.

Lemma node_good : forall c, wf_node MAX c -> good c.
Proof.
  induction c as [ps gs rts d dat|pfx gs kids d dat IH] using node_ind'; intros WF cfg pth st ids OK.
  - eexists. split; [reflexivity|]. split; [constructor; apply select_route_spec|]. split.
    + intros o' H. inversion H; subst.
      match goal with S : Selects _ _ _ _ |- _ => rewrite (selects_unique _ _ _ S) end. reflexivity.
    + exists [], []. cbn [o_ids o_path o_stack node_children node_data]. split; [rewrite app_nil_r; reflexivity|].
      split; [constructor|reflexivity].
  - inversion WF as [|? ? ? ? ? WFD WFK]; subst.
    assert (WFDK : Forall (wf_def MAX) kids).
    { rewrite Forall_forall in *. intros k I. apply wf_node_def. apply WFK. exact I. }
    assert (GK : Forall good kids).
    { rewrite Forall_forall in *. intros k I. apply IH; [exact I | apply WFK; exact I]. }
    cbn [enter_g].
    destruct (router_good kids WFDK GK (if nearest then default_handler d cfg else cfg) (default_handler d cfg)
                pth (push dat st) ids OK) as (o & EV & RI & UQ & TRACE).
    exists o. split; [exact EV|]. split; [constructor; exact RI|]. split.
    + intros o' H. inversion H; subst. apply UQ. assumption.
    + exact TRACE.
Qed.

End Refine.

(* ------------------------------------------------------------------------------- application *)
Lemma url_path_spec : forall raw, url_path raw = Val (spec_decode [37; 47; 43] raw).
Proof.
  intro raw. unfold url_path. cbn [quoter_new forallb]. change (quoter_new [37; 47; 43]) with (Val [37; 47; 43]).
  cbn [rbind]. rewrite (requote_full_spec [37; 47; 43] eq_refl). reflexivity.
Qed.

Lemma routed_path_ok : lenN (r_uri_path rq) <= 65535 -> path_ok (routed_path rq).
Proof.
  intro H. unfold routed_path, path_ok, path_new. cbn [p_skip p_path]. split; [lia|].
  pose proof (spec_decode_length [37; 47; 43] eq_refl (r_uri_path rq)). unfold lenN, u16_max in *. lia.
Qed.

Theorem route_g_spec : forall nearest a, wf_app MAX a -> lenN (r_uri_path rq) <= 65535 ->
  exists o, route_g nearest a = Val o /\
    Routes_in MAX rq nearest (app_default a) (app_default a) (a_children a) (routed_path rq) [a_data a] [] o /\
    (forall o', Routes_in MAX rq nearest (app_default a) (app_default a) (a_children a) (routed_path rq) [a_data a] [] o' -> o' = o) /\
    exists steps, Trace (a_children a) (routed_path rq) (o_ids o) (o_path o) steps /\
      o_stack o = chain_stack [a_data a] steps.
Proof.
  intros nearest a WF LEN. unfold route_g. rewrite url_path_spec. cbn [rbind].
  assert (WFD : Forall (wf_def MAX) (a_children a)).
  { unfold wf_app in WF. rewrite Forall_forall in *. intros k I. apply wf_node_def. apply WF. exact I. }
  assert (GK : Forall (good nearest) (a_children a)).
  { unfold wf_app in WF. rewrite Forall_forall in *. intros k I. apply node_good. apply WF. exact I. }
  destruct (router_good nearest (a_children a) WFD GK (app_default a) (app_default a) (routed_path rq)
              [a_data a] [] (routed_path_ok LEN)) as (o & EV & RI & UQ & ids' & steps & IDS & TR & STK).
  exists o. split; [exact EV|]. split; [exact RI|]. split; [exact UQ|].
  exists steps. cbn [List.app] in IDS. rewrite IDS. split; assumption.
Qed.

(* ------------------------------------------------------------- outside the class of F26 *)
Lemma enter_g_agree : forall c ctx cfg1 cfg2, (ctx = false -> cfg1 = cfg2) -> bad_in ctx c = false ->
  forall pth st ids, enter_g false cfg1 c pth st ids = enter_g true cfg2 c pth st ids.
Proof.
  induction c as [|pfx gs kids d dat IH] using node_ind'; intros ctx cfg1 cfg2 HC HB pth st ids; [reflexivity|].
  cbn [enter_g]. cbn [bad_in] in HB. rewrite Forall_forall in IH. destruct d as [id|]; cbn [default_handler].
  - apply recognize_ext; [|reflexivity]. intros i k p I.
    apply (IH k I true); [discriminate | exact (existsb_false _ _ HB k I)].
  - apply orb_false_iff in HB as (-> & HB). rewrite (HC eq_refl).
    apply recognize_ext; [|reflexivity]. intros i k p I.
    apply (IH k I false); [reflexivity | exact (existsb_false _ _ HB k I)].
Qed.

Theorem route_g_agree : forall a, ~ Known_F26 a -> route_g false a = route_g true a.
Proof.
  intros a NK. unfold route_g. destruct (url_path (r_uri_path rq)); [|reflexivity]. cbn [rbind].
  apply recognize_ext; [|reflexivity]. intros i k p I.
  apply (enter_g_agree k false); [reflexivity|].
  unfold Known_F26 in NK. destruct (existsb (bad_in false) (a_children a)) eqn:E; [congruence|].
  exact (existsb_false _ _ E k I).
Qed.

End WithConst.

(* ----------------------------------------------------- a guard rejection leaves the Path untouched *)
Lemma check_false_untouched : forall MAX rd p r,
  capture_match_info_fn MAX rd p false = Val r -> r = (false, p).
Proof.
  intros MAX rd p r. unfold capture_match_info_fn. cbv zeta.
  match goal with |- rbind ?s _ = _ -> _ => destruct s as [[[ml vars]|]|] end;
    cbn [rbind negb]; intro H; inversion H; reflexivity.
Qed.

Lemma no_match_untouched : forall MAX rd p g p',
  capture_match_info_fn MAX rd p g = Val (false, p') -> p' = p.
Proof.
  intros MAX rd p g p'. unfold capture_match_info_fn. cbv zeta.
  match goal with |- rbind ?s _ = _ -> _ => destruct s as [[[ml vars]|]|] end; cbn [rbind]; intro H;
    [|inversion H; reflexivity|discriminate].
  destruct (negb g); [inversion H; reflexivity|].
  destruct (add_all p vars) as [q|]; [|discriminate]. cbn [rbind] in H.
  destruct (path_skip q (u16_mod ml)); cbn [rbind] in H; discriminate.
Qed.

(* --------------------------------------------------------------- what a chain leaves in the Path *)
Lemma captured_ok : forall pre p pth n ws pth', path_ok pth -> captured pre p pth n ws pth' ->
  path_ok pth' /\ p_path pth' = p_path pth /\ p_skip pth' = p_skip pth + N.of_nat n /\
  unprocessed pth' = skipn n (unprocessed pth).
Proof.
  intros pre p pth n ws pth' (K1 & K2) ((_ & _ & L & _) & ->).
  pose proof (unprocessed_length pth K1) as UL. unfold lenN, u16_max in *.
  assert (OK' : p_skip pth + N.of_nat n <= N.of_nat (length (p_path pth))) by lia.
  split; [split; cbn [p_skip p_path]; unfold lenN, u16_max; lia|]. split; [reflexivity|]. split; [reflexivity|].
  rewrite unprocessed_eq by (cbn [p_skip p_path]; unfold lenN; lia).
  rewrite (unprocessed_eq pth) by (unfold lenN; lia). cbn [p_skip p_path].
  rewrite skipn_add. f_equal. lia.
Qed.

Theorem trace_facts : forall cs pth ids pth' steps, Trace cs pth ids pth' steps -> path_ok pth ->
  path_ok pth' /\ p_path pth' = p_path pth /\
  p_skip pth' = p_skip pth + N.of_nat (chain_len steps) /\
  unprocessed pth' = skipn (chain_len steps) (unprocessed pth) /\
  path_iter pth' = rbind (path_iter pth) (fun old => Val (old ++ chain_values steps)).
Proof.
  intros cs pth ids pth' steps T. induction T as [cs pth | cs pth i c p n ws pth1 ids pth2 steps NTH IN CAP T IH]; intro OK.
  - cbn [chain_len chain_values fold_right map concat]. split; [exact OK|]. split; [reflexivity|].
    split; [lia|]. split; [reflexivity|]. destruct (path_iter pth); cbn [rbind]; [rewrite app_nil_r|]; reflexivity.
  - destruct (captured_ok _ _ _ _ _ _ OK CAP) as (OK1 & P1 & S1 & U1).
    destruct (IH OK1) as (OK2 & P2 & S2 & U2 & I2).
    split; [exact OK2|]. split; [congruence|].
    assert (CL : chain_len ((c, p, n, ws) :: steps) = (n + chain_len steps)%nat) by reflexivity.
    assert (CV : chain_values ((c, p, n, ws) :: steps) = values (p_segs p) ws ++ chain_values steps) by reflexivity.
    rewrite CL, CV. split; [rewrite S2, S1; lia|]. split.
    + rewrite U2, U1, skipn_add. reflexivity.
    + rewrite I2, (captured_values _ _ _ _ _ _ OK CAP).
      destruct (path_iter pth); cbn [rbind]; [rewrite app_assoc|]; reflexivity.
Qed.

Lemma chain_stack_app : forall steps st,
  chain_stack st steps =
  st ++ flat_map (fun s : node * pattern * nat * list bytes =>
                    match s with (c, _, _, _) => match node_data c with Some d => [d] | None => [] end end) steps.
Proof.
  induction steps as [|[[[c p] n] ws] steps IH]; intro st; cbn [chain_stack fold_left flat_map].
  - rewrite app_nil_r. reflexivity.
  - change (fold_left _ steps (push (node_data c) st)) with (chain_stack (push (node_data c) st) steps).
    rewrite IH. unfold push. destruct (node_data c); [rewrite <- app_assoc|]; reflexivity.
Qed.

(* ------------------------------------------------------------------------ app_data lookup *)
Lemma stack_get_app : forall k st1 st2,
  stack_get k (st1 ++ st2) = match stack_get k st2 with Some v => Some v | None => stack_get k st1 end.
Proof.
  intros k st1 st2. induction st1 as [|c st1 IH]; cbn [List.app stack_get].
  - destruct (stack_get k st2); reflexivity.
  - rewrite IH. destruct (stack_get k st2); [reflexivity|]. reflexivity.
Qed.

Lemma stack_get_none : forall k st, (forall c, In c st -> ext_get k c = None) -> stack_get k st = None.
Proof.
  intros k st. induction st as [|c st IH]; intro H; cbn [stack_get]; [reflexivity|].
  rewrite IH by (intros; apply H; right; assumption). apply H. left. reflexivity.
Qed.

(* the innermost container holding the key answers, whatever the outer ones hold *)
Theorem stack_get_innermost : forall k outer c inner v,
  ext_get k c = Some v -> (forall c', In c' inner -> ext_get k c' = None) ->
  stack_get k (outer ++ c :: inner) = Some v.
Proof.
  intros k outer c inner v E N. rewrite stack_get_app. cbn [stack_get].
  rewrite (stack_get_none k inner N), E. reflexivity.
Qed.

Theorem stack_get_some_inv : forall k st v, stack_get k st = Some v ->
  exists outer c inner, st = outer ++ c :: inner /\ ext_get k c = Some v /\
    forall c', In c' inner -> ext_get k c' = None.
Proof.
  intros k st. induction st as [|c st IH]; intros v H; cbn [stack_get] in H; [discriminate|].
  destruct (stack_get k st) as [x|] eqn:E.
  - inversion H; subst x. destruct (IH v eq_refl) as (o & c' & i & -> & E' & N).
    exists (c :: o), c', i. split; [reflexivity|]. split; assumption.
  - exists [], c, st. split; [reflexivity|]. split; [exact H|].
    clear H IH. induction st as [|d st IH]; intros c' I; [destruct I|]. cbn [stack_get] in E.
    destruct (stack_get k st) eqn:E2; [discriminate|]. destruct I as [<-|I]; [exact E | apply IH; [reflexivity|exact I]].
Qed.

Theorem stack_get_none_inv : forall k st, stack_get k st = None -> forall c, In c st -> ext_get k c = None.
Proof.
  intros k st. induction st as [|d st IH]; intros H c I; [destruct I|]. cbn [stack_get] in H.
  destruct (stack_get k st) eqn:E; [discriminate|]. destruct I as [<-|I]; [exact H | apply IH; [reflexivity|exact I]].
Qed.

(* inside one container the last `insert` of a type wins *)
Theorem ext_get_last : forall k v c1 c2, (forall v', ~ In (k, v') c2) ->
  ext_get k (c1 ++ (k, v) :: c2) = Some v.
Proof.
  intros k v c1 c2 N.
  assert (E2 : ext_get k c2 = None).
  { induction c2 as [|[k' v'] c2 IH]; [reflexivity|]. cbn [ext_get].
    rewrite IH by (intros v'' I; apply (N v''); right; exact I).
    destruct (k' =? k) eqn:E; [|reflexivity]. apply N.eqb_eq in E; subst k'. exfalso. apply (N v'). left. reflexivity. }
  induction c1 as [|[k' v'] c1 IH]; cbn [List.app ext_get].
  - rewrite E2, N.eqb_refl. reflexivity.
  - rewrite IH. reflexivity.
Qed.

(* ----------------------------------------------------- percent-decoding keeps the segments *)
Theorem decode_keeps_slashes : forall raw,
  count_occ N.eq_dec (spec_decode [37; 47; 43] raw) 47 = count_occ N.eq_dec raw 47 /\
  forall a b, raw = a ++ 47 :: b ->
    spec_decode [37; 47; 43] raw = spec_decode [37; 47; 43] a ++ 47 :: spec_decode [37; 47; 43] b.
Proof.
  intro raw. split.
  - apply (protected_count_preserved [37; 47; 43] eq_refl); [right; left; reflexivity | discriminate | reflexivity].
  - intros a b ->. apply (decode_splits_at_protected [37; 47; 43]); [right; left; reflexivity | discriminate | reflexivity].
Qed.

Lemma unprocessed_new : forall s, unprocessed (path_new s) = s.
Proof. intro s. unfold unprocessed, path_new. cbn [p_skip p_path]. rewrite N.min_0_l. reflexivity. Qed.

(* a committed prefix (scope) match without tail ends at a segment boundary: what is left is empty
   or starts with '/' *)
Lemma skipn_nth_error : forall (s : bytes) n x, nth_error s n = Some x -> exists r, skipn n s = x :: r.
Proof.
  induction s as [|y s IH]; intros [|n] x H; cbn in H; try discriminate.
  - inversion H; subst. exists s. reflexivity.
  - cbn [skipn]. apply IH. exact H.
Qed.

Theorem prefix_commit_boundary : forall p pth n ws pth',
  path_ok pth -> captured true p pth n ws pth' -> p_tail p = false ->
  unprocessed pth' = [] \/ exists r, unprocessed pth' = 47 :: r.
Proof.
  intros p pth n ws pth' OK CAP NT. destruct (captured_ok _ _ _ _ _ _ OK CAP) as (_ & _ & _ & U).
  destruct CAP as ((_ & _ & _ & E) & _). unfold ends_ok in E. rewrite NT in E. rewrite U.
  destruct E as [->|E]; [left; apply skipn_all | right; eapply skipn_nth_error; exact E].
Qed.

(* ------------------------------------------------------- registration: configure and the default *)
Lemma configure_unfold : forall calls s,
  apply_call false (BConfigure calls) s =
  let c := apply_calls true calls (mkB [] (Some []) None) in
  mkB (b_services s ++ b_services c) (Some (dget (b_data s) ++ dget (b_data c)))
      (match b_default c with Some d => Some d | None => b_default s end).
Proof.
  intros calls s. cbn [apply_call].
  assert (E : forall l t, (fix run (l : list bld) (t : bst) : bst :=
                 match l with [] => t | c :: r => run r (apply_call true c t) end) l t = apply_calls true l t).
  { induction l as [|c r IH]; intro t; [reflexivity|]. cbn [apply_calls]. apply IH. }
  rewrite E. reflexivity.
Qed.

(* App::configure / Scope::configure: a closure that registers no default service keeps the one
   registered before; one that registers a default replaces it; the services are appended *)
Theorem configure_default : forall calls s,
  let c := apply_calls true calls (mkB [] (Some []) None) in
  let s' := apply_call false (BConfigure calls) s in
  b_services s' = b_services s ++ b_services c /\
  (b_default c = None -> b_default s' = b_default s) /\
  (forall d, b_default c = Some d -> b_default s' = Some d).
Proof.
  intros calls s. rewrite configure_unfold. cbn [b_services b_default]. split; [reflexivity|].
  split; [intros ->; reflexivity | intros d ->; reflexivity].
Qed.
