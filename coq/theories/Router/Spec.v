(* C10 specification: the language denoted by a pattern, what a match is, and the reference
   percent-decoder.  Everything here is declarative and independent of the matcher. *)
From AV Require Import Lib.Base Router.Pattern.

(* ------------------------------------------------------------------ language of the fragment *)
Definition q_ok (q : quant) (n : nat) : Prop :=
  match q with
  | QOne => n = 1%nat
  | QPlus => (1 <= n)%nat
  | QStar => True
  | QOpt => (n <= 1)%nat
  | QRep k => n = k
  end.

Definition atom_lang (a : atom) (w : bytes) : Prop :=
  match a with
  | ALit c => w = [c]
  | ACls p q => forallb (cls_mem p) w = true /\ q_ok q (length w)
  end.

Fixpoint re_lang (r : re) (w : bytes) : Prop :=
  match r with
  | [] => w = []
  | a :: r' => exists w1 w2, w = w1 ++ w2 /\ atom_lang a w1 /\ re_lang r' w2
  end.

Definition seg_lang (s : seg) (w : bytes) : Prop :=
  match s with
  | SConst b => w = b
  | SVar _ r => re_lang r w
  end.

(* [ws] : one word per segment, each in its segment's language *)
Definition decomp (segs : list seg) (ws : list bytes) : Prop := Forall2 seg_lang segs ws.

(* where a match of length [n] may end in the path [s] *)
Definition ends_ok (is_prefix tail : bool) (s : bytes) (n : nat) : Prop :=
  if tail then True
  else if is_prefix then n = length s \/ nth_error s n = Some 47
  else n = length s.

(* "the first [n] bytes of [s] are an instance of pattern [p], cut into [ws]" *)
Definition Matches (is_prefix : bool) (p : pattern) (s : bytes) (n : nat) (ws : list bytes) : Prop :=
  decomp (p_segs p) ws /\ concat ws = firstn n s /\ (n <= length s)%nat /\
  ends_ok is_prefix (p_tail p) s n.

(* the values of the dynamic segments of a decomposition, with their byte offsets *)
Fixpoint spans (pos : nat) (segs : list seg) (ws : list bytes) : list (name * nat * nat) :=
  match segs, ws with
  | SConst _ :: r, w :: ws' => spans (pos + length w) r ws'
  | SVar nm _ :: r, w :: ws' => (nm, pos, (pos + length w)%nat) :: spans (pos + length w) r ws'
  | _, _ => []
  end.

Fixpoint values (segs : list seg) (ws : list bytes) : list (name * bytes) :=
  match segs, ws with
  | SConst _ :: r, _ :: ws' => values r ws'
  | SVar nm _ :: r, w :: ws' => (nm, w) :: values r ws'
  | _, _ => []
  end.

(* ------------------------------------------------------------------- delimited patterns *)
(* byte [c] cannot occur in any word of the regex *)
Definition atom_excludes (c : N) (a : atom) : bool :=
  match a with
  | ALit d => negb (d =? c)
  | ACls p _ => negb (cls_mem p c)
  end.
Definition re_excludes (c : N) (r : re) : bool := forallb (atom_excludes c) r.

(* every dynamic segment is followed by the end of the pattern or by a non-empty constant whose
   first byte its language excludes; [last_ok r] = condition on a dynamic segment in last
   position *)
Fixpoint delimited (last_ok : re -> bool) (segs : list seg) : bool :=
  match segs with
  | [] => true
  | SConst _ :: r => delimited last_ok r
  | SVar _ re :: r =>
      match r with
      | [] => last_ok re
      | SConst (c :: _) :: _ => re_excludes c re && delimited last_ok r
      | _ => false
      end
  end.

(* ---------------------------------------------------------------- reference percent-decoder *)
Definition is_hex (b : N) : bool :=
  in_range 48 57 b || in_range 97 102 b || in_range 65 70 b.
Definition hex_val (b : N) : N :=
  if in_range 48 57 b then b - 48 else if in_range 97 102 b then b - 87 else b - 55.

(* left to right: `%XY` with X, Y hex digits and a non-protected value is replaced by that
   byte and decoding resumes AFTER it; everything else is copied *)
Fixpoint spec_decode (protected : list N) (s : bytes) : bytes :=
  match s with
  | [] => []
  | b :: t =>
      match t with
      | p1 :: p2 :: rem =>
          if (b =? 37) && is_hex p1 && is_hex p2 &&
             negb (existsb (fun x => x =? hex_val p1 * 16 + hex_val p2) protected)
          then (hex_val p1 * 16 + hex_val p2) :: spec_decode protected rem
          else b :: spec_decode protected t
      | _ => b :: spec_decode protected t
      end
  end.
