(* Proofs about Quoter::requote against the reference decoder of Spec.v. *)
From AV Require Import Lib.Base Router.Pattern Router.Quoter Router.Spec.

Lemma hex_digit_spec : forall d, hex_digit d = if is_hex d then Some (hex_val d) else None.
Proof.
  intro d. unfold hex_digit, is_hex, hex_val, in_range.
  destruct (48 <=? d) eqn:A, (d <=? 57) eqn:B, (97 <=? d) eqn:C, (d <=? 102) eqn:D,
           (65 <=? d) eqn:E, (d <=? 70) eqn:F; cbn [andb orb]; try reflexivity; lia.
Qed.

(* the reference decoder's test at one position *)
Definition esc (prot : list N) (b : N) (t : bytes) : option (N * bytes) :=
  match t with
  | p1 :: p2 :: rem =>
      if (b =? 37) && is_hex p1 && is_hex p2 &&
         negb (existsb (fun x => x =? hex_val p1 * 16 + hex_val p2) prot)
      then Some (hex_val p1 * 16 + hex_val p2, rem) else None
  | _ => None
  end.

Lemma spec_decode_cons : forall prot b t,
  spec_decode prot (b :: t) =
  match esc prot b t with
  | Some (ch, rem) => ch :: spec_decode prot rem
  | None => b :: spec_decode prot t
  end.
Proof.
  intros prot b t. cbn [spec_decode]. unfold esc. destruct t as [|p1 [|p2 rem]]; try reflexivity.
  destruct ((b =? 37) && is_hex p1 && is_hex p2 &&
            negb (existsb (fun x => x =? hex_val p1 * 16 + hex_val p2) prot)); reflexivity.
Qed.

Lemma esc_length : forall prot b t ch rem, esc prot b t = Some (ch, rem) -> length t = S (S (length rem)).
Proof.
  intros prot b t ch rem H. unfold esc in H. destruct t as [|p1 [|p2 r]]; try discriminate.
  destruct (_ && _ && _ && _); [|discriminate]. inversion H. reflexivity.
Qed.

(* induction principle following the decoder's recursion *)
Lemma decode_ind : forall prot (P : bytes -> Prop),
  P [] ->
  (forall b t, esc prot b t = None -> P t -> P (b :: t)) ->
  (forall b t ch rem, esc prot b t = Some (ch, rem) -> P rem -> P (b :: t)) ->
  forall s, P s.
Proof.
  intros prot P H0 H1 H2 s. remember (length s) as n eqn:L.
  assert (G : forall n s, (length s <= n)%nat -> P s).
  { clear - H0 H1 H2. induction n as [|n IH]; intros s L.
    - destruct s; [exact H0 | cbn in L; lia].
    - destruct s as [|b t]; [exact H0|]. cbn [length] in L.
      destruct (esc prot b t) as [[ch rem]|] eqn:E.
      + apply (H2 b t ch rem E). apply IH. apply esc_length in E. lia.
      + apply (H1 b t E). apply IH. lia. }
  apply (G n). lia.
Qed.

Section Q.
Variable prot : list N.
Hypothesis prot_ascii : forallb (fun ch => ch <? 128) prot = true.

Lemma bit_at_ascii : forall ch, ((ch <? 128) && bit_at prot ch) = existsb (fun x => x =? ch) prot.
Proof.
  intro ch. unfold bit_at. destruct (existsb (fun x => x =? ch) prot) eqn:E; [|apply andb_false_r].
  rewrite andb_true_r. apply existsb_exists in E as (x & I & X). apply N.eqb_eq in X; subst x.
  rewrite forallb_forall in prot_ascii. exact (prot_ascii ch I).
Qed.

(* the implementation's test = the reference test *)
Lemma escape_at_esc : forall b t, escape_at prot (b :: t) = esc prot b t.
Proof.
  intros b t. unfold escape_at, esc. destruct t as [|p1 [|p2 rem]]; try reflexivity.
  unfold hex_pair_to_char. rewrite !hex_digit_spec.
  destruct (b =? 37); [|reflexivity]. cbn [andb].
  destruct (is_hex p1); [|reflexivity]. destruct (is_hex p2); [|reflexivity]. cbn [andb].
  rewrite bit_at_ascii. destruct (existsb _ prot); reflexivity.
Qed.

Lemma decode_next_spec : forall s,
  match decode_next prot s with
  | None => spec_decode prot s = s
  | Some (prev, ch, rem) =>
      spec_decode prot s = prev ++ ch :: spec_decode prot rem /\
      length s = (length prev + 3 + length rem)%nat
  end.
Proof.
  induction s as [|b t IH]; [reflexivity|].
  cbn [decode_next]. rewrite escape_at_esc, spec_decode_cons.
  destruct (esc prot b t) as [[ch rem]|] eqn:E.
  - split; [reflexivity|]. apply esc_length in E. cbn [length]. lia.
  - destruct (decode_next prot t) as [[[prev ch] rem]|].
    + destruct IH as (A & B). rewrite A. split; [reflexivity|]. cbn [length]. lia.
    + rewrite IH. reflexivity.
Qed.

Lemma requote_loop_spec : forall fuel rem decoded, (length rem <= fuel)%nat ->
  requote_loop fuel prot rem decoded = decoded ++ spec_decode prot rem.
Proof.
  induction fuel as [|fuel IH]; intros rem decoded L.
  - destruct rem; [reflexivity | cbn in L; lia].
  - cbn [requote_loop]. pose proof (decode_next_spec rem) as S.
    destruct (decode_next prot rem) as [[[prev ch] rem']|].
    + destruct S as (A & B). rewrite IH by lia. rewrite A, <- !app_assoc. reflexivity.
    + rewrite S. reflexivity.
Qed.

(* requote = the reference decoder; None exactly when nothing is decoded; a decoded result is
   strictly shorter *)
Theorem requote_exact : forall s,
  match requote prot s with
  | None => spec_decode prot s = s
  | Some d => d = spec_decode prot s /\ (length d < length s)%nat
  end.
Proof.
  intro s. unfold requote. pose proof (decode_next_spec s) as S.
  destruct (decode_next prot s) as [[[prev ch] rem]|]; [|exact S].
  destruct S as (A & B). rewrite requote_loop_spec by lia. rewrite A, <- app_assoc. split; [reflexivity|].
  assert (G : forall x, (length (spec_decode prot x) <= length x)%nat).
  { apply (decode_ind prot); [cbn; lia | |].
    - intros b t E H. rewrite spec_decode_cons, E. cbn [length]. lia.
    - intros b t ch' rem' E H. rewrite spec_decode_cons, E. apply esc_length in E. cbn [length]. lia. }
  cbn [app]. rewrite app_length. cbn [length]. specialize (G rem). lia.
Qed.

Theorem requote_full_spec : forall s, requote_full prot s = spec_decode prot s.
Proof.
  intro s. unfold requote_full. pose proof (requote_exact s) as H.
  destruct (requote prot s); [destruct H as (-> & _); reflexivity | symmetry; exact H].
Qed.

Theorem spec_decode_length : forall s, (length (spec_decode prot s) <= length s)%nat.
Proof.
  apply (decode_ind prot); [cbn; lia | |].
  - intros b t E H. rewrite spec_decode_cons, E. cbn [length]. lia.
  - intros b t ch rem E H. rewrite spec_decode_cons, E. apply esc_length in E. cbn [length]. lia.
Qed.

(* a decoded byte is emitted as it is and decoding resumes after the escape: the output is
   never scanned again (no double decoding) *)
Theorem no_double_decode : forall p1 p2 rem,
  is_hex p1 = true -> is_hex p2 = true ->
  existsb (fun x => x =? hex_val p1 * 16 + hex_val p2) prot = false ->
  spec_decode prot (37 :: p1 :: p2 :: rem) = (hex_val p1 * 16 + hex_val p2) :: spec_decode prot rem.
Proof.
  intros p1 p2 rem H1 H2 H3. rewrite spec_decode_cons. unfold esc. rewrite H1, H2, H3. reflexivity.
Qed.

(* a protected byte is never produced by decoding *)
Lemma esc_not_protected : forall b t ch rem x,
  esc prot b t = Some (ch, rem) -> In x prot -> ch <> x.
Proof.
  intros b t ch rem x E I. unfold esc in E. destruct t as [|p1 [|p2 r]]; try discriminate.
  destruct ((b =? 37) && is_hex p1 && is_hex p2) eqn:C; cbn [andb] in E; [|discriminate].
  destruct (existsb (fun x => x =? hex_val p1 * 16 + hex_val p2) prot) eqn:X; cbn [negb] in E; [discriminate|].
  inversion E; subst. intro EQ. subst x.
  assert (existsb (fun x => x =? hex_val p1 * 16 + hex_val p2) prot = true)
    by (apply existsb_exists; eexists; split; [exact I | apply N.eqb_refl]).
  congruence.
Qed.

Lemma esc_shape : forall b t ch rem, esc prot b t = Some (ch, rem) ->
  exists p1 p2, b = 37 /\ t = p1 :: p2 :: rem /\ is_hex p1 = true /\ is_hex p2 = true.
Proof.
  intros b t ch rem E. unfold esc in E. destruct t as [|p1 [|p2 r]]; try discriminate.
  destruct (b =? 37) eqn:B; cbn [andb] in E; [|discriminate].
  destruct (is_hex p1) eqn:H1; cbn [andb] in E; [|discriminate].
  destruct (is_hex p2) eqn:H2; cbn [andb] in E; [|discriminate].
  destruct (negb _); [|discriminate]. inversion E; subst. apply N.eqb_eq in B.
  exists p1, p2. repeat split; assumption.
Qed.

(* the occurrences of a protected byte other than '%' and the hex digits are unchanged *)
Theorem protected_count_preserved : forall x s,
  In x prot -> x <> 37 -> is_hex x = false ->
  count_occ N.eq_dec (spec_decode prot s) x = count_occ N.eq_dec s x.
Proof.
  intros x s I N37 NH. revert s. apply (decode_ind prot); [reflexivity | |].
  - intros b t E H. rewrite spec_decode_cons, E. cbn [count_occ]. destruct (N.eq_dec b x); rewrite H; reflexivity.
  - intros b t ch rem E H. rewrite spec_decode_cons, E.
    pose proof (esc_not_protected _ _ _ _ x E I) as NC.
    apply esc_shape in E as (p1 & p2 & -> & -> & H1 & H2).
    cbn [count_occ]. destruct (N.eq_dec ch x); [contradiction|].
    destruct (N.eq_dec 37 x); [congruence|].
    destruct (N.eq_dec p1 x); [congruence|]. destruct (N.eq_dec p2 x); [congruence|]. exact H.
Qed.

(* decoding never crosses a protected, non-hex, non-'%' byte such as '/': the path keeps its
   segment structure *)
Theorem decode_splits_at_protected : forall x a b,
  In x prot -> x <> 37 -> is_hex x = false ->
  spec_decode prot (a ++ x :: b) = spec_decode prot a ++ x :: spec_decode prot b.
Proof.
  intros x a b I N37 NH. revert a. apply (decode_ind prot).
  - cbn [app]. rewrite spec_decode_cons.
    replace (esc prot x b) with (@None (N * bytes)); [reflexivity|].
    unfold esc. destruct b as [|p1 [|p2 r]]; try reflexivity.
    apply N.eqb_neq in N37. rewrite N37. reflexivity.
  - intros c t E H. cbn [app]. rewrite !spec_decode_cons, E.
    replace (esc prot c (t ++ x :: b)) with (@None (N * bytes)); [cbn [app]; rewrite H; reflexivity|].
    unfold esc in *. destruct t as [|p1 [|p2 r]]; cbn [app].
    + destruct b as [|? ?]; [reflexivity|]. rewrite NH, andb_false_r. reflexivity.
    + rewrite NH, andb_false_r. reflexivity.
    + destruct (_ && _ && _ && _); [discriminate | reflexivity].
  - intros c t ch rem E H. cbn [app]. rewrite !spec_decode_cons, E.
    pose proof E as E'. apply esc_shape in E' as (p1 & p2 & -> & -> & H1 & H2).
    replace (esc prot 37 ((p1 :: p2 :: rem) ++ x :: b)) with (Some (ch, rem ++ x :: b)).
    + cbn [app]. rewrite H. reflexivity.
    + unfold esc in *. cbn [app]. destruct (_ && _ && _ && _); [inversion E; reflexivity | discriminate].
Qed.

End Q.
