(* Proofs about the scalar-level model (ResourceDefU.v): all valid UTF-8 paths.
   The matcher theorems of MatchProofs.v are generic in the alphabet, so they hold verbatim for
   scalar strings; this file adds the byte-offset bookkeeping. *)
From AV Require Import Lib.Base Router.Pattern Router.Match Router.Path Router.ResourceDef
  Router.Spec Router.MatchProofs Router.ResourceProofs Router.ResourceProofs2 Router.Utf8 Router.ResourceDefU.

(* ------------------------------------------------------------------------------ byte offsets *)
Lemma utf8_len_pos : forall c, (1 <= utf8_len c)%nat.
Proof. intro c. unfold utf8_len. destruct (c <? 128), (c <? 2048), (c <? 65536); lia. Qed.

Lemma blen_app : forall a b, blen (a ++ b) = (blen a + blen b)%nat.
Proof. induction a as [|c a IH]; intro b; cbn [app blen]; [reflexivity | rewrite IH; lia]. Qed.

Lemma blen_ge_length : forall s, (length s <= blen s)%nat.
Proof. induction s as [|c s IH]; cbn [length blen]; [lia | pose proof (utf8_len_pos c); lia]. Qed.

Lemma boff_le : forall s i, (boff s i <= blen s)%nat.
Proof. intros s i. unfold boff. rewrite <- (firstn_skipn i s) at 2. rewrite blen_app. lia. Qed.

Lemma boff_add : forall s i j, boff s (i + j) = (boff s i + boff (skipn i s) j)%nat.
Proof.
  induction s as [|c s IH]; intros i j.
  - unfold boff. rewrite skipn_nil, !firstn_nil. reflexivity.
  - destruct i as [|i]; [reflexivity|]. unfold boff in *. cbn [Nat.add firstn skipn blen]. rewrite IH. lia.
Qed.

Lemma boff_mono : forall s i j, (i <= j)%nat -> (boff s i <= boff s j)%nat.
Proof. intros s i j H. replace j with (i + (j - i))%nat by lia. rewrite boff_add. lia. Qed.

Lemma boff_all : forall s i, (length s <= i)%nat -> boff s i = blen s.
Proof. intros s i H. unfold boff. rewrite firstn_all2 by exact H. reflexivity. Qed.

Lemma boff_0 : forall s, boff s 0 = 0%nat.
Proof. reflexivity. Qed.

Lemma at_byte_boff : forall s i k0, (i <= length s)%nat ->
  at_byte s (boff s i) k0 = Some ((k0 + i)%nat, skipn i s).
Proof.
  induction s as [|c s IH]; intros i k0 H.
  - destruct i; [|cbn in H; lia]. cbn. rewrite Nat.add_0_r. reflexivity.
  - destruct i as [|i]; [cbn; rewrite Nat.add_0_r; reflexivity|].
    cbn [length] in H. unfold boff. cbn [firstn blen skipn]. fold (boff s i).
    pose proof (utf8_len_pos c) as P.
    destruct (utf8_len c + boff s i)%nat as [|k] eqn:E; [lia|]. cbn [at_byte].
    replace (Nat.leb (utf8_len c) (S k)) with true by (symmetry; apply Nat.leb_le; lia).
    replace (S k - utf8_len c)%nat with (boff s i) by lia.
    rewrite IH by lia. f_equal. f_equal. lia.
Qed.

(* slicing between two character boundaries *)
Lemma slice_u_boff : forall s a b, (a <= b)%nat -> (b <= length s)%nat ->
  slice_u s (N.of_nat (boff s a)) (N.of_nat (boff s b)) = Val (firstn (b - a) (skipn a s)).
Proof.
  intros s a b H1 H2. unfold slice_u. pose proof (boff_mono s a b H1) as M.
  replace (N.of_nat (boff s a) <=? N.of_nat (boff s b)) with true by (symmetry; apply N.leb_le; lia).
  rewrite Nat2N.id, (at_byte_boff s a 0) by lia.
  replace (N.to_nat (N.of_nat (boff s b) - N.of_nat (boff s a))) with (boff (skipn a s) (b - a)).
  - rewrite at_byte_boff by (rewrite skipn_length; lia). reflexivity.
  - replace b with (a + (b - a))%nat at 2 by lia. rewrite boff_add. lia.
Qed.

(* ------------------------------------------------------------------------------------ Path *)
(* `skip` is the byte offset of a character boundary inside the path, the path is shorter than
   2^16 BYTES *)
Definition pathu_ok (p : path) (i : nat) : Prop :=
  (i <= length (p_path p))%nat /\ p_skip p = N.of_nat (boff (p_path p) i) /\
  N.of_nat (blen (p_path p)) <= u16_max.

Lemma unprocessed_u_ok : forall p i, pathu_ok p i -> unprocessed_u p = Val (skipn i (p_path p)).
Proof.
  intros p i (L & S & _). unfold unprocessed_u. rewrite S.
  pose proof (boff_le (p_path p) i). rewrite N.min_l by lia. rewrite Nat2N.id, at_byte_boff by exact L. reflexivity.
Qed.

(* a span in character indices of the unprocessed part, as byte offsets *)
Definition to_bytes (s : list N) (x : name * nat * nat) : name * nat * nat :=
  (fst3 x, boff s (snd (fst x)), boff s (snd x)).

Section U.
Variable MAX : N.

Lemma collect_u_spec : forall s (l' l : caps) rest no,
  NoDup (map fst3 l) -> incl l' l -> no + lenN l' <= MAX ->
  collect_segments_u MAX s no (map fst3 l') (l ++ rest) =
  Val (Some (map (fun x => snd (span_item (to_bytes s x))) l')).
Proof.
  intros s. induction l' as [|[[nm st] en] l' IH]; intros l rest no ND I B; [reflexivity|].
  cbn [map collect_segments_u]. unfold fst3 at 1. cbn [fst].
  rewrite (cap_get_app_in l rest nm st en ND) by (apply I; left; reflexivity).
  unfold lenN in *. cbn [length] in B. destruct (MAX <=? no) eqn:E; [lia|].
  rewrite IH; [reflexivity | assumption | intros x Hx; apply I; right; exact Hx | lia].
Qed.

Lemma combine_span_items_u : forall s (l : caps),
  combine (map fst3 l) (map (fun x => snd (span_item (to_bytes s x))) l) = map span_item (map (to_bytes s) l).
Proof. intros s. induction l as [|x l IH]; [reflexivity|]. cbn [map combine]. rewrite IH. reflexivity. Qed.

(* the Dynamic arm on a scalar string *)
Lemma capture_dynamic_u_spec : forall pre p s,
  wf_names (p_segs p) -> lenN (var_names (p_segs p)) <= MAX ->
  let re := compile pre p in
  match re_captures re s with
  | None => capture_dynamic_u MAX re (group_names re) s = Val None /\ re_is_match re s = false
  | Some cs =>
      re_is_match re s = true /\
      exists n ws, Matches pre p s n ws /\ cs = spans 0 (p_segs p) ws ++ [(group1, 0%nat, n)] /\
        group1_len_u s cs = Val (N.of_nat (boff s n)) /\
        capture_dynamic_u MAX re (group_names re) s =
          Val (Some (N.of_nat (boff s n), map span_item (map (to_bytes s) (spans 0 (p_segs p) ws))))
  end.
Proof.
  intros pre p s (ND & NE) LEN re. pose proof (re_captures_is_match re s) as IM.
  unfold capture_dynamic_u. destruct (re_captures re s) as [cs|] eqn:C; cbn [isSome] in IM.
  - split; [symmetry; exact IM|]. apply captures_sound in C as (n & ws & M & ->).
    exists n, ws. split; [exact M|]. split; [reflexivity|].
    pose proof M as (D & _). pose proof (spans_names _ _ 0%nat D) as SN.
    assert (G1 : group1_len_u s (spans 0 (p_segs p) ws ++ [(group1, 0%nat, n)]) = Val (N.of_nat (boff s n))).
    { unfold group1_len_u. rewrite cap_get_app_notin by (rewrite SN; exact NE).
      cbn [cap_get]. unfold group1. cbn [bytes_eqb]. rewrite boff_0, Nat.sub_0_r. reflexivity. }
    split; [exact G1|].
    unfold re. rewrite group_names_compile by exact NE. rewrite <- SN.
    rewrite collect_u_spec; [| rewrite SN; exact ND | apply incl_refl |].
    + cbn [rbind]. rewrite G1. cbn [rbind]. rewrite combine_span_items_u. reflexivity.
    + unfold lenN in *. rewrite <- (map_length fst3), SN. lia.
  - split; [reflexivity | symmetry; exact IM].
Qed.

(* what a successful capture leaves in the Path: byte offsets of character boundaries *)
Definition captured_u (pre : bool) (p : pattern) (pth : path) (i n : nat) (ws : list (list N)) (pth' : path) : Prop :=
  let s := skipn i (p_path pth) in
  Matches pre p s n ws /\
  pth' = mkPath (p_path pth) (p_skip pth + N.of_nat (boff s n))
                (p_segments pth ++ map (shift_item (p_skip pth)) (map (to_bytes s) (spans 0 (p_segs p) ws))).

Lemma finish_u : forall (p : path) (i n : nat) (l : caps),
  pathu_ok p i -> (n <= length (skipn i (p_path p)))%nat ->
  (forall nm st en, In (nm, st, en) l -> (st <= n)%nat /\ (en <= n)%nat) ->
  let s := skipn i (p_path p) in
  let p' := mkPath (p_path p) (p_skip p + N.of_nat (boff s n))
                   (p_segments p ++ map (shift_item (p_skip p)) (map (to_bytes s) l)) in
  rbind (add_all p (map span_item (map (to_bytes s) l))) (fun q =>
    rbind (path_skip q (u16_mod (N.of_nat (boff s n)))) (fun q' => Val (true, q'))) = Val (true, p') /\
  pathu_ok p' (i + n).
Proof.
  intros p i n l (L & SK & LEN) N B s p'.
  assert (TOT : (boff (p_path p) i + boff s n <= blen (p_path p))%nat).
  { unfold s. rewrite <- boff_add. apply boff_le. }
  assert (B' : forall nm st en, In (nm, st, en) (map (to_bytes s) l) -> (st <= boff s n)%nat /\ (en <= boff s n)%nat).
  { intros nm st en I. apply in_map_iff in I as ([[nm0 st0] en0] & E & I). unfold to_bytes, fst3 in E. cbn [fst snd] in E.
    inversion E; subst. destruct (B _ _ _ I). split; apply boff_mono; assumption. }
  unfold u16_max in *.
  rewrite (add_all_spec (map (to_bytes s) l) p (boff s n) B') by (unfold u16_max; lia). cbn [rbind].
  unfold path_skip, u16_add. cbn [p_skip p_path p_segments].
  rewrite u16_mod_small by (unfold u16_max; lia).
  replace (p_skip p + N.of_nat (boff s n) <=? u16_max) with true by (symmetry; apply N.leb_le; unfold u16_max; lia).
  cbn [rbind]. split; [reflexivity|].
  unfold pathu_ok, p'. cbn [p_path p_skip]. rewrite skipn_length in N. split; [lia|]. split; [|exact LEN].
  rewrite boff_add, SK. fold s. lia.
Qed.

(* the three ways of asking, one dynamic pattern, any valid UTF-8 path below 2^16 bytes *)
Lemma dyn_arm_u : forall pre p pth i,
  wf_names (p_segs p) -> lenN (var_names (p_segs p)) <= MAX -> pathu_ok pth i ->
  let s := skipn i (p_path pth) in
  let re := compile pre p in
  let rd := mkRdef pre (PTDynamic re (group_names re)) (p_segs p) in
  (is_match_u rd s = false /\ find_match_u rd s = Val None /\ capture_match_info_u MAX rd pth = Val (false, pth)) \/
  (exists n ws pth', is_match_u rd s = true /\ find_match_u rd s = Val (Some (N.of_nat (boff s n))) /\
     capture_match_info_u MAX rd pth = Val (true, pth') /\
     captured_u pre p pth i n ws pth' /\ pathu_ok pth' (i + n)).
Proof.
  intros pre p pth i WF LEN OK s re rd.
  pose proof (capture_dynamic_u_spec pre p s WF LEN) as H. cbv zeta in H. fold re in H.
  unfold is_match_u, is_match, find_match_u, capture_match_info_u, capture_match_info_fn_u, rd.
  cbn [rd_pat negb]. rewrite (unprocessed_u_ok pth i OK). cbn [rbind]. fold s. fold re.
  destruct (re_captures re s) as [cs|].
  - right. destruct H as (IM & n & ws & M & -> & G1 & CD). exists n, ws.
    pose proof (matches_len _ _ _ _ _ M) as ML. pose proof M as (_ & _ & L & _).
    assert (B : forall nm st en, In (nm, st, en) (spans 0 (p_segs p) ws) -> (st <= n)%nat /\ (en <= n)%nat).
    { intros nm st en I. apply spans_bounds in I. lia. }
    destruct (finish_u pth i n _ OK L B) as (F1 & F2). fold s in F1.
    eexists. split; [exact IM|]. rewrite G1, CD. cbn [rbind]. split; [reflexivity|].
    split; [exact F1|]. split; [split; [exact M | reflexivity] | exact F2].
  - left. destruct H as (CD & IM). rewrite CD. cbn [rbind]. repeat split; assumption.
Qed.

(* ---------------------------------------------------------------- values: whole characters *)
Lemma iter_in_u_path : forall p q l, p_path p = p_path q -> iter_in_u p l = iter_in_u q l.
Proof.
  intros p q l E. induction l as [|[nm v] l IH]; [reflexivity|]. cbn [iter_in_u]. rewrite IH.
  destruct v; cbn [item_value_u]; rewrite ?E; reflexivity.
Qed.

Lemma iter_in_u_app : forall p a b,
  iter_in_u p (a ++ b) = rbind (iter_in_u p a) (fun x => rbind (iter_in_u p b) (fun y => Val (x ++ y))).
Proof.
  intros p a b. induction a as [|[nm v] a IH]; cbn [app iter_in_u].
  - cbn [rbind]. destruct (iter_in_u p b); reflexivity.
  - destruct (item_value_u p v); [|reflexivity]. cbn [rbind]. rewrite IH.
    destruct (iter_in_u p a); [|reflexivity]. cbn [rbind]. destruct (iter_in_u p b); reflexivity.
Qed.

Lemma spans_values_u : forall segs ws pos full i rest sk sg,
  decomp segs ws -> (i + pos <= length full)%nat -> skipn (i + pos) full = concat ws ++ rest ->
  iter_in_u (mkPath full sk sg)
    (map (shift_item (N.of_nat (boff full i))) (map (to_bytes (skipn i full)) (spans pos segs ws))) =
  Val (values segs ws).
Proof.
  induction segs as [|s segs IH]; intros ws pos full i rest sk sg D B E;
    inversion D as [|? w ? ws' L D']; subst; [reflexivity|].
  cbn [concat] in E. rewrite <- app_assoc in E.
  assert (E' : skipn (i + (pos + length w)) full = concat ws' ++ rest).
  { replace (i + (pos + length w))%nat with (i + pos + length w)%nat by lia.
    rewrite <- skipn_add, E. apply skipn_len_app. }
  assert (LEN : (i + pos + length w <= length full)%nat).
  { pose proof (skipn_length (i + pos) full) as SL. rewrite E, !app_length in SL. lia. }
  destruct s as [b|nm re]; cbn [spans values map].
  - eapply IH; [eassumption | lia | eassumption].
  - cbn [iter_in_u]. unfold shift_item at 1. unfold to_bytes at 1 2 3. unfold fst3. cbn [fst snd item_value_u p_path].
    rewrite <- !Nat2N.inj_add, <- !boff_add, slice_u_boff by lia.
    replace (i + (pos + length w) - (i + pos))%nat with (length w) by lia.
    rewrite E, firstn_len_app. cbn [rbind]. rewrite (IH ws' _ full i rest sk sg D') by (lia || exact E'). reflexivity.
Qed.

(* after a successful capture on any valid UTF-8 path, `Path::iter` yields the earlier
   parameters followed by exactly the words of the decomposition -- sequences of WHOLE characters,
   each in the language of its segment read over scalar values *)
Theorem captured_values_u : forall pre p pth i n ws pth',
  pathu_ok pth i -> captured_u pre p pth i n ws pth' ->
  path_iter_u pth' = rbind (path_iter_u pth) (fun old => Val (old ++ values (p_segs p) ws)).
Proof.
  intros pre p pth i n ws pth' (K1 & K2 & K3) ((D & F & L & _) & ->). unfold path_iter_u. cbn [p_segments].
  rewrite iter_in_u_app. rewrite (iter_in_u_path _ pth (p_segments pth)) by reflexivity.
  destruct (iter_in_u pth (p_segments pth)) as [old|]; [|reflexivity]. cbn [rbind]. rewrite K2.
  rewrite (spans_values_u (p_segs p) ws 0 (p_path pth) i (skipn n (skipn i (p_path pth)))); [reflexivity | exact D | lia |].
  rewrite Nat.add_0_r, F. apply firstn_skipn_app.
Qed.

(* ------------------------------------------------------------- every constructed definition *)
Definition outcome_u (rd : rdef) (pth : path) (i : nat) (o : option N) (pth' : path) : Prop :=
  let s := skipn i (p_path pth) in
  find_match_u rd s = Val o /\ is_match_u rd s = isSome o /\
  capture_match_info_u MAX rd pth = Val (isSome o, pth') /\
  match o with
  | Some nb => exists n, (n <= length s)%nat /\ nb = N.of_nat (boff s n) /\ pathu_ok pth' (i + n) /\
                         p_path pth' = p_path pth /\ p_skip pth' = p_skip pth + nb
  | None => pth' = pth
  end.

Lemma outcome_u_static : forall pre b segs pth i, pathu_ok pth i ->
  exists o pth', outcome_u (mkRdef pre (PTStatic b) segs) pth i o pth'.
Proof.
  intros pre b segs pth i OK.
  unfold outcome_u, find_match_u, is_match_u, is_match, capture_match_info_u, capture_match_info_fn_u.
  cbn [rd_pat rd_prefix]. rewrite (unprocessed_u_ok pth i OK). cbn [rbind]. unfold static_match_u.
  set (s := skipn i (p_path pth)).
  destruct (static_match pre b s) as [n|] eqn:E.
  - apply static_match_spec in E as (-> & rem & E & _).
    assert (L : (length b <= length s)%nat) by (rewrite E, app_length; lia).
    destruct (finish_u pth i (length b) [] OK L) as (F1 & F2); [intros ? ? ? []|]. fold s in F1, F2.
    cbn [map] in F1, F2. unfold lenN. rewrite Nat2N.id.
    eexists. eexists. split; [reflexivity|]. split; [reflexivity|]. cbn [rbind negb isSome].
    split; [exact F1|]. exists (length b). split; [exact L|]. split; [reflexivity|]. split; [exact F2|].
    split; reflexivity.
  - exists None, pth. repeat split.
Qed.

Lemma outcome_u_dynamic : forall pre p pth i,
  wf_pattern p -> lenN (var_names (p_segs p)) <= MAX -> pathu_ok pth i ->
  exists o pth', outcome_u (mkRdef pre (PTDynamic (compile pre p) (group_names (compile pre p))) (p_segs p)) pth i o pth'.
Proof.
  intros pre p pth i WF LEN OK. unfold outcome_u.
  destruct (dyn_arm_u pre p pth i WF LEN OK) as [(A & B & C) | (n & ws & pth' & A & B & C & D & E)].
  - exists None, pth. rewrite A, B, C. repeat split.
  - exists (Some (N.of_nat (boff (skipn i (p_path pth)) n))), pth'. rewrite A, B, C. cbn [isSome].
    destruct D as (M & ->). pose proof M as (_ & _ & L & _).
    split; [reflexivity|]. split; [reflexivity|]. split; [reflexivity|].
    exists n. split; [exact L|]. split; [reflexivity|]. split; [exact E|]. split; reflexivity.
Qed.

Lemma outcome_u_set : forall pre ps segs pth i,
  Forall wf_pattern ps -> Forall (fun p => lenN (var_names (p_segs p)) <= MAX) ps -> pathu_ok pth i ->
  exists o pth', outcome_u (mkRdef pre (PTDynamicSet (params_of pre ps)) segs) pth i o pth'.
Proof.
  intros pre ps segs pth i WF LEN OK.
  unfold outcome_u, find_match_u, is_match_u, is_match, capture_match_info_u, capture_match_info_fn_u.
  cbn [rd_pat rd_prefix negb]. rewrite (unprocessed_u_ok pth i OK). cbn [rbind].
  set (s := skipn i (p_path pth)). pose proof (set_arm pre ps s) as H.
  destruct (first_match_idx (map fst (params_of pre ps)) s) as [idx|].
  - destruct H as (A & p & B & C & D). rewrite A, C.
    assert (WFp : wf_pattern p) by (eapply Forall_forall in WF; [exact WF | eapply nth_error_In; exact B]).
    assert (LENp : lenN (var_names (p_segs p)) <= MAX)
      by (eapply Forall_forall in LEN; [exact LEN | eapply nth_error_In; exact B]).
    destruct (dyn_arm_u pre p pth i WFp LENp OK) as [(A' & _) | (n & ws & pth' & A' & B' & C' & D' & E')].
    + unfold is_match_u, is_match in A'. cbn [rd_pat] in A'. fold s in A'. congruence.
    + unfold find_match_u, capture_match_info_u, capture_match_info_fn_u in B', C'. cbn [rd_pat negb] in B', C'.
      rewrite (unprocessed_u_ok pth i OK) in C'. cbn [rbind] in C'. fold s in B', C'.
      exists (Some (N.of_nat (boff s n))), pth'. rewrite B', C'. cbn [isSome].
      destruct D' as (M & ->). pose proof M as (_ & _ & L & _).
      split; [reflexivity|]. split; [reflexivity|]. split; [reflexivity|].
      exists n. split; [exact L|]. split; [reflexivity|]. split; [exact E'|]. split; reflexivity.
  - rewrite H. exists None, pth. repeat split.
Qed.

(* is_match, find_match and capture_match_info agree and nothing panics, for every constructed
   definition and every valid UTF-8 path below 2^16 bytes whose `skip` is a character boundary;
   the Path afterwards is again at a character boundary *)
Theorem three_ways_agree_u : forall ps pre rd pth i,
  wf_patterns ps -> construct MAX ps pre = Val rd -> pathu_ok pth i ->
  exists o pth', outcome_u rd pth i o pth'.
Proof.
  intros ps pre rd pth i WF C OK. destruct ps as [p | l]; cbn [construct wf_patterns] in *.
  - unfold parse in C. cbn [negb andb] in C. destruct (is_static p).
    + cbn [rbind fst snd] in C. inversion C. apply outcome_u_static. exact OK.
    + destruct (MAX <? lenN (var_names (p_segs p))) eqn:E; [discriminate|]. cbn [rbind fst snd] in C.
      inversion C. apply outcome_u_dynamic; [exact WF | lia | exact OK].
  - destruct l as [|p l].
    + inversion C. change (@nil (regex * list name)) with (params_of pre []).
      apply outcome_u_set; [constructor | constructor | exact OK].
    + destruct (parse_list MAX (p :: l) pre) as [x|] eqn:P; [|discriminate]. cbn [rbind] in C. inversion C.
      apply parse_list_spec in P as (A & B & _). rewrite A. apply outcome_u_set; assumption.
Qed.

(* one dynamic pattern: the captured values *)
Theorem capture_single_u : forall pre p rd pth i pth',
  wf_pattern p -> is_static p = false -> construct MAX (Single p) pre = Val rd -> pathu_ok pth i ->
  capture_match_info_u MAX rd pth = Val (true, pth') ->
  exists n ws, captured_u pre p pth i n ws pth' /\ pathu_ok pth' (i + n) /\
    path_iter_u pth' = rbind (path_iter_u pth) (fun old => Val (old ++ values (p_segs p) ws)) /\
    unprocessed_u pth' = Val (skipn n (skipn i (p_path pth))).
Proof.
  intros pre p rd pth i pth' WF NS C OK H.
  destruct (construct_dynamic MAX p pre rd NS C) as (LM & ->).
  destruct (dyn_arm_u pre p pth i WF LM OK) as [(_ & _ & A) | (n & ws & q & _ & _ & A & Cp & OK')];
    rewrite A in H; inversion H; subst.
  exists n, ws. split; [exact Cp|]. split; [exact OK'|]. split; [exact (captured_values_u pre p pth i n ws pth' OK Cp)|].
  rewrite (unprocessed_u_ok pth' (i + n) OK'). destruct Cp as (_ & ->). cbn [p_path]. rewrite skipn_add. reflexivity.
Qed.

End U.

(* `Path::new` on any string shorter than 2^16 bytes *)
Lemma pathu_ok_new : forall s, N.of_nat (blen s) <= u16_max -> pathu_ok (path_new s) 0.
Proof. intros s H. unfold pathu_ok, path_new. cbn [p_path p_skip]. repeat split; [lia | exact H]. Qed.

(* on ASCII strings byte offsets are character indices: the scalar-level model is the
   byte-level model *)
Lemma blen_ascii : forall s, forallb (fun c => c <? 128) s = true -> blen s = length s.
Proof.
  induction s as [|c s IH]; intro H; [reflexivity|]. cbn [forallb] in H. apply andb_true_iff in H as (A & B).
  cbn [blen length]. unfold utf8_len. rewrite A, IH by exact B. reflexivity.
Qed.

Lemma boff_ascii : forall s i, forallb (fun c => c <? 128) s = true -> (i <= length s)%nat -> boff s i = i.
Proof.
  induction s as [|c s IH]; intros i H L.
  - destruct i; [reflexivity | cbn in L; lia].
  - destruct i as [|i]; [reflexivity|]. cbn [forallb] in H. apply andb_true_iff in H as (A & B).
    cbn [length] in L. unfold boff in *. cbn [firstn blen]. unfold utf8_len. rewrite A, IH by (assumption || lia). reflexivity.
Qed.
