(* Proofs about ResourceDef / Path (ResourceDef.v, Path.v) on top of MatchProofs.v. *)
From AV Require Import Lib.Base Router.Pattern Router.Match Router.Path Router.ResourceDef
  Router.Spec Router.MatchProofs.

Definition fst3 {A B C} (x : A * B * C) : A := fst (fst x).

(* names the `regex` crate accepts: distinct and non-empty *)
Definition wf_names (segs : list seg) : Prop :=
  NoDup (var_names segs) /\ ~ In [] (var_names segs).

Definition span_item (x : name * nat * nat) : name * path_item :=
  (fst3 x, PISegment (u16_mod (N.of_nat (snd (fst x)))) (u16_mod (N.of_nat (snd x)))).

(* ------------------------------------------------------------------------------ group names *)
Definition nonempty (n : name) : bool := match n with [] => false | _ :: _ => true end.

Lemma group_names_atoms : forall re r, group_names (map compile_atom re ++ r) = group_names r.
Proof. induction re as [|a re IH]; intro r; [reflexivity|]. destruct a; cbn [map app compile_atom group_names]; apply IH. Qed.

Lemma group_names_lits : forall b r, group_names (map ILit b ++ r) = group_names r.
Proof. induction b as [|x b IH]; intro r; [reflexivity|]. cbn [map app group_names]. apply IH. Qed.

Lemma group_names_segs : forall segs r,
  group_names (compile_segs segs ++ r) = filter nonempty (var_names segs) ++ group_names r.
Proof.
  induction segs as [|sg segs IH]; intro r; [reflexivity|].
  rewrite compile_segs_cons, <- app_assoc. destruct sg as [b|nm re]; cbn [compile_seg var_names].
  - rewrite group_names_lits. apply IH.
  - cbn [app group_names filter]. rewrite <- app_assoc, group_names_atoms. cbn [app group_names].
    rewrite IH. destruct nm; reflexivity.
Qed.

Lemma filter_nonempty_id : forall l, ~ In [] l -> filter nonempty l = l.
Proof.
  induction l as [|x l IH]; intro H; [reflexivity|]. cbn [filter].
  destruct x as [|c x]; [exfalso; apply H; left; reflexivity|]. cbn [nonempty].
  rewrite IH; [reflexivity|]. intro I. apply H. right. exact I.
Qed.

Lemma group_names_compile : forall pre p, ~ In [] (var_names (p_segs p)) ->
  group_names (compile pre p) = var_names (p_segs p).
Proof.
  intros pre p H. unfold compile. cbn [group_names]. rewrite group_names_segs, filter_nonempty_id by exact H.
  cbn [group_names]. unfold suffix. destruct (p_tail p); [|destruct pre]; cbn [group_names]; apply app_nil_r.
Qed.

(* -------------------------------------------------------------------------- spans and lookup *)
Lemma spans_names : forall segs ws pos, decomp segs ws -> map fst3 (spans pos segs ws) = var_names segs.
Proof.
  induction segs as [|sg segs IH]; intros ws pos D; inversion D as [|? w ? ws' L D']; subst; [reflexivity|].
  destruct sg; cbn [spans var_names map]; [apply IH; assumption|]. unfold fst3 at 1. cbn [fst]. f_equal. apply IH; assumption.
Qed.

Lemma cap_get_app_in : forall (l : caps) rest nm st en,
  NoDup (map fst3 l) -> In (nm, st, en) l -> cap_get nm (l ++ rest) = Some (st, en).
Proof.
  induction l as [|[[n' s'] e'] l IH]; intros rest nm st en ND I; [contradiction|].
  cbn [app cap_get]. cbn [map] in ND. inversion ND as [|? ? NI ND']; subst.
  destruct I as [E | I].
  - inversion E; subst. rewrite bytes_eqb_refl. reflexivity.
  - destruct (bytes_eqb nm n') eqn:B.
    + apply bytes_eqb_eq in B; subst n'. exfalso. apply NI. unfold fst3 at 1. cbn [fst].
      change nm with (fst3 (nm, st, en)). apply in_map. exact I.
    + apply IH; assumption.
Qed.

Lemma cap_get_app_notin : forall (l : caps) rest nm,
  ~ In nm (map fst3 l) -> cap_get nm (l ++ rest) = cap_get nm rest.
Proof.
  induction l as [|[[n' s'] e'] l IH]; intros rest nm NI; [reflexivity|].
  cbn [app cap_get]. destruct (bytes_eqb nm n') eqn:B.
  - apply bytes_eqb_eq in B; subst. exfalso. apply NI. left. reflexivity.
  - apply IH. intro I. apply NI. right. exact I.
Qed.

Section WithConst.
Variable MAX : N.

Lemma collect_spec : forall (l' l : caps) rest no,
  NoDup (map fst3 l) -> incl l' l -> no + lenN l' <= MAX ->
  collect_segments MAX no (map fst3 l') (l ++ rest) = Val (Some (map (fun x => snd (span_item x)) l')).
Proof.
  induction l' as [|[[nm st] en] l' IH]; intros l rest no ND I B; [reflexivity|].
  cbn [map collect_segments]. unfold fst3 at 1. cbn [fst].
  rewrite (cap_get_app_in l rest nm st en ND) by (apply I; left; reflexivity).
  unfold lenN in *. cbn [length] in B.
  destruct (MAX <=? no) eqn:E; [lia|].
  rewrite IH; [reflexivity | assumption | intros x Hx; apply I; right; exact Hx | lia].
Qed.

Lemma combine_span_items : forall l : caps,
  combine (map fst3 l) (map (fun x => snd (span_item x)) l) = map span_item l.
Proof. induction l as [|x l IH]; [reflexivity|]. cbn [map combine]. rewrite IH. reflexivity. Qed.

(* what the Dynamic arm of capture_match_info_fn computes *)
Lemma capture_dynamic_spec : forall pre p s,
  wf_names (p_segs p) -> lenN (var_names (p_segs p)) <= MAX ->
  let re := compile pre p in
  match re_captures re s with
  | None => capture_dynamic MAX re (group_names re) s = Val None /\ re_is_match re s = false
  | Some cs =>
      re_is_match re s = true /\
      exists n ws, Matches pre p s n ws /\ cs = spans 0 (p_segs p) ws ++ [(group1, 0%nat, n)] /\
        group1_len cs = Val (N.of_nat n) /\
        capture_dynamic MAX re (group_names re) s =
          Val (Some (N.of_nat n, map span_item (spans 0 (p_segs p) ws)))
  end.
Proof.
  intros pre p s (ND & NE) LEN re. pose proof (re_captures_is_match re s) as IM.
  unfold capture_dynamic. destruct (re_captures re s) as [cs|] eqn:C; cbn [isSome] in IM.
  - split; [symmetry; exact IM|]. apply captures_sound in C as (n & ws & M & ->).
    exists n, ws. split; [exact M|]. split; [reflexivity|].
    pose proof M as (D & _). pose proof (spans_names _ _ 0%nat D) as SN.
    assert (G1 : group1_len (spans 0 (p_segs p) ws ++ [(group1, 0%nat, n)]) = Val (N.of_nat n)).
    { unfold group1_len. rewrite cap_get_app_notin by (rewrite SN; exact NE).
      cbn [cap_get]. unfold group1. cbn [bytes_eqb]. rewrite Nat.sub_0_r. reflexivity. }
    split; [exact G1|].
    unfold re. rewrite group_names_compile by exact NE. rewrite <- SN.
    rewrite collect_spec; [| rewrite SN; exact ND | apply incl_refl |].
    + cbn [rbind]. rewrite G1. cbn [rbind]. rewrite combine_span_items. reflexivity.
    + unfold lenN in *. rewrite <- (map_length fst3), SN. lia.
  - split; [reflexivity | symmetry; exact IM].
Qed.

End WithConst.

(* ------------------------------------------------------------------------------------- Path *)
(* the u16 fields are in range and `skip` is inside the path: true of `Path::new` on any path
   shorter than 2^16 bytes, and preserved by every successful capture *)
Definition path_ok (p : path) : Prop :=
  p_skip p <= lenN (p_path p) /\ lenN (p_path p) <= u16_max.

Definition shift_item (k : N) (x : name * nat * nat) : name * path_item :=
  (fst3 x, PISegment (k + N.of_nat (snd (fst x))) (k + N.of_nat (snd x))).

Lemma spans_bounds : forall segs ws pos nm st en,
  In (nm, st, en) (spans pos segs ws) -> (pos <= st <= en)%nat /\ (en <= pos + length (concat ws))%nat.
Proof.
  induction segs as [|sg segs IH]; intros ws pos nm st en I; [contradiction|].
  destruct ws as [|w ws]; [destruct sg; contradiction|].
  cbn [concat]. rewrite app_length. destruct sg; cbn [spans] in I.
  - apply IH in I. lia.
  - destruct I as [E | I]; [inversion E; subst; lia | apply IH in I; lia].
Qed.

Lemma u16_mod_small : forall n, n <= u16_max -> u16_mod n = n.
Proof. intros n H. unfold u16_mod, u16_max in *. apply N.mod_small. lia. Qed.

Lemma add_all_spec : forall (l : caps) (p : path) (bound : nat),
  (forall nm st en, In (nm, st, en) l -> (st <= bound)%nat /\ (en <= bound)%nat) ->
  p_skip p + N.of_nat bound <= u16_max ->
  add_all p (map span_item l) =
  Val (mkPath (p_path p) (p_skip p) (p_segments p ++ map (shift_item (p_skip p)) l)).
Proof.
  induction l as [|[[nm st] en] l IH]; intros p bound B H.
  - cbn [map add_all]. rewrite app_nil_r. destruct p; reflexivity.
  - cbn [map add_all]. unfold span_item at 1. unfold fst3. cbn [fst snd].
    destruct (B nm st en (or_introl eq_refl)) as (B1 & B2).
    rewrite !u16_mod_small by (unfold u16_max in *; lia).
    unfold path_add, u16_add.
    replace (p_skip p + N.of_nat st <=? u16_max) with true by (symmetry; apply N.leb_le; lia).
    replace (p_skip p + N.of_nat en <=? u16_max) with true by (symmetry; apply N.leb_le; lia).
    cbn [rbind].
    rewrite (IH _ bound); [| intros; eapply B; right; eassumption | exact H].
    cbn [p_path p_skip p_segments map]. rewrite <- app_assoc. reflexivity.
Qed.

Lemma skipn_add : forall (a b : nat) (l : bytes), skipn a (skipn b l) = skipn (b + a) l.
Proof.
  intros a b. revert a. induction b as [|b IH]; intros a l; [reflexivity|].
  destruct l as [|x l]; cbn [skipn Nat.add]; [destruct a; reflexivity | apply IH].
Qed.

Lemma unprocessed_eq : forall p, p_skip p <= lenN (p_path p) ->
  unprocessed p = skipn (N.to_nat (p_skip p)) (p_path p).
Proof. intros p H. unfold unprocessed. rewrite N.min_l by exact H. reflexivity. Qed.

Lemma unprocessed_length : forall p, p_skip p <= lenN (p_path p) ->
  length (unprocessed p) = (length (p_path p) - N.to_nat (p_skip p))%nat.
Proof. intros p H. rewrite unprocessed_eq by exact H. apply skipn_length. Qed.

(* the tail of capture_match_info_fn: store the segments, skip the matched length *)
Lemma finish_spec : forall (p : path) (n : nat) (l : caps),
  path_ok p -> (n <= length (unprocessed p))%nat ->
  (forall nm st en, In (nm, st, en) l -> (st <= n)%nat /\ (en <= n)%nat) ->
  let p' := mkPath (p_path p) (p_skip p + N.of_nat n) (p_segments p ++ map (shift_item (p_skip p)) l) in
  rbind (add_all p (map span_item l)) (fun q =>
    rbind (path_skip q (u16_mod (N.of_nat n))) (fun q' => Val (true, q'))) = Val (true, p') /\
  path_ok p' /\ unprocessed p' = skipn n (unprocessed p).
Proof.
  intros p n l (K1 & K2) N B p'.
  pose proof (unprocessed_length p K1) as UL. unfold lenN, u16_max in *.
  rewrite (add_all_spec l p n B) by (unfold u16_max; lia). cbn [rbind].
  unfold path_skip, u16_add. cbn [p_skip p_path p_segments].
  rewrite u16_mod_small by (unfold u16_max; lia).
  replace (p_skip p + N.of_nat n <=? u16_max) with true by (symmetry; apply N.leb_le; unfold u16_max; lia).
  cbn [rbind]. split; [reflexivity|]. split.
  - unfold path_ok, p', lenN, u16_max. cbn [p_skip p_path]. lia.
  - rewrite (unprocessed_eq p') by (unfold p', lenN; cbn [p_skip p_path]; lia).
    rewrite (unprocessed_eq p) by (unfold lenN; exact K1). unfold p'. cbn [p_skip p_path].
    rewrite skipn_add. f_equal. lia.
Qed.

(* ----------------------------------------------------------------------------- static_match *)
Lemma static_match_spec : forall pre b s n,
  static_match pre b s = Some n <->
  n = lenN b /\ exists rem, s = b ++ rem /\
    (if pre then rem = [] \/ (exists t, rem = 47 :: t) else rem = []).
Proof.
  intros pre b s n. unfold static_match. destruct (strip_prefix b s) as [rem|] eqn:E.
  - apply strip_prefix_spec in E; subst s. split.
    + intro H. destruct pre.
      * destruct rem as [|c t]; [inversion H; split; [reflexivity|]; exists []; split; [reflexivity | left; reflexivity]|].
        destruct (c =? 47) eqn:C; [|discriminate]. apply N.eqb_eq in C; subst c. inversion H.
        split; [reflexivity|]. exists (47 :: t). split; [reflexivity | right; eauto].
      * destruct rem; [|discriminate]. inversion H. split; [reflexivity|]. exists []. split; reflexivity.
    + intros (-> & rem' & E & H). apply app_inv_head in E; subst rem'. destruct pre.
      * destruct H as [-> | (t & ->)]; [reflexivity | rewrite N.eqb_refl; reflexivity].
      * subst rem. reflexivity.
  - split; [discriminate|]. intros (_ & rem & -> & _). rewrite strip_prefix_app in E. discriminate.
Qed.

Section WithConst2.
Variable MAX : N.

(* what a successful capture leaves in the Path *)
Definition captured (pre : bool) (p : pattern) (pth : path) (n : nat) (ws : list bytes) (pth' : path) : Prop :=
  Matches pre p (unprocessed pth) n ws /\
  pth' = mkPath (p_path pth) (p_skip pth + N.of_nat n)
                (p_segments pth ++ map (shift_item (p_skip pth)) (spans 0 (p_segs p) ws)).

Lemma matches_len : forall pre p s n ws, Matches pre p s n ws -> length (concat ws) = n.
Proof. intros pre p s n ws (_ & F & L & _). rewrite F, firstn_length. lia. Qed.

(* the three ways of asking, for one dynamic pattern *)
Lemma dyn_arm : forall pre p pth,
  wf_names (p_segs p) -> lenN (var_names (p_segs p)) <= MAX -> path_ok pth ->
  let s := unprocessed pth in
  let re := compile pre p in
  let fm := match re_captures re s with
            | None => Val None
            | Some cs => rbind (group1_len cs) (fun n => Val (Some n))
            end in
  let cm := rbind (capture_dynamic MAX re (group_names re) s) (fun st =>
            match st with
            | None => Val (false, pth)
            | Some (matched_len, vars) =>
                rbind (add_all pth vars) (fun p' =>
                rbind (path_skip p' (u16_mod matched_len)) (fun p'' => Val (true, p'')))
            end) in
  (re_is_match re s = false /\ fm = Val None /\ cm = Val (false, pth)) \/
  (exists n ws pth', re_is_match re s = true /\ fm = Val (Some (N.of_nat n)) /\ cm = Val (true, pth') /\
     captured pre p pth n ws pth' /\ path_ok pth' /\ unprocessed pth' = skipn n s).
Proof.
  intros pre p pth WF LEN OK s re fm cm.
  pose proof (capture_dynamic_spec MAX pre p s WF LEN) as H. cbv zeta in H. fold re in H.
  unfold fm, cm. destruct (re_captures re s) as [cs|].
  - right. destruct H as (IM & n & ws & M & -> & G1 & CD). exists n, ws.
    pose proof (matches_len _ _ _ _ _ M) as ML. pose proof M as (_ & _ & L & _).
    assert (B : forall nm st en, In (nm, st, en) (spans 0 (p_segs p) ws) -> (st <= n)%nat /\ (en <= n)%nat).
    { intros nm st en I. apply spans_bounds in I. lia. }
    destruct (finish_spec pth n _ OK L B) as (F1 & F2 & F3).
    eexists. split; [exact IM|]. rewrite G1, CD. cbn [rbind]. split; [reflexivity|].
    split; [exact F1|]. split; [split; [exact M | reflexivity]|]. split; assumption.
  - left. destruct H as (CD & IM). rewrite CD. cbn [rbind]. repeat split; assumption.
Qed.

(* ---------------------------------------------------------------------- constructed rdefs *)
Definition wf_pattern (p : pattern) : Prop := wf_names (p_segs p).
Definition wf_patterns (ps : patterns) : Prop :=
  match ps with Single p => wf_pattern p | PList l => Forall wf_pattern l end.

Definition params_of (pre : bool) (ps : list pattern) : list (regex * list name) :=
  map (fun p => (compile pre p, group_names (compile pre p))) ps.

Lemma parse_dynamic : forall p pre x,
  parse MAX p pre true = Val x ->
  lenN (var_names (p_segs p)) <= MAX /\
  x = (PTDynamic (compile pre p) (group_names (compile pre p)), p_segs p).
Proof.
  intros p pre x H. unfold parse in H. cbn [negb andb] in H.
  destruct (MAX <? lenN (var_names (p_segs p))) eqn:E; [discriminate|]. inversion H. split; [lia | reflexivity].
Qed.

Lemma parse_list_spec : forall ps pre x,
  parse_list MAX ps pre = Val x ->
  fst x = params_of pre ps /\ Forall (fun p => lenN (var_names (p_segs p)) <= MAX) ps /\
  snd x = match ps with [] => None | p :: _ => Some (p_segs p) end.
Proof.
  induction ps as [|p ps IH]; intros pre x H; cbn [parse_list] in H.
  - inversion H. repeat split. constructor.
  - destruct (parse MAX p pre true) as [y|] eqn:P; [|discriminate]. cbn [rbind] in H.
    apply parse_dynamic in P as (L & ->).
    destruct (parse_list MAX ps pre) as [z|] eqn:Q; [|discriminate]. cbn [rbind] in H. inversion H; subst x.
    destruct (IH pre z Q) as (A & B & _). cbn [fst snd params_of map]. rewrite A.
    repeat split. constructor; assumption.
Qed.

(* the outcome of asking in the three ways *)
Definition outcome (rd : rdef) (pth : path) (o : option N) (pth' : path) : Prop :=
  let s := unprocessed pth in
  find_match rd s = Val o /\ is_match rd s = isSome o /\
  capture_match_info MAX rd pth = Val (isSome o, pth') /\
  match o with
  | Some n => (N.to_nat n <= length s)%nat /\ path_ok pth' /\
              unprocessed pth' = skipn (N.to_nat n) s /\ p_path pth' = p_path pth
  | None => pth' = pth
  end.

Lemma outcome_static : forall pre b segs pth, path_ok pth ->
  exists o pth', outcome (mkRdef pre (PTStatic b) segs) pth o pth'.
Proof.
  intros pre b segs pth OK. unfold outcome, find_match, is_match, capture_match_info, capture_match_info_fn.
  cbn [rd_pat rd_prefix]. destruct (static_match pre b (unprocessed pth)) as [n|] eqn:E.
  - apply static_match_spec in E as (-> & rem & E & _).
    assert (L : (length b <= length (unprocessed pth))%nat) by (rewrite E, app_length; lia).
    destruct (finish_spec pth (length b) [] OK L) as (F1 & F2 & F3); [intros ? ? ? []|].
    cbn [map] in F1, F2, F3. eexists. eexists. split; [reflexivity|]. split; [reflexivity|].
    cbn [rbind negb]. unfold lenN at 1. split; [exact F1|]. unfold lenN. rewrite Nat2N.id.
    split; [exact L|]. split; [exact F2|]. split; [exact F3 | reflexivity].
  - exists None, pth. repeat split.
Qed.

Lemma outcome_dynamic : forall pre p segs pth,
  wf_pattern p -> lenN (var_names (p_segs p)) <= MAX -> path_ok pth ->
  exists o pth', outcome (mkRdef pre (PTDynamic (compile pre p) (group_names (compile pre p))) segs) pth o pth'.
Proof.
  intros pre p segs pth WF LEN OK. unfold outcome, find_match, is_match, capture_match_info, capture_match_info_fn.
  cbn [rd_pat rd_prefix negb].
  destruct (dyn_arm pre p pth WF LEN OK) as [(A & B & C) | (n & ws & pth' & A & B & C & D & E & F)].
  - exists None, pth. rewrite A, B, C. repeat split.
  - exists (Some (N.of_nat n)), pth'. rewrite A, B, C. cbn [isSome]. rewrite Nat2N.id.
    destruct D as (M & ->). pose proof M as (_ & _ & L & _).
    split; [reflexivity|]. split; [reflexivity|]. split; [reflexivity|].
    split; [exact L|]. split; [exact E|]. split; [exact F | reflexivity].
Qed.

Lemma set_arm : forall pre ps s,
  match first_match_idx (map fst (params_of pre ps)) s with
  | None => set_is_match (map fst (params_of pre ps)) s = false
  | Some idx => set_is_match (map fst (params_of pre ps)) s = true /\
                exists p, nth_error ps idx = Some p /\
                  nth_error (params_of pre ps) idx = Some (compile pre p, group_names (compile pre p)) /\
                  re_is_match (compile pre p) s = true
  end.
Proof.
  intros pre ps s. induction ps as [|p ps IH]; [reflexivity|].
  cbn [params_of map fst first_match_idx set_is_match existsb]. fold (params_of pre ps).
  destruct (re_is_match (compile pre p) s) eqn:E.
  - split; [reflexivity|]. exists p. repeat split. exact E.
  - cbn [orb]. destruct (first_match_idx (map fst (params_of pre ps)) s) as [i|].
    + destruct IH as (A & q & B & C & D). split; [exact A|]. exists q. repeat split; assumption.
    + exact IH.
Qed.

Lemma outcome_set : forall pre ps segs pth,
  Forall wf_pattern ps -> Forall (fun p => lenN (var_names (p_segs p)) <= MAX) ps -> path_ok pth ->
  exists o pth', outcome (mkRdef pre (PTDynamicSet (params_of pre ps)) segs) pth o pth'.
Proof.
  intros pre ps segs pth WF LEN OK. unfold outcome, find_match, is_match, capture_match_info, capture_match_info_fn.
  cbn [rd_pat rd_prefix negb]. pose proof (set_arm pre ps (unprocessed pth)) as H.
  destruct (first_match_idx (map fst (params_of pre ps)) (unprocessed pth)) as [idx|].
  - destruct H as (A & p & B & C & D). rewrite A, C.
    assert (WFp : wf_pattern p) by (eapply Forall_forall in WF; [exact WF | eapply nth_error_In; exact B]).
    assert (LENp : lenN (var_names (p_segs p)) <= MAX)
      by (eapply Forall_forall in LEN; [exact LEN | eapply nth_error_In; exact B]).
    destruct (dyn_arm pre p pth WFp LENp OK) as [(A' & _) | (n & ws & pth' & A' & B' & C' & D' & E' & F')]; [congruence|].
    exists (Some (N.of_nat n)), pth'. rewrite B', C'. cbn [isSome]. rewrite Nat2N.id.
    destruct D' as (M & ->). pose proof M as (_ & _ & L & _).
    split; [reflexivity|]. split; [reflexivity|]. split; [reflexivity|].
    split; [exact L|]. split; [exact E'|]. split; [exact F' | reflexivity].
  - rewrite H. exists None, pth. repeat split.
Qed.

(* is_match, find_match and capture_match_info agree, for every constructed definition *)
Theorem three_ways_agree : forall ps pre rd pth,
  wf_patterns ps -> construct MAX ps pre = Val rd -> path_ok pth ->
  exists o pth', outcome rd pth o pth'.
Proof.
  intros ps pre rd pth WF C OK. destruct ps as [p | l]; cbn [construct wf_patterns] in *.
  - unfold parse in C. cbn [negb andb] in C. destruct (is_static p).
    + cbn [rbind fst snd] in C. inversion C. apply outcome_static. exact OK.
    + destruct (MAX <? lenN (var_names (p_segs p))) eqn:E; [discriminate|]. cbn [rbind fst snd] in C.
      inversion C. apply outcome_dynamic; [exact WF | lia | exact OK].
  - destruct l as [|p l].
    + inversion C. change (@nil (regex * list name)) with (params_of pre []).
      apply outcome_set; [constructor | constructor | exact OK].
    + destruct (parse_list MAX (p :: l) pre) as [x|] eqn:P; [|discriminate]. cbn [rbind] in C. inversion C.
      apply parse_list_spec in P as (A & B & _). rewrite A. apply outcome_set; assumption.
Qed.

End WithConst2.

(* ------------------------------------------------------ captured values are exact substrings *)
Lemma iter_in_path : forall p q l, p_path p = p_path q -> iter_in p l = iter_in q l.
Proof.
  intros p q l E. induction l as [|[nm v] l IH]; [reflexivity|]. cbn [iter_in]. rewrite IH.
  destruct v; cbn [item_value]; rewrite ?E; reflexivity.
Qed.

Lemma iter_in_app : forall p a b,
  iter_in p (a ++ b) = rbind (iter_in p a) (fun x => rbind (iter_in p b) (fun y => Val (x ++ y))).
Proof.
  intros p a b. induction a as [|[nm v] a IH]; cbn [app iter_in].
  - cbn [rbind]. destruct (iter_in p b); reflexivity.
  - destruct (item_value p v); [|reflexivity]. cbn [rbind]. rewrite IH.
    destruct (iter_in p a); [|reflexivity]. cbn [rbind]. destruct (iter_in p b); reflexivity.
Qed.

Lemma slice_nat : forall (full : bytes) a b, (a <= b)%nat -> (b <= length full)%nat ->
  slice full (N.of_nat a) (N.of_nat b) = Val (firstn (b - a) (skipn a full)).
Proof.
  intros full a b H1 H2. unfold slice, lenN.
  replace ((N.of_nat a <=? N.of_nat b) && (N.of_nat b <=? N.of_nat (length full))) with true
    by (symmetry; apply andb_true_iff; split; apply N.leb_le; lia).
  rewrite Nat2N.id. replace (N.to_nat (N.of_nat b - N.of_nat a)) with (b - a)%nat by lia. reflexivity.
Qed.

Lemma spans_values : forall segs ws pos full k rest sk sg,
  decomp segs ws -> (k + pos <= length full)%nat -> skipn (k + pos) full = concat ws ++ rest ->
  iter_in (mkPath full sk sg) (map (shift_item (N.of_nat k)) (spans pos segs ws)) = Val (values segs ws).
Proof.
  induction segs as [|s segs IH]; intros ws pos full k rest sk sg D B E;
    inversion D as [|? w ? ws' L D']; subst; [reflexivity|].
  cbn [concat] in E. rewrite <- app_assoc in E.
  assert (E' : skipn (k + (pos + length w)) full = concat ws' ++ rest).
  { replace (k + (pos + length w))%nat with (k + pos + length w)%nat by lia.
    rewrite <- skipn_add, E. apply skipn_len_app. }
  assert (LEN : (k + pos + length w <= length full)%nat).
  { pose proof (skipn_length (k + pos) full) as SL. rewrite E, !app_length in SL. lia. }
  destruct s as [b|nm re]; cbn [spans values map].
  - eapply IH; [eassumption | lia | eassumption].
  - cbn [iter_in]. unfold shift_item at 1. unfold fst3. cbn [fst snd item_value p_path].
    rewrite <- !Nat2N.inj_add, slice_nat by lia.
    replace (k + (pos + length w) - (k + pos))%nat with (length w) by lia.
    rewrite E, firstn_len_app. cbn [rbind]. rewrite (IH ws' _ full k rest sk sg D') by (lia || exact E'). reflexivity.
Qed.

(* after a successful capture the Path yields the earlier parameters followed by exactly the
   words of the decomposition, read back from the path at the recorded offsets *)
Theorem captured_values : forall pre p pth n ws pth',
  path_ok pth -> captured pre p pth n ws pth' ->
  path_iter pth' = rbind (path_iter pth) (fun old => Val (old ++ values (p_segs p) ws)).
Proof.
  intros pre p pth n ws pth' (K1 & K2) ((D & F & L & _) & ->). unfold path_iter. cbn [p_segments].
  rewrite iter_in_app. rewrite (iter_in_path _ pth (p_segments pth)) by reflexivity.
  destruct (iter_in pth (p_segments pth)) as [old|]; [|reflexivity]. cbn [rbind].
  replace (shift_item (p_skip pth)) with (shift_item (N.of_nat (N.to_nat (p_skip pth)))) by (rewrite N2Nat.id; reflexivity).
  rewrite (spans_values (p_segs p) ws 0 (p_path pth) (N.to_nat (p_skip pth)) (skipn n (unprocessed pth))); [reflexivity | exact D | unfold lenN in K1; lia |].
  rewrite Nat.add_0_r, <- unprocessed_eq by exact K1. rewrite F. apply firstn_skipn_app.
Qed.

(* ... and putting the values back into the pattern gives the matched prefix *)
Lemma build_values : forall segs ws acc, decomp segs ws ->
  build_from_iter segs (map snd (values segs ws)) acc = (true, acc ++ concat ws).
Proof.
  induction segs as [|s segs IH]; intros ws acc D; inversion D as [|? w ? ws' L D']; subst.
  - cbn [build_from_iter concat]. rewrite app_nil_r. reflexivity.
  - destruct s as [b|nm re]; cbn [values map snd build_from_iter concat seg_lang] in *.
    + subst w. rewrite IH by assumption. rewrite app_assoc. reflexivity.
    + rewrite IH by assumption. rewrite app_assoc. reflexivity.
Qed.

Theorem rebuild_matched_prefix : forall pre p s n ws, Matches pre p s n ws ->
  build_from_iter (p_segs p) (map snd (values (p_segs p) ws)) [] = (true, firstn n s).
Proof. intros pre p s n ws (D & F & _). rewrite build_values by exact D. rewrite <- F. reflexivity. Qed.

(* --------------------------------------------------------------- segment languages, boundary *)
Lemma default_re_lang : forall w,
  re_lang default_re w <-> w <> [] /\ forallb (fun b => negb (b =? 47)) w = true.
Proof.
  intro w. unfold default_re. cbn [re_lang atom_lang q_ok cls_mem]. split.
  - intros (w1 & w2 & -> & (C & Q) & ->). rewrite app_nil_r. split; [|exact C].
    destruct w1; [cbn in Q; lia | discriminate].
  - intros (NE & C). exists w, []. rewrite app_nil_r. repeat split; [exact C|].
    destruct w; [contradiction | cbn [length]; lia].
Qed.

Lemma decomp_values_lang : forall segs ws nm w re,
  decomp segs ws -> In (nm, w) (values segs ws) -> In (SVar nm re) segs -> NoDup (var_names segs) ->
  re_lang re w.
Proof.
  induction segs as [|s segs IH]; intros ws nm w re D I J ND; inversion D as [|? w0 ? ws' L D']; subst; [contradiction|].
  destruct s as [b|nm' re']; cbn [values var_names] in *.
  - destruct J as [J|J]; [discriminate|]. eapply IH; eassumption.
  - inversion ND as [|? ? NI ND']; subst. destruct I as [I|I]; destruct J as [J|J].
    + inversion I; inversion J; subst. exact L.
    + inversion I; subst. exfalso. apply NI. clear - J. induction segs as [|s segs IH]; [contradiction|].
      destruct J as [-> | J]; [left; reflexivity|]. destruct s; cbn [var_names]; [|right]; apply IH; exact J.
    + inversion J; subst. exfalso. apply NI.
      assert (V : forall segs ws nm w, In (nm, w) (values segs ws) -> In nm (var_names segs)).
      { clear. induction segs as [|s segs IH]; intros ws nm w I; [destruct ws; contradiction|].
        destruct ws as [|w0 ws]; [destruct s; contradiction|]. destruct s; cbn [values var_names] in *.
        - eapply IH; eassumption.
        - destruct I as [I|I]; [inversion I; left; reflexivity | right; eapply IH; eassumption]. }
      eapply V; eassumption.
    + eapply IH; eassumption.
Qed.

(* --------------------------------------------------------------------------------- round trip *)
Lemma re_excludes_notin : forall c re w, re_excludes c re = true -> re_lang re w -> ~ In c w.
Proof.
  intros c. induction re as [|a re IH]; intros w X L; cbn [re_lang re_excludes forallb] in *.
  - subst w. intros [].
  - apply andb_true_iff in X as (XA & X). destruct L as (w1 & w2 & -> & LA & L).
    intro I. apply in_app_or in I as [I|I]; [|exact (IH w2 X L I)].
    destruct a as [d|p q]; cbn [atom_lang atom_excludes] in *.
    + subst w1. destruct I as [I|[]]. subst d. rewrite N.eqb_refl in XA. discriminate.
    + destruct LA as (C & _). rewrite forallb_forall in C. rewrite (C c I) in XA. discriminate.
Qed.

Lemma split_unique : forall (c : N) (w1 w2 x y : bytes),
  w1 ++ c :: x = w2 ++ c :: y -> ~ In c w1 -> ~ In c w2 -> w1 = w2 /\ x = y.
Proof.
  intros c. induction w1 as [|a w1 IH]; intros w2 x y E N1 N2; destruct w2 as [|b w2]; cbn [app] in E.
  - inversion E. split; reflexivity.
  - inversion E; subst. exfalso. apply N2. left. reflexivity.
  - inversion E; subst. exfalso. apply N1. left. reflexivity.
  - inversion E; subst. destruct (IH w2 x y H1) as (-> & ->).
    + intro I. apply N1. right. exact I.
    + intro I. apply N2. right. exact I.
    + split; reflexivity.
Qed.

(* a delimited pattern cuts a string in at most one way *)
Lemma decomp_unique : forall segs ws1 ws2,
  delimited (fun _ => true) segs = true -> decomp segs ws1 -> decomp segs ws2 ->
  concat ws1 = concat ws2 -> ws1 = ws2.
Proof.
  induction segs as [|s segs IH]; intros ws1 ws2 DL D1 D2 E;
    inversion D1 as [|? w1 ? ws1' L1 D1']; inversion D2 as [|? w2 ? ws2' L2 D2']; subst; [reflexivity|].
  cbn [concat] in E. destruct s as [b|nm re]; cbn [delimited seg_lang] in *.
  - subst. apply app_inv_head in E. f_equal. apply IH; assumption.
  - destruct segs as [|[[|c b']|] segs'].
    + inversion D1'; inversion D2'; subst. cbn [concat] in E. rewrite !app_nil_r in E. subst. reflexivity.
    + discriminate.
    + apply andb_true_iff in DL as (X & DL).
      inversion D1' as [|? u1 ? t1 LU1 DT1]; inversion D2' as [|? u2 ? t2 LU2 DT2]; subst.
      cbn [seg_lang] in LU1, LU2. subst u1 u2. cbn [concat app] in E.
      destruct (split_unique c w1 w2 _ _ E) as (-> & E');
        [eapply re_excludes_notin; eassumption | eapply re_excludes_notin; eassumption|].
      f_equal. apply IH; [exact DL | assumption | assumption |]. cbn [concat app]. f_equal. exact E'.
    + discriminate.
Qed.

Section WithConst3.
Variable MAX : N.

(* build a path from a full (non-prefix), non-tail, delimited pattern and values in the
   segments' languages; matching it gives the same values back and consumes the whole path *)
Theorem roundtrip : forall p ws rd,
  wf_pattern p -> is_static p = false -> p_tail p = false ->
  delimited (fun _ => true) (p_segs p) = true ->
  decomp (p_segs p) ws -> lenN (concat ws) <= u16_max ->
  construct MAX (Single p) false = Val rd ->
  resource_path_from_iter rd (map snd (values (p_segs p) ws)) = (true, concat ws) /\
  exists pth', capture_match_info MAX rd (path_new (concat ws)) = Val (true, pth') /\
    path_iter pth' = Val (values (p_segs p) ws) /\ unprocessed pth' = [].
Proof.
  intros p ws rd WF NS NT DL D LEN C. cbn [construct] in C. unfold parse in C. rewrite NS in C.
  cbn [negb andb] in C. destruct (MAX <? lenN (var_names (p_segs p))) eqn:E; [discriminate|].
  cbn [rbind fst snd] in C. inversion C; subst rd; clear C.
  split; [unfold resource_path_from_iter; cbn [rd_segments]; rewrite build_values by exact D; reflexivity|].
  set (s := concat ws). set (pth := path_new s).
  assert (OK : path_ok pth) by (unfold path_ok, pth, path_new; cbn [p_skip p_path]; split; [lia | exact LEN]).
  assert (U : unprocessed pth = s).
  { unfold unprocessed, pth, path_new. cbn [p_skip p_path]. rewrite N.min_l by lia. reflexivity. }
  assert (M : Matches false p s (length s) ws).
  { unfold Matches, ends_ok. rewrite NT, firstn_all. repeat split; [exact D | lia]. }
  unfold capture_match_info, capture_match_info_fn. cbn [rd_pat negb].
  destruct (dyn_arm MAX false p pth WF ltac:(lia) OK) as [(A & _) | (n & ws' & pth' & A & B & Cm & (M' & EQ) & OK' & U')].
  - rewrite U in A. rewrite (is_match_complete _ _ _ _ _ M) in A. discriminate.
  - exists pth'. split; [exact Cm|]. rewrite U in M'.
    pose proof M' as (D' & F' & L' & EO'). unfold ends_ok in EO'. rewrite NT in EO'. subst n.
    rewrite firstn_all in F'. assert (ws' = ws) by (apply (decomp_unique (p_segs p)); assumption). subst ws'.
    split.
    + rewrite (captured_values false p pth (length s) ws pth' OK); [reflexivity|]. split; [rewrite U; exact M' | exact EQ].
    + rewrite U', U. apply skipn_all.
Qed.

(* ---------------------------------------------------------- one pattern: sound and complete *)
Theorem find_match_dynamic_sound : forall pre p rd s n,
  wf_pattern p -> is_static p = false -> construct MAX (Single p) pre = Val rd ->
  find_match rd s = Val (Some n) -> exists ws, Matches pre p s (N.to_nat n) ws.
Proof.
  intros pre p rd s n WF NS C H. cbn [construct] in C. unfold parse in C. rewrite NS in C.
  cbn [negb andb] in C. destruct (MAX <? lenN (var_names (p_segs p))) eqn:E; [discriminate|].
  cbn [rbind fst snd] in C. inversion C; subst rd; clear C. unfold find_match in H. cbn [rd_pat] in H.
  pose proof (capture_dynamic_spec MAX pre p s WF ltac:(lia)) as S. cbv zeta in S.
  destruct (re_captures (compile pre p) s) as [cs|]; [|discriminate].
  destruct S as (_ & n' & ws & M & _ & G & _). rewrite G in H. cbn [rbind] in H. inversion H.
  exists ws. rewrite Nat2N.id. exact M.
Qed.

Theorem find_match_dynamic_complete : forall pre p rd s n ws,
  wf_pattern p -> is_static p = false -> construct MAX (Single p) pre = Val rd ->
  Matches pre p s n ws -> exists n', find_match rd s = Val (Some n') /\ is_match rd s = true.
Proof.
  intros pre p rd s n ws WF NS C M. cbn [construct] in C. unfold parse in C. rewrite NS in C.
  cbn [negb andb] in C. destruct (MAX <? lenN (var_names (p_segs p))) eqn:E; [discriminate|].
  cbn [rbind fst snd] in C. inversion C; subst rd; clear C. unfold find_match, is_match. cbn [rd_pat].
  pose proof (capture_dynamic_spec MAX pre p s WF ltac:(lia)) as S. cbv zeta in S.
  pose proof (is_match_complete _ _ _ _ _ M) as IM.
  destruct (re_captures (compile pre p) s) as [cs|].
  - destruct S as (_ & n' & ws' & _ & _ & G & _). rewrite G. cbn [rbind]. eauto.
  - destruct S as (_ & S). congruence.
Qed.

(* static text matches exactly itself (prefix: itself followed by the end or by '/') *)
Theorem static_matches_itself : forall pre p rd s,
  is_static p = true -> construct MAX (Single p) pre = Val rd ->
  (is_match rd s = true <->
   exists rem, s = pattern_text p ++ rem /\
     (if pre then rem = [] \/ (exists t, rem = 47 :: t) else rem = [])) /\
  (is_match rd s = true -> find_match rd s = Val (Some (lenN (pattern_text p)))).
Proof.
  intros pre p rd s ST C. cbn [construct] in C. unfold parse in C. rewrite ST in C.
  cbn [negb andb rbind fst snd] in C. inversion C; subst rd; clear C.
  unfold is_match, find_match. cbn [rd_pat rd_prefix].
  destruct (static_match pre (pattern_text p) s) as [n|] eqn:E.
  - apply static_match_spec in E as (-> & H). split; [split; [intros _; exact H | reflexivity] | reflexivity].
  - split; [|discriminate]. split; [discriminate|]. intros (rem & H1 & H2).
    assert (X : static_match pre (pattern_text p) s = Some (lenN (pattern_text p)))
      by (apply static_match_spec; split; [reflexivity | exists rem; split; assumption]).
    congruence.
Qed.

End WithConst3.

Section WithConst4.
Variable MAX : N.

(* a successful capture with one dynamic pattern leaves exactly a decomposition in the Path *)
Theorem capture_single_dynamic : forall pre p rd pth pth',
  wf_pattern p -> is_static p = false -> construct MAX (Single p) pre = Val rd -> path_ok pth ->
  capture_match_info MAX rd pth = Val (true, pth') ->
  exists n ws, captured pre p pth n ws pth' /\ find_match rd (unprocessed pth) = Val (Some (N.of_nat n)).
Proof.
  intros pre p rd pth pth' WF NS C OK H. cbn [construct] in C. unfold parse in C. rewrite NS in C.
  cbn [negb andb] in C. destruct (MAX <? lenN (var_names (p_segs p))) eqn:E; [discriminate|].
  cbn [rbind fst snd] in C. inversion C; subst rd; clear C.
  pose proof (dyn_arm MAX pre p pth WF ltac:(lia) OK) as DA. cbv zeta in DA.
  unfold capture_match_info, capture_match_info_fn, find_match in *. cbn [rd_pat negb] in *.
  change (group_names (compile_segs (p_segs p) ++ IClose :: suffix pre (p_tail p)))
    with (group_names (compile pre p)) in H.
  destruct DA as [(_ & _ & A) | (n & ws & q & _ & B & A & Cp & _)];
    rewrite A in H; inversion H; subst.
  exists n, ws. split; [exact Cp | exact B].
Qed.

(* a prefix resource stops only at a segment boundary *)
Theorem prefix_boundary : forall p rd s n,
  wf_pattern p -> p_tail p = false -> construct MAX (Single p) true = Val rd ->
  find_match rd s = Val (Some n) ->
  N.to_nat n = length s \/ nth_error s (N.to_nat n) = Some 47.
Proof.
  intros p rd s n WF NT C H. destruct (is_static p) eqn:ST.
  - cbn [construct] in C. unfold parse in C. rewrite ST in C. cbn [negb andb rbind fst snd] in C.
    inversion C; subst rd; clear C. unfold find_match in H. cbn [rd_pat rd_prefix] in H. inversion H as [H'].
    apply static_match_spec in H' as (-> & rem & -> & [-> | (t & ->)]); unfold lenN; rewrite Nat2N.id.
    + left. rewrite app_nil_r. reflexivity.
    + right. rewrite nth_error_app2, Nat.sub_diag by lia. reflexivity.
  - destruct (find_match_dynamic_sound MAX true p rd s n WF ST C H) as (ws & _ & _ & _ & EO).
    unfold ends_ok in EO. rewrite NT in EO. exact EO.
Qed.

(* a full (non-prefix) resource without tail matches the whole path or nothing *)
Theorem full_match_is_total : forall p rd s n,
  wf_pattern p -> p_tail p = false -> construct MAX (Single p) false = Val rd ->
  find_match rd s = Val (Some n) -> N.to_nat n = length s.
Proof.
  intros p rd s n WF NT C H. destruct (is_static p) eqn:ST.
  - cbn [construct] in C. unfold parse in C. rewrite ST in C. cbn [negb andb rbind fst snd] in C.
    inversion C; subst rd; clear C. unfold find_match in H. cbn [rd_pat rd_prefix] in H. inversion H as [H'].
    apply static_match_spec in H' as (-> & rem & -> & ->). unfold lenN. rewrite Nat2N.id, app_nil_r. reflexivity.
  - destruct (find_match_dynamic_sound MAX false p rd s n WF ST C H) as (ws & _ & _ & _ & EO).
    unfold ends_ok in EO. rewrite NT in EO. exact EO.
Qed.

(* the default dynamic segment `{name}` captures a non-empty run without '/' *)
Theorem default_segment_value : forall pre p s n ws nm w,
  wf_pattern p -> Matches pre p s n ws ->
  In (SVar nm default_re) (p_segs p) -> In (nm, w) (values (p_segs p) ws) ->
  w <> [] /\ ~ In 47 w.
Proof.
  intros pre p s n ws nm w (ND & _) (D & _) I J.
  pose proof (decomp_values_lang _ _ _ _ _ D J I ND) as L. apply default_re_lang in L as (NE & C).
  split; [exact NE|]. intro X. rewrite forallb_forall in C. specialize (C 47 X). discriminate.
Qed.

End WithConst4.

(* --------------------------------------- what a successful capture leaves in the Path (any rdef) *)
Definition members (ps : patterns) : list pattern :=
  match ps with Single p => [p] | PList l => l end.

Lemma static_decomp : forall segs, forallb seg_is_const segs = true ->
  decomp segs (map seg_const segs) /\ forall pos, spans pos segs (map seg_const segs) = [].
Proof.
  induction segs as [|s segs IH]; intro H; [split; [constructor | reflexivity]|].
  cbn [forallb] in H. apply andb_true_iff in H as (H1 & H2). destruct (IH H2) as (D & S).
  destruct s as [b|]; [|discriminate]. split; [constructor; [reflexivity | exact D]|].
  intro pos. cbn [map spans seg_const]. apply S.
Qed.

Lemma static_as_matches : forall pre p s n,
  is_static p = true -> static_match pre (pattern_text p) s = Some n ->
  Matches pre p s (N.to_nat n) (map seg_const (p_segs p)) /\
  spans 0 (p_segs p) (map seg_const (p_segs p)) = [].
Proof.
  intros pre p s n ST H. unfold is_static in ST. apply andb_true_iff in ST as (C & T).
  destruct (static_decomp _ C) as (D & S). split; [|apply S].
  apply static_match_spec in H as (-> & rem & -> & B). unfold lenN. rewrite Nat2N.id.
  unfold Matches, ends_ok. destruct (p_tail p); [discriminate|].
  fold (pattern_text p). split; [exact D|]. split; [unfold pattern_text; rewrite firstn_len_app; reflexivity|].
  split; [rewrite app_length; lia|]. destruct pre.
  - destruct B as [-> | (t & ->)]; [left; rewrite app_nil_r; reflexivity|].
    right. rewrite nth_error_app2, Nat.sub_diag by lia. reflexivity.
  - subst rem. rewrite app_nil_r. reflexivity.
Qed.

Lemma first_match_idx_min : forall pre ps s idx,
  first_match_idx (map fst (params_of pre ps)) s = Some idx ->
  forall j q, (j < idx)%nat -> nth_error ps j = Some q -> re_is_match (compile pre q) s = false.
Proof.
  intros pre. induction ps as [|p ps IH]; intros s idx H j q L N; [discriminate|].
  cbn [params_of map fst first_match_idx] in H. fold (params_of pre ps) in H.
  destruct (re_is_match (compile pre p) s) eqn:E; [inversion H; subst; lia|].
  destruct (first_match_idx (map fst (params_of pre ps)) s) as [i|] eqn:F; [|discriminate].
  inversion H; subst idx. destruct j as [|j]; cbn [nth_error] in N.
  - inversion N; subst. exact E.
  - eapply IH; [exact F | | exact N]. lia.
Qed.

Section WithConst5.
Variable MAX : N.

(* For every constructed definition: a successful capture_match_info is a match of ONE member
   pattern [p] (for a list: the first member that matches), skips exactly the matched length and
   appends exactly the spans of that member's dynamic segments, shifted by the old `skip`. *)
Theorem capture_detailed : forall ps pre rd pth pth',
  wf_patterns ps -> construct MAX ps pre = Val rd -> path_ok pth ->
  capture_match_info MAX rd pth = Val (true, pth') ->
  exists idx p n ws,
    nth_error (members ps) idx = Some p /\
    captured pre p pth n ws pth' /\
    (forall j q, (j < idx)%nat -> nth_error (members ps) j = Some q ->
                 forall n' ws', ~ Matches pre q (unprocessed pth) n' ws').
Proof.
  intros ps pre rd pth pth' WF C OK H. destruct ps as [p | l]; cbn [construct wf_patterns members] in *.
  - exists 0%nat, p. unfold parse in C. cbn [negb andb] in C. destruct (is_static p) eqn:ST.
    + cbn [rbind fst snd] in C. inversion C; subst rd; clear C.
      unfold capture_match_info, capture_match_info_fn in H. cbn [rd_pat rd_prefix negb] in H.
      destruct (static_match pre (pattern_text p) (unprocessed pth)) as [n|] eqn:E; [|discriminate].
      destruct (static_as_matches pre p _ n ST E) as (M & S).
      exists (N.to_nat n), (map seg_const (p_segs p)). split; [reflexivity|]. split; [|intros; lia].
      split; [exact M|]. rewrite S. pose proof M as (_ & _ & L & _).
      destruct (finish_spec pth (N.to_nat n) [] OK L) as (F1 & _); [intros ? ? ? []|].
      cbn [rbind map] in H, F1. rewrite N2Nat.id in F1. rewrite F1 in H. inversion H. rewrite N2Nat.id. reflexivity.
    + destruct (MAX <? lenN (var_names (p_segs p))) eqn:E; [discriminate|]. cbn [rbind fst snd] in C.
      destruct (capture_single_dynamic MAX pre p rd pth pth' WF ST) as (n & ws & Cp & _);
        [unfold construct, parse; rewrite ST; cbn [negb andb]; rewrite E; exact C | exact OK | exact H|].
      exists n, ws. split; [reflexivity|]. split; [exact Cp | intros; lia].
  - destruct l as [|p0 l0].
    + inversion C; subst rd. unfold capture_match_info, capture_match_info_fn in H.
      cbn [rd_pat map first_match_idx rbind] in H. discriminate.
    + set (l := p0 :: l0) in *.
      destruct (parse_list MAX l pre) as [x|] eqn:P; [|discriminate].
      cbn [rbind] in C. inversion C; subst rd; clear C.
      apply parse_list_spec in P as (A & B & _). rewrite A in H.
      unfold capture_match_info, capture_match_info_fn in H. cbn [rd_pat negb] in H.
      pose proof (set_arm pre l (unprocessed pth)) as SA.
      pose proof (first_match_idx_min pre l (unprocessed pth)) as MIN.
      destruct (first_match_idx (map fst (params_of pre l)) (unprocessed pth)) as [idx|]; [|discriminate].
      destruct SA as (_ & p & NP & NQ & IM). rewrite NQ in H.
      assert (WFp : wf_pattern p) by (eapply Forall_forall in WF; [exact WF | eapply nth_error_In; exact NP]).
      assert (LENp : lenN (var_names (p_segs p)) <= MAX)
        by (eapply Forall_forall in B; [exact B | eapply nth_error_In; exact NP]).
      destruct (dyn_arm MAX pre p pth WFp LENp OK) as [(_ & _ & X) | (n & ws & q & _ & _ & X & Cp & _)];
        rewrite X in H; inversion H; subst.
      exists idx, p, n, ws. split; [exact NP|]. split; [exact Cp|].
      intros j q' L N n' ws' M. specialize (MIN idx eq_refl j q' L N).
      rewrite (is_match_complete _ _ _ _ _ M) in MIN. discriminate.
Qed.

End WithConst5.
