(* actix-router/src/path.rs : `Path<T>` — the path being routed, how much of it has been
   consumed (`skip: u16`) and the captured parameters (`PathItem::Segment(u16, u16)` = byte
   offsets into the full path).

   All offsets are `u16`.  Conversions `usize as u16` truncate ([u16_mod]); `u16 + u16`
   overflows: the harness (and `cargo test`) build with overflow checks, where it panics
   ([Panic]); a release build wraps instead.  Theorem C10_u16_offsets shows that neither happens
   for paths shorter than 2^16 bytes, where both builds therefore coincide.
   No proofs in this file. *)
From AV Require Import Lib.Base Router.Pattern.

Inductive path_item :=
| PIStatic (v : bytes)
| PISegment (b e : N).          (* u16, u16 *)

Record path := mkPath {
  p_path : bytes;                           (* path: T   (ASCII, see Pattern.v) *)
  p_skip : N;                               (* skip: u16 *)
  p_segments : list (name * path_item)      (* segments *)
}.

Definition u16_max : N := 65535.

(* `a + b` on u16 in a build with overflow checks *)
Definition u16_add (a b : N) : R N := if a + b <=? u16_max then Val (a + b) else Panic.

(* Path::new *)
Definition path_new (s : bytes) : path := mkPath s 0 [].

(* Path::unprocessed : `skip` clamped to the path length *)
Definition unprocessed (p : path) : bytes :=
  let skip := N.min (p_skip p) (lenN (p_path p)) in
  skipn (N.to_nat skip) (p_path p).

(* Path::skip : `self.skip += n` *)
Definition path_skip (p : path) (n : N) : R path :=
  rbind (u16_add (p_skip p) n) (fun k => Val (mkPath (p_path p) k (p_segments p))).

(* Path::add *)
Definition path_add (p : path) (nm : name) (v : path_item) : R path :=
  match v with
  | PIStatic s => Val (mkPath (p_path p) (p_skip p) (p_segments p ++ [(nm, PIStatic s)]))
  | PISegment b e =>
      rbind (u16_add (p_skip p) b) (fun b' =>
      rbind (u16_add (p_skip p) e) (fun e' =>
      Val (mkPath (p_path p) (p_skip p) (p_segments p ++ [(nm, PISegment b' e')]))))
  end.

(* `&path[start..end]` : panics unless start <= end <= len (ASCII: every index is a char
   boundary) *)
Definition slice (s : bytes) (b e : N) : R bytes :=
  if (b <=? e) && (e <=? lenN s)
  then Val (firstn (N.to_nat (e - b)) (skipn (N.to_nat b) s))
  else Panic.

Definition item_value (p : path) (v : path_item) : R bytes :=
  match v with
  | PIStatic s => Val s
  | PISegment b e => slice (p_path p) b e
  end.

(* Path::get : first segment with that name *)
Fixpoint get_in (p : path) (nm : name) (l : list (name * path_item)) : R (option bytes) :=
  match l with
  | [] => Val None
  | (n', v) :: r =>
      if bytes_eqb nm n' then rbind (item_value p v) (fun x => Val (Some x)) else get_in p nm r
  end.
Definition path_get (p : path) (nm : name) : R (option bytes) := get_in p nm (p_segments p).

(* Path::iter().collect() *)
Fixpoint iter_in (p : path) (l : list (name * path_item)) : R (list (name * bytes)) :=
  match l with
  | [] => Val []
  | (n', v) :: r =>
      rbind (item_value p v) (fun x => rbind (iter_in p r) (fun t => Val ((n', x) :: t)))
  end.
Definition path_iter (p : path) : R (list (name * bytes)) := iter_in p (p_segments p).

Definition segment_count (p : path) : N := lenN (p_segments p).
