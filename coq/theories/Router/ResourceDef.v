(* actix-router/src/resource.rs : `ResourceDef` — construction from pattern(s), `is_match`,
   `find_match`, `capture_match_info_fn`, `static_match`, `build_resource_path`.
   Branch by branch as the code is.  No proofs in this file. *)
From AV Require Import Lib.Base Router.Pattern Router.Match Router.Path.

Inductive pat_type :=
| PTStatic (pattern : bytes)
| PTDynamic (re : regex) (names : list name)
| PTDynamicSet (params : list (regex * list name)).   (* RegexSet = the regexes of [params] *)

Record rdef := mkRdef {
  rd_prefix : bool;            (* is_prefix *)
  rd_pat : pat_type;           (* pat_type *)
  rd_segments : list seg       (* segments (for build_resource_path) *)
}.

Section WithConst.
Variable MAX_DYNAMIC_SEGMENTS : N.

(* ResourceDef::parse *)
Definition parse (p : pattern) (is_prefix force_dynamic : bool) : R (pat_type * list seg) :=
  if negb force_dynamic && is_static p then
    Val (PTStatic (pattern_text p), [SConst (pattern_text p)])
  else if MAX_DYNAMIC_SEGMENTS <? lenN (var_names (p_segs p)) then Panic   (* assert! *)
  else
    let re := compile is_prefix p in
    Val (PTDynamic re (group_names re), p_segs p).

Fixpoint parse_list (ps : list pattern) (is_prefix : bool)
  : R (list (regex * list name) * option (list seg)) :=
  match ps with
  | [] => Val ([], None)
  | p :: r =>
      rbind (parse p is_prefix true) (fun x =>
      match x with
      | (PTDynamic re names, segs) =>
          rbind (parse_list r is_prefix) (fun y =>
            Val ((re, names) :: fst y, Some segs))       (* segments.get_or_insert(segs): first *)
      | _ => Panic                                         (* unreachable!() *)
      end)
  end.

(* ResourceDef::construct *)
Definition construct (ps : patterns) (is_prefix : bool) : R rdef :=
  match ps with
  | Single p =>
      rbind (parse p is_prefix false) (fun x => Val (mkRdef is_prefix (fst x) (snd x)))
  | PList [] => Val (mkRdef is_prefix (PTDynamicSet []) [])
  | PList l =>
      rbind (parse_list l is_prefix) (fun x =>
        Val (mkRdef is_prefix (PTDynamicSet (fst x))
                    (match snd x with Some s => s | None => [] end)))
  end.

Definition rd_new (ps : patterns) := construct ps false.      (* ResourceDef::new *)
Definition rd_prefix_of (ps : patterns) := construct ps true. (* ResourceDef::prefix *)

(* ResourceDef::static_match *)
Definition static_match (is_prefix : bool) (pattern s : bytes) : option N :=
  match strip_prefix pattern s with
  | None => None
  | Some rem =>
      if is_prefix then
        match rem with
        | [] => Some (lenN pattern)
        | c :: _ => if c =? 47 then Some (lenN pattern) else None
        end
      else
        match rem with [] => Some (lenN pattern) | _ :: _ => None end
  end.

(* ResourceDef::is_match *)
Definition is_match (rd : rdef) (s : bytes) : bool :=
  match rd_pat rd with
  | PTStatic pattern => match static_match (rd_prefix rd) pattern s with Some _ => true | None => false end
  | PTDynamic re _ => re_is_match re s
  | PTDynamicSet params => set_is_match (map fst params) s
  end.

(* `captures[1].len()` : indexing panics if group 1 did not take part in the match *)
Definition group1_len (cs : caps) : R N :=
  match cap_get group1 cs with
  | Some (st, en) => Val (N.of_nat (en - st))
  | None => Panic
  end.

(* ResourceDef::find_match *)
Definition find_match (rd : rdef) (s : bytes) : R (option N) :=
  match rd_pat rd with
  | PTStatic pattern => Val (static_match (rd_prefix rd) pattern s)
  | PTDynamic re _ =>
      match re_captures re s with
      | None => Val None
      | Some cs => rbind (group1_len cs) (fun n => Val (Some n))
      end
  | PTDynamicSet params =>
      match first_match_idx (map fst params) s with
      | None => Val None
      | Some idx =>
          match nth_error params idx with
          | None => Panic                                   (* params[idx] *)
          | Some (re, _) =>
              match re_captures re s with
              | None => Val None
              | Some cs => rbind (group1_len cs) (fun n => Val (Some n))
              end
          end
      end
  end.

(* the `for (no, name) in names.iter().enumerate()` loop: [Val None] = "return false" *)
Fixpoint collect_segments (no : N) (names : list name) (cs : caps) : R (option (list path_item)) :=
  match names with
  | [] => Val (Some [])
  | nm :: r =>
      match cap_get nm cs with
      | None => Val None
      | Some (st, en) =>
          if MAX_DYNAMIC_SEGMENTS <=? no then Panic          (* segments[no] out of bounds *)
          else rbind (collect_segments (no + 1) r cs) (fun o =>
                 Val (match o with
                      | Some l => Some (PISegment (u16_mod (N.of_nat st)) (u16_mod (N.of_nat en)) :: l)
                      | None => None
                      end))
      end
  end.

Definition capture_dynamic (re : regex) (names : list name) (s : bytes)
  : R (option (N * list (name * path_item))) :=
  match re_captures re s with
  | None => Val None
  | Some cs =>
      rbind (collect_segments 0 names cs) (fun o =>
      match o with
      | None => Val None
      | Some items => rbind (group1_len cs) (fun n => Val (Some (n, combine names items)))
      end)
  end.

Fixpoint add_all (p : path) (vars : list (name * path_item)) : R path :=
  match vars with
  | [] => Val p
  | (nm, v) :: r => rbind (path_add p nm v) (fun p' => add_all p' r)
  end.

(* ResourceDef::capture_match_info_fn ; [check] = result of `check_fn(resource)` *)
Definition capture_match_info_fn (rd : rdef) (p : path) (check : bool) : R (bool * path) :=
  let path_str := unprocessed p in
  let stage :=
    match rd_pat rd with
    | PTStatic pattern =>
        Val (match static_match (rd_prefix rd) pattern path_str with
             | Some len => Some (len, [])
             | None => None
             end)
    | PTDynamic re names => capture_dynamic re names path_str
    | PTDynamicSet params =>
        match first_match_idx (map fst params) path_str with
        | None => Val None
        | Some idx =>
            match nth_error params idx with
            | None => Panic
            | Some (re, names) => capture_dynamic re names path_str
            end
        end
    end in
  rbind stage (fun st =>
  match st with
  | None => Val (false, p)
  | Some (matched_len, vars) =>
      if negb check then Val (false, p)
      else rbind (add_all p vars) (fun p' =>
           rbind (path_skip p' (u16_mod matched_len)) (fun p'' => Val (true, p'')))
  end).

Definition capture_match_info (rd : rdef) (p : path) : R (bool * path) :=
  capture_match_info_fn rd p true.

End WithConst.

(* ResourceDef::build_resource_path with `vars` = an iterator (resource_path_from_iter):
   appends to [acc]; [false] = a value was missing (the partial text stays in the buffer) *)
Fixpoint build_from_iter (segs : list seg) (vals : list bytes) (acc : bytes) : bool * bytes :=
  match segs with
  | [] => (true, acc)
  | SConst b :: r => build_from_iter r vals (acc ++ b)
  | SVar _ _ :: r =>
      match vals with
      | v :: vals' => build_from_iter r vals' (acc ++ v)
      | [] => (false, acc)
      end
  end.

Fixpoint assoc (nm : name) (l : list (name * bytes)) : option bytes :=
  match l with
  | [] => None
  | (n', v) :: r => if bytes_eqb nm n' then Some v else assoc nm r
  end.

(* ... with `vars` = lookup in a map (resource_path_from_map) *)
Fixpoint build_from_map (segs : list seg) (vals : list (name * bytes)) (acc : bytes) : bool * bytes :=
  match segs with
  | [] => (true, acc)
  | SConst b :: r => build_from_map r vals (acc ++ b)
  | SVar nm _ :: r =>
      match assoc nm vals with
      | Some v => build_from_map r vals (acc ++ v)
      | None => (false, acc)
      end
  end.

Definition resource_path_from_iter (rd : rdef) (vals : list bytes) : bool * bytes :=
  build_from_iter (rd_segments rd) vals [].
Definition resource_path_from_map (rd : rdef) (vals : list (name * bytes)) : bool * bytes :=
  build_from_map (rd_segments rd) vals [].
