(* Pattern AST of actix-router resource definitions, as `ResourceDef::parse` reads a pattern
   string (resource.rs): a pattern is a sequence of constant texts and dynamic segments
   `{name}` / `{name:regex}`, optionally ending in a tail segment `{name}*`.

   The regex of a dynamic segment is restricted to a FRAGMENT: a concatenation of atoms, each a
   literal byte or a character class with an optional quantifier `+ * ? {n}`.  This covers the
   default `[^/]+`, the tail `.*` (under `(?s-m)`: `.` matches every character) and the menu of
   custom regexes used by the correspondence generator.  Strings are ASCII byte strings
   ([list N]); the generator is restricted to ASCII paths (for ASCII, bytes = Unicode scalars, so
   a byte-level class can never split a character as it could in multi-byte UTF-8).

   No proofs in this file. *)
From AV Require Import Lib.Base.

Definition name := bytes.

(* character classes of the fragment *)
Inductive cls :=
| CAny        (* .   under (?s) : every character, '\n' included *)
| CNotSlash   (* [^/] *)
| CDigit      (* \d   (ASCII inputs: 0-9) *)
| CLower      (* [a-z] *)
| CHexLower   (* [a-f0-9] *)
| CWord.      (* \w   (ASCII inputs: [0-9A-Za-z_]) *)

Definition in_range (lo hi b : N) : bool := (lo <=? b) && (b <=? hi).

Definition cls_mem (c : cls) (b : N) : bool :=
  match c with
  | CAny => true
  | CNotSlash => negb (b =? 47)
  | CDigit => in_range 48 57 b
  | CLower => in_range 97 122 b
  | CHexLower => in_range 97 102 b || in_range 48 57 b
  | CWord => in_range 48 57 b || in_range 65 90 b || in_range 97 122 b || (b =? 95)
  end.

Inductive quant := QOne | QPlus | QStar | QOpt | QRep (n : nat).

Inductive atom :=
| ALit (c : N)                 (* a literal character (not a regex meta character) *)
| ACls (p : cls) (q : quant).  (* class with quantifier *)

Definition re := list atom.

Definition default_re : re := [ACls CNotSlash QPlus].   (* DEFAULT_PATTERN      "[^/]+" *)
Definition tail_re : re := [ACls CAny QStar].           (* DEFAULT_PATTERN_TAIL ".*"    *)

(* PatternSegment of resource.rs, the Var carrying its regex *)
Inductive seg :=
| SConst (b : bytes)
| SVar (n : name) (r : re).

(* one pattern string: its segments; [p_tail] = the string ends in `{name}*`
   (then the last segment is [SVar name tail_re]) *)
Record pattern := mkPattern { p_segs : list seg; p_tail : bool }.

(* IntoPatterns *)
Inductive patterns :=
| Single (p : pattern)
| PList (ps : list pattern).

(* ---------------------------------------------------------------------------------------- *)
(* The pattern string denoted by an AST (used by the correspondence check to tie the AST the
   model receives to the string the implementation receives). *)

Definition render_cls (c : cls) : bytes :=
  match c with
  | CAny => [46]
  | CNotSlash => [91; 94; 47; 93]
  | CDigit => [92; 100]
  | CLower => [91; 97; 45; 122; 93]
  | CHexLower => [91; 97; 45; 102; 48; 45; 57; 93]
  | CWord => [92; 119]
  end.

(* decimal digits of a small number (n < 100 is all the generator uses) *)
Definition render_nat (n : nat) : bytes :=
  let v := N.of_nat n in
  if v <? 10 then [48 + v] else [48 + (v / 10) mod 10; 48 + v mod 10].

Definition render_quant (q : quant) : bytes :=
  match q with
  | QOne => []
  | QPlus => [43]
  | QStar => [42]
  | QOpt => [63]
  | QRep n => [123] ++ render_nat n ++ [125]
  end.

Definition render_atom (a : atom) : bytes :=
  match a with
  | ALit c => [c]
  | ACls p q => render_cls p ++ render_quant q
  end.

Definition render_re (r : re) : bytes := concat (map render_atom r).

Definition atom_eqb (a b : atom) : bool :=
  match a, b with
  | ALit c, ALit d => c =? d
  | ACls p q, ACls p' q' =>
      (match p, p' with
       | CAny, CAny | CNotSlash, CNotSlash | CDigit, CDigit | CLower, CLower
       | CHexLower, CHexLower | CWord, CWord => true
       | _, _ => false
       end) &&
      (match q, q' with
       | QOne, QOne | QPlus, QPlus | QStar, QStar | QOpt, QOpt => true
       | QRep n, QRep n' => Nat.eqb n n'
       | _, _ => false
       end)
  | _, _ => false
  end.

Definition is_default_re (r : re) : bool :=
  match r with [a] => atom_eqb a (ACls CNotSlash QPlus) | _ => false end.

(* `{name}` for the default regex, `{name:regex}` otherwise; the last segment of a tail
   pattern is `{name}*` *)
Definition render_seg (last_tail : bool) (s : seg) : bytes :=
  match s with
  | SConst b => b
  | SVar n r =>
      if last_tail then [123] ++ n ++ [125; 42]
      else if is_default_re r then [123] ++ n ++ [125]
      else [123] ++ n ++ [58] ++ render_re r ++ [125]
  end.

Fixpoint render_segs (tail : bool) (l : list seg) : bytes :=
  match l with
  | [] => []
  | [s] => render_seg tail s
  | s :: r => render_seg false s ++ render_segs tail r
  end.

Definition render (p : pattern) : bytes := render_segs (p_tail p) (p_segs p).

(* ---------------------------------------------------------------------------------------- *)
(* Views used by `parse` *)

Definition seg_is_const (s : seg) : bool := match s with SConst _ => true | SVar _ _ => false end.

(* `pattern.find('{').is_none() && !pattern.ends_with('*')` : no dynamic segment at all *)
Definition is_static (p : pattern) : bool := forallb seg_is_const (p_segs p) && negb (p_tail p).

Definition seg_const (s : seg) : bytes := match s with SConst b => b | SVar _ _ => [] end.
Definition pattern_text (p : pattern) : bytes := concat (map seg_const (p_segs p)).

Fixpoint var_names (l : list seg) : list name :=
  match l with
  | [] => []
  | SConst _ :: r => var_names r
  | SVar n _ :: r => n :: var_names r
  end.

(* str::strip_prefix *)
Fixpoint strip_prefix (pre s : bytes) : option bytes :=
  match pre, s with
  | [], _ => Some s
  | x :: pre', y :: s' => if x =? y then strip_prefix pre' s' else None
  | _ :: _, [] => None
  end.

