(* A Rust `&str` as a sequence of Unicode scalar values, with BYTE offsets through [utf8_len].
   The `regex` crate matches scalar values (a class such as [^/] consumes a whole character),
   while `Match::start/end`, `Path.skip` and `PathItem::Segment` are byte offsets.  The matcher of
   Match.v is generic in its alphabet ([list N]): run on scalars, its positions are character
   indices; this file converts them to byte offsets.  No proofs in this file. *)
From AV Require Import Lib.Base.

Definition utf8_len (c : N) : nat :=
  if c <? 128 then 1 else if c <? 2048 then 2 else if c <? 65536 then 3 else 4.

(* byte length of a scalar string *)
Fixpoint blen (s : list N) : nat :=
  match s with [] => 0 | c :: r => utf8_len c + blen r end.

(* byte offset of character index [i] *)
Definition boff (s : list N) (i : nat) : nat := blen (firstn i s).

(* the character index at byte offset [k], with the rest of the string from there;
   None = [k] is inside a character or past the end (`&s[k..]` panics) *)
Fixpoint at_byte (s : list N) (k : nat) (i : nat) : option (nat * list N) :=
  match k with
  | O => Some (i, s)
  | S _ =>
      match s with
      | [] => None
      | c :: r => if Nat.leb (utf8_len c) k then at_byte r (k - utf8_len c) (S i) else None
      end
  end.

(* UTF-8 encoding (for rendering and for the correspondence driver) *)
Definition encode1 (c : N) : bytes :=
  if c <? 128 then [c]
  else if c <? 2048 then [192 + c / 64; 128 + c mod 64]
  else if c <? 65536 then [224 + c / 4096; 128 + (c / 64) mod 64; 128 + c mod 64]
  else [240 + c / 262144; 128 + (c / 4096) mod 64; 128 + (c / 64) mod 64; 128 + c mod 64].

Definition encode (s : list N) : bytes := flat_map encode1 s.

(* decoding of VALID UTF-8 (a `&str` is always valid); used by the driver only *)
Fixpoint decode (b : bytes) : list N :=
  match b with
  | [] => []
  | x :: r =>
      if x <? 128 then x :: decode r
      else if x <? 224 then
        match r with
        | y :: r' => ((x - 192) * 64 + (y - 128)) :: decode r'
        | _ => []
        end
      else if x <? 240 then
        match r with
        | y :: z :: r' => ((x - 224) * 4096 + (y - 128) * 64 + (z - 128)) :: decode r'
        | _ => []
        end
      else
        match r with
        | y :: z :: w :: r' =>
            ((x - 240) * 262144 + (y - 128) * 4096 + (z - 128) * 64 + (w - 128)) :: decode r'
        | _ => []
        end
  end.
