(* Second batch of proofs about ResourceDef / Path: captured values for pattern lists, building
   from captured values (iterator and map), round trip for tail and prefix patterns. *)
From AV Require Import Lib.Base Router.Pattern Router.Match Router.Path Router.ResourceDef
  Router.Spec Router.MatchProofs Router.ResourceProofs.

(* ------------------------------------------------------------------ building from a value map *)
Lemma assoc_in : forall (l : list (name * bytes)) k v,
  NoDup (map fst l) -> In (k, v) l -> assoc k l = Some v.
Proof.
  induction l as [|[k' v'] l IH]; intros k v ND I; [contradiction|].
  cbn [assoc]. cbn [map fst] in ND. inversion ND as [|? ? NI ND']; subst.
  destruct I as [E | I].
  - inversion E; subst. rewrite bytes_eqb_refl. reflexivity.
  - destruct (bytes_eqb k k') eqn:B; [|apply IH; assumption].
    apply bytes_eqb_eq in B; subst k'. exfalso. apply NI. change k with (fst (k, v)). apply in_map. exact I.
Qed.

Lemma values_names : forall segs ws, decomp segs ws -> map fst (values segs ws) = var_names segs.
Proof.
  induction segs as [|s segs IH]; intros ws D; inversion D as [|? w ? ws' L D']; subst; [reflexivity|].
  destruct s; cbn [values var_names map fst]; [apply IH; assumption | f_equal; apply IH; assumption].
Qed.

Lemma build_map_values : forall segs ws vals acc,
  decomp segs ws -> (forall nm w, In (nm, w) (values segs ws) -> assoc nm vals = Some w) ->
  build_from_map segs vals acc = (true, acc ++ concat ws).
Proof.
  induction segs as [|s segs IH]; intros ws vals acc D A; inversion D as [|? w ? ws' L D']; subst.
  - cbn [build_from_map concat]. rewrite app_nil_r. reflexivity.
  - destruct s as [b|nm re]; cbn [values build_from_map concat seg_lang] in *.
    + subst w. rewrite (IH ws') by assumption. rewrite app_assoc. reflexivity.
    + rewrite (A nm w) by (left; reflexivity). rewrite (IH ws'); [rewrite app_assoc; reflexivity | assumption|].
      intros nm' w' I. apply A. right. exact I.
Qed.

(* building a pattern from the (name, value) pairs of one of its matches, looked up by name
   (resource_path_from_map) or taken in order (resource_path_from_iter), gives the matched text *)
Theorem build_from_match : forall pre p s n ws,
  NoDup (var_names (p_segs p)) -> Matches pre p s n ws ->
  build_from_map (p_segs p) (values (p_segs p) ws) [] = (true, firstn n s) /\
  build_from_iter (p_segs p) (map snd (values (p_segs p) ws)) [] = (true, firstn n s).
Proof.
  intros pre p s n ws ND M. split; [|eapply rebuild_matched_prefix; exact M].
  destruct M as (D & F & _). rewrite (build_map_values _ ws) ; [rewrite <- F; reflexivity | exact D|].
  intros nm w I. apply assoc_in; [rewrite values_names by exact D; exact ND | exact I].
Qed.

(* a value map with more entries (earlier captures, other names) works as well, as long as it
   agrees on the pattern's names *)
Theorem build_from_map_ext : forall pre p s n ws vals,
  Matches pre p s n ws ->
  (forall nm w, In (nm, w) (values (p_segs p) ws) -> assoc nm vals = Some w) ->
  build_from_map (p_segs p) vals [] = (true, firstn n s).
Proof.
  intros pre p s n ws vals (D & F & _) A. rewrite (build_map_values _ ws) by assumption. rewrite <- F. reflexivity.
Qed.

Lemma unprocessed_captured : forall pre p pth n ws pth',
  path_ok pth -> captured pre p pth n ws pth' -> unprocessed pth' = skipn n (unprocessed pth).
Proof.
  intros pre p pth n ws pth' (K1 & K2) ((_ & _ & L & _) & ->).
  pose proof (unprocessed_length pth K1) as UL. unfold lenN in *.
  rewrite (unprocessed_eq (mkPath _ _ _)) by (unfold lenN; cbn [p_skip p_path]; lia).
  rewrite (unprocessed_eq pth) by (unfold lenN; exact K1). cbn [p_skip p_path].
  rewrite skipn_add. f_equal. lia.
Qed.

Section S2.
Variable MAX : N.

(* segments kept by a constructed definition (for build_resource_path) *)
Lemma construct_segments : forall ps pre rd,
  construct MAX ps pre = Val rd ->
  match ps with
  | Single p => rd_segments rd = if is_static p then [SConst (pattern_text p)] else p_segs p
  | PList [] => rd_segments rd = []
  | PList (p :: _) => rd_segments rd = p_segs p
  end.
Proof.
  intros ps pre rd C. destruct ps as [p | l]; cbn [construct] in C.
  - unfold parse in C. cbn [negb andb] in C. destruct (is_static p).
    + cbn [rbind fst snd] in C. inversion C. reflexivity.
    + destruct (MAX <? lenN (var_names (p_segs p))); [discriminate|]. cbn [rbind fst snd] in C. inversion C. reflexivity.
  - destruct l as [|p l]; [inversion C; reflexivity|].
    destruct (parse_list MAX (p :: l) pre) as [x|] eqn:P; [|discriminate]. cbn [rbind] in C. inversion C.
    apply parse_list_spec in P as (_ & _ & S). cbn [rd_segments]. rewrite S. reflexivity.
Qed.

(* captured values are substrings, for EVERY constructed definition (static, dynamic, list):
   the parameters appended by a successful capture are exactly the words of a decomposition of
   the matched prefix along the member pattern that matched (for a list: the first member that
   matches at all); building that member from them -- in order or by name -- gives the matched
   prefix back; `resource_path_from_iter/_from_map` of the definition itself use the segments
   of the FIRST member, hence give the matched prefix when that is the member that matched *)
Theorem captures_are_substrings_any : forall ps pre rd pth pth',
  wf_patterns ps -> construct MAX ps pre = Val rd -> path_ok pth ->
  capture_match_info MAX rd pth = Val (true, pth') ->
  exists idx p n ws,
    let u := unprocessed pth in
    let vals := values (p_segs p) ws in
    nth_error (members ps) idx = Some p /\ Matches pre p u n ws /\
    (forall j q, (j < idx)%nat -> nth_error (members ps) j = Some q -> forall n' ws', ~ Matches pre q u n' ws') /\
    path_iter pth' = rbind (path_iter pth) (fun old => Val (old ++ vals)) /\
    unprocessed pth' = skipn n u /\
    build_from_iter (p_segs p) (map snd vals) [] = (true, firstn n u) /\
    build_from_map (p_segs p) vals [] = (true, firstn n u) /\
    (idx = 0%nat -> resource_path_from_iter rd (map snd vals) = (true, firstn n u) /\
                    resource_path_from_map rd vals = (true, firstn n u)).
Proof.
  intros ps pre rd pth pth' WF C OK H.
  destruct (capture_detailed MAX ps pre rd pth pth' WF C OK H) as (idx & p & n & ws & NP & Cp & FM).
  exists idx, p, n, ws. cbv zeta. pose proof Cp as (M & EQ).
  assert (WFp : wf_pattern p).
  { destruct ps as [p0 | l]; cbn [members wf_patterns] in *.
    - destruct idx as [|[|?]]; cbn in NP; try discriminate. inversion NP; subst. exact WF.
    - eapply Forall_forall in WF; [exact WF | eapply nth_error_In; exact NP]. }
  destruct (build_from_match pre p _ n ws (proj1 WFp) M) as (BM & BI).
  split; [exact NP|]. split; [exact M|]. split; [exact FM|].
  split; [exact (captured_values pre p pth n ws pth' OK Cp)|].
  split; [exact (unprocessed_captured pre p pth n ws pth' OK Cp)|].
  split; [exact BI|]. split; [exact BM|].
  intros ->. pose proof (construct_segments ps pre rd C) as SG.
  unfold resource_path_from_iter, resource_path_from_map.
  destruct ps as [p0 | l]; cbn [members] in NP.
  - cbn in NP. inversion NP; subst p0. destruct (is_static p) eqn:ST; rewrite SG; [|split; assumption].
    (* static: no values; the single constant is the pattern text *)
    unfold is_static in ST. apply andb_true_iff in ST as (CS & _).
    assert (V : values (p_segs p) ws = []).
    { destruct M as (D & _). clear - CS D. revert ws D. induction (p_segs p) as [|s l IH]; intros ws D;
        inversion D; subst; [reflexivity|]. cbn [forallb] in CS. apply andb_true_iff in CS as (C1 & C2).
      destruct s; [|discriminate]. cbn [values]. apply IH; assumption. }
    rewrite V. cbn [map build_from_iter build_from_map app].
    destruct M as (D & F & _). rewrite <- F.
    assert (T : concat ws = pattern_text p).
    { clear - CS D. unfold pattern_text. revert ws D. induction (p_segs p) as [|s l IH]; intros ws D;
        inversion D as [|? w ? ws' L D']; subst; [reflexivity|]. cbn [forallb] in CS. apply andb_true_iff in CS as (C1 & C2).
      destruct s; [|discriminate]. cbn [seg_lang] in L. subst w. cbn [map concat seg_const]. f_equal. apply IH; assumption. }
    rewrite T. split; reflexivity.
  - destruct l as [|p0 l]; [discriminate|]. cbn in NP. inversion NP; subst p0. rewrite SG. split; assumption.
Qed.

(* ---------------------------------------------------------------------- exposed dynamic arm *)
Lemma capture_exposed : forall pre p pth,
  wf_pattern p -> lenN (var_names (p_segs p)) <= MAX -> path_ok pth ->
  let s := unprocessed pth in
  let re := compile pre p in
  let rd := mkRdef pre (PTDynamic re (group_names re)) (p_segs p) in
  re_is_match re s = true ->
  exists n ws pth',
    re_captures re s = Some (spans 0 (p_segs p) ws ++ [(group1, 0%nat, n)]) /\
    capture_match_info MAX rd pth = Val (true, pth') /\
    captured pre p pth n ws pth' /\ unprocessed pth' = skipn n s.
Proof.
  intros pre p pth WF LEN OK s re rd IM.
  pose proof (capture_dynamic_spec MAX pre p s WF LEN) as H. cbv zeta in H. fold re in H.
  destruct (re_captures re s) as [cs|] eqn:RC; [|destruct H as (_ & X); congruence].
  destruct H as (_ & n & ws & M & -> & G1 & CD). exists n, ws.
  pose proof (matches_len _ _ _ _ _ M) as ML. pose proof M as (_ & _ & L & _).
  assert (B : forall nm st en, In (nm, st, en) (spans 0 (p_segs p) ws) -> (st <= n)%nat /\ (en <= n)%nat).
  { intros nm st en I. apply spans_bounds in I. lia. }
  destruct (finish_spec pth n _ OK L B) as (F1 & F2 & F3).
  eexists. split; [reflexivity|]. unfold capture_match_info, capture_match_info_fn, rd. cbn [rd_pat negb].
  fold s. fold re. rewrite CD. cbn [rbind]. split; [exact F1|]. split; [split; [exact M | reflexivity] | exact F3].
Qed.

End S2.

(* ------------------------------------------------------------------------- tail takes all *)
Lemma forallb_any : forall w : bytes, forallb (cls_mem CAny) w = true.
Proof. induction w; [reflexivity | exact IHw]. Qed.

Lemma compile_segs_app : forall a b, compile_segs (a ++ b) = compile_segs a ++ compile_segs b.
Proof. intros. unfold compile_segs. rewrite map_app, concat_app. reflexivity. Qed.

(* a named group holding dot-star, followed only by closing parentheses, consumes the rest of the haystack *)
Lemma m_tail_all : forall t s pos oa cs res,
  m (IOpen t :: ICls CAny QStar :: IClose :: IClose :: []) s pos oa cs = Some res ->
  fst res = (pos + length s)%nat.
Proof.
  intros t s pos oa cs res H. cbn [m] in H. apply greedy_spec in H as (j & V & F & Mx). cbn beta in F, Mx.
  assert (J : j = length s).
  { destruct V as (_ & B & _). destruct (Nat.eq_dec j (length s)) as [E | NE]; [exact E|]. exfalso.
    assert (V' : valid CAny (qmin QStar) (qmax QStar (length s)) s 0 (length s)).
    { unfold valid. cbn [qmin qmax]. repeat split; try lia. apply forallb_any. }
    specialize (Mx (length s) V' ltac:(lia)). cbn [m] in Mx. destruct oa as [|[? ?] [|[? ?] ?]]; discriminate. }
  subst j. cbn [m] in F. destruct oa as [|[? ?] [|[? ?] ?]]; inversion F; cbn [fst]; lia.
Qed.

(* the end offset reported by [m] on a compiled pattern is the end of group 1, except that a
   prefix resource may have consumed one more '/' *)
Lemma tail_pattern_total : forall pre p front t s cs,
  p_tail p = true -> p_segs p = front ++ [SVar t tail_re] ->
  re_captures (compile pre p) s = Some cs ->
  exists body, cs = body ++ [(group1, 0%nat, length s)].
Proof.
  intros pre p front t s cs T SG H. unfold re_captures in H.
  destruct (m (compile pre p) s 0 [] []) as [[e cs']|] eqn:M; [|discriminate]. inversion H; subst cs'; clear H.
  unfold compile, suffix in M. rewrite T, SG, compile_segs_app in M. cbn [m] in M.
  rewrite <- app_assoc in M. apply m_segs_sound in M as (ws & s' & D & E & M).
  unfold compile_segs in M. cbn [map concat compile_seg tail_re compile_atom app] in M.
  pose proof (m_tail_all _ _ _ _ _ _ M) as FE.
  cbn [m] in M. apply greedy_spec in M as (j & V & F & _). cbn beta in F. cbn [m] in F. inversion F; subst e cs.
  cbn [fst] in FE. eexists. f_equal. f_equal. f_equal. subst s. rewrite app_length. lia.
Qed.

(* ------------------------------------------------ uniqueness with a rest (prefix resources) *)
Lemma split_unique_rest : forall (w1 w2 r1 r2 : bytes),
  w1 ++ r1 = w2 ++ r2 -> ~ In 47 w1 -> ~ In 47 w2 ->
  (r1 = [] \/ exists t, r1 = 47 :: t) -> (r2 = [] \/ exists t, r2 = 47 :: t) ->
  w1 = w2 /\ r1 = r2.
Proof.
  induction w1 as [|a w1 IH]; intros w2 r1 r2 E N1 N2 R1 R2; destruct w2 as [|b w2]; cbn [app] in E.
  - split; [reflexivity | exact E].
  - exfalso. destruct R1 as [-> | (t & ->)]; [discriminate|]. inversion E; subst. apply N2. left. reflexivity.
  - exfalso. destruct R2 as [-> | (t & ->)]; [discriminate|]. inversion E; subst. apply N1. left. reflexivity.
  - inversion E; subst. destruct (IH w2 r1 r2 H1) as (-> & ->); try assumption.
    + intro I. apply N1. right. exact I.
    + intro I. apply N2. right. exact I.
    + split; reflexivity.
Qed.

Lemma decomp_unique_rest : forall segs ws1 ws2 r1 r2,
  delimited (re_excludes 47) segs = true -> decomp segs ws1 -> decomp segs ws2 ->
  concat ws1 ++ r1 = concat ws2 ++ r2 ->
  (r1 = [] \/ exists t, r1 = 47 :: t) -> (r2 = [] \/ exists t, r2 = 47 :: t) ->
  ws1 = ws2 /\ r1 = r2.
Proof.
  induction segs as [|s segs IH]; intros ws1 ws2 r1 r2 DL D1 D2 E R1 R2;
    inversion D1 as [|? w1 ? ws1' L1 D1']; inversion D2 as [|? w2 ? ws2' L2 D2']; subst.
  - split; [reflexivity | exact E].
  - cbn [concat] in E. rewrite <- !app_assoc in E. destruct s as [b|nm re]; cbn [delimited seg_lang] in *.
    + subst. apply app_inv_head in E. destruct (IH _ _ _ _ DL D1' D2' E R1 R2) as (-> & ->). split; reflexivity.
    + destruct segs as [|[[|c b']|] segs'].
      * inversion D1'; inversion D2'; subst. cbn [concat app] in E.
        destruct (split_unique_rest w1 w2 r1 r2 E) as (-> & ->); try assumption;
          try (eapply re_excludes_notin; eassumption). split; reflexivity.
      * discriminate.
      * apply andb_true_iff in DL as (X & DL).
        inversion D1' as [|? u1 ? t1 LU1 DT1]; inversion D2' as [|? u2 ? t2 LU2 DT2]; subst.
        cbn [seg_lang] in LU1, LU2. subst u1 u2. cbn [concat] in E. rewrite <- !app_assoc in E. cbn [app] in E.
        destruct (split_unique c w1 w2 _ _ E) as (-> & E');
          [eapply re_excludes_notin; eassumption | eapply re_excludes_notin; eassumption|].
        destruct (IH ((c :: b') :: t1) ((c :: b') :: t2) r1 r2 DL) as (EQ & ->); try assumption.
        -- cbn [concat]. rewrite <- !app_assoc. cbn [app]. f_equal. exact E'.
        -- inversion EQ; subst. split; reflexivity.
      * discriminate.
Qed.

Section S3.
Variable MAX : N.

Lemma unprocessed_new : forall s, unprocessed (path_new s) = s.
Proof. intro s. unfold unprocessed, path_new. cbn [p_skip p_path]. rewrite N.min_l by lia. reflexivity. Qed.

Lemma construct_dynamic : forall p pre rd, is_static p = false -> construct MAX (Single p) pre = Val rd ->
  lenN (var_names (p_segs p)) <= MAX /\
  rd = mkRdef pre (PTDynamic (compile pre p) (group_names (compile pre p))) (p_segs p).
Proof.
  intros p pre rd NS C. cbn [construct] in C. unfold parse in C. rewrite NS in C. cbn [negb andb] in C.
  destruct (MAX <? lenN (var_names (p_segs p))) eqn:E; [discriminate|]. cbn [rbind fst snd] in C.
  inversion C. split; [lia | reflexivity].
Qed.

(* round trip for TAIL patterns `.../{t}*` (full resource): the dynamic segments before the tail
   are delimited, the tail value is arbitrary (it may contain '/') *)
Theorem roundtrip_tail : forall p front t ws rd,
  wf_pattern p -> p_tail p = true -> p_segs p = front ++ [SVar t tail_re] ->
  delimited (fun _ => true) (p_segs p) = true ->
  decomp (p_segs p) ws -> lenN (concat ws) <= u16_max ->
  construct MAX (Single p) false = Val rd ->
  resource_path_from_iter rd (map snd (values (p_segs p) ws)) = (true, concat ws) /\
  exists pth', capture_match_info MAX rd (path_new (concat ws)) = Val (true, pth') /\
    path_iter pth' = Val (values (p_segs p) ws) /\ unprocessed pth' = [].
Proof.
  intros p front t ws rd WF T SG DL D LEN C.
  assert (NS : is_static p = false) by (unfold is_static; rewrite T; apply andb_false_r).
  destruct (construct_dynamic p false rd NS C) as (LM & ->).
  split; [unfold resource_path_from_iter; cbn [rd_segments]; rewrite build_values by exact D; reflexivity|].
  set (s := concat ws). set (pth := path_new s).
  assert (OK : path_ok pth) by (unfold path_ok, pth, path_new; cbn [p_skip p_path]; split; [lia | exact LEN]).
  assert (U : unprocessed pth = s) by apply unprocessed_new.
  assert (M : Matches false p s (length s) ws).
  { unfold Matches, ends_ok. rewrite T, firstn_all. repeat split; [exact D | lia]. }
  pose proof (is_match_complete _ _ _ _ _ M) as IM. rewrite <- U in IM.
  destruct (capture_exposed MAX false p pth WF LM OK IM) as (n & ws' & pth' & RC & CM & Cp & U').
  exists pth'. split; [exact CM|]. rewrite U in *.
  destruct (tail_pattern_total false p front t s _ T SG RC) as (body & EQ).
  apply app_inj_tail in EQ as (_ & EQ). inversion EQ; subst n.
  pose proof Cp as ((D' & F' & _) & _). rewrite U, firstn_all in F'.
  assert (ws' = ws) by (apply (decomp_unique (p_segs p)); assumption). subst ws'.
  split; [rewrite (captured_values false p pth (length s) ws pth' OK Cp); reflexivity|].
  rewrite U'. apply skipn_all.
Qed.

(* round trip for PREFIX resources (non-tail): every dynamic segment is delimited and a dynamic
   segment in last position excludes '/' *)
Theorem roundtrip_prefix : forall p ws rd,
  wf_pattern p -> is_static p = false -> p_tail p = false ->
  delimited (re_excludes 47) (p_segs p) = true ->
  decomp (p_segs p) ws -> lenN (concat ws) <= u16_max ->
  construct MAX (Single p) true = Val rd ->
  resource_path_from_iter rd (map snd (values (p_segs p) ws)) = (true, concat ws) /\
  exists pth', capture_match_info MAX rd (path_new (concat ws)) = Val (true, pth') /\
    path_iter pth' = Val (values (p_segs p) ws) /\ unprocessed pth' = [].
Proof.
  intros p ws rd WF NS NT DL D LEN C.
  destruct (construct_dynamic p true rd NS C) as (LM & ->).
  split; [unfold resource_path_from_iter; cbn [rd_segments]; rewrite build_values by exact D; reflexivity|].
  set (s := concat ws). set (pth := path_new s).
  assert (OK : path_ok pth) by (unfold path_ok, pth, path_new; cbn [p_skip p_path]; split; [lia | exact LEN]).
  assert (U : unprocessed pth = s) by apply unprocessed_new.
  assert (M : Matches true p s (length s) ws).
  { unfold Matches, ends_ok. rewrite NT, firstn_all. repeat split; [exact D | lia | left; reflexivity]. }
  pose proof (is_match_complete _ _ _ _ _ M) as IM. rewrite <- U in IM.
  destruct (capture_exposed MAX true p pth WF LM OK IM) as (n & ws' & pth' & _ & CM & Cp & U').
  exists pth'. split; [exact CM|]. rewrite U in *.
  pose proof Cp as ((D' & F' & L' & EO') & _). rewrite U in *. unfold ends_ok in EO'. rewrite NT in EO'.
  assert (R1 : skipn n s = [] \/ exists t, skipn n s = 47 :: t).
  { destruct EO' as [-> | E]; [left; apply skipn_all | right; apply nth_error_skipn_head; exact E]. }
  destruct (decomp_unique_rest (p_segs p) ws' ws (skipn n s) [] DL D' D) as (-> & R); try assumption.
  - rewrite F', app_nil_r. apply firstn_skipn.
  - left. reflexivity.
  - split; [rewrite (captured_values true p pth n ws pth' OK Cp); reflexivity|]. rewrite U'. exact R.
Qed.

End S3.
