(* ResourceDef / Path on `&str` = sequences of Unicode scalar values (lifting the ASCII
   restriction of ResourceDef.v / Path.v).

   The same [path] record is used with [p_path] holding SCALARS while [p_skip] and the
   `PISegment` offsets stay BYTE offsets (u16), as in the code; pattern constants are scalar
   sequences too.  The regex runs on scalars (Match.v is generic in its alphabet), its positions
   (character indices) are converted with [boff] before the `as u16` truncation.  Slicing a
   `&str` at a byte offset inside a character panics ([at_byte] = None).
   On ASCII strings [utf8_len] = 1 and everything here coincides with ResourceDef.v / Path.v.
   No proofs in this file. *)
From AV Require Import Lib.Base Router.Pattern Router.Match Router.Path Router.ResourceDef Router.Utf8.

(* Path::unprocessed : `&path[min(skip, len)..]` *)
Definition unprocessed_u (p : path) : R (list N) :=
  let skip := N.min (p_skip p) (N.of_nat (blen (p_path p))) in
  match at_byte (p_path p) (N.to_nat skip) 0 with
  | Some (_, rest) => Val rest
  | None => Panic
  end.

(* `&path[b..e]` *)
Definition slice_u (s : list N) (b e : N) : R (list N) :=
  if b <=? e then
    match at_byte s (N.to_nat b) 0 with
    | Some (_, r) =>
        match at_byte r (N.to_nat (e - b)) 0 with
        | Some (cnt, _) => Val (firstn cnt r)
        | None => Panic
        end
    | None => Panic
    end
  else Panic.

Definition item_value_u (p : path) (v : path_item) : R (list N) :=
  match v with
  | PIStatic s => Val s
  | PISegment b e => slice_u (p_path p) b e
  end.

Fixpoint iter_in_u (p : path) (l : list (name * path_item)) : R (list (name * list N)) :=
  match l with
  | [] => Val []
  | (n', v) :: r =>
      rbind (item_value_u p v) (fun x => rbind (iter_in_u p r) (fun t => Val ((n', x) :: t)))
  end.
Definition path_iter_u (p : path) : R (list (name * list N)) := iter_in_u p (p_segments p).

Section WithConst.
Variable MAX_DYNAMIC_SEGMENTS : N.

(* `captures[1].len()` in bytes *)
Definition group1_len_u (s : list N) (cs : caps) : R N :=
  match cap_get group1 cs with
  | Some (st, en) => Val (N.of_nat (boff s en - boff s st))
  | None => Panic
  end.

(* `PathItem::Segment(m.start() as u16, m.end() as u16)` : byte offsets *)
Fixpoint collect_segments_u (s : list N) (no : N) (names : list name) (cs : caps)
  : R (option (list path_item)) :=
  match names with
  | [] => Val (Some [])
  | nm :: r =>
      match cap_get nm cs with
      | None => Val None
      | Some (st, en) =>
          if MAX_DYNAMIC_SEGMENTS <=? no then Panic
          else rbind (collect_segments_u s (no + 1) r cs) (fun o =>
                 Val (match o with
                      | Some l => Some (PISegment (u16_mod (N.of_nat (boff s st)))
                                                  (u16_mod (N.of_nat (boff s en))) :: l)
                      | None => None
                      end))
      end
  end.

Definition capture_dynamic_u (re : regex) (names : list name) (s : list N)
  : R (option (N * list (name * path_item))) :=
  match re_captures re s with
  | None => Val None
  | Some cs =>
      rbind (collect_segments_u s 0 names cs) (fun o =>
      match o with
      | None => Val None
      | Some items => rbind (group1_len_u s cs) (fun n => Val (Some (n, combine names items)))
      end)
  end.

(* byte length of a static match *)
Definition static_match_u (is_prefix : bool) (pattern s : list N) : option N :=
  match static_match is_prefix pattern s with
  | Some len => Some (N.of_nat (boff s (N.to_nat len)))
  | None => None
  end.

Definition is_match_u (rd : rdef) (s : list N) : bool := is_match rd s.

Definition find_match_u (rd : rdef) (s : list N) : R (option N) :=
  match rd_pat rd with
  | PTStatic pattern => Val (static_match_u (rd_prefix rd) pattern s)
  | PTDynamic re _ =>
      match re_captures re s with
      | None => Val None
      | Some cs => rbind (group1_len_u s cs) (fun n => Val (Some n))
      end
  | PTDynamicSet params =>
      match first_match_idx (map fst params) s with
      | None => Val None
      | Some idx =>
          match nth_error params idx with
          | None => Panic
          | Some (re, _) =>
              match re_captures re s with
              | None => Val None
              | Some cs => rbind (group1_len_u s cs) (fun n => Val (Some n))
              end
          end
      end
  end.

Definition capture_match_info_fn_u (rd : rdef) (p : path) (check : bool) : R (bool * path) :=
  rbind (unprocessed_u p) (fun path_str =>
  let stage :=
    match rd_pat rd with
    | PTStatic pattern =>
        Val (match static_match_u (rd_prefix rd) pattern path_str with
             | Some len => Some (len, [])
             | None => None
             end)
    | PTDynamic re names => capture_dynamic_u re names path_str
    | PTDynamicSet params =>
        match first_match_idx (map fst params) path_str with
        | None => Val None
        | Some idx =>
            match nth_error params idx with
            | None => Panic
            | Some (re, names) => capture_dynamic_u re names path_str
            end
        end
    end in
  rbind stage (fun st =>
  match st with
  | None => Val (false, p)
  | Some (matched_len, vars) =>
      if negb check then Val (false, p)
      else rbind (add_all p vars) (fun p' =>
           rbind (path_skip p' (u16_mod matched_len)) (fun p'' => Val (true, p'')))
  end)).

Definition capture_match_info_u (rd : rdef) (p : path) : R (bool * path) :=
  capture_match_info_fn_u rd p true.

End WithConst.
