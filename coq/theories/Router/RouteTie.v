(* Translator tie for C09: the routing statements that tools/gen/routing.py reads out of the Rust
   sources on every check run (Gen/RoutingTables.v), interpreted statement by statement, ARE the
   model (Router/RouteTree.v; for the tail of capture_match_info_fn: Router/ResourceDef.v).

   Reversing an iteration, moving `path.add` in front of the guard check, dropping the `.rev()`
   of the app_data lookup, pushing the data container after the inner call, replacing the
   guarded `self.default = Some(default)` of `configure` (seed C09-2), handing the scope's default
   to the nested configuration (F26), changing the protected set of the quoter: each changes the
   generated data, and a lemma below stops checking; a statement the translator does not know
   makes it omit the definition (this file then does not compile). *)
From Coq Require Import String.
From AV Require Import Router.ResourceProofs.
From AV Require Import Lib.Base Router.Pattern Router.Match Router.Path Router.ResourceDef
  Router.Quoter Router.RouteTree Router.RouteProofs Gen.RoutingTables.
Local Open Scope string_scope.

Definition dir_list {A} (d : rt_dir) (l : list A) : list A := match d with Fwd => l | Rev => rev l end.

(* `for x in l { if let Some(r) = f(x) { return r } } dflt` *)
Fixpoint first_hit {A B} (l : list A) (f : A -> option B) (dflt : B) : B :=
  match l with
  | [] => dflt
  | x :: r => match f x with Some b => b | None => first_hit r f dflt end
  end.

Lemma first_hit_app : forall A B (l1 l2 : list A) (f : A -> option B) d,
  first_hit (l1 ++ l2) f d = first_hit l1 f (first_hit l2 f d).
Proof. induction l1 as [|x l1 IH]; intros; cbn [List.app first_hit]; [reflexivity|]. destruct (f x); [reflexivity|apply IH]. Qed.

(* a two-statement "first hit" loop: `for _ in <what>[.rev()] { if <cond> { <hit> } } <dflt>` *)
Definition read_loop (tbl : list (rt_stmt * list rt_ctx)) (what cond : string) : option (rt_stmt * rt_stmt * rt_dir) :=
  match tbl with
  | [(h, [CFor d w; CIf c]); (e, [])] => if (w =? what) && (c =? cond) then Some (h, e, d) else None
  | _ => None
  end.

(* ============================================================ (a) Router::recognize_fn *)
Section Recognize.
Variable MAX : N.
Variable rq : req.
Context {A : Type} (enter : nat -> node -> path -> R A) (miss : path -> R A).

(* the loop over (index, service) pairs in a given order *)
Fixpoint recognize_ix (cs : list (nat * node)) (pth : path) : R A :=
  match cs with
  | [] => miss pth
  | (i, c) :: cs' =>
      rbind (construct MAX (node_pats c) (node_prefix c)) (fun rd =>
      rbind (capture_match_info_fn MAX rd pth (guards_ok rq (node_guards c))) (fun r =>
        if fst r then enter i c (snd r) else recognize_ix cs' (snd r)))
  end.

Fixpoint indexed (i : nat) (cs : list node) : list (nat * node) :=
  match cs with [] => [] | c :: r => (i, c) :: indexed (S i) r end.

Definition recognize_gen (d : rt_dir) (cs : list node) (pth : path) : R A :=
  recognize_ix (dir_list d (indexed 0 cs)) pth.

Lemma recognize_ix_indexed : forall cs i pth,
  recognize_ix (indexed i cs) pth = recognize MAX rq enter miss i cs pth.
Proof.
  induction cs as [|c cs IH]; intros i pth; cbn [indexed recognize_ix recognize]; [reflexivity|].
  destruct (construct MAX (node_pats c) (node_prefix c)); [|reflexivity]. cbn [rbind].
  destruct (capture_match_info_fn MAX a pth (guards_ok rq (node_guards c))) as [[b p]|]; [|reflexivity].
  cbn [rbind fst snd]. destruct b; [reflexivity|apply IH].
Qed.
End Recognize.

(* registration order, the guard check INSIDE the capture call, first hit returns, else None *)
Definition read_recognize : option (rt_stmt * rt_stmt * rt_dir) :=
  read_loop RECOGNIZE_FN "self.routes" "rdef.capture_match_info_fn(resource, |res| check(res, ctx))".

Lemma tie_recognize : forall d, read_recognize = Some (SReturnSomeVal, SReturnNone, d) ->
  forall MAX rq A (enter : nat -> node -> path -> R A) miss cs pth,
    recognize_gen MAX rq enter miss d cs pth = recognize MAX rq enter miss 0 cs pth.
Proof.
  intros d H. vm_compute in H. inversion H; subst d. intros. unfold recognize_gen, dir_list.
  apply recognize_ix_indexed.
Qed.
Lemma tie_recognize_read : exists d, read_recognize = Some (SReturnSomeVal, SReturnNone, d).
Proof. eexists. vm_compute. reflexivity. Qed.

(* AppRouting::call / ScopeService::call: recognize with "all guards accept" as the check; on a
   hit push the resource id, mark matched = "the node is an edge", call the service; else the
   default *)
Definition HIT := "let Some((srv, info)) = res".
Definition routing_call_ok (tbl : list (rt_stmt * list rt_ctx)) : bool :=
  match tbl with
  | [(SRecognizeWithAllGuards, []); (SPushResourceId, [CIf c1]); (SMatchedIsEdge, [CIf c2]);
     (SMarkMatched, [CIf c3]); (SCallMatchedService, [CIf c4]); (SCallDefault, [CElse c5])] =>
      (c1 =? HIT) && (c2 =? HIT) && (c3 =? HIT) && (c4 =? HIT) && (c5 =? HIT)
  | _ => false
  end.
Lemma tie_routing_calls : routing_call_ok APP_ROUTING_CALL = true /\ routing_call_ok SCOPE_SERVICE_CALL = true.
Proof. split; vm_compute; reflexivity. Qed.

(* ==================================================== the tail of capture_match_info_fn *)
(* [p] is the `&mut` Path as the statements leave it: a `return false` after a mutation would
   hand back the mutated Path *)
Fixpoint run_capture (tbl : list (rt_stmt * list rt_ctx)) (check : bool) (ml : N)
    (vars : list (name * path_item)) (p : path) : R (bool * path) :=
  match tbl with
  | (SStageMatch, []) :: r => run_capture r check ml vars p
  | (SReturnFalse, [CIf c]) :: r =>
      if c =? "!check_fn(resource)" then (if negb check then Val (false, p) else run_capture r check ml vars p)
      else Panic
  | (SPathAdd, [CIf c; CFor Fwd w]) :: r =>
      if (c =? "let Some(vars) = matched_vars") && (w =? "0..vars.len()")
      then rbind (add_all p vars) (fun p' => run_capture r check ml vars p')
      else Panic
  | (SPathSkip, []) :: r => rbind (path_skip p (u16_mod ml)) (fun p' => run_capture r check ml vars p')
  | (SReturnTrue, []) :: _ => Val (true, p)
  | _ => Panic
  end.

Lemma tie_capture_tail : forall check ml vars p,
  run_capture CAPTURE_FN check ml vars p =
  (if negb check then Val (false, p)
   else rbind (add_all p vars) (fun p' => rbind (path_skip p' (u16_mod ml)) (fun p'' => Val (true, p'')))).
Proof.
  intros check ml vars p. unfold CAPTURE_FN. cbn [run_capture String.eqb Ascii.eqb Bool.eqb andb].
  destruct (negb check); [reflexivity|]. destruct (add_all p vars) as [p'|]; [|reflexivity]. cbn [rbind].
  destruct (path_skip p' (u16_mod ml)); reflexivity.
Qed.

(* … and that tail, after the staging `match`, is all of the model's capture_match_info_fn *)
Lemma tie_capture_fn : forall MAX rd p, exists stage, forall check,
  capture_match_info_fn MAX rd p check =
  rbind stage (fun st => match st with
                         | None => Val (false, p)
                         | Some (ml, vars) => run_capture CAPTURE_FN check ml vars p
                         end).
Proof.
  intros MAX rd p. unfold capture_match_info_fn. cbv zeta.
  match goal with |- exists _, forall check, rbind ?s _ = _ => exists s; intro check; destruct s as [[[ml vars]|]|] end;
    cbn [rbind]; [rewrite tie_capture_tail|reflexivity|reflexivity]. reflexivity.
Qed.

(* ===================================================== (b) configure / default_service / register *)
Definition exec_configure (c : bst) (s : bst) (x : rt_stmt * list rt_ctx) : bst :=
  match x with
  | (SExtendServices, []) => mkB (b_services s ++ b_services c)%list (b_data s) (b_default s)
  | (SDataGetOrInsertExtend, []) => mkB (b_services s) (Some (dget (b_data s) ++ dget (b_data c))%list) (b_default s)
  | (SDefaultSomeDefault, [CIf g]) =>
      if g =? "let Some(default) = cfg.default"
      then match b_default c with Some d => mkB (b_services s) (b_data s) (Some d) | None => s end
      else s
  | (SDefaultAssignCfg, []) => mkB (b_services s) (b_data s) (b_default c)   (* `self.default = cfg.default` *)
  | _ => s
  end.
Definition interp_configure (tbl : list (rt_stmt * list rt_ctx)) (c s : bst) : bst :=
  fold_left (exec_configure c) tbl s.
(* the closure runs on a fresh ServiceConfig, before anything is merged *)
Definition configure_fresh (tbl : list (rt_stmt * list rt_ctx)) : bool :=
  match tbl with (SNewServiceConfig, []) :: (SRunClosure, []) :: _ => true | _ => false end.

Lemma tie_configure : forall calls s,
  let c := apply_calls true calls (mkB [] (Some []) None) in
  interp_configure SCOPE_CONFIGURE c s = apply_call false (BConfigure calls) s /\
  interp_configure APP_CONFIGURE c s = apply_call false (BConfigure calls) s /\
  configure_fresh SCOPE_CONFIGURE = true /\ configure_fresh APP_CONFIGURE = true.
Proof.
  intros calls s c. rewrite configure_unfold. fold c.
  destruct s as [sv dt df]. unfold interp_configure, SCOPE_CONFIGURE, APP_CONFIGURE.
  cbn [fold_left exec_configure String.eqb Ascii.eqb Bool.eqb b_services b_data b_default].
  destruct (b_default c); repeat split; reflexivity.
Qed.

(* ServiceConfig::configure(f) = f(self) *)
Lemma tie_cfg_configure :
  CFG_CONFIGURE = [(SRunClosureOnSelf, []); (SReturnSelf, [])] /\
  forall calls s, apply_call true (BConfigure calls) s = apply_calls true calls s.
Proof.
  split; [reflexivity|]. intros calls s. cbn [apply_call].
  revert s. induction calls as [|c r IH]; intro s; [reflexivity|]. cbn [apply_calls]. apply IH.
Qed.

(* {Scope,App,ServiceConfig}::default_service : `self.default = Some(..)`, unconditionally *)
Definition exec_default (id : N) (s : bst) (x : rt_stmt * list rt_ctx) : bst :=
  match x with
  | (SDefaultSomeNew, []) => mkB (b_services s) (b_data s) (Some id)
  | _ => s
  end.
Lemma tie_default_service : forall in_cfg id s,
  fold_left (exec_default id) SCOPE_DEFAULT_SERVICE s = apply_call in_cfg (BDefault id) s /\
  fold_left (exec_default id) APP_DEFAULT_SERVICE s = apply_call in_cfg (BDefault id) s /\
  fold_left (exec_default id) CFG_DEFAULT_SERVICE s = apply_call in_cfg (BDefault id) s.
Proof. intros in_cfg id s. repeat split; reflexivity. Qed.

(* Scope::register: which default the ScopeService gets ([rg_factory]) and which one the
   configuration its children are registered in carries ([rg_kids]) *)
Record regst := mkReg { rg_own : option handler; rg_cfg : option handler;
                        rg_kids : option handler; rg_factory : option handler }.
Definition exec_register (dflt : option N) (cfg : handler) (s : regst) (x : rt_stmt) : regst :=
  match x with
  | SOwnDefaultOrConfigDefault => mkReg (Some (default_handler dflt cfg)) (rg_cfg s) (rg_kids s) (rg_factory s)
  | SCloneConfig =>
      mkReg (rg_own s) (match CLONE_CONFIG with [SCloneKeepsConfigDefault] => Some cfg | _ => None end)
            (rg_kids s) (rg_factory s)
  | SCfgTakesScopeDefault => mkReg (rg_own s) (rg_own s) (rg_kids s) (rg_factory s)
  | SRegisterChildrenInCfg => mkReg (rg_own s) (rg_cfg s) (rg_cfg s) (rg_factory s)
  | SFactoryDefaultOwn => mkReg (rg_own s) (rg_cfg s) (rg_kids s) (rg_own s)
  | _ => s
  end.
Definition interp_register (dflt : option N) (cfg : handler) : option handler * option handler :=
  let s := fold_left (exec_register dflt cfg) SCOPE_REGISTER (mkReg None None None None) in
  (rg_factory s, rg_kids s).

(* the scope's own default = its default_service or the configuration's; its children are
   registered with the configuration's default again (F26) — and that is what [enter_node] does *)
Lemma tie_register : forall dflt cfg,
  interp_register dflt cfg = (Some (default_handler dflt cfg), Some cfg).
Proof. intros. reflexivity. Qed.

Lemma tie_enter_scope : forall MAX rq cfg pfx gs kids dflt dat pth st ids,
  Val (enter_node MAX rq cfg (Scope pfx gs kids dflt dat) pth st ids) =
  match interp_register dflt cfg with
  | (Some own, Some cfg') =>
      Val (recognize MAX rq (fun i k p => enter_node MAX rq cfg' k p (push dat st) (ids ++ [i])%list)
             (fun p => Val (mkOut own ids false p (push dat st))) 0%nat kids pth)
  | _ => Panic
  end.
Proof. intros. reflexivity. Qed.

(* ======================================== (c) ResourceService::call, RouteService::check *)
Definition read_resource_call := read_loop RESOURCE_CALL "self.routes" "route.check(&mut req)".
Definition select_gen (d : rt_dir) (rq : req) (routes : list route_entry) (dflt : handler) : handler :=
  first_hit (dir_list d routes)
            (fun r : route_entry => if guards_ok rq (fst r) then Some (HRoute (snd r)) else None) dflt.

Lemma tie_resource_call : forall d, read_resource_call = Some (SReturnRouteCall, SCallDefault, d) ->
  forall rq routes dflt, select_gen d rq routes dflt = select_route rq routes dflt.
Proof.
  intros d H. vm_compute in H. inversion H; subst d. intros rq routes dflt. unfold select_gen, dir_list.
  induction routes as [|[gs id] r IH]; cbn [first_hit select_route fst snd]; [reflexivity|].
  destruct (guards_ok rq gs); [reflexivity|exact IH].
Qed.
Lemma tie_resource_call_read : exists d, read_resource_call = Some (SReturnRouteCall, SCallDefault, d).
Proof. eexists. vm_compute. reflexivity. Qed.

Definition read_route_check := read_loop ROUTE_CHECK "self.guards" "!guard.check(&guard_ctx)".
Definition check_gen (d : rt_dir) (rq : req) (gs : list guard) : bool :=
  first_hit (dir_list d gs) (fun g => if negb (guard_check rq g) then Some false else None) true.
Lemma tie_route_check : forall d, read_route_check = Some (SReturnFalse, SReturnTrue, d) ->
  forall rq gs, check_gen d rq gs = guards_ok rq gs.
Proof.
  intros d H. vm_compute in H. inversion H; subst d. intros rq gs. unfold check_gen, dir_list, guards_ok.
  induction gs as [|g r IH]; cbn [first_hit forallb]; [reflexivity|].
  destruct (guard_check rq g); cbn [negb andb]; [exact IH|reflexivity].
Qed.
Lemma tie_route_check_read : exists d, read_route_check = Some (SReturnFalse, SReturnTrue, d).
Proof. eexists. vm_compute. reflexivity. Qed.

(* ======================================================== (d) data containers: push and lookup *)
(* add_data_container: `app_data.push(..)` = at the back *)
Definition add_container (c : data) (st : list data) : list data :=
  match ADD_DATA_CONTAINER with [(SAppDataPushBack, [])] => (st ++ [c])%list | _ => st end.

(* the endpoint wrapper: state = (container stack, the stack the inner service is called with) *)
Definition exec_wrap (var : string) (dat : option data) (s : list data * option (list data))
    (x : rt_stmt * list rt_ctx) : list data * option (list data) :=
  match x with
  | (SPushDataContainer, [CIf g]) =>
      if g =? ("let Some(ref data) = " ++ var)
      then match dat with Some c => (add_container c (fst s), snd s) | None => s end
      else s
  | (SCallInner, []) => match snd s with None => (fst s, Some (fst s)) | Some _ => s end
  | _ => s
  end.
Definition interp_wrap (tbl : list (rt_stmt * list rt_ctx)) (var : string) (dat : option data) (st : list data)
  : option (list data) := snd (fold_left (exec_wrap var dat) tbl (st, None)).

Lemma tie_wrap : forall dat st,
  interp_wrap SCOPE_WRAP "scope_data" dat st = Some (push dat st) /\
  interp_wrap RESOURCE_WRAP "resource_data" dat st = Some (push dat st).
Proof. intros [c|] st; split; reflexivity. Qed.

(* HttpRequest::app_data: innermost container first *)
Definition read_app_data := read_loop APP_DATA_LOOKUP "self.inner.app_data" "let Some(data) = container.get::<T>()".
Definition lookup_gen (d : rt_dir) (k : N) (st : list data) : option N :=
  first_hit (dir_list d st) (fun c => match ext_get k c with Some v => Some (Some v) | None => None end) None.

Lemma lookup_dflt : forall k (l : list data) (d : option N),
  first_hit l (fun c => match ext_get k c with Some v => Some (Some v) | None => None end) d =
  match first_hit l (fun c => match ext_get k c with Some v => Some (Some v) | None => None end) None with
  | Some v => Some v
  | None => d
  end.
Proof.
  intros k l d. induction l as [|x l IH]; cbn [first_hit]; [reflexivity|].
  destruct (ext_get k x); [reflexivity|exact IH].
Qed.

Lemma tie_app_data : forall d, read_app_data = Some (SReturnSomeData, SReturnNone, d) ->
  forall k st, lookup_gen d k st = stack_get k st.
Proof.
  intros d H. vm_compute in H. inversion H; subst d. intros k st. unfold lookup_gen, dir_list.
  induction st as [|c st IH]; [reflexivity|]. cbn [rev stack_get]. rewrite first_hit_app, lookup_dflt, IH.
  cbn [first_hit]. destruct (stack_get k st); [reflexivity|]. destruct (ext_get k c); reflexivity.
Qed.
Lemma tie_app_data_read : exists d, read_app_data = Some (SReturnSomeData, SReturnNone, d).
Proof. eexists. vm_compute. reflexivity. Qed.

(* ================================================================= (e) Url::new / Url::path *)
Lemma tie_url : forall raw,
  URL_NEW = [(SPathRequoteLossyOfUriPath, []); (SUrlStruct, [])] /\
  URL_PATH = [(SPathOrUriPath, [])] /\
  url_path raw = rbind (quoter_new URL_PROTECTED) (fun q => Val (requote_full q raw)).
Proof. intro raw. repeat split; reflexivity. Qed.
