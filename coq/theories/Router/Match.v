(* The regular expression `ResourceDef::parse` builds, and how the `regex` crate answers
   `is_match` / `captures` on it.

   The `regex` crate is external code.  This file is our READING of it for the fragment of
   Pattern.v; the correspondence check (harness/src/bin/c10.rs) is what ties the reading to the
   crate's behaviour:

   * the regex text built by `parse` is
         "(" "(?s-m)^" <escaped const | (?P<name>regex)>* ")"  then  "$" | "(/|$)" | nothing
     i.e. group 1 around the whole pattern, one named group per dynamic segment, and a suffix
     that forces the match to end at the end of the path ([IEnd]), at a segment boundary for a
     prefix resource ([IBoundary], outside group 1), or nowhere in particular after a tail
     segment;
   * `Regex::captures` returns the LEFTMOST-FIRST match: the one a backtracking engine finds
     first, greedy quantifiers trying the longest repetition first ([m], [greedy]);
   * `Regex::is_match` / `RegexSet` answer whether SOME match exists ([accepts]: a search
     without priorities or captures).
   Positions are byte offsets from the start of the haystack.  No proofs in this file. *)
From AV Require Import Lib.Base Router.Pattern.

Inductive item :=
| ILit (c : N)
| ICls (p : cls) (q : quant)
| IOpen (n : name)             (* "(" / "(?P<n>" ; group 1 has the empty name *)
| IClose                       (* ")" closes the innermost open group *)
| IEnd                         (* $  (no multi-line mode: end of haystack only) *)
| IBoundary.                   (* (/|$) *)

Definition regex := list item.

(* ----------------------------------------------------------------------------- compilation *)
Definition compile_atom (a : atom) : item :=
  match a with ALit c => ILit c | ACls p q => ICls p q end.

Definition compile_seg (s : seg) : regex :=
  match s with
  | SConst b => map ILit b                                  (* escape(prefix): literal text *)
  | SVar n r => IOpen n :: map compile_atom r ++ [IClose]   (* (?P<name>regex) *)
  end.

Definition compile_segs (l : list seg) : regex := concat (map compile_seg l).

Definition suffix (is_prefix tail : bool) : regex :=
  if tail then [] else if is_prefix then [IBoundary] else [IEnd].

Definition group1 : name := [].

Definition compile (is_prefix : bool) (p : pattern) : regex :=
  IOpen group1 :: compile_segs (p_segs p) ++ IClose :: suffix is_prefix (p_tail p).

(* --------------------------------------------------------------------------------- matcher *)
Definition qmin (q : quant) : nat :=
  match q with QOne => 1 | QPlus => 1 | QStar => 0 | QOpt => 0 | QRep n => n end.

(* upper bound of the repetition count when [avail] characters remain *)
Definition qmax (q : quant) (avail : nat) : nat :=
  match q with
  | QOne | QOpt => 1
  | QPlus | QStar => avail
  | QRep n => n
  end.

(* captured groups in closing order: (name, start, end) *)
Definition caps := list (name * nat * nat).

(* A greedy quantified class: consume characters of the class while allowed (at most [n]
   more), then, coming back, offer every repetition count [k >= lo] to the continuation [f],
   longest first, and keep the first success.  [k] = characters consumed so far. *)
Fixpoint greedy {A} (p : cls) (lo n : nat) (s : bytes) (k : nat) (f : nat -> bytes -> option A)
  : option A :=
  let here := if Nat.leb lo k then f k s else None in
  match n, s with
  | S n', c :: t =>
      if cls_mem p c then
        match greedy p lo n' t (S k) f with
        | Some r => Some r
        | None => here
        end
      else here
  | _, _ => here
  end.

(* [m its s pos oa cs]: match [its] against the remaining haystack [s], which starts at offset
   [pos]; [oa] = stack of open groups with their start offsets; [cs] = groups closed so far.
   Result: offset where the whole match ends, and all groups. *)
Fixpoint m (its : regex) (s : bytes) (pos : nat) (oa : list (name * nat)) (cs : caps)
  : option (nat * caps) :=
  match its with
  | [] => Some (pos, cs)
  | ILit c :: r =>
      match s with
      | c' :: s' => if c =? c' then m r s' (S pos) oa cs else None
      | [] => None
      end
  | IOpen n :: r => m r s pos ((n, pos) :: oa) cs
  | IClose :: r =>
      match oa with
      | (n, st) :: oa' => m r s pos oa' (cs ++ [(n, st, pos)])
      | [] => m r s pos [] cs
      end
  | IEnd :: r => match s with [] => m r s pos oa cs | _ :: _ => None end
  | IBoundary :: r =>                                   (* "/" is tried first, then "$" *)
      match s with
      | [] => m r s pos oa cs
      | c :: s' => if c =? 47 then m r s' (S pos) oa cs else None
      end
  | ICls p q :: r =>
      greedy p (qmin q) (qmax q (length s)) s 0%nat (fun k s' => m r s' (pos + k) oa cs)
  end.

(* Existence of a match, searched without priorities and without captures: for a quantified
   class every admissible repetition count is offered, shortest first. *)
Fixpoint any_rep (p : cls) (lo n : nat) (s : bytes) (k : nat) (f : bytes -> bool) : bool :=
  (if Nat.leb lo k then f s else false) ||
  match n, s with
  | S n', c :: t => cls_mem p c && any_rep p lo n' t (S k) f
  | _, _ => false
  end.

Fixpoint accepts (its : regex) (s : bytes) : bool :=
  match its with
  | [] => true
  | ILit c :: r => match s with c' :: s' => (c =? c') && accepts r s' | [] => false end
  | IOpen _ :: r => accepts r s
  | IClose :: r => accepts r s
  | IEnd :: r => match s with [] => accepts r s | _ :: _ => false end
  | IBoundary :: r =>
      match s with
      | [] => accepts r s
      | c :: s' => (c =? 47) && accepts r s'
      end
  | ICls p q :: r => any_rep p (qmin q) (qmax q (length s)) s 0%nat (fun s' => accepts r s')
  end.

(* ------------------------------------------------------------ the `regex` API as it is used *)
(* Regex::is_match *)
Definition re_is_match (re : regex) (s : bytes) : bool := accepts re s.

(* Regex::captures : the match (anchored by ^ at offset 0) and its groups *)
Definition re_captures (re : regex) (s : bytes) : option caps :=
  match m re s 0%nat [] [] with
  | Some (_, cs) => Some cs
  | None => None
  end.

(* Captures::name / Captures::get(1) : first group of that name *)
Fixpoint cap_get (n : name) (cs : caps) : option (nat * nat) :=
  match cs with
  | [] => None
  | (n', st, en) :: r => if bytes_eqb n n' then Some (st, en) else cap_get n r
  end.

(* Regex::capture_names().flatten() : the named groups in order of their opening parenthesis *)
Fixpoint group_names (re : regex) : list name :=
  match re with
  | [] => []
  | IOpen n :: r => match n with [] => group_names r | _ => n :: group_names r end
  | _ :: r => group_names r
  end.

(* RegexSet::is_match *)
Definition set_is_match (res : list regex) (s : bytes) : bool :=
  existsb (fun re => re_is_match re s) res.

(* RegexSet::matches(path).into_iter().next() : smallest index of a matching member *)
Fixpoint first_match_idx (res : list regex) (s : bytes) : option nat :=
  match res with
  | [] => None
  | re :: r => if re_is_match re s then Some 0%nat
               else match first_match_idx r s with Some i => Some (S i) | None => None end
  end.
