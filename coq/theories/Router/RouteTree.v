(* actix-web routing: `AppRouting::call` (app_service.rs), `ScopeService::call` (scope.rs),
   `ResourceService::call` (resource.rs), `RouteService::check` (route.rs), the guards of
   guard/mod.rs + guard/host.rs, `Router::recognize_fn` (actix-router/src/router.rs),
   `Url::new` (url.rs), `ServiceRequest::add_data_container` / `HttpRequest::app_data`
   (service.rs, request.rs), `HttpRequest::match_pattern` (request.rs + rmap.rs).

   The single-definition matcher, the `Path` and the quoter are those of C10
   (Router/{Pattern,Match,Path,ResourceDef,Quoter}.v).  Branch by branch as the code is.
   No proofs in this file. *)
From AV Require Import Lib.Base Router.Pattern Router.Match Router.Path Router.ResourceDef Router.Quoter.

(* ------------------------------------------------------------------------------- request *)
(* What the guards of this model look at: the method, the host `get_host_uri` determines (Host
   header, else the request target's authority; None = cannot be determined) and the header
   fields in order.  Methods, hosts, header names and header values are small identifiers
   (guards are built from `&'static str` constants). *)
Record req := mkReq {
  r_method : N;
  r_host : option N;
  r_headers : list (N * N);           (* (name, value), in the order of the request head *)
  r_uri_path : bytes                  (* `head.uri.path()`, as received *)
}.

(* `HeaderMap::get(name)` : the first value of that name *)
Fixpoint header_get (nm : N) (l : list (N * N)) : option N :=
  match l with
  | [] => None
  | (n', v) :: r => if n' =? nm then Some v else header_get nm r
  end.

(* ------------------------------------------------------------------------------- guards *)
Inductive guard :=
| GMethod (m : N)                     (* guard::Method / Get() / Post() … *)
| GHeader (nm v : N)                  (* guard::Header(name, value) *)
| GHost (h : N)                       (* guard::Host(host), no scheme *)
| GAll (l : list guard)               (* guard::All(g).and(..) *)
| GAny (l : list guard)               (* guard::Any(g).or(..) *)
| GNot (g : guard).                   (* guard::Not(g) *)

Fixpoint guard_check (rq : req) (g : guard) : bool :=
  match g with
  | GMethod m => r_method rq =? m
  | GHeader nm v =>
      match header_get nm (r_headers rq) with
      | Some val => val =? v
      | None => false
      end
  | GHost h =>
      match r_host rq with
      | Some uri_host => h =? uri_host
      | None => false
      end
  | GAll l =>
      (fix all (l : list guard) : bool :=
         match l with [] => true | g' :: r => if guard_check rq g' then all r else false end) l
  | GAny l =>
      (fix any (l : list guard) : bool :=
         match l with [] => false | g' :: r => if guard_check rq g' then true else any r end) l
  | GNot g' => negb (guard_check rq g')
  end.

(* `guards.iter().all(|guard| guard.check(&guard_ctx))` — the check function of AppRouting /
   ScopeService, and `RouteService::check` *)
Definition guards_ok (rq : req) (gs : list guard) : bool := forallb (guard_check rq) gs.

(* --------------------------------------------------------------------------- application *)
(* an `Extensions` container: the `insert(value)` calls in order, keyed by type;
   `insert` replaces an earlier value of the same type *)
Definition data := list (N * N).

Fixpoint ext_get (k : N) (c : data) : option N :=
  match c with
  | [] => None
  | (k', v) :: r =>
      match ext_get k r with
      | Some x => Some x
      | None => if k' =? k then Some v else None
      end
  end.

(* a route of a resource: its guards and the identity of its handler *)
Definition route_entry := (list guard * N)%type.

Inductive node :=
| Resource (pats : patterns) (guards : list guard) (routes : list route_entry)
           (default : option N)        (* None = the built-in 405 MethodNotAllowed *)
           (dat : option data)         (* `app_data: Option<Extensions>` *)
| Scope (prefix : pattern) (guards : list guard) (children : list node)
        (default : option N)           (* None = not set: `config.default_service()` *)
        (dat : option data).

Record app := mkApp {
  a_children : list node;
  a_default : option N;                (* None = the built-in 404 NotFound *)
  a_data : data                        (* `App::app_data` : the root container, always present *)
}.

(* ------------------------------------------------------------ registration: builder calls *)
(* How a route table comes about: `App::new()` / `web::scope(..)` followed by builder calls.
   A resource or a scope is itself a call (`.service(it)`); a scope is given by ITS calls.
   `configure(f)` on an App / Scope runs [f] on a fresh `ServiceConfig` and merges the result;
   `ServiceConfig::configure(f)` is `f(self)`. *)
Inductive bld :=
| BRes (pats : patterns) (guards : list guard) (routes : list route_entry)
       (default : option N) (dat : option data)        (* .service(web::resource(..)…) *)
| BScope (prefix : pattern) (guards : list guard) (calls : list bld)   (* .service(web::scope(..)…) *)
| BDefault (id : N)                                     (* .default_service(..) *)
| BData (k v : N)                                       (* .app_data(..) *)
| BConfigure (calls : list bld).                        (* .configure(|cfg| …) *)

(* the fields the calls act on (Scope / App / ServiceConfig): services, app_data, default *)
Record bst := mkB { b_services : list node; b_data : option data; b_default : option N }.

Definition dget (o : option data) : data := match o with Some d => d | None => [] end.

(* [in_cfg] = the receiver is a `ServiceConfig` (inside a configure closure) *)
Fixpoint apply_call (in_cfg : bool) (b : bld) (s : bst) {struct b} : bst :=
  match b with
  | BRes ps gs rts d dat =>
      mkB (b_services s ++ [Resource ps gs rts d dat]) (b_data s) (b_default s)
  | BScope pfx gs calls =>
      (* Scope::new: no services, `app_data: None`, `default: None` *)
      let sc := (fix run (l : list bld) (t : bst) : bst :=
                   match l with [] => t | c :: r => run r (apply_call false c t) end)
                  calls (mkB [] None None) in
      mkB (b_services s ++ [Scope pfx gs (b_services sc) (b_default sc) (b_data sc)]) (b_data s) (b_default s)
  | BDefault id =>
      (* `self.default = Some(..)` *)
      mkB (b_services s) (b_data s) (Some id)
  | BData k v =>
      (* `self.app_data.get_or_insert_with(Extensions::new).insert(data)` *)
      mkB (b_services s) (Some (dget (b_data s) ++ [(k, v)])) (b_default s)
  | BConfigure calls =>
      if in_cfg then
        (* ServiceConfig::configure : `f(self)` *)
        (fix run (l : list bld) (t : bst) : bst :=
           match l with [] => t | c :: r => run r (apply_call true c t) end) calls s
      else
        (* App::configure / Scope::configure : fresh ServiceConfig, then
           `services.extend(cfg.services)`, `app_data.get_or_insert_with(new).extend(cfg.app_data)`,
           `if let Some(default) = cfg.default { self.default = Some(default) }` *)
        let c := (fix run (l : list bld) (t : bst) : bst :=
                    match l with [] => t | c :: r => run r (apply_call true c t) end)
                   calls (mkB [] (Some []) None) in
        mkB (b_services s ++ b_services c)
            (Some (dget (b_data s) ++ dget (b_data c)))
            (match b_default c with Some d => Some d | None => b_default s end)
  end.

Fixpoint apply_calls (in_cfg : bool) (l : list bld) (s : bst) : bst :=
  match l with [] => s | c :: r => apply_calls in_cfg r (apply_call in_cfg c s) end.

(* App::new() … : `extensions` exists from the start *)
Definition build_app (calls : list bld) : app :=
  let s := apply_calls false calls (mkB [] (Some []) None) in
  mkApp (b_services s) (b_default s) (dget (b_data s)).

(* who answers *)
Inductive handler :=
| HRoute (id : N)        (* the handler of a route *)
| HDefault (id : N)      (* a user-supplied default service *)
| H404                   (* AppInit::new_service: HttpResponse::NotFound *)
| H405.                  (* Resource::new: HttpResponse::MethodNotAllowed *)

(* what the handler sees *)
Record outcome := mkOut {
  o_handler : handler;
  o_ids : list nat;                    (* HttpRequestInner.resource_path *)
  o_matched : bool;                    (* HttpRequestInner.resource_path_matched *)
  o_path : path;                       (* match_info() *)
  o_stack : list data                  (* HttpRequestInner.app_data, outermost first *)
}.

(* dev::ensure_leading_slash on one pattern (Resource::register) and `insert_slash`
   (ResourceDef::root_prefix, Scope::register): a non-empty pattern text not starting with '/'
   gets one *)
Definition ensure_slash (p : pattern) : pattern :=
  match render p with
  | [] => p
  | c :: _ => if c =? 47 then p else mkPattern (SConst [47] :: p_segs p) (p_tail p)
  end.

Definition ensure_slash_pats (ps : patterns) : patterns :=
  match ps with
  | Single p => Single (ensure_slash p)
  | PList l => PList (map ensure_slash l)
  end.

(* the ResourceDef a service is registered with: (patterns, is_prefix) *)
Definition node_pats (c : node) : patterns :=
  match c with
  | Resource ps _ _ _ _ => ensure_slash_pats ps        (* ResourceDef::new(ensure_leading_slash(..)) *)
  | Scope pfx _ _ _ _ => Single (ensure_slash pfx)      (* ResourceDef::root_prefix(&self.rdef) *)
  end.
Definition node_prefix (c : node) : bool :=
  match c with Resource _ _ _ _ _ => false | Scope _ _ _ _ _ => true end.
Definition node_guards (c : node) : list guard :=
  match c with Resource _ g _ _ _ => g | Scope _ g _ _ _ => g end.
Definition node_children (c : node) : list node :=
  match c with Resource _ _ _ _ _ => [] | Scope _ _ k _ _ => k end.
Definition node_data (c : node) : option data :=
  match c with Resource _ _ _ _ d => d | Scope _ _ _ _ d => d end.

(* `if let Some(ref data) = scope_data { req.add_data_container(Rc::clone(data)) }` *)
Definition push (d : option data) (st : list data) : list data :=
  match d with Some c => st ++ [c] | None => st end.

(* ResourceService::call : the first route whose guards all pass, else the default *)
Fixpoint select_route (rq : req) (routes : list route_entry) (dflt : handler) : handler :=
  match routes with
  | [] => dflt
  | (gs, id) :: r => if guards_ok rq gs then HRoute id else select_route rq r dflt
  end.

Definition default_handler (own : option N) (inherited : handler) : handler :=
  match own with Some id => HDefault id | None => inherited end.

Section WithConst.
Variable MAX_DYNAMIC_SEGMENTS : N.

(* Router::recognize_fn : the services in registration order; `capture_match_info_fn` computes the
   candidate's captures, runs the guard check, and only then mutates the Path.
   [enter i c pth'] = `srv.call(req)` of the i-th service, [miss pth] = `self.default.call(req)`.
   (The ResourceDef of a service is built when the app is; building it here instead makes a
   build-time panic of an unreachable service invisible — excluded by [wf] in the theorems.) *)
Section Recognize.
Context {A : Type} (rq : req) (enter : nat -> node -> path -> R A) (miss : path -> R A).
Fixpoint recognize (i : nat) (cs : list node) (pth : path) : R A :=
  match cs with
  | [] => miss pth
  | c :: cs' =>
      rbind (construct MAX_DYNAMIC_SEGMENTS (node_pats c) (node_prefix c)) (fun rd =>
      rbind (capture_match_info_fn MAX_DYNAMIC_SEGMENTS rd pth (guards_ok rq (node_guards c))) (fun r =>
        if fst r then enter i c (snd r) else recognize (S i) cs' (snd r)))
  end.
End Recognize.

(* `srv.call(req)` of a registered service [c], after the router committed its match.
   [cfg] = `AppService.default` of the configuration [c] was registered in; [st], [ids] = the
   request's data containers and resource-id path so far. *)
Fixpoint enter_node (rq : req) (cfg : handler) (c : node) (pth : path) (st : list data) (ids : list nat)
  : R outcome :=
  match c with
  | Resource _ _ routes dflt dat =>
      (* the endpoint wrapper pushes the resource's container, then ResourceService::call *)
      Val (mkOut (select_route rq routes (default_handler dflt H405)) ids true pth (push dat st))
  | Scope _ _ kids dflt dat =>
      (* Scope::register: `default = self.default.unwrap_or_else(|| config.default_service())`;
         the nested services are registered in `config.clone_config()`, whose default is the
         one of [config] again — NOT this scope's (finding F26: a default-less scope nested in a
         scope with a default service falls back to the application's default); the endpoint
         wrapper pushes the scope's container, then ScopeService::call *)
      let own := default_handler dflt cfg in
      let cfg' := cfg in
      let st' := push dat st in
      recognize rq
        (fun i k p => enter_node rq cfg' k p st' (ids ++ [i]))
        (fun p => Val (mkOut own ids false p st'))
        0%nat kids pth
  end.

(* Url::new : the routed path is the request path with every escape decoded except those of
   '%', '/' and '+' (`Quoter::new(b"", b"%/+")`); from_utf8_lossy is the identity on ASCII *)
Definition url_path (raw : bytes) : R bytes :=
  rbind (quoter_new [37; 47; 43]) (fun q => Val (requote_full q raw)).

(* AppInitService::call + AppRouting::call *)
Definition route (a : app) (rq : req) : R outcome :=
  rbind (url_path (r_uri_path rq)) (fun p =>
  let own := default_handler (a_default a) H404 in
  let st := [a_data a] in
  recognize rq
    (fun i k p' => enter_node rq own k p' st [i])
    (fun p' => Val (mkOut own [] false p' st))
    0%nat (a_children a) (path_new p)).

(* ------------------------------------------------------------------- HttpRequest::app_data *)
(* `for container in self.inner.app_data.iter().rev() { if let Some(d) = container.get::<T>() … }` *)
Fixpoint stack_get (k : N) (st : list data) : option N :=
  match st with
  | [] => None
  | c :: r =>
      match stack_get k r with
      | Some x => Some x
      | None => ext_get k c
      end
  end.

(* ---------------------------------------------------------- HttpRequest::match_pattern (rmap) *)
(* ResourceDef::pattern : the first pattern *)
Definition first_pattern (ps : patterns) : option bytes :=
  match ps with
  | Single p => Some (render p)
  | PList [] => None
  | PList (p :: _) => Some (render p)
  end.

(* ResourceMap::match_pattern_by_resource_path : walk the ids from the root, concatenate the
   patterns from the root down (the root's pattern is "") *)
Fixpoint pattern_by_ids (cs : list node) (ids : list nat) : option bytes :=
  match ids with
  | [] => Some []
  | i :: r =>
      match nth_error cs i with
      | None => None
      | Some c =>
          match first_pattern (node_pats c), pattern_by_ids (node_children c) r with
          | Some t, Some u => Some (t ++ u)
          | _, _ => None
          end
      end
  end.

(* ResourceMap::_find_matching_node on a child + the pattern text from that child down:
   None = this node's pattern does not match; Some None = it matches but nothing below does
   ("don't search sideways") *)
Fixpoint find_by_path (c : node) (s : bytes) : R (option (option bytes)) :=
  rbind (construct MAX_DYNAMIC_SEGMENTS (node_pats c) (node_prefix c)) (fun rd =>
  rbind (find_match rd s) (fun o =>
  match o with
  | None => Val None
  | Some n =>
      let s' := skipn (N.to_nat n) s in
      let own := first_pattern (node_pats c) in
      match c with
      | Resource _ _ _ _ _ => Val (Some own)
      | Scope _ _ kids _ _ =>
          (fix first (ks : list node) : R (option (option bytes)) :=
             match ks with
             | [] => Val (Some None)
             | k :: ks' =>
                 rbind (find_by_path k s') (fun r =>
                 match r with
                 | None => first ks'
                 | Some found =>
                     Val (Some (match own, found with
                                | Some t, Some u => Some (t ++ u)
                                | _, _ => None
                                end))
                 end)
             end) kids
      end
  end)).

(* the root ResourceMap: `ResourceDef::prefix("")` over the app's services *)
Definition root_node (a : app) : node :=
  Scope (mkPattern [] false) [] (a_children a) None None.

(* HttpRequest::match_pattern *)
Definition match_pattern (a : app) (rq : req) (o : outcome) : R (option bytes) :=
  match (if o_matched o then pattern_by_ids (a_children a) (o_ids o) else None) with
  | Some t => Val (Some t)
  | None =>
      rbind (find_by_path (root_node a) (r_uri_path rq)) (fun r =>
        Val (match r with Some (Some t) => Some t | _ => None end))
  end.

End WithConst.
