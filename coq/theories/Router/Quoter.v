(* actix-router/src/quoter.rs : `Quoter` — partial percent-decoding on bytes.
   No proofs in this file. *)
From AV Require Import Lib.Base.

(* AsciiBitmap: 128 bits; here the set of protected bytes as a list *)
Definition quoter := list N.

(* Quoter::new : `set_bit(ch)` indexes a [u8; 16] with ch >> 3 : panics for ch >= 128 *)
Definition quoter_new (protected : bytes) : R quoter :=
  if forallb (fun ch => ch <? 128) protected then Val protected else Panic.

Definition bit_at (q : quoter) (ch : N) : bool := existsb (fun x => x =? ch) q.

(* char::to_digit(16) on a Latin-1 char *)
Definition hex_digit (d : N) : option N :=
  if (48 <=? d) && (d <=? 57) then Some (d - 48)
  else if (97 <=? d) && (d <=? 102) then Some (d - 87)
  else if (65 <=? d) && (d <=? 70) then Some (d - 55)
  else None.

(* hex_pair_to_char *)
Definition hex_pair_to_char (d1 d2 : N) : option N :=
  match hex_digit d1 with
  | None => None
  | Some h => match hex_digit d2 with
              | None => None
              | Some l => Some (h * 16 + l)          (* (d_high << 4) | d_low *)
              end
  end.

(* the test of decode_next at one index: `[b'%', p1, p2, rem @ ..]` with a decodable,
   non-protected pair *)
Definition escape_at (q : quoter) (val : bytes) : option (N * bytes) :=
  match val with
  | b :: p1 :: p2 :: rem =>
      if b =? 37 then
        match hex_pair_to_char p1 p2 with
        | Some ch => if (ch <? 128) && bit_at q ch then None else Some (ch, rem)
        | None => None
        end
      else None
  | _ => None
  end.

(* Quoter::decode_next : scan for the first index with a decodable escape;
   result (prev, ch, rem) *)
Fixpoint decode_next (q : quoter) (val : bytes) : option (bytes * N * bytes) :=
  match val with
  | [] => None
  | b :: t =>
      match escape_at q val with
      | Some (ch, rem) => Some ([], ch, rem)
      | None =>
          match decode_next q t with
          | Some (prev, ch, rem) => Some (b :: prev, ch, rem)
          | None => None
          end
      end
  end.

(* the `while let Some((prev, ch)) = self.decode_next(&mut remaining)` loop *)
Fixpoint requote_loop (fuel : nat) (q : quoter) (remaining decoded : bytes) : bytes :=
  match fuel with
  | O => decoded ++ remaining
  | S f =>
      match decode_next q remaining with
      | Some (prev, ch, rem) => requote_loop f q rem (decoded ++ prev ++ [ch])
      | None => decoded ++ remaining
      end
  end.

(* Quoter::requote : None = nothing to decode *)
Definition requote (q : quoter) (val : bytes) : option bytes :=
  match decode_next q val with
  | None => None
  | Some (pre, ch, rem) => Some (requote_loop (length rem) q rem (pre ++ [ch]))
  end.

(* what callers use: the requoted bytes, or the input when nothing changed
   (`.unwrap_or(Cow::Borrowed(..))` in url.rs / de.rs) *)
Definition requote_full (q : quoter) (val : bytes) : bytes :=
  match requote q val with Some d => d | None => val end.
