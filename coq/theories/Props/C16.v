(* C16 — Static file serving stays inside its root and answers ranges exactly.
   Only statements here; proofs live in Files/PathBufProofs.v and Files/RangeProofs.v.
   Models: Files/PathBuf.v (PathBufWrap::parse_path), Files/Range.v (http-range as wrapped by
   actix-files), Files/Named.v (NamedFile::into_response, repaired by fixes/F8.patch),
   Files/ChunkedRead.v (ChunkedReadFile). *)
From AV Require Import Lib.Base Gen.Consts.
From AV Require Import Files.PathBuf Files.PathBufSpec Files.PathBufProofs.
From AV Require Import Files.Range Files.Named Files.ChunkedRead Files.RangeProofs.
From AV Require Import Files.Service Files.ServiceProofs.
From AV Require Import Gen.FilesTables Files.TablesTie.

(* ---------------------------------------------------------------- (1) no traversal ------------- *)

(* Whatever the request path (any bytes), whatever the UTF-8 validity test, on Unix and on Windows,
   with hidden files allowed or not: an accepted path is a list of NORMAL segments — non-empty, not
   "." or "..", without '/' (and on Windows without '\' and ':'); with hidden files off no segment
   starts with '.'. *)
Theorem C16_no_traversal :
  forall (valid_utf8 : bytes -> bool) (windows hidden : bool) (path : bytes) (segs : list bytes),
  parse_path valid_utf8 windows hidden path = Val (POk segs) ->
  Forall normal_seg segs /\ (windows = true -> Forall windows_seg segs) /\
  (hidden = false -> Forall (fun s => starts_with DOT s = false) segs).
Proof.
  intros v w h path segs H. pose proof (parse_path_spec v w h path) as S. rewrite H in S.
  destruct S as (A & _). split; [|split].
  - eapply Forall_impl; [|exact A]. intros s Hs. apply Hs.
  - intro W. eapply Forall_impl; [|exact A]. intros s Hs. apply Hs. exact W.
  - intro W. eapply Forall_impl; [|exact A]. intros s Hs. apply Hs. exact W.
Qed.

(* Hence the path the service opens, `directory.join(path_on_disk)` (std Unix semantics: an absolute
   argument would REPLACE the directory), has exactly the components of the directory followed by
   plain names: no RootDir, no "..", no ".": it is lexically under the configured directory. *)
Theorem C16_joined_path_under_root :
  forall (valid_utf8 : bytes -> bool) (windows hidden : bool) (path root : bytes) (segs : list bytes),
  parse_path valid_utf8 windows hidden path = Val (POk segs) ->
  components (join root (render segs)) = components root ++ map CNormal segs /\
  lexically_under root (join root (render segs)).
Proof.
  intros v w h path root segs H. destruct (C16_no_traversal v w h path segs H) as (N & _).
  split; [apply join_under_root; exact N|]. exists segs. split; [exact N|apply join_under_root; exact N].
Qed.

(* The path the service ACTUALLY opens (FilesService::call with or without try_compressed, with or
   without an index file): for every file-system content [fs] in which the configured directory is a
   directory, every request path and every Accept-Encoding negotiation order, whatever is opened --
   the requested file, the index file of a directory, or a pre-compressed sibling
   `<file_name>.br|.gz|.zst` built by find_compressed -- is the configured directory followed by
   normal segments.  (The sibling construction replaces the LAST component; it is never applied to
   the root directory itself because of the `!path.is_dir()` guard: that is where [fs root = KDir]
   is used.) *)
Theorem C16_opened_path_under_root :
  forall (valid_utf8 : bytes -> bool) (windows hidden : bool) (fs : list component -> fkind)
         (try_compressed : bool) (index : option bytes) (root path : bytes) (segs : list bytes)
         (neg : list N) (opened : list component) (enc : option N),
  fs (components root) = KDir ->
  match index with Some ix => normal_seg ix | None => True end ->
  parse_path valid_utf8 windows hidden path = Val (POk segs) ->
  call fs try_compressed index root segs neg = Served opened enc ->
  exists segs', Forall normal_seg segs' /\ opened = components root ++ map CNormal segs'.
Proof.
  intros v w h fs tc index root path segs neg opened enc Hroot Hix HP HC.
  destruct (C16_no_traversal v w h path segs HP) as (N & _).
  exact (call_under_root fs root tc index segs neg opened enc Hroot N Hix HC).
Qed.

(* why the guard matters: applied to the root directory itself, the sibling construction yields
   <parent of root>/<root name><ext>, which is NOT under the root *)
Theorem C16_sibling_of_root_is_outside :
  forall (root : bytes) (parent : list component) (name x : bytes),
  components root = parent ++ [CNormal name] ->
  set_file_name (components root) (name ++ x) = parent ++ [CNormal (name ++ x)].
Proof. intros root parent name x H. exact (sibling_of_root_is_outside root parent name x H). Qed.

Example C16_example_service :
  (* fs: /r is a directory holding a, a.gz and the directory d; /r.gz exists next to the root *)
  let fs := fun cs : list component =>
    match cs with
    | [CRoot; CNormal [114]] => KDir
    | [CRoot; CNormal [114]; CNormal [100]] => KDir
    | [CRoot; CNormal [114]; CNormal [97]] => KFile
    | [CRoot; CNormal [114]; CNormal [97; 46; 103; 122]] => KFile
    | [CRoot; CNormal [114; 46; 103; 122]] => KFile
    | _ => KNone
    end in
  (* GET /a with gzip acceptable -> a.gz inside the root; GET / -> nothing (not /r.gz) *)
  call fs true None [47; 114] [[97]] [1] = Served [CRoot; CNormal [114]; CNormal [97; 46; 103; 122]] (Some 1) /\
  call fs true None [47; 114] [] [1] = Miss /\
  call fs true (Some [97]) [47; 114] [] [1] = Served [CRoot; CNormal [114]; CNormal [97; 46; 103; 122]] (Some 1).
Proof. vm_compute. repeat split. Qed.

(* Neither assert! of parse_path fires and `segment_count -= 1` never underflows: no input panics. *)
Theorem C16_asserts_hold :
  forall (valid_utf8 : bytes -> bool) (windows hidden : bool) (path : bytes),
  parse_path valid_utf8 windows hidden path <> Panic.
Proof.
  intros v w h path E. pose proof (parse_path_spec v w h path) as S. rewrite E in S. exact S.
Qed.

(* Decoding happens once: every accepted segment is literally one of the '/'-separated pieces of
   the once-decoded path (nothing is decoded again later), and no separator came out of an escape
   (the decoded string has as many '/' as the raw one, so "%2f" never splits a segment). *)
Theorem C16_decode_once :
  forall (valid_utf8 : bytes -> bool) (windows hidden : bool) (path : bytes) (segs : list bytes),
  parse_path valid_utf8 windows hidden path = Val (POk segs) ->
  (forall s, In s segs -> In s (split_on SLASH (pct_decode path))) /\
  count_byte SLASH (pct_decode path) = count_byte SLASH path.
Proof.
  intros v w h path segs H. pose proof (parse_path_spec v w h path) as S. rewrite H in S.
  destruct S as (_ & B & C). split; assumption.
Qed.

(* concrete behaviour on the classic attacks (hex: "/../a" ; "/%2e%2e/a" ; "/a%2f..%2fb" ;
   "/%252e%252e/a" ; "/%c0%af" overlong slash) *)
Example C16_example_paths :
  parse_path utf8_valid false false [47;46;46;47;97] = Val (POk [[97]]) /\
  parse_path utf8_valid false false [47;37;50;101;37;50;101;47;97] = Val (POk [[97]]) /\
  parse_path utf8_valid false false [47;97;37;50;102;46;46;37;50;102;98] = Val (PErr BadCharSlash) /\
  parse_path utf8_valid false false [47;37;50;53;50;101;37;50;53;50;101;47;97]
    = Val (POk [[37;50;101;37;50;101]; [97]]) /\
  parse_path utf8_valid false false [47;37;99;48;37;97;102] = Val (PErr NotValidUtf8).
Proof. vm_compute. repeat split. Qed.

(* ---------------------------------------------------------------- (2) ranges ------------------- *)

(* The Range parser never panics (no u64 wrap-around) and every range it returns lies inside the
   file; a range is empty only when the file is. *)
Theorem C16_range_parse_sound :
  forall (hdr : bytes) (size : N), size <= u64_max ->
  match parse_bytes hdr size with
  | Panic => False
  | Val (ROk rs) => Forall (fun r => r_start r + r_length r <= size /\ (r_length r = 0 -> size = 0)) rs
  | Val (RErr _) => True
  end.
Proof. exact parse_bytes_spec. Qed.

(* For every Range header value, every combination of conditional-header outcomes and every file
   length: no panic, and the status is one of 200 / 206 / 304 / 412 / 416 / 400. *)
Theorem C16_status_total :
  forall (flen : N) (range_hdr : option bytes) (c : cond), flen <= u64_max ->
  exists r, into_response true flen range_hdr c = Val r /\
    (status r = 200 \/ status r = 206 \/ status r = 304 \/ status r = 412 \/ status r = 416 \/ status r = 400).
Proof.
  intros flen rh c H. pose proof (into_response_spec flen rh c H) as S.
  destruct (into_response true flen rh c) as [r|]; [|contradiction]. exists r. split; [reflexivity|apply S].
Qed.

(* Range exactness: a 206 serves a non-empty window inside the file and announces exactly it:
   Content-Range = offset-(offset+length-1)/file_len, computed without wrap-around;
   a 200 serves the whole file; a 416 says `bytes */file_len`; 304/412/400/416 carry no body;
   whatever is served lies inside the file. *)
Theorem C16_range_exact :
  forall (flen : N) (range_hdr : option bytes) (c : cond) (r : resp), flen <= u64_max ->
  into_response true flen range_hdr c = Val r ->
  (status r = 206 ->
     exists offset length,
       body r = Some (offset, length) /\ 0 < length /\ offset + length <= flen /\
       content_range r = Some (CRBytes offset (offset + length - 1) flen) /\
       offset <= offset + length - 1 /\ offset + length - 1 < flen) /\
  (status r = 200 -> body r = Some (0, flen) /\ content_range r = None /\ range_hdr = None) /\
  (status r = 416 -> content_range r = Some (CRUnsat flen) /\ body r = None) /\
  (status r = 304 \/ status r = 412 \/ status r = 400 -> body r = None) /\
  (forall offset length, body r = Some (offset, length) -> offset + length <= flen).
Proof.
  intros flen rh c r H E. pose proof (into_response_spec flen rh c H) as S. rewrite E in S.
  destruct S as (_ & S). exact S.
Qed.

(* F8, as the code was before fixes/F8.patch: `Range: bytes=-5` on an empty file panics
   (`offset + length - 1` underflows), whatever the conditional headers ... *)
Theorem C16_F8_refuted_before_fix :
  exists (flen : N) (hdr : bytes), forall c : cond, into_response false flen (Some hdr) c = Panic.
Proof. exists 0, [98; 121; 116; 101; 115; 61; 45; 53]. exact F8_before_fix. Qed.

(* ... and the repair changes nothing for non-empty files. *)
Theorem C16_F8_fix_only_empty_files :
  forall (flen : N) (range_hdr : option bytes) (c : cond), flen <= u64_max -> flen <> 0 ->
  into_response false flen range_hdr c = into_response true flen range_hdr c.
Proof. exact fix_only_empty. Qed.

Example C16_example_ranges :
  let none := mkCond true None true false None in
  (* "bytes=5-" on 200000 bytes; "bytes=-5" on an empty file; "bytes=0-0" with a failing If-Match *)
  into_response true 200000 (Some [98;121;116;101;115;61;53;45]) none
    = Val (mkResp 206 (Some (CRBytes 5 199999 200000)) (Some (5, 199995))) /\
  into_response true 0 (Some [98;121;116;101;115;61;45;53]) none
    = Val (mkResp 416 (Some (CRUnsat 0)) None) /\
  into_response true 10 (Some [98;121;116;101;115;61;48;45;48]) (mkCond false None true false None)
    = Val (mkResp 412 (Some (CRBytes 0 0 10)) None).
Proof. vm_compute. repeat split. Qed.

(* ---------------------------------------------------------------- (3) body = slice ------------- *)

(* For EVERY read-size schedule (how many bytes each read of the file returns, and for how many polls
   an asynchronous read stays pending), BOTH read modes (synchronous inline read below
   read_mode_threshold, web::block above), every file content and every on-disk length: if the stream
   completes, the chunks concatenate to exactly file[offset .. offset+size), that window exists on
   disk, and no chunk is empty or larger than the chunk size. (A stream over a file shorter than
   announced therefore never completes normally: it ends with UnexpectedEof.) The proof goes through
   the offset/counter bookkeeping: each chunk is read at the offset reached by the previous ones. *)
Theorem C16_body_is_slice :
  forall (A : Type) (file : list A) (flen : N) (mode : read_mode) (sched : list (nat * N))
         (size offset : N) (evs : list ev),
  read_loop FILES_CHUNK_SIZE flen mode sched size offset 0 = Val evs ->
  Forall (fun e => match e with EChunk _ n => 0 < n /\ n <= FILES_CHUNK_SIZE | _ => True end) evs /\
  (finished evs = true ->
     body_of file evs = slice file offset size /\ (0 < size -> offset + size <= flen)).
Proof.
  intros A file flen mode sched size offset evs H.
  destruct (read_loop_exact FILES_CHUNK_SIZE A file flen mode sched size offset 0 evs ltac:(lia) H) as (F & B).
  split; [exact F|]. intro Fin. destruct (B Fin) as (B1 & B2). rewrite N.sub_0_r in *.
  split; [exact B1|]. intro P. apply B2. exact P.
Qed.

(* Progress: when the window exists on disk and every read returns at least one byte, the stream
   completes (no error, no panic) within `size` reads, in both modes; a synchronous stream never
   yields Pending. *)
Theorem C16_body_completes :
  forall (flen : N) (mode : read_mode) (sched : list (nat * N)) (size offset : N),
  offset + size <= flen -> flen <= u64_max ->
  Forall (fun pk => 1 <= snd pk) sched -> size <= N.of_nat (length sched) ->
  exists evs, read_loop FILES_CHUNK_SIZE flen mode sched size offset 0 = Val evs /\ finished evs = true /\
    (mode = Sync -> Forall (fun e => match e with EWait _ => False | _ => True end) evs).
Proof.
  intros flen mode sched size offset Hw Hf HF Hl.
  destruct (read_loop_completes FILES_CHUNK_SIZE flen mode sched size offset 0) as (evs & E & Fin);
    try assumption; try (unfold FILES_CHUNK_SIZE, u64_max in *; lia).
  exists evs. split; [exact E|]. split; [exact Fin|].
  intro M. exact (sync_never_waits FILES_CHUNK_SIZE flen mode M sched size offset 0 evs E).
Qed.

(* End to end for a 206/200: the decision and the reader compose — the body streamed for the
   response is exactly the bytes the Content-Range announces. *)
Theorem C16_response_body_exact :
  forall (A : Type) (file : list A) (range_hdr : option bytes) (c : cond) (r : resp)
         (offset length threshold : N) (sched : list (nat * N)) (evs : list ev),
  lenN file <= u64_max ->
  into_response true (lenN file) range_hdr c = Val r -> body r = Some (offset, length) ->
  read_loop FILES_CHUNK_SIZE (lenN file) (mode_of length threshold) sched length offset 0 = Val evs ->
  finished evs = true ->
  body_of file evs = slice file offset length /\ offset + length <= lenN file /\
  (status r = 206 -> content_range r = Some (CRBytes offset (offset + length - 1) (lenN file))).
Proof.
  intros A file rh c r offset length thr sched evs Hs E B H Fin.
  destruct (C16_range_exact (lenN file) rh c r Hs E) as (P206 & _ & _ & _ & Pin).
  destruct (C16_body_is_slice A file (lenN file) (mode_of length thr) sched length offset evs H) as (_ & S).
  destruct (S Fin) as (S1 & _). split; [exact S1|]. split; [apply Pin; exact B|].
  intro St. destruct (P206 St) as (o & l & B' & _ & _ & CR & _). rewrite B in B'. inversion B'; subst. exact CR.
Qed.

Example C16_example_body :
  let file := [10; 11; 12; 13; 14; 15; 16; 17; 18; 19] in
  (* reads returning 2, 1 and then "as much as possible" bytes; chunk size 65536 *)
  match read_loop FILES_CHUNK_SIZE 10 Async [(1%nat, 2); (0%nat, 1); (3%nat, 100)] 6 3 0 with
  | Val evs => finished evs = true /\ body_of file evs = [13; 14; 15; 16; 17; 18]
  | Panic => False
  end /\
  (* the file was truncated to 5 bytes after open: UnexpectedEof after the bytes that exist *)
  read_loop FILES_CHUNK_SIZE 5 Sync [(7%nat, 100); (7%nat, 100); (7%nat, 100)] 6 3 0 = Val [EChunk 3 2; EErr].
Proof. vm_compute. repeat split. Qed.

(* ---------------------------------------------------------------- (4) ties to the source literals - *)
(* Gen/FilesTables.v is regenerated from the Rust sources on every check run (tools/gen/files.py).
   Each theorem below compares the MODEL'S BEHAVIOUR with the generated literals on the whole finite
   domain concerned (all 256 bytes, all 65536 two-byte segments): a literal changed in the source
   breaks the theorem, a rule that disappears omits the definition and this file stops compiling. *)

(* parse_path: separator; forbidden first characters (with and without hidden files); forbidden last
   characters and the error each yields; the windows-only characters; ".", ".." and "" *)
Theorem C16_tables_parse_path :
  (SLASH = FILES_PP_SEP /\ FILES_PP_ENC_SEP_ERR = SLASH) /\
  (forallb (fun b => Bool.eqb (is_bad_start (loop1 false true [b; 97])) (mem b FILES_PP_BAD_START)) bytes256 = true /\
   forallb (fun b => Bool.eqb (is_bad_start (loop1 false false [b; 97]))
                              (mem b FILES_PP_BAD_START || (b =? FILES_PP_HIDDEN_PREFIX))) bytes256 = true) /\
  (forallb (fun b => Bool.eqb (is_bad_end (loop1 false true [97; b])) (mem b FILES_PP_BAD_END)) bytes256 = true /\
   map (fun b => loop1 false true [97; b]) FILES_PP_BAD_END =
     [Val (inl BadEndColon); Val (inl BadEndGt); Val (inl BadEndLt)]) /\
  (forallb (fun b => Bool.eqb (is_bad_char (loop1 true true [97; b; 97])) (mem b FILES_PP_WIN_FORBIDDEN)) bytes256 = true /\
   forallb (fun b => negb (is_bad_char (loop1 false true [97; b; 97]))) bytes256 = true /\
   map (fun b => loop1 true true [97; b; 97]) FILES_PP_WIN_FORBIDDEN =
     [Val (inl BadCharBackslash); Val (inl BadCharColon)]).
Proof. exact (conj tie_sep (conj tie_bad_start (conj tie_bad_end tie_windows))). Qed.

Theorem C16_tables_dot_segments :
  loop1 false true FILES_PP_CURDIR = Val (inl BadStartDot) /\
  seg_loop false true [[97]; FILES_PP_PARENT] [] 2 = Val (inr ([], 1)) /\
  FILES_PP_EMPTY_SKIPPED = true /\ loop1 false true [] = Val (inr ([], 0)) /\
  forallb (fun b => Bool.eqb (match loop1 false true [b] with Val (inl BadStartDot) => true | _ => false end)
                             (bytes_eqb [b] FILES_PP_CURDIR)) bytes256 = true /\
  forallb (fun b1 => forallb (fun b2 =>
     Bool.eqb (popped (seg_loop false true [[97]; [b1; b2]] [] 2)) (bytes_eqb [b1; b2] FILES_PP_PARENT)) bytes256) bytes256 = true.
Proof. exact tie_dots. Qed.

(* http-range: prefix, its length, list and range separators, whitespace set; range.rs wraps it verbatim *)
Theorem C16_tables_range :
  PREFIX = FILES_RANGE_PREFIX /\ lenN PREFIX = FILES_RANGE_PREFIX_LEN /\
  (forall h : bytes, skipn 6 h = skipn (N.to_nat FILES_RANGE_PREFIX_LEN) h) /\
  COMMA = FILES_RANGE_LIST_SEP /\ DASH = FILES_RANGE_DASH /\
  forallb (fun b => Bool.eqb (is_ws b) (mem b FILES_RANGE_WS)) bytes256 = true /\
  FILES_RANGE_WRAPS_HTTP_RANGE = true.
Proof. exact tie_range. Qed.

(* named.rs: the status code of every exit of the decision, and the Content-Range texts as the
   source's format strings applied to (offset, offset+length-1, file length) / (file length) *)
Theorem C16_tables_status_and_content_range :
  (forall c ranged length offset cr,
     status (finish c ranged length offset cr) =
       if precondition_failed c then FILES_ST_PRECONDITION
       else if not_modified c then FILES_ST_NOT_MODIFIED
       else if ranged then FILES_ST_PARTIAL else FILES_ST_OK) /\
  (forall flen hv c, to_str_ok hv = false ->
     into_response true flen (Some hv) c = Val (mkResp FILES_ST_BAD_VALUE None None)) /\
  (forall c,
     into_response true 10 (Some [98; 121; 116; 101; 115; 61; 50; 48; 45]) c
       = Val (mkResp FILES_ST_UNSAT (Some (CRUnsat 10)) None) /\
     FILES_ZERO_LENGTH_UNSAT = true /\
     into_response true 0 (Some [98; 121; 116; 101; 115; 61; 45; 53]) c
       = Val (mkResp FILES_ST_UNSAT (Some (CRUnsat 0)) None)) /\
  (forall f l t, render_cr (CRBytes f l t) = fmt FILES_CR_RANGE_FMT [dec f; dec l; dec t]) /\
  (forall t, render_cr (CRUnsat t) = fmt FILES_CR_UNSAT_FMT [dec t]).
Proof.
  split; [exact tie_status_finish|]. split; [exact tie_status_bad_value|].
  split; [exact tie_status_unsat|]. exact tie_content_range_format.
Qed.

(* service.rs / chunked.rs: extension list, the directory guard of the pre-compressed lookup and the
   sibling-name construction it protects, the read size and the offset/counter bookkeeping site *)
Theorem C16_tables_service_and_reader :
  (ext_of 0 = Some FILES_EXT_BR /\ ext_of 1 = Some FILES_EXT_GZ /\ ext_of 2 = Some FILES_EXT_ZST /\
   forallb (fun e => match ext_of e with None => true | Some _ => e <? 3 end) bytes256 = true) /\
  (FILES_COMPRESSED_SKIPS_DIRS = true /\ FILES_COMPRESSED_NAME_IS_SIBLING = true /\
   forall (fs : list component -> fkind) (root : bytes) (neg : list N),
     fs (components root) = KDir -> call fs true None root [] neg = Miss) /\
  (FILES_READ_SIZE = FILES_CHUNK_SIZE /\
   FILES_OFFSET_COUNTER_ADVANCE = true /\ FILES_COUNTER_ADVANCED_ONCE = true /\
   forall mode, read_loop FILES_READ_SIZE 200000 mode (repeat (0%nat, u64_max) 4) 150000 1000 0 =
     Val [EChunk 1000 FILES_READ_SIZE; EChunk (1000 + FILES_READ_SIZE) FILES_READ_SIZE;
          EChunk (1000 + 2 * FILES_READ_SIZE) (150000 - 2 * FILES_READ_SIZE)]).
Proof. exact (conj tie_extensions (conj tie_dir_guard tie_read)). Qed.
