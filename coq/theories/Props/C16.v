(* C16 — placeholder while the proofs are being developed *)
From AV Require Import Lib.Base Files.PathBuf Files.Range Files.Named Files.ChunkedRead.
Example C16_example : utf8_valid [195; 169] = true.
Proof. reflexivity. Qed.
