(* C01 — HTTP/1 request framing is unambiguous and independent of TCP segmentation.
   Only statements here; proofs live in H1/{ChunkedProofs,PayloadDecProofs,FramingProofs,CodecProofs}.v.

   Models: H1/Chunked.v (ChunkedState), H1/PayloadDec.v (PayloadDecoder), H1/Framing.v
   (set_headers + Request::decode post-checks), H1/Codec.v (Codec::decode, poll_request's drain loop).
   Specifications: H1/ChunkedSpec.v ([bw] = byte-wise semantics; RFC 7230 4.1 grammar),
   [body_bw] in H1/PayloadDecProofs.v (segmentation-free meaning of a payload decoder).

   Whole-codec segmentation independence (section 7) compares outcomes with [onorm]: everything is
   compared exactly (requests, headers, bodies, completion flags, unread bytes, codec state, error
   class and the messages before it) except the body bytes already delivered for the message
   whose chunk framing turned out malformed (I/O-class error): those are not compared.

   NOT MODELLED: which response goes out and the socket shutdown (no model of the response side
   here; judged on the real dispatcher by runner B). The READ_DISCONNECT gate that makes a
   rejection final is modelled in H1/Gate.v (section 8). *)
From AV Require Import Lib.Base Gen.Consts Gen.H1Gate H1.Chunked H1.ChunkedSpec H1.ChunkedProofs H1.PayloadDec
  H1.PayloadDecProofs H1.Framing H1.FramingProofs H1.Codec H1.SimpleHead H1.CodecProofs
  H1.CodecSegProofs H1.Gate H1.GateProofs H1.ChunkedSound H1.GateExec H1.GateExecProofs H1.GateSegProofs
  Gen.ChunkedClasses H1.ChunkedGenProofs.

(* ===== 1. segmentation independence of the body decoders (unbounded) ======================= *)

(* Whatever the list of read segments, feeding them one by one to a PayloadDecoder (Length n,
   Chunked in any reachable state, or Eof) yields the same decoder state, unread remainder, body
   bytes and end-of-body flag as the byte-wise semantics of the concatenated stream; an error
   or the end of the body is reached at the same point. *)
Theorem C01_payload_segmentation_independent : forall (segs : list bytes) (k : kind) (acc : bytes),
  kinv k -> kopen k -> pfeed segs k [] acc = body_bw k (concat segs) acc.
Proof. exact pfeed_eq_bw. Qed.

(* in particular: two segmentations of the same bytes cannot be told apart *)
Theorem C01_chunked_segmentation_independent : forall segs1 segs2 acc,
  concat segs1 = concat segs2 -> pfeed segs1 kchunked0 [] acc = pfeed segs2 kchunked0 [] acc.
Proof.
  intros segs1 segs2 acc H.
  rewrite !pfeed_eq_bw by (cbn; try discriminate; intro; discriminate). rewrite H. reflexivity.
Qed.

Theorem C01_length_segmentation_independent : forall n segs1 segs2 acc,
  0 < n -> concat segs1 = concat segs2 -> pfeed segs1 (KLength n) [] acc = pfeed segs2 (KLength n) [] acc.
Proof.
  intros n segs1 segs2 acc Hn H. rewrite !pfeed_eq_bw by (cbn; auto). rewrite H. reflexivity.
Qed.

(* a Content-Length body is exactly the next n bytes *)
Theorem C01_length_body_exact : forall n segs acc,
  0 < n -> n <= lenN (concat segs) ->
  pfeed segs (KLength n) [] acc =
  Ok (KLength 0, skipn (N.to_nat n) (concat segs), acc ++ firstn (N.to_nat n) (concat segs), true).
Proof.
  intros n segs acc Hn Hl. rewrite pfeed_eq_bw by (cbn; auto). unfold body_bw.
  replace (lenN (concat segs) <? n) with false by lia. reflexivity.
Qed.

(* draining the batched decoder on one buffer computes the byte-wise semantics *)
Theorem C01_payload_decoder_refines_bytewise : forall fuel k buf acc,
  (S (length buf) < fuel)%nat -> kinv k -> prun fuel k buf acc = body_bw k buf acc.
Proof. exact prun_eq_bw. Qed.

(* the byte-wise semantics is compositional: the state after b1 is all that matters for b2 *)
Theorem C01_bytewise_compositional : forall k b1 b2 acc,
  body_bw k (b1 ++ b2) acc =
  match body_bw k b1 acc with
  | Ok (k', r, acc', false) => body_bw k' (r ++ b2) acc'
  | Ok (k', r, acc', true) => Ok (k', r ++ b2, acc', true)
  | Pend => Pend | Err => Err | Pan => Pan
  end.
Proof. exact body_bw_app. Qed.

(* ===== 2. agreement with the RFC 7230 chunked grammar ======================================= *)

(* every well-formed chunked body (any chunk sizes < 2^64, upper/lower-case hex, leading zeros,
   LWS and extensions) is accepted; the decoded body is the concatenation of the chunk data and
   the bytes after the final CRLF are left untouched for the next request *)
Theorem C01_chunked_grammar_accepted : forall cs last rest acc,
  Forall chunk_wf cs -> last_wf last ->
  bw Size 0 (render_body cs last ++ rest) acc = Ok (End, 0, rest, acc ++ body_data cs, true).
Proof. exact grammar_accepted. Qed.

(* and conversely: whatever the decoder accepts is a rendering of the grammar, and the body it
   delivers is exactly the chunk data (no byte of framing leaks into the body, no data byte is
   taken for framing) *)
Theorem C01_chunked_sound : forall buf acc szf rest body,
  bw Size 0 buf acc = Ok (End, szf, rest, body, true) ->
  exists cs last, Forall chunk_wf cs /\ last_wf last /\
    buf = render_body cs last ++ rest /\ body = acc ++ body_data cs.
Proof. intros buf acc szf rest body H. eapply (chunked_sound (S (length buf))); [lia|exact H]. Qed.

(* F3 (repaired in /repo bdb7061): chunk-size = 1*HEXDIG. A size line that does not start with a
   hex digit - "\r\n", ";ext\r\n", " \r\n", at the first chunk or after any chunk - is an error,
   whatever follows and whatever size the register holds *)
Theorem C01_empty_chunk_size_rejected : forall sz b rest acc,
  hexval b = None -> bw Size sz (b :: rest) acc = Err.
Proof.
  intros sz b rest acc H. rewrite bw_ctl by reflexivity. rewrite cstep_size_needs_digit by assumption.
  reflexivity.
Qed.

(* ===== 3. chunk-size arithmetic ============================================================== *)

(* `*size += rem` after a successful checked_mul(16) cannot overflow: no step panics, the size
   register stays a u64, and neither the byte-wise semantics nor the batched decoder ever panic *)
Theorem C01_chunk_size_no_overflow :
  (forall s sz b, cstep s sz b <> Pan) /\
  (forall s sz b s' sz', sz <= u64_max -> cstep s sz b = Ok (s', sz') -> sz' <= u64_max) /\
  (forall k buf acc, body_bw k buf acc <> Pan) /\
  (forall segs k acc, kinv k -> kopen k -> pfeed segs k [] acc <> Pan).
Proof.
  split; [exact cstep_no_panic|]. split; [exact cstep_size_bound|].
  split; [intros; apply body_bw_no_panic|].
  intros segs k acc Hk Ho. rewrite pfeed_eq_bw by assumption. apply body_bw_no_panic.
Qed.

(* a chunk size of 2^64 or more is rejected, however many digits it has *)
Theorem C01_chunk_size_overflow_rejected : forall ds s sz r acc,
  s = Size \/ s = SizeDigits ->
  forallb is_hex ds = true -> sz <= u64_max -> u64_max < hexnum sz ds ->
  bw s sz (ds ++ r) acc = Err.
Proof.
  induction ds as [|d ds IH]; intros s sz r acc Hs Hh Hb Ho.
  - unfold hexnum in Ho. cbn [fold_left] in Ho. lia.
  - cbn [forallb] in Hh. apply andb_true_iff in Hh as [Hd Hh].
    rewrite hexnum_cons in Ho. cbn [app].
    rewrite bw_ctl by (destruct Hs; subst; reflexivity).
    unfold is_hex in Hd. unfold hexdig in Ho. destruct (hexval d) as [v|] eqn:Hv; [|discriminate].
    assert (Hc : cstep s sz d = size_digit sz v) by (destruct Hs; subst; cbn [cstep]; rewrite Hv; reflexivity).
    rewrite Hc. unfold size_digit.
    destruct (sz * 16 <=? u64_max) eqn:E1; [|reflexivity].
    pose proof (hexval_lt16 _ _ Hv). pose proof (mul16_add_digit_fits sz v).
    destruct (sz * 16 + v <=? u64_max) eqn:E2; [|lia].
    apply IH; try assumption; [right; reflexivity|lia].
Qed.

(* ===== 3b. the byte classes are those of the source ========================================== *)

(* The one-byte step of the model equals the interpretation of the arm tables that
   tools/extract_consts.py regenerates from the `match byte!(rdr)` arms of chunked.rs on every
   run (Gen/ChunkedClasses.v: byte ranges, guards, next state / Err / hex-digit formula, and the
   dispatch of ChunkedState::step), for every state, size and byte value.  A changed byte class
   in the Rust source changes the table and breaks this obligation. *)
Theorem C01_cstep_matches_generated : forall s sz b, b < 256 -> cstep s sz b = interp_arms s sz b.
Proof. exact cstep_matches_generated. Qed.

(* ===== 4. malformed chunk syntax is an error, and an error is the same for every continuation *)
Theorem C01_bad_chunk_syntax_rejected : forall sz b,
  (b <> 13 -> cstep BodyCr sz b = Err /\ cstep EndCr sz b = Err) /\
  (b <> 10 -> cstep BodyLf sz b = Err /\ cstep EndLf sz b = Err /\ cstep SizeLf sz b = Err) /\
  (hexval b = None -> cstep Size sz b = Err) /\
  (hexval b = None -> b <> 9 -> b <> 32 -> b <> 59 -> b <> 13 ->
     cstep SizeDigits sz b = Err /\ cstep SizeLws sz b = Err) /\
  (hexval b <> None -> cstep SizeLws sz b = Err) /\
  (ext_forbidden b = true -> b <> 13 -> cstep Extension sz b = Err).
Proof.
  intros sz b. repeat split; intros; cbn [cstep]; unfold lws_ext_cr;
    repeat match goal with
    | H : hexval b = None |- _ => rewrite H
    | H : ext_forbidden b = true |- _ => rewrite H
    | |- context [b =? ?k] => destruct (b =? k) eqn:?; try lia
    end; try reflexivity.
  (* a hex digit after LWS *)
  all: try (exfalso; unfold hexval in *;
    repeat match goal with H : context [if ?c then _ else _] |- _ => destruct c eqn:? end; try lia; congruence).
Qed.

Theorem C01_chunk_error_is_sticky : forall s sz b1 b2 acc,
  bw s sz b1 acc = Err -> bw s sz (b1 ++ b2) acc = Err.
Proof. intros s sz b1 b2 acc H. rewrite bw_app, H. reflexivity. Qed.

(* ===== 5. ambiguous or malformed length declarations are rejected =========================== *)
Theorem C01_reject_cl_with_te : forall ver method hs h1 h2,
  In h1 hs -> is_cl h1 -> In h2 hs -> is_te h2 -> request_payload ver method hs = None.
Proof. exact cl_with_te_rejected. Qed.

Theorem C01_reject_repeated_cl : forall ver l1 h1 l2 h2 l3,
  is_cl h1 -> is_cl h2 -> set_headers ver (l1 ++ h1 :: l2 ++ h2 :: l3) = None.
Proof. exact cl_repeated_rejected. Qed.

(* empty, signed ("+5", "-5"), hexadecimal, with junk, non-ASCII, or >= 2^64 *)
Theorem C01_reject_malformed_cl : forall ver l1 h l2,
  is_cl h ->
  (to_str_ok (snd h) = false \/ trim (snd h) = [] \/ forallb is_digit (trim (snd h)) = false \/
   digits_u64 0 (trim (snd h)) = None) ->
  set_headers ver (l1 ++ h :: l2) = None.
Proof. exact cl_malformed_rejected. Qed.

Theorem C01_reject_repeated_te : forall l1 h1 l2 h2 l3,
  is_te h1 -> is_te h2 -> set_headers V11 (l1 ++ h1 :: l2 ++ h2 :: l3) = None.
Proof. exact te_repeated_rejected. Qed.

Theorem C01_reject_te_value : forall l1 h l2,
  is_te h -> eq_nocase (trim (snd h)) s_chunked = false -> eq_nocase (trim (snd h)) s_identity = false ->
  set_headers V11 (l1 ++ h :: l2) = None.
Proof. exact te_value_rejected. Qed.

Theorem C01_reject_te_without_chunked : forall ver method hs h,
  In h hs -> is_te h -> msg_chunked hs <> Some true -> request_payload ver method hs = None.
Proof. exact te_without_chunked_rejected. Qed.

Theorem C01_reject_te_on_http10 : forall method hs h,
  In h hs -> is_te h -> request_payload V10 method hs = None.
Proof. exact te_on_http10_rejected. Qed.

(* unambiguity: an accepted request has exactly one framing; a Content-Length body never
   coexists with a Transfer-Encoding header and vice versa; zero lengths carry no body *)
Theorem C01_accepted_framing_unambiguous : forall ver method hs pt ka e,
  request_payload ver method hs = Some (pt, ka, e) ->
  match pt with
  | PTNone => True
  | PTPayload (KLength n) => 0 < n /\ n <= u64_max /\ has_header n_transfer_encoding hs = false
  | PTPayload (KChunked s sz) => s = Size /\ sz = 0 /\ ver = V11 /\ has_header n_content_length hs = false
  | PTPayload KEof => False
  | PTStream k => k = KEof
  end.
Proof. exact accepted_payload_kinds. Qed.

(* ===== 6. the request codec ================================================================== *)

(* the simple tokenizer used by the driver satisfies the laws assumed of httparse *)
Theorem C01_simple_head_laws : HeadLaws (simple_head H1_MAX_HEADERS).
Proof. apply simple_head_laws. Qed.

(* head phase, for ANY tokenizer obeying the laws: if the decision on the remaining stream s is
   determined by its first MAX_BUFFER_SIZE-1 bytes (outside the band of finding F19), then on
   every prefix p of s (= every possible read-buffer content at a segment boundary) the decoder
   either waits or takes exactly the decision it takes on s, leaving the same unread bytes *)
Theorem C01_head_decision_segmentation_independent : forall head, HeadLaws head -> forall s p x,
  s = p ++ x ->
  head (firstn (N.to_nat (H1_MAX_BUFFER_SIZE - 1)) s) = head s -> head s <> HPartial ->
  request_decode head H1_MAX_BUFFER_SIZE p = DOk None \/
  (request_decode head H1_MAX_BUFFER_SIZE p = request_decode head H1_MAX_BUFFER_SIZE s \/
   exists r pt rest, request_decode head H1_MAX_BUFFER_SIZE p = DOk (Some (r, pt, rest)) /\
                     request_decode head H1_MAX_BUFFER_SIZE s = DOk (Some (r, pt, rest ++ x))).
Proof.
  intros head HL s p x Hs Hd Hn.
  exact (head_decision_segmentation_independent head H1_MAX_BUFFER_SIZE HL s p x Hs Hd Hn eq_refl).
Qed.

(* finding F19 on the concrete tokenizer: a head of MAX_BUFFER_SIZE + 46 bytes is accepted in
   one read and refused with TooLarge when a read ends after MAX_BUFFER_SIZE bytes *)
Definition f19_head_prefix : bytes :=
  [71;69;84;32;47;32;72;84;84;80;47;49;46;49;13;10;120;58;32] ++ repeat 97 (N.to_nat H1_MAX_BUFFER_SIZE).
Theorem C01_refuted_head_in_band :
  let segs := [f19_head_prefix; [13; 10; 13; 10]] in
  feed (simple_head H1_MAX_HEADERS) H1_MAX_BUFFER_SIZE segs codec0 [] [] = OError ETooLarge [] /\
  match run (simple_head H1_MAX_HEADERS) H1_MAX_BUFFER_SIZE 3 codec0 (concat segs) [] with
  | ONeedMore c [] ms => c = codec0 /\ length ms = 1%nat       (* one request, nothing left over *)
  | _ => False
  end.
Proof. cbv zeta. split; vm_compute; repeat split. Qed.

(* oversized head: MAX_BUFFER_SIZE bytes without a complete head => TooLarge (431) *)
Theorem C01_reject_oversized_head : forall head b,
  head b = HPartial -> H1_MAX_BUFFER_SIZE <= lenN b ->
  codec_decode head H1_MAX_BUFFER_SIZE codec0 b = DErr ETooLarge.
Proof.
  intros head b Hp Hl. unfold codec_decode. cbn [c_payload codec0].
  rewrite (request_decode_too_large head _ b Hp Hl). reflexivity.
Qed.

(* a framing rejection is reported as ParseError::Header (400); malformed chunk framing as the
   I/O class, which poll_request handles as a disconnect: no 4xx (finding F22) *)
Theorem C01_codec_error_classes : forall head maxb c src,
  (forall n m t v hs, c_payload c = None -> head src = HComplete n m t v hs ->
                      request_payload v m hs = None -> codec_decode head maxb c src = DErr EHeader) /\
  (forall k, c_payload c = Some k -> pdecode k src = Err -> codec_decode head maxb c src = DErr EIo).
Proof.
  intros head maxb c src. split.
  - intros. eapply codec_head_reject; eassumption.
  - intros. eapply codec_chunk_error_is_io; eassumption.
Qed.

(* after a rejection nothing more is decoded: later segments do not change the outcome *)
Theorem C01_nothing_after_reject : forall head maxb s1 s2 c r acc e ms,
  feed head maxb s1 c r acc = OError e ms -> feed head maxb (s1 ++ s2) c r acc = OError e ms.
Proof. intros. apply error_is_final. assumption. Qed.

(* ===== 7. segmentation independence of the whole request codec (unbounded) ================== *)

(* For ANY tokenizer obeying the laws, ANY list of read segments and ANY pipeline: feeding the
   segments one by one (read_buf.extend(seg); drain) gives the same outcome as draining the whole
   stream at once - same requests, header lists, body bytes, completion flags, unread remainder,
   codec state, and the same rejection (class and point) - provided no request head straddles
   the MAX_BUFFER_SIZE threshold (NoBand: finding F19 is exactly the failure of this premise). *)
Theorem C01_codec_segmentation : forall head, HeadLaws head -> head [] = HPartial ->
  forall segs : list bytes,
  NoBand head H1_MAX_BUFFER_SIZE (concat segs) ->
  onorm (feed head H1_MAX_BUFFER_SIZE segs codec0 [] []) =
  onorm (run head H1_MAX_BUFFER_SIZE (run_fuel (concat segs)) codec0 (concat segs) []).
Proof.
  intros head HL H0 segs Hnb.
  exact (feed_eq_run head H1_MAX_BUFFER_SIZE HL segs eq_refl H0 Hnb).
Qed.

(* hence two segmentations of the same stream cannot be told apart *)
Theorem C01_codec_two_segmentations : forall head, HeadLaws head -> head [] = HPartial ->
  forall segs1 segs2 : list bytes,
  concat segs1 = concat segs2 -> NoBand head H1_MAX_BUFFER_SIZE (concat segs1) ->
  onorm (feed head H1_MAX_BUFFER_SIZE segs1 codec0 [] []) =
  onorm (feed head H1_MAX_BUFFER_SIZE segs2 codec0 [] []).
Proof.
  intros head HL H0 segs1 segs2 E Hnb.
  rewrite (C01_codec_segmentation head HL H0 segs1 Hnb).
  rewrite E in Hnb. rewrite (C01_codec_segmentation head HL H0 segs2 Hnb). rewrite E. reflexivity.
Qed.

(* the premise holds unconditionally for every stream shorter than MAX_BUFFER_SIZE - 1 bytes *)
Theorem C01_codec_segmentation_short_streams : forall head, HeadLaws head -> head [] = HPartial ->
  forall segs : list bytes,
  lenN (concat segs) < H1_MAX_BUFFER_SIZE - 1 ->
  onorm (feed head H1_MAX_BUFFER_SIZE segs codec0 [] []) =
  onorm (run head H1_MAX_BUFFER_SIZE (run_fuel (concat segs)) codec0 (concat segs) []).
Proof.
  intros head HL H0 segs Hl. apply C01_codec_segmentation; try assumption.
  apply NoBand_short. unfold lenN in Hl. generalize dependent H1_MAX_BUFFER_SIZE. intros; lia.
Qed.

(* instance: the concrete tokenizer *)
Theorem C01_codec_segmentation_simple_head : forall segs : list bytes,
  NoBand (simple_head H1_MAX_HEADERS) H1_MAX_BUFFER_SIZE (concat segs) ->
  onorm (feed (simple_head H1_MAX_HEADERS) H1_MAX_BUFFER_SIZE segs codec0 [] []) =
  onorm (run (simple_head H1_MAX_HEADERS) H1_MAX_BUFFER_SIZE (run_fuel (concat segs)) codec0 (concat segs) []).
Proof. apply C01_codec_segmentation; [apply simple_head_laws|reflexivity]. Qed.

(* the drain loop never runs out of the fuel the model gives it *)
Theorem C01_run_fuel_suffices : forall head, HeadLaws head -> forall buf acc,
  run head H1_MAX_BUFFER_SIZE (run_fuel buf) codec0 buf acc <> OFuel.
Proof.
  intros head HL buf acc. apply run_enough; [assumption|exact I|].
  unfold run_fuel, measure. pose proof (pend_le1 codec0). lia.
Qed.

(* ===== 8. the READ_DISCONNECT gate of the dispatcher (H1/Gate.v) ============================= *)

(* "no byte after the point of rejection is ever interpreted as a request": from the initial
   state, under EVERY schedule of socket reads, poll_request calls, payload back-pressure answers,
   queue lengths and read-buffer leftovers, and for any tokenizer: once a rejection has happened
   (400 / 431 queued, or the I/O-class disconnect), no later operation changes the sequence of
   requests and body bytes the application sees.  The proof rests on the transcription of
   `can_read` (READ_DISCONNECT => false, unconditionally). *)
Theorem C01_gate_nothing_after_reject : forall head (ops1 ops2 : list gop) e,
  let ex := gexec head H1_MAX_BUFFER_SIZE H1_MAX_PIPELINED_MESSAGES in
  g_rejected (ex ops1 gate0) = Some e ->
  g_msgs (ex (ops1 ++ ops2) gate0) = g_msgs (ex ops1 gate0) /\
  g_rejected (ex (ops1 ++ ops2) gate0) = Some e.
Proof. intros head ops1 ops2 e ex H. apply nothing_after_reject. exact H. Qed.

(* every rejection sets READ_DISCONNECT, and the flag freezes messages, rejection and read buffer *)
Theorem C01_gate_rejection_disconnects : forall head (ops : list gop),
  let g := gexec head H1_MAX_BUFFER_SIZE H1_MAX_PIPELINED_MESSAGES ops gate0 in
  g_rejected g <> None -> g_read_disconnect g = true.
Proof. intros head ops g. apply (gexec_inv head _ _ ops gate0). intro H; contradiction. Qed.

(* the executable gate run by the correspondence driver (H1/GateExec.v: leftover computed as the
   code leaves it, read loop stops at the dispatcher's MAX_BUFFER_SIZE = H1_DISP_READ_CAP) is an instance of the gate model, and the
   clause holds for it *)
Theorem C01_xgate_nothing_after_reject : forall head (ops1 ops2 : list xop) e,
  let ex := xexec head H1_MAX_BUFFER_SIZE H1_MAX_PIPELINED_MESSAGES H1_DISP_READ_CAP in
  g_rejected (ex ops1 gate0) = Some e ->
  g_msgs (ex (ops1 ++ ops2) gate0) = g_msgs (ex ops1 gate0) /\
  g_rejected (ex (ops1 ++ ops2) gate0) = Some e.
Proof. intros head ops1 ops2 e ex H. apply xexec_nothing_after_reject. exact H. Qed.

(* the read loop's early-return threshold is the constant dispatcher.rs binds to the name
   MAX_BUFFER_SIZE through its `use` declarations (Gen/H1Gate.v, H1_DISP_READ_CAP, regenerated on
   every run by tools/gen/h1_gate.py); the decoder's TooLarge threshold is decoder.rs's
   (H1_MAX_BUFFER_SIZE).  The reader must not give up before the decoder does: *)
Theorem C01_reader_cap_covers_decoder_limit : H1_MAX_BUFFER_SIZE <= H1_DISP_READ_CAP.
Proof. vm_compute. discriminate. Qed.

(* "the reader never stops reading before the head is complete": under every read schedule, as
   long as no request has been rejected the unread remainder is below the read cap and the next
   socket read is appended to the buffer (read_available does not take its early return).  With
   C01_gate_segmentation below: every framed request whose head is shorter than the decoder limit
   is delivered, however the bytes are cut. *)
Theorem C01_reader_never_stops_early : forall head, HeadLaws head ->
  forall (segs : list bytes) (seg : bytes),
  let ex := xexec head H1_MAX_BUFFER_SIZE H1_MAX_PIPELINED_MESSAGES H1_DISP_READ_CAP in
  let g := ex (read_ops segs) gate0 in
  g_rejected g = None ->
  lenN (g_read_buf g) < H1_DISP_READ_CAP /\ g_read_buf (ex [XRead seg] g) = g_read_buf g ++ seg.
Proof.
  intros head HL segs seg ex g H.
  exact (reader_never_stops_early head H1_MAX_BUFFER_SIZE H1_MAX_PIPELINED_MESSAGES H1_DISP_READ_CAP eq_refl
           C01_reader_cap_covers_decoder_limit eq_refl HL segs codec0 [] [] 0 seg I eq_refl H).
Qed.

(* why the premise is needed (general in the two thresholds): with a read cap below the decoder
   limit, a gate holding an unfinished head of cap <= n < limit bytes is stuck for ever: nothing
   delivered, nothing rejected (no 431), whatever is read / polled / dequeued afterwards *)
Theorem C01_reader_starves_if_cap_below_limit : forall head maxb cap (ops : list xop) g,
  g_read_disconnect g = false -> c_payload (g_codec g) = None -> head (g_read_buf g) = HPartial ->
  cap <= lenN (g_read_buf g) -> lenN (g_read_buf g) < maxb ->
  Forall (fun o => o <> XPeerClosed) ops ->
  let g' := xexec head maxb H1_MAX_PIPELINED_MESSAGES cap ops g in
  g_msgs g' = g_msgs g /\ g_rejected g' = g_rejected g /\ g_read_buf g' = g_read_buf g.
Proof.
  intros head maxb cap ops g H1 H2 H3 H4 H5 Hf g'.
  destruct (reader_starves_below_cap head maxb H1_MAX_PIPELINED_MESSAGES cap ops g) as (_ & A & B & C);
    [repeat split; assumption|exact Hf|auto].
Qed.

(* non-vacuity of both: a 40 000-byte unfinished head in 4 KiB reads.  With the dispatcher's cap
   (= decoder limit) all of it is buffered; with the payload module's 32 768 the buffer stops
   growing at 32 768 and the state satisfies the premises of the starvation theorem *)
Example C01_example_reader :
  let s := [71;69;84;32;47;97;32;72;84;84;80;47;49;46;49;13;10;120;58;32] ++ repeat 97 (N.to_nat 39980) in
  let segs := [firstn (N.to_nat 16384) s; firstn (N.to_nat 16384) (skipn (N.to_nat 16384) s); skipn (N.to_nat 32768) s] in
  let g := xexec (simple_head H1_MAX_HEADERS) H1_MAX_BUFFER_SIZE H1_MAX_PIPELINED_MESSAGES H1_DISP_READ_CAP (read_ops segs) gate0 in
  let b := xexec (simple_head H1_MAX_HEADERS) H1_MAX_BUFFER_SIZE H1_MAX_PIPELINED_MESSAGES 32768 (read_ops segs) gate0 in
  g_rejected g = None /\ lenN (g_read_buf g) = 40000 /\ g_rejected b = None /\ lenN (g_read_buf b) = 32768 /\ g_read_disconnect b = false /\ c_payload (g_codec b) = None /\ simple_head H1_MAX_HEADERS (g_read_buf b) = HPartial.
Proof. vm_compute. repeat split. Qed.

(* what the application sees THROUGH THE GATE does not depend on the segmentation, exactly outside
   the band of finding F19: under any read schedule [segs] (one read_available + one poll_request
   per segment; the read loop's MAX_BUFFER_SIZE stop and the Partial-head TooLarge rule included),
   the messages, rejection, codec state and unread bytes are those of draining the whole stream *)
Theorem C01_gate_segmentation : forall head, HeadLaws head -> head [] = HPartial ->
  forall segs : list bytes,
  NoBand head H1_MAX_BUFFER_SIZE (concat segs) ->
  let g := xexec head H1_MAX_BUFFER_SIZE H1_MAX_PIPELINED_MESSAGES H1_DISP_READ_CAP (read_ops segs) gate0 in
  match onorm (run head H1_MAX_BUFFER_SIZE (run_fuel (concat segs)) codec0 (concat segs) []) with
  | ONeedMore c r ms => g_msgs g = ms /\ g_rejected g = None /\ g_codec g = c /\ g_read_buf g = r
  | OError EIo ms => g_rejected g = Some EIo /\ drop_last_body (g_msgs g) = ms
  | OError e ms => g_rejected g = Some e /\ g_msgs g = ms
  | OPanic | OFuel => True
  end.
Proof.
  intros head HL H0 segs Hnb g.
  pose proof (gate_reads_eq_feed head H1_MAX_BUFFER_SIZE H1_MAX_PIPELINED_MESSAGES H1_DISP_READ_CAP eq_refl
                C01_reader_cap_covers_decoder_limit eq_refl HL segs codec0 [] [] 0 I eq_refl) as A.
  pose proof (feed_eq_run head H1_MAX_BUFFER_SIZE HL segs eq_refl H0 Hnb) as E.
  rewrite <- E. change (gate_of codec0 [] [] 0) with gate0 in A. fold g in A.
  destruct (feed head H1_MAX_BUFFER_SIZE segs codec0 [] []) as [c r ms|e ms| |]; cbn [onorm agrees] in *.
  - destruct A as [q ->]. cbn. auto.
  - destruct A as (A1 & A2 & _). destruct e; cbn [onorm]; rewrite ?A1; auto.
  - exact I.
  - exact I.
Qed.

(* non-vacuity: GET /ok | POST with Content-Length AND Transfer-Encoding | GET /smuggled in one
   read: one request is delivered, the second is rejected (ParseError::Header -> 400), and polling
   again with the smuggled request still in the read buffer changes nothing *)
Definition gate_ex_stream : bytes :=
  [71;69;84;32;47;111;107;32;72;84;84;80;47;49;46;49;13;10;13;10] ++
  [80;79;83;84;32;47;98;32;72;84;84;80;47;49;46;49;13;10;67;111;110;116;101;110;116;45;76;101;110;103;116;104;58;32;51;13;10;
   84;114;97;110;115;102;101;114;45;69;110;99;111;100;105;110;103;58;32;99;104;117;110;107;101;100;13;10;13;10].
Definition gate_ex_smuggled : bytes :=
  [71;69;84;32;47;115;32;72;84;84;80;47;49;46;49;13;10;13;10].
Example C01_example_gate :
  let ex := gexec (simple_head H1_MAX_HEADERS) H1_MAX_BUFFER_SIZE H1_MAX_PIPELINED_MESSAGES in
  let g1 := ex [ORead (gate_ex_stream ++ gate_ex_smuggled); OPoll true gate_ex_smuggled] gate0 in
  let g2 := ex [ORead (gate_ex_stream ++ gate_ex_smuggled); OPoll true gate_ex_smuggled;
                OQueue 0; OPoll true []; ORead gate_ex_smuggled; OPoll true []] gate0 in
  g_rejected g1 = Some EHeader /\ length (g_msgs g1) = 1%nat /\ g_read_buf g1 = gate_ex_smuggled /\
  g_msgs g2 = g_msgs g1 /\ g_rejected g2 = Some EHeader.
Proof. vm_compute. repeat split. Qed.

(* ===== non-vacuity ============================================================================ *)
(* GET /a (no body) | POST /b with Content-Length: 3 | POST /c chunked with an extension,
   delivered in 1-byte reads and in one read: same three messages, same bodies *)
Definition ex_stream : bytes :=
  [71;69;84;32;47;97;32;72;84;84;80;47;49;46;49;13;10;13;10] ++
  [80;79;83;84;32;47;98;32;72;84;84;80;47;49;46;49;13;10;67;111;110;116;101;110;116;45;76;101;110;103;116;104;58;32;51;13;10;13;10;120;121;122] ++
  [80;79;83;84;32;47;99;32;72;84;84;80;47;49;46;49;13;10;84;114;97;110;115;102;101;114;45;69;110;99;111;100;105;110;103;58;32;99;104;117;110;107;101;100;13;10;13;10;
   52;59;97;61;98;13;10;100;97;116;97;13;10;48;13;10;13;10].
Example C01_example_pipeline :
  let f := feed (simple_head H1_MAX_HEADERS) H1_MAX_BUFFER_SIZE in
  f (map (fun b => [b]) ex_stream) codec0 [] [] = f [ex_stream] codec0 [] [] /\
  match f [ex_stream] codec0 [] [] with
  | ONeedMore c rest ms => c = codec0 /\ rest = [] /\
      map (fun m => (m_body m, m_done m)) ms = [([], false); ([120;121;122], true); ([100;97;116;97], true)]
  | _ => False
  end.
Proof. vm_compute. repeat split. Qed.

Example C01_example_chunk_wf :
  let c := mk_chunk (mk_size_line [48; 52] [32] (Some [97; 61; 98])) [100; 97; 116; 97] in
  chunk_wf c /\ last_wf (mk_size_line [48] [] None) /\ kinv kchunked0 /\ kopen kchunked0.
Proof.
  cbv zeta. repeat split; try discriminate; try reflexivity; try (intro; discriminate).
Qed.
