(* C02 — HTTP/1 responses: one per request, in order, self-framed, body-faithful.
   Only statements here; proofs live in H1/EncoderProofs.v and H1/RespSeqProofs.v.
   Models: H1/Encoder.v (Codec::encode, MessageEncoder::encode, encode_headers, TransferEncoding;
   the tree with fixes F1, F2, F12, F18, F18b, F23 applied), H1/RespSeq.v (dispatcher response state machine
   at event granularity).  Specification: H1/RespSpec.v (independent RFC 7230 response reader). *)
From Coq Require Import String Sorting.Sorted.
From AV Require Import Lib.Base H1.Encoder H1.RespSpec H1.RespSeq H1.EncoderProofs H1.RespSeqProofs.
From AV Require Import H1.RespAbortProofs H1.Flush H1.FlushProofs H1.RespWire H1.RespWireProofs.
From AV Require Import Gen.H1EncoderTables H1.EncoderGenProofs.
From AV Require Import H1.UpgradeSeq H1.UpgradeProofs H1.UpgradeGenProofs.
Open Scope N_scope.

(* ------------------------------------------------------------------ body-faithful, self-framed *)
(* For every request context that is not HEAD (CONNECT / upgrade STREAM contexts included, after
   the F18b repair), every response whose status may carry a body, every declared size and EVERY chunk list
   (empty chunks included): the independent reader, given the emitted head fields and the bytes
   produced by Chunk(Some)* then Chunk(None), decodes exactly the concatenation of the chunks,
   cut to the declared size, and consumes exactly the bytes written.  If the body ends short of
   its declared size, Chunk(None) is an error (the dispatcher aborts the connection) and what was
   written never reads as a complete message, whether or not the connection is closed.
   Excluded: a body framed by the end of the connection on request of the handler (no_chunking) or
   because the request was CONNECT/upgrade, where the handler ALSO set its own Content-Length /
   Transfer-Encoding, which then is the framing. *)
Theorem C02_te_roundtrip : forall (c : codec) (r : resp) (sz : bsize) (chunks : list bytes),
  c_head c = false ->
  no_body_status (rs_status r) = false ->
  lower_names (rs_headers r) ->
  (rs_nochunk r = true \/ c_stream c = true -> sz = BStream ->
   user_has "transfer-encoding" r = false /\ user_has "content-length" r = false) ->
  (forall n, sz = BSized n -> n < 2 ^ 64) ->
  Forall (fun b => lenN b < 2 ^ 64) chunks ->
  sz <> BNone ->
  let fields := hd_fields (item_head c r sz) in
  let c2 := fst (codec_encode_chunks (item_codec c r sz) chunks) in
  let body := snd (codec_encode_chunks (item_codec c r sz) chunks) in
  match codec_encode_eof c2 with
  | Some (_, tail) =>
      (forall n, sz = BSized n -> n <= lenN (concat chunks)) /\
      exists f, read_message false (rs_status r) fields (body ++ tail) true =
                RComplete f (cut sz (concat chunks)) (lenN (body ++ tail))
  | None =>
      exists n, sz = BSized n /\ lenN (concat chunks) < n /\
                forall closed, read_message false (rs_status r) fields body closed = RIncomplete
  end.
Proof. exact te_roundtrip. Qed.

(* the same fact read the other way: a short body is an error, never a complete-looking message *)
Theorem C02_short_body_is_error : forall (c : codec) (r : resp) (n : N) (chunks : list bytes),
  c_head c = false -> no_body_status (rs_status r) = false ->
  lower_names (rs_headers r) -> n < 2 ^ 64 -> Forall (fun b => lenN b < 2 ^ 64) chunks ->
  lenN (concat chunks) < n ->
  let c1 := item_codec c r (BSized n) in
  codec_encode_eof (fst (codec_encode_chunks c1 chunks)) = None /\
  forall closed, read_message false (rs_status r) (hd_fields (item_head c r (BSized n)))
                              (snd (codec_encode_chunks c1 chunks)) closed = RIncomplete.
Proof.
  intros c r n chunks Hh Hst Hl Hn Hc Hshort c1.
  pose proof (te_roundtrip c r (BSized n) chunks Hh Hst Hl) as H.
  cbv zeta in H. fold c1 in H.
  destruct (codec_encode_eof (fst (codec_encode_chunks c1 chunks))) as [[c3 tail]|].
  - destruct H as [Hge _]; try discriminate; auto.
    + intros m Hm. inversion Hm; subst. exact Hn.
    + specialize (Hge n eq_refl). lia.
  - destruct H as (m & Hm & _ & Hr); try discriminate; auto.
    intros m Hm. inversion Hm; subst. exact Hn.
Qed.

(* ------------------------------------------------------------------ no body for HEAD / 1xx / 204 *)
(* Whatever body the handler supplies: after the head of a response to a HEAD request, or of a
   1xx (other than 101 Switching Protocols) or 204 response, no byte is written for any chunk list
   and end-of-body is accepted; and the reader, told the method, expects no body. *)
Theorem C02_no_body_bytes : forall (c : codec) (r : resp) (sz : bsize) (chunks : list bytes),
  c_head c = true \/ status_no_body (rs_status r) = true ->
  codec_encode_chunks (item_codec c r sz) chunks = (item_codec c r sz, []) /\
  codec_encode_eof (item_codec c r sz) = Some (item_codec c r sz, []) /\
  forall fields after closed,
    read_message (c_head c) (rs_status r) fields after closed = RComplete FNoBody [] 0.
Proof.
  intros c r sz chunks H. destruct (no_body_bytes c r sz chunks H) as [H1 H2].
  split; [exact H1|]. split; [exact H2|]. intros. apply reader_no_body.
  destruct H as [H|H]; [left; exact H|right].
  unfold status_no_body in H. unfold no_body_status, is_informational in *.
  apply orb_true_iff in H as [H|H]; [apply andb_true_iff in H as [H _]; rewrite H; reflexivity|].
  rewrite H. rewrite orb_true_r. reflexivity.
Qed.

(* 304 is NOT covered: the faithful model writes the body of a 304 (the repository's own test
   not_modified_spec_h1 pins this), although a client never reads a body after 304. *)
Definition Known_304_with_body (r : resp) (sz : bsize) : Prop :=
  rs_status r = 304 /\ sz <> BNone /\ sz <> BSized 0.
Theorem C02_refuted_304_body : exists (c : codec) (r : resp) (sz : bsize) (chunks : list bytes),
  Known_304_with_body r sz /\ c_head c = false /\
  snd (codec_encode_chunks (item_codec c r sz) chunks) <> [] /\
  read_message false (rs_status r) (hd_fields (item_head c r sz))
               (snd (codec_encode_chunks (item_codec c r sz) chunks)) true = RComplete FNoBody [] 0.
Proof.
  exists (codec_decode (codec_new true) (mkReq false V11 None false false)),
         (mkResp 304 None false []), (BSized 2), [[97; 98]].
  repeat split; try discriminate; try (vm_compute; discriminate); try (vm_compute; reflexivity).
Qed.

(* ------------------------------------------------------------------ HTTP/1.0 is never chunk-framed *)
Theorem C02_http10_never_chunked : forall (c : codec) (r : resp) (sz : bsize),
  c_ver c = V10 ->
  (forall e, c_te (item_codec c r sz) <> TChunked e) /\
  (lower_names (rs_headers r) ->
   (rs_nochunk r = false /\ (c_stream c = false \/ sz <> BStream)) \/ user_has "transfer-encoding" r = false ->
   rs_status r <> 304 ->
   field_values "transfer-encoding" (hd_fields (item_head c r sz)) = []).
Proof. exact http10_never_chunked. Qed.

(* a body delimited by the end of the connection never leaves the connection in keep-alive *)
Theorem C02_close_delimited_closes : forall (c : codec) (r : resp) (sz : bsize),
  c_te (item_codec c r sz) = TEof -> c_conn (item_codec c r sz) <> CKeepAlive.
Proof. exact close_delimited_closes. Qed.

(* ------------------------------------------------------------------ user framing headers *)
(* Unless the body is framed by the end of the connection on the handler's or the request's
   account (no_chunking, or a CONNECT/upgrade request, with a streaming body) or the response is a
   304 (documented retention of a manual content-length): the head is
   [generated length field] ++ [generated connection field] ++ user headers ++ date, where the
   user part contains no Content-Length, Transfer-Encoding or Connection field. *)
Theorem C02_user_framing_headers_ignored : forall (c : codec) (r : resp) (sz : bsize),
  lower_names (rs_headers r) ->
  rs_status r <> 304 ->
  ((rs_nochunk r = false /\ c_stream c = false) \/ sz <> BStream \/
   (is_informational (rs_status r) || (rs_status r =? 204)) = true) ->
  let fields := hd_fields (item_head c r sz) in
  let ct := c_conn (item_codec c r sz) in
  exists len_fields,
    fields = len_fields ++ conn_fields ct (c_ver c) ++ user_fields true r ++ date_fields r /\
    field_values "transfer-encoding" (user_fields true r) = [] /\
    field_values "content-length" (user_fields true r) = [] /\
    field_values "connection" (user_fields true r) = [] /\
    (len_fields = [] \/ len_fields = [(str "transfer-encoding", str "chunked")] \/
     exists n, sz = BSized n /\ len_fields = [(str "content-length", dec n)]).
Proof. exact user_framing_headers_ignored. Qed.

(* ------------------------------------------------------------------ one per request, in order *)
(* For EVERY event schedule (arrivals of requests 0,1,2,... interleaved arbitrarily with handler /
   body polls, socket flushes, a malformed request), every handler and body script and every
   write-buffer size: what is appended to write_buf is well-sequenced (responses in strictly
   increasing request order, each contiguous, each with at most one head, 100 Continue only as
   the first unit of its response, body bytes only after their own head); every response head
   answers a request whose service call started; service calls start in request order, each at
   most once, only for requests that arrived; and the socket has taken a prefix of what was
   appended (so the wire is: complete responses, then a prefix of the response in progress). *)
Theorem C02_order_one_per_request :
  forall (reqs : list reqctx) (hs : list hscript) (wbs : N) (ka : bool) (es : list event),
  arr_ok O es ->
  let d := run reqs hs wbs (d_init ka) es in
  well_sequenced (d_out d) /\
  (forall j h, In (UHead (Some j) h) (d_out d) -> In j (d_started d)) /\
  StronglySorted lt (d_started d) /\
  (forall j, In j (d_started d) -> (j < arrivals es)%nat) /\
  d_wbuf d + d_flushed d = lenN (units_bytes (d_out d)).
Proof. exact order_one_per_request. Qed.

(* ------------------------------------------------------------------ aborted, never complete-looking *)
(* Last clause of the property, on the sequencing model, for EVERY schedule and every handler /
   body script (erroring bodies, bodies that end short of their declared size, handler errors
   answered through SendErrorPayload): if the connection is aborted (d_fail = Some _), then
   - the response in progress j is the last thing in write_buf: its head, then only its own body
     units; no later response head follows, and nothing is ever appended again, whatever events
     follow (the future has resolved with DispatchError::Body / Io);
   - those body bytes are the transfer encoding of the chunks polled so far WITHOUT end-of-body:
     the encoder never reached Chunked(eof) -- the terminating 0-chunk was not written -- and for
     a short body the Length encoder still expects rem > 0 bytes. *)
Theorem C02_abort_never_completes :
  forall (reqs : list reqctx) (hs : list hscript) (wbs : N) (ka : bool) (es : list event) (f : failure),
  let d := run reqs hs wbs (d_init ka) es in
  d_fail d = Some f ->
  exists j e pre h ds t0 chunks,
    d_st d = SSend j e /\
    d_out d = pre ++ UHead (Some j) h :: map (UData j) ds /\
    t0 <> TChunked true /\
    te_chunks t0 chunks = (c_te (d_codec d), concat ds) /\
    c_te (d_codec d) <> TChunked true /\
    (f = FIo -> exists rem, c_te (d_codec d) = TLength rem /\ 0 < rem) /\
    forall es', run reqs hs wbs d es' = d.
Proof. exact abort_never_completes. Qed.

(* ... and to a client such bytes are never a complete body: chunked framing without its
   terminator reads as Short for every fuel; a Length body with rem > 0 has fewer than the
   declared n bytes.  (Eof framing cannot signal failure: inherent in close-delimited bodies.) *)
Theorem C02_unterminated_chunked_is_incomplete :
  forall (chunks : list bytes) (t' : te) (data : bytes) (fuel : nat),
  Forall (fun b => lenN b < 2 ^ 64) chunks ->
  te_chunks (TChunked false) chunks = (t', data) ->
  read_chunked fuel data [] = CShort.
Proof. exact unterminated_chunked_is_incomplete. Qed.

Theorem C02_short_length_is_incomplete : forall (n : N) (chunks : list bytes) (rem : N) (data : bytes),
  te_chunks (TLength n) chunks = (TLength rem, data) -> 0 < rem -> lenN data < n.
Proof. exact short_length_is_incomplete. Qed.

(* ------------------------------------------------------------------ end to end with the flush layer *)
(* The sequencing layer composed with the C04 flush layer (H1/Flush.v, poll_flush against a
   scripted socket; composition in H1/RespWire.v): for EVERY schedule of arrivals, polls and
   poll_flush calls with ANY socket behaviour (partial writes, Pending, Ok(0), errors): the bytes
   accepted by the socket are a prefix of the concatenation of the response units in dispatch
   order, which is well-sequenced; while the connection is alive accepted ++ write_buf is exactly
   that concatenation (C04_flush_exactly_once_in_order: every byte once, in order) and the two
   models agree on write_buf's length (so the write-buffer gate is the real one); once the
   connection future has failed (body error, short body, write error) the state is frozen:
   whatever is still in write_buf -- the rest of the aborted response AND complete earlier
   responses not yet flushed -- is dropped with the connection. *)
Theorem C02_wire_is_prefix_of_responses :
  forall (reqs : list reqctx) (hs : list hscript) (wbs : N) (ka : bool) (wes : list wevent),
  warr_ok O wes ->
  let w := wrun reqs hs wbs (winit ka) wes in
  let d := w_d w in let fs := w_f w in
  well_sequenced (d_out d) /\
  (forall j h, In (UHead (Some j) h) (d_out d) -> In j (d_started d)) /\
  StronglySorted lt (d_started d) /\
  (forall j, In j (d_started d) -> (j < warrivals wes)%nat) /\
  prefix_of (s_wire fs) (units_bytes (d_out d)) /\
  (wdead w = false -> s_wire fs ++ s_buf fs = units_bytes (d_out d) /\ d_wbuf d = lenN (s_buf fs)) /\
  (wdead w = true -> forall wes', wrun reqs hs wbs w wes' = w).
Proof. exact wire_is_prefix_of_responses. Qed.

(* the dropped-bytes clause is not vacuous: response 0 is complete in write_buf, the socket was
   slow (Pending), response 1's body fails: nothing of response 0 ever reaches the wire *)
Example C02_dropped_with_the_connection :
  let reqs := [mkReq false V11 None false false; mkReq false V11 None false false] in
  let hs := [mkH 0 false (mkResp 200 None false []) KPlain (BSized 2) [BChunk [97; 98]];
             mkH 0 false (mkResp 200 None false []) KPlain BStream [BChunk [99]; BErr]] in
  let wes := [WArrive 0; WTick; WTick; WTick; WFlush [WPending] (WAccept 1000) FReady;
              WArrive 1; WTick; WTick; WTick; WFlush [] (WAccept 1000) FReady] in
  let w := wrun reqs hs 32768 (winit true) wes in
  warr_ok O wes /\ wdead w = true /\ d_fail (w_d w) = Some FBody /\ s_wire (w_f w) = [] /\
  exists h, firstn 3 (d_out (w_d w)) = [UHead (Some O) h; UData O [97; 98]; UData O []].
Proof. cbv zeta. split; [cbn; tauto|]. vm_compute. repeat split. eexists. reflexivity. Qed.

(* ------------------------------------------------------------------ own request + own response *)
(* Given a per-request context (the response is encoded right after its own request's context was
   written), head, transfer encoding and connection type are functions of that request, that
   response and the connection-wide settings only: the history of the codec does not matter. *)
Theorem C02_framing_from_own_context : forall (c c' : codec) (rq : reqctx) (r : resp) (sz : bsize),
  c_ka_enabled c = c_ka_enabled c' -> c_stream c = c_stream c' ->
  item_head (codec_decode c rq) r sz = item_head (codec_decode c' rq) r sz /\
  c_te (item_codec (codec_decode c rq) r sz) = c_te (item_codec (codec_decode c' rq) r sz) /\
  c_conn (item_codec (codec_decode c rq) r sz) = c_conn (item_codec (codec_decode c' rq) r sz).
Proof. exact framing_from_own_context. Qed.

(* In the dispatcher (with the F12 repair: the context of the response in flight is restored
   after a request that is only queued has been decoded, and a queued request's context is
   re-derived when it is dispatched) this holds for EVERY schedule, every handler and body
   script: each response head appended to write_buf is the one determined by its own request and
   its own response, whatever else was decoded or answered in between. *)
Definition own_head (ka : bool) (rq : reqctx) (h : hscript) : head :=
  item_head (codec_decode (codec_new ka) rq) (h_resp h) (h_size h).

Theorem C02_framing_depends_only_on_own_request :
  forall (reqs : list reqctx) (hs : list hscript) (wbs : N) (ka : bool) (es : list event),
  Forall (fun r => rq_stream r = false) reqs ->
  forall j h, In (UHead (Some j) h) (d_out (run reqs hs wbs (d_init ka) es)) ->
  h = own_head ka (nth j reqs dflt_req) (nth j hs dflt_h).
Proof. intros reqs hs wbs ka es Hs j h Hin. exact (heads_from_own_context reqs hs wbs ka Hs es j h Hin). Qed.

(* the former F12 witness (GET /0 pending, HEAD /1 decoded meanwhile, then handler 0 completes):
   response 0 now carries its 2-byte body, response 1 (HEAD) none *)
Example C02_pipelined_context_example :
  let reqs := [mkReq false V11 None false false; mkReq true V10 None false false] in
  let hs := [mkH 1 false (mkResp 200 None false []) KPlain (BSized 2) [BChunk [97; 98]];
             mkH 0 false (mkResp 200 None false []) KPlain (BSized 2) [BChunk [99; 100]]] in
  let es := [EvArrive 0; EvTick; EvArrive 1; EvTick; EvTick; EvTick; EvTick; EvTick; EvTick] in
  let d := run reqs hs 32768 (d_init true) es in
  map (fun u => match u with UData j b => (j, b) | UHead (Some j) h => (j, firstn 8 (hd_status_line h)) | _ => (O, []) end) (d_out d) =
  [(O, str "HTTP/1.1"); (O, [97; 98]); (O, []); (1%nat, str "HTTP/1.0"); (1%nat, []); (1%nat, [])].
Proof. vm_compute. reflexivity. Qed.

(* ------------------------------------------------------------------ former class F18b *)
(* CONNECT / websocket-upgrade request (codec STREAM flag) answered 404 with a streaming body: the
   head used to announce chunked in front of a raw body; after the repair it announces nothing,
   the connection type is close, and the reader decodes the body (C02_te_roundtrip covers it). *)
Example C02_stream_request_example :
  let c := codec_decode (codec_new true) (mkReq false V11 None true false) in
  let r := mkResp 404 None false [] in
  field_values "transfer-encoding" (hd_fields (item_head c r BStream)) = [] /\
  c_conn (item_codec c r BStream) = CClose /\
  read_message false 404 (hd_fields (item_head c r BStream))
               (snd (codec_encode_chunks (item_codec c r BStream) [[97; 98]])) true =
  RComplete FClose [97; 98] 2.
Proof. vm_compute. repeat split. Qed.

(* ------------------------------------------------------------------ translator tie *)
(* Gen/H1EncoderTables.v is regenerated from actix-http/src/h1/{encoder.rs,codec.rs,dispatcher.rs}
   and helpers.rs on every check run (tools/gen/h1_encoder.py): the status rules as written in the
   source, the version comparisons of the F18 rule and of the connection arms, and the literal byte
   strings.  The model decides and emits exactly these (status rules on all codes 0..999): a
   changed literal or rule in the source breaks these obligations, a pattern that no longer
   matches removes the definition they need. *)
Theorem C02_model_matches_source_tables :
  (forall s, s < 1000 -> status_no_body s = H1ENC_NO_BODY_STATUS s) /\
  (forall s, s < 1000 ->
     negb (has_field "content-length" (encode_headers (r_of s) V11 (BSized 5) CKeepAlive)) =
     (H1ENC_HDR_SKIP_STATUS s || (s =? H1ENC_HDR_RETAIN_STATUS))) /\
  (forall v, lt_11 v = H1ENC_CLOSE_DELIMITED_VER (vnum v) /\ lt_11 v = H1ENC_HTTP10_RESPONSE_VER (vnum v)) /\
  CRLF ++ first_line (encode_headers (r_of 200) V11 BStream CKeepAlive) = H1ENC_TE_CHUNKED /\
  first_line (encode_headers (r_of 200) V11 BNone CClose) = H1ENC_CONN_CLOSE /\
  snd (te_encode (TChunked false) []) = H1ENC_LAST_CHUNK /\
  render_head cont_head = H1DISP_CONTINUE.
Proof. exact model_matches_source_tables. Qed.

Theorem C02_model_emits_source_literals :
  (* header lines; the camel-case variants of the source are the same lines up to ASCII case *)
  (CRLF ++ first_line (encode_headers (r_of 200) V11 (BSized 0) CKeepAlive) = H1ENC_CL_ZERO /\
   CRLF ++ first_line (encode_headers (r_of 200) V11 (BSized 1234567890) CKeepAlive) =
     H1ENC_CL_PREFIX ++ dec 1234567890 ++ H1ENC_CL_SUFFIX /\
   first_line (encode_headers (r_of 200) V11 BNone CUpgrade) = H1ENC_CONN_UPGRADE /\
   first_line (encode_headers (r_of 200) V10 BNone CKeepAlive) = H1ENC_CONN_KEEPALIVE /\
   H1ENC_NO_LEN = CRLF /\ H1ENC_NO_TE_HTTP10 = CRLF /\ H1ENC_NO_TE_NOCHUNK = CRLF /\ H1ENC_HEAD_END = CRLF /\
   map lower_byte H1ENC_TE_CHUNKED_CAMEL = H1ENC_TE_CHUNKED /\
   map lower_byte H1ENC_CL_ZERO_CAMEL = H1ENC_CL_ZERO /\
   map lower_byte H1ENC_CL_PREFIX_CAMEL = H1ENC_CL_PREFIX /\
   map lower_byte H1ENC_CONN_UPGRADE_CAMEL = H1ENC_CONN_UPGRADE /\
   map lower_byte H1ENC_CONN_KEEPALIVE_CAMEL = H1ENC_CONN_KEEPALIVE /\
   map lower_byte H1ENC_CONN_CLOSE_CAMEL = H1ENC_CONN_CLOSE) /\
  (* status line prefixes *)
  (firstn 9 (status_line V11 200) = H1ENC_STATUS_LINE_11 /\ firstn 9 (status_line V10 200) = H1ENC_STATUS_LINE_10) /\
  (* chunk syntax: terminator from encode and from encode_eof, "{:X}\r" + newline, data, CRLF *)
  (te_encode_eof (TChunked false) = Some (TChunked true, H1ENC_LAST_CHUNK) /\
   snd (te_encode (TChunked false) (repeat 97 255)) =
     hex_ff ++ H1ENC_CHUNK_SIZE_FMT_SUFFIX ++ [10] ++ repeat 97 255 ++ H1ENC_CHUNK_END) /\
  (* connection arms: keep-alive line iff version < 1.1, close line iff version >= 1.1 *)
  (forall v, has_field "connection" (encode_headers (r_of 200) v BNone CKeepAlive) = H1ENC_CONN_KEEPALIVE_VER (vnum v) /\
             has_field "connection" (encode_headers (r_of 200) v BNone CClose) = H1ENC_CONN_CLOSE_VER (vnum v)) /\
  (* 304 arm: a user content-length is retained exactly for the generated status *)
  (forall s, s < 1000 ->
     has_field "content-length" (encode_headers (mkResp s None false [(str "content-length", str "7")]) V11 BNone CKeepAlive) =
     (s =? H1ENC_HDR_RETAIN_STATUS)) /\
  (* Codec::encode STREAM rule (F18b) *)
  rs_nochunk (stream_adjust (mkCodec true false true V11 CKeepAlive te_empty) (r_of 200) BStream) = H1CODEC_STREAM_NOCHUNK.
Proof.
  split; [pose proof header_literals_match; tauto|]. split; [pose proof status_line_literals_match; tauto|].
  split; [pose proof chunk_literals_match; tauto|].
  split; [intro v; pose proof (version_rules_match v); tauto|].
  split; [intros s Hs; apply Bool.eqb_prop; exact (forallb_statuses _ hdr_retain_status_matches s Hs)|].
  apply stream_rule_matches.
Qed.

(* ------------------------------------------------------------------ upgrade hand-off *)
(* Model H1/UpgradeSeq.v: the sequencing + flush model extended with DispatcherMessage::Upgrade,
   PollResponse::Upgrade and InnerDispatcher::upgrade().  For every schedule of request arrivals
   (k ordinary requests, then the upgrade request, in any interleaving with the other events),
   handler/body polls and socket behaviours (partial writes, Pending): when the dispatcher hands
   the connection to the upgrade service,
     (bytes the socket has accepted) ++ (write_buf moved into the FramedParts)
   is exactly the concatenation of the response units in dispatch order -- one response per
   dispatched request, in request order, never interleaved (well_sequenced) -- so no response
   to a request in front of the upgrade request is dropped and every byte of them precedes
   whatever the upgrade service writes through the Framed; no response is in flight, no request
   queued, the connection has not failed; io is handed over, read_buf arrives as the decoder left
   it and the codec carries the context of the upgrade request. *)
Theorem C02_upgrade_handoff_nothing_dropped :
  forall (reqs : list reqctx) (hs : list hscript) (wbs : N) (ka : bool) (ues : list uevent) (h : handoff),
  uarr_ok O ues ->
  let u := urun reqs hs wbs (uinit ka) ues in
  u_ho u = Some h ->
  let d := w_d (u_w u) in let fs := w_f (u_w u) in
  s_wire fs ++ p_write_buf (ho_parts h) = units_bytes (d_out d) /\
  well_sequenced (d_out d) /\
  (forall j hd, In (UHead (Some j) hd) (d_out d) -> In j (d_started d)) /\
  StronglySorted lt (d_started d) /\
  d_st d = SNone /\ d_msgs d = [] /\ d_fail d = None /\ s_failed fs = false /\
  p_io (ho_parts h) = true /\
  u_upg u = Some (ho_req h, p_read_buf (ho_parts h)) /\
  current_context (p_codec (ho_parts h)) = request_context (d_codec d) (req_of reqs (ho_req h)).
Proof. exact handoff_nothing_dropped. Qed.

(* after the hand-off the dispatcher is gone: whatever events follow, nothing is appended,
   flushed, dispatched or handed over a second time *)
Theorem C02_upgrade_after_handoff_frozen :
  forall (reqs : list reqctx) (hs : list hscript) (wbs : N) (es : list uevent) (u : ustate) (h : handoff),
  u_ho u = Some h ->
  u_w (urun reqs hs wbs u es) = u_w u /\ u_upg (urun reqs hs wbs u es) = u_upg u /\
  exists k, u_ho (urun reqs hs wbs u es) = Some (mkHO (ho_req h) (ho_parts h) k).
Proof. intros reqs hs wbs es u h. apply after_handoff_frozen. Qed.

(* the fields the model moves into the FramedParts are the ones the source moves (statement
   list of fn upgrade read by tools/gen/h1_encoder.py): io, codec, read_buf, write_buf *)
Theorem C02_upgrade_moves_match_source :
  map ufield_code upgrade_moves = H1DISP_UPGRADE_MOVES /\
  forall c rb wb, upgrade_parts upgrade_moves c rb wb =
    mkParts (moved_code MvIo H1DISP_UPGRADE_MOVES)
            (if moved_code MvCodec H1DISP_UPGRADE_MOVES then c else codec_new true)
            (if moved_code MvReadBuf H1DISP_UPGRADE_MOVES then rb else [])
            (if moved_code MvWriteBuf H1DISP_UPGRADE_MOVES then wb else []).
Proof. split; [exact upgrade_moves_match|exact upgrade_parts_from_source]. Qed.

(* non-vacuity: GET with a pending handler, the websocket handshake decoded meanwhile and queued;
   nothing flushed: the whole response travels in the handed-over write_buf *)
Example C02_upgrade_example :
  let reqs := [mkReq false V11 None false false; mkReq false V11 (Some CUpgrade) true false] in
  let hs := [mkH 1 false (mkResp 200 None false []) KPlain (BSized 2) [BChunk [97; 98]]] in
  let es := [UEv (WArrive 0); UUpg 1 [129; 0]; UEv WTick; UEv WTick; UEv WTick; UEv WTick] in
  let u := urun reqs hs 32768 (uinit true) es in
  uarr_ok O es /\
  exists h, u_ho u = Some h /\ ho_req h = 1%nat /\ s_wire (w_f (u_w u)) = [] /\
            lenN (p_write_buf (ho_parts h)) = lenN (units_bytes (d_out (w_d (u_w u)))) /\
            p_write_buf (ho_parts h) <> [] /\ p_read_buf (ho_parts h) = [129; 0] /\
            d_started (w_d (u_w u)) = [O].
Proof.
  cbv zeta. split; [cbn; tauto|]. eexists. split; [vm_compute; reflexivity|].
  vm_compute. repeat split; discriminate.
Qed.

(* ------------------------------------------------------------------ non-vacuity *)
(* two pipelined requests, the second decoded while the first handler is pending; a streaming
   body with an empty chunk in the middle; the wire is what a client decodes as "abcd" and "" *)
Example C02_example :
  let reqs := [mkReq false V11 None false false; mkReq false V11 None false false] in
  let hs := [mkH 1 false (mkResp 200 None false []) KPlain BStream [BChunk [97; 98]; BChunk []; BChunk [99; 100]];
             mkH 0 false (mkResp 204 None false []) KPlain (BSized 0) []] in
  let es := [EvArrive 0; EvTick; EvArrive 1; EvTick; EvTick; EvTick; EvTick; EvTick; EvTick; EvFlush 1000] in
  let d := run reqs hs 32768 (d_init true) es in
  arr_ok O es /\ d_started d = [O; 1%nat] /\ d_st d = SNone /\ d_wbuf d = 0 /\
  concat (map (fun u => match u with UData O b => b | _ => [] end) (d_out d)) =
    str "2" ++ CRLF ++ [97; 98] ++ CRLF ++ str "2" ++ CRLF ++ [99; 100] ++ CRLF ++ str "0" ++ CRLF ++ CRLF.
Proof. cbv zeta. split; [cbn; tauto|]. vm_compute. repeat split. Qed.
