(* C02 — HTTP/1 responses: one per request, in order, self-framed, body-faithful.
   Only statements here; proofs live in H1/EncoderProofs.v and H1/RespSeqProofs.v.
   Models: H1/Encoder.v (Codec::encode, MessageEncoder::encode, encode_headers, TransferEncoding;
   the tree with fixes F1, F2, F12, F18, F23 applied), H1/RespSeq.v (dispatcher response state machine
   at event granularity).  Specification: H1/RespSpec.v (independent RFC 7230 response reader). *)
From Coq Require Import String Sorting.Sorted.
From AV Require Import Lib.Base H1.Encoder H1.RespSpec H1.RespSeq H1.EncoderProofs H1.RespSeqProofs.
Open Scope N_scope.

(* ------------------------------------------------------------------ body-faithful, self-framed *)
(* For every request context that is not HEAD (and not a CONNECT/upgrade stream: known class
   F18b), every response whose status may carry a body, every declared size and EVERY chunk list
   (empty chunks included): the independent reader, given the emitted head fields and the bytes
   produced by Chunk(Some)* then Chunk(None), decodes exactly the concatenation of the chunks,
   cut to the declared size, and consumes exactly the bytes written.  If the body ends short of
   its declared size, Chunk(None) is an error (the dispatcher aborts the connection) and what was
   written never reads as a complete message, whether or not the connection is closed.
   Excluded: the handler opted out of framing (no_chunking on a streaming body) AND set its own
   Content-Length / Transfer-Encoding, which then is the framing. *)
Theorem C02_te_roundtrip : forall (c : codec) (r : resp) (sz : bsize) (chunks : list bytes),
  c_head c = false -> c_stream c = false ->
  no_body_status (rs_status r) = false ->
  lower_names (rs_headers r) ->
  (rs_nochunk r = true -> sz = BStream ->
   user_has "transfer-encoding" r = false /\ user_has "content-length" r = false) ->
  (forall n, sz = BSized n -> n < 2 ^ 64) ->
  Forall (fun b => lenN b < 2 ^ 64) chunks ->
  sz <> BNone ->
  let fields := hd_fields (item_head c r sz) in
  let c2 := fst (codec_encode_chunks (item_codec c r sz) chunks) in
  let body := snd (codec_encode_chunks (item_codec c r sz) chunks) in
  match codec_encode_eof c2 with
  | Some (_, tail) =>
      (forall n, sz = BSized n -> n <= lenN (concat chunks)) /\
      exists f, read_message false (rs_status r) fields (body ++ tail) true =
                RComplete f (cut sz (concat chunks)) (lenN (body ++ tail))
  | None =>
      exists n, sz = BSized n /\ lenN (concat chunks) < n /\
                forall closed, read_message false (rs_status r) fields body closed = RIncomplete
  end.
Proof. exact te_roundtrip. Qed.

(* the same fact read the other way: a short body is an error, never a complete-looking message *)
Theorem C02_short_body_is_error : forall (c : codec) (r : resp) (n : N) (chunks : list bytes),
  c_head c = false -> c_stream c = false -> no_body_status (rs_status r) = false ->
  lower_names (rs_headers r) -> n < 2 ^ 64 -> Forall (fun b => lenN b < 2 ^ 64) chunks ->
  lenN (concat chunks) < n ->
  let c1 := item_codec c r (BSized n) in
  codec_encode_eof (fst (codec_encode_chunks c1 chunks)) = None /\
  forall closed, read_message false (rs_status r) (hd_fields (item_head c r (BSized n)))
                              (snd (codec_encode_chunks c1 chunks)) closed = RIncomplete.
Proof.
  intros c r n chunks Hh Hs Hst Hl Hn Hc Hshort c1.
  pose proof (te_roundtrip c r (BSized n) chunks Hh Hs Hst Hl) as H.
  cbv zeta in H. fold c1 in H.
  destruct (codec_encode_eof (fst (codec_encode_chunks c1 chunks))) as [[c3 tail]|].
  - destruct H as [Hge _]; try discriminate; auto.
    + intros m Hm. inversion Hm; subst. exact Hn.
    + specialize (Hge n eq_refl). lia.
  - destruct H as (m & Hm & _ & Hr); try discriminate; auto.
    intros m Hm. inversion Hm; subst. exact Hn.
Qed.

(* ------------------------------------------------------------------ no body for HEAD / 1xx / 204 *)
(* Whatever body the handler supplies: after the head of a response to a HEAD request, or of a
   1xx (other than 101 Switching Protocols) or 204 response, no byte is written for any chunk list
   and end-of-body is accepted; and the reader, told the method, expects no body. *)
Theorem C02_no_body_bytes : forall (c : codec) (r : resp) (sz : bsize) (chunks : list bytes),
  c_head c = true \/ status_no_body (rs_status r) = true ->
  codec_encode_chunks (item_codec c r sz) chunks = (item_codec c r sz, []) /\
  codec_encode_eof (item_codec c r sz) = Some (item_codec c r sz, []) /\
  forall fields after closed,
    read_message (c_head c) (rs_status r) fields after closed = RComplete FNoBody [] 0.
Proof.
  intros c r sz chunks H. destruct (no_body_bytes c r sz chunks H) as [H1 H2].
  split; [exact H1|]. split; [exact H2|]. intros. apply reader_no_body.
  destruct H as [H|H]; [left; exact H|right].
  unfold status_no_body in H. unfold no_body_status, is_informational in *.
  apply orb_true_iff in H as [H|H]; [apply andb_true_iff in H as [H _]; rewrite H; reflexivity|].
  rewrite H. rewrite orb_true_r. reflexivity.
Qed.

(* 304 is NOT covered: the faithful model writes the body of a 304 (the repository's own test
   not_modified_spec_h1 pins this), although a client never reads a body after 304. *)
Definition Known_304_with_body (r : resp) (sz : bsize) : Prop :=
  rs_status r = 304 /\ sz <> BNone /\ sz <> BSized 0.
Theorem C02_refuted_304_body : exists (c : codec) (r : resp) (sz : bsize) (chunks : list bytes),
  Known_304_with_body r sz /\ c_head c = false /\
  snd (codec_encode_chunks (item_codec c r sz) chunks) <> [] /\
  read_message false (rs_status r) (hd_fields (item_head c r sz))
               (snd (codec_encode_chunks (item_codec c r sz) chunks)) true = RComplete FNoBody [] 0.
Proof.
  exists (codec_decode (codec_new true) (mkReq false V11 None false false)),
         (mkResp 304 None false []), (BSized 2), [[97; 98]].
  repeat split; try discriminate; try (vm_compute; discriminate); try (vm_compute; reflexivity).
Qed.

(* ------------------------------------------------------------------ HTTP/1.0 is never chunk-framed *)
Theorem C02_http10_never_chunked : forall (c : codec) (r : resp) (sz : bsize),
  c_ver c = V10 ->
  (forall e, c_te (item_codec c r sz) <> TChunked e) /\
  (lower_names (rs_headers r) ->
   rs_nochunk r = false \/ user_has "transfer-encoding" r = false ->
   rs_status r <> 304 ->
   field_values "transfer-encoding" (hd_fields (item_head c r sz)) = []).
Proof. exact http10_never_chunked. Qed.

(* a body delimited by the end of the connection never leaves the connection in keep-alive *)
Theorem C02_close_delimited_closes : forall (c : codec) (r : resp) (sz : bsize),
  c_te (item_codec c r sz) = TEof -> c_conn (item_codec c r sz) <> CKeepAlive.
Proof.
  intros c r sz. unfold item_codec, codec_encode_item, msg_encode. cbn [fst c_te c_conn].
  intros ->. cbn [te_is_eof]. rewrite andb_true_r.
  destruct (rs_conn r) as [[| |]|]; try discriminate;
    destruct (c_conn c); cbn [conn_eqb]; discriminate.
Qed.

(* ------------------------------------------------------------------ user framing headers *)
(* Unless the handler opted out (no_chunking with a streaming body) or the response is a 304
   (documented retention of a manual content-length): the head is
   [generated length field] ++ [generated connection field] ++ user headers ++ date, where the
   user part contains no Content-Length, Transfer-Encoding or Connection field. *)
Theorem C02_user_framing_headers_ignored : forall (c : codec) (r : resp) (sz : bsize),
  lower_names (rs_headers r) ->
  rs_status r <> 304 ->
  (rs_nochunk r = false \/ sz <> BStream \/ (is_informational (rs_status r) || (rs_status r =? 204)) = true) ->
  let fields := hd_fields (item_head c r sz) in
  let ct := c_conn (item_codec c r sz) in
  exists len_fields,
    fields = len_fields ++ conn_fields ct (c_ver c) ++ user_fields true r ++ date_fields r /\
    field_values "transfer-encoding" (user_fields true r) = [] /\
    field_values "content-length" (user_fields true r) = [] /\
    field_values "connection" (user_fields true r) = [] /\
    (len_fields = [] \/ len_fields = [(str "transfer-encoding", str "chunked")] \/
     exists n, sz = BSized n /\ len_fields = [(str "content-length", dec n)]).
Proof. exact user_framing_headers_ignored. Qed.

(* ------------------------------------------------------------------ one per request, in order *)
(* For EVERY event schedule (arrivals of requests 0,1,2,... interleaved arbitrarily with handler /
   body polls, socket flushes, a malformed request), every handler and body script and every
   write-buffer size: what is appended to write_buf is well-sequenced (responses in strictly
   increasing request order, each contiguous, each with at most one head, 100 Continue only as
   the first unit of its response, body bytes only after their own head); every response head
   answers a request whose service call started; service calls start in request order, each at
   most once, only for requests that arrived; and the socket has taken a prefix of what was
   appended (so the wire is: complete responses, then a prefix of the response in progress). *)
Theorem C02_order_one_per_request :
  forall (reqs : list reqctx) (hs : list hscript) (wbs : N) (ka : bool) (es : list event),
  arr_ok O es ->
  let d := run reqs hs wbs (d_init ka) es in
  well_sequenced (d_out d) /\
  (forall j h, In (UHead (Some j) h) (d_out d) -> In j (d_started d)) /\
  StronglySorted lt (d_started d) /\
  (forall j, In j (d_started d) -> (j < arrivals es)%nat) /\
  d_wbuf d + d_flushed d = lenN (units_bytes (d_out d)).
Proof. exact order_one_per_request. Qed.

(* ------------------------------------------------------------------ own request + own response *)
(* Given a per-request context (the response is encoded right after its own request's context was
   written), head, transfer encoding and connection type are functions of that request, that
   response and the connection-wide settings only: the history of the codec does not matter. *)
Theorem C02_framing_from_own_context : forall (c c' : codec) (rq : reqctx) (r : resp) (sz : bsize),
  c_ka_enabled c = c_ka_enabled c' -> c_stream c = c_stream c' ->
  item_head (codec_decode c rq) r sz = item_head (codec_decode c' rq) r sz /\
  c_te (item_codec (codec_decode c rq) r sz) = c_te (item_codec (codec_decode c' rq) r sz) /\
  c_conn (item_codec (codec_decode c rq) r sz) = c_conn (item_codec (codec_decode c' rq) r sz).
Proof. exact framing_from_own_context. Qed.

(* In the dispatcher (with the F12 repair: the context of the response in flight is restored
   after a request that is only queued has been decoded, and a queued request's context is
   re-derived when it is dispatched) this holds for EVERY schedule, every handler and body
   script: each response head appended to write_buf is the one determined by its own request and
   its own response, whatever else was decoded or answered in between. *)
Definition own_head (ka : bool) (rq : reqctx) (h : hscript) : head :=
  item_head (codec_decode (codec_new ka) rq) (h_resp h) (h_size h).

Theorem C02_framing_depends_only_on_own_request :
  forall (reqs : list reqctx) (hs : list hscript) (wbs : N) (ka : bool) (es : list event),
  Forall (fun r => rq_stream r = false) reqs ->
  forall j h, In (UHead (Some j) h) (d_out (run reqs hs wbs (d_init ka) es)) ->
  h = own_head ka (nth j reqs dflt_req) (nth j hs dflt_h).
Proof. intros reqs hs wbs ka es Hs j h Hin. exact (heads_from_own_context reqs hs wbs ka Hs es j h Hin). Qed.

(* the former F12 witness (GET /0 pending, HEAD /1 decoded meanwhile, then handler 0 completes):
   response 0 now carries its 2-byte body, response 1 (HEAD) none *)
Example C02_pipelined_context_example :
  let reqs := [mkReq false V11 None false false; mkReq true V10 None false false] in
  let hs := [mkH 1 false (mkResp 200 None false []) KPlain (BSized 2) [BChunk [97; 98]];
             mkH 0 false (mkResp 200 None false []) KPlain (BSized 2) [BChunk [99; 100]]] in
  let es := [EvArrive 0; EvTick; EvArrive 1; EvTick; EvTick; EvTick; EvTick; EvTick; EvTick] in
  let d := run reqs hs 32768 (d_init true) es in
  map (fun u => match u with UData j b => (j, b) | UHead (Some j) h => (j, firstn 8 (hd_status_line h)) | _ => (O, []) end) (d_out d) =
  [(O, str "HTTP/1.1"); (O, [97; 98]); (O, []); (1%nat, str "HTTP/1.0"); (1%nat, []); (1%nat, [])].
Proof. vm_compute. reflexivity. Qed.

(* ------------------------------------------------------------------ further known class *)
(* F18b: for a CONNECT / websocket-upgrade request (codec STREAM flag) answered with a streaming
   body and a status that may carry a body, the head announces chunked but the body is written
   raw: the reader cannot decode it (here: it waits for 0xab chunk bytes that never come). *)
Theorem C02_refuted_stream_request_chunked_header :
  exists (c : codec) (r : resp) (chunks : list bytes) (tail : bytes),
    c_stream c = true /\ c_head c = false /\ no_body_status (rs_status r) = false /\
    codec_encode_eof (fst (codec_encode_chunks (item_codec c r BStream) chunks)) = Some (fst (codec_encode_chunks (item_codec c r BStream) chunks), tail) /\
    read_message false (rs_status r) (hd_fields (item_head c r BStream))
                 (snd (codec_encode_chunks (item_codec c r BStream) chunks) ++ tail) true = RIncomplete.
Proof.
  exists (codec_decode (codec_new true) (mkReq false V11 None true false)),
         (mkResp 404 None false []), [[97; 98]], [].
  repeat split; vm_compute; reflexivity.
Qed.

(* ------------------------------------------------------------------ non-vacuity *)
(* two pipelined requests, the second decoded while the first handler is pending; a streaming
   body with an empty chunk in the middle; the wire is what a client decodes as "abcd" and "" *)
Example C02_example :
  let reqs := [mkReq false V11 None false false; mkReq false V11 None false false] in
  let hs := [mkH 1 false (mkResp 200 None false []) KPlain BStream [BChunk [97; 98]; BChunk []; BChunk [99; 100]];
             mkH 0 false (mkResp 204 None false []) KPlain (BSized 0) []] in
  let es := [EvArrive 0; EvTick; EvArrive 1; EvTick; EvTick; EvTick; EvTick; EvTick; EvTick; EvFlush 1000] in
  let d := run reqs hs 32768 (d_init true) es in
  arr_ok O es /\ d_started d = [O; 1%nat] /\ d_st d = SNone /\ d_wbuf d = 0 /\
  concat (map (fun u => match u with UData O b => b | _ => [] end) (d_out d)) =
    str "2" ++ CRLF ++ [97; 98] ++ CRLF ++ str "2" ++ CRLF ++ [99; 100] ++ CRLF ++ str "0" ++ CRLF ++ CRLF.
Proof. cbv zeta. split; [cbn; tauto|]. vm_compute. repeat split. Qed.
