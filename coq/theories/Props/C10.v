(* C10 — placeholder while the correspondence is being set up *)
From AV Require Import Lib.Base Router.Pattern Router.Match Router.Path Router.ResourceDef Router.Quoter.
