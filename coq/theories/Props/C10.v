(* C10 — Path patterns match exactly their language and capture exactly the matched text.
   Only statements here; proofs live in Router/{MatchProofs,ResourceProofs,QuoterProofs}.v.

   Model: Router/Pattern.v (pattern AST, regex fragment), Router/Match.v (our reading of the
   `regex` crate on the regex `ResourceDef::parse` builds: [accepts] = is_match = "some match
   exists", [m] = captures = leftmost-first greedy backtracking), Router/ResourceDef.v,
   Router/Path.v (u16 arithmetic explicit), Router/Quoter.v.  Spec: Router/Spec.v.
   Strings are ASCII byte strings.  [MAXSEG] = MAX_DYNAMIC_SEGMENTS of resource.rs. *)
From AV Require Import Lib.Base Gen.Consts.
From AV Require Import Router.Pattern Router.Match Router.Path Router.ResourceDef Router.Quoter
  Router.Spec Router.MatchProofs Router.ResourceProofs Router.ResourceProofs2 Router.QuoterProofs
  Router.Utf8 Router.ResourceDefU Router.ResourceProofsU Router.TableProofs.
From AV Require Import Gen.RouterTables.

Definition MAXSEG := ROUTER_MAX_DYNAMIC_SEGMENTS.

(* ------------------------------------------------------------------ 1. three ways of asking *)
(* For every definition built by ResourceDef::new / ::prefix from a single pattern or a pattern
   list (names distinct and non-empty, as the regex crate demands), and every Path whose u16
   fields are in range: find_match, is_match and capture_match_info give the same verdict,
   nothing panics, the matched length is what capture_match_info skips, and a failed match
   leaves the Path untouched. *)
Theorem C10_three_ways_agree : forall ps is_prefix rd pth,
  wf_patterns ps -> construct MAXSEG ps is_prefix = Val rd -> path_ok pth ->
  exists (o : option N) (pth' : path),
    let s := unprocessed pth in
    find_match rd s = Val o /\
    is_match rd s = isSome o /\
    capture_match_info MAXSEG rd pth = Val (isSome o, pth') /\
    match o with
    | Some n => (N.to_nat n <= length s)%nat /\ path_ok pth' /\
                unprocessed pth' = skipn (N.to_nat n) s /\ p_path pth' = p_path pth
    | None => pth' = pth
    end.
Proof. intros ps pre rd pth WF C OK. exact (three_ways_agree MAXSEG ps pre rd pth WF C OK). Qed.

(* ---------------------------------------------- 2. the matcher against the pattern's language *)
(* is_match on the compiled regex holds exactly when some prefix of the path is an instance of
   the pattern ending where the suffix rule allows ($ / (/|$) / anywhere after a tail) *)
Theorem C10_is_match_iff_language : forall is_prefix p s,
  re_is_match (compile is_prefix p) s = true <-> exists n ws, Matches is_prefix p s n ws.
Proof.
  intros pre p s. split; [apply is_match_sound|]. intros (n & ws & M). eapply is_match_complete; exact M.
Qed.

(* captures succeeds exactly when is_match does, and what it returns is an instance of the
   pattern: group 1 = the matched prefix, the named groups = the byte spans of the segments'
   words *)
Theorem C10_captures_sound : forall is_prefix p s cs,
  re_captures (compile is_prefix p) s = Some cs ->
  exists n ws, Matches is_prefix p s n ws /\ cs = spans 0 (p_segs p) ws ++ [(group1, 0%nat, n)].
Proof. exact captures_sound. Qed.

Theorem C10_captures_complete : forall is_prefix p s n ws,
  Matches is_prefix p s n ws -> exists cs, re_captures (compile is_prefix p) s = Some cs.
Proof. exact captures_complete. Qed.

(* leftmost-first = greedy priority: what `captures` returns is the replay ([exec]) of the
   lexicographically GREATEST tuple of repetition counts among all the ways the regex can match
   ([Run]): every quantified class takes as much as it can, earlier ones having priority *)
Theorem C10_leftmost_greedy : forall its s pos oa cs res,
  m its s pos oa cs = Some res ->
  exists ks, Run its s ks /\ exec its s ks pos oa cs = Some res /\
             forall ks', Run its s ks' -> lex_le ks' ks.
Proof. exact m_leftmost_greedy. Qed.

(* one dynamic pattern through the ResourceDef API *)
Theorem C10_find_match_sound : forall is_prefix p rd s n,
  wf_pattern p -> is_static p = false -> construct MAXSEG (Single p) is_prefix = Val rd ->
  find_match rd s = Val (Some n) -> exists ws, Matches is_prefix p s (N.to_nat n) ws.
Proof. exact (find_match_dynamic_sound MAXSEG). Qed.

Theorem C10_find_match_complete : forall is_prefix p rd s n ws,
  wf_pattern p -> is_static p = false -> construct MAXSEG (Single p) is_prefix = Val rd ->
  Matches is_prefix p s n ws -> exists n', find_match rd s = Val (Some n') /\ is_match rd s = true.
Proof. exact (find_match_dynamic_complete MAXSEG). Qed.

(* static text matches itself and nothing else (a prefix resource: itself followed by the end of
   the path or by '/') *)
Theorem C10_static_matches_itself : forall is_prefix p rd s,
  is_static p = true -> construct MAXSEG (Single p) is_prefix = Val rd ->
  (is_match rd s = true <->
   exists rem, s = pattern_text p ++ rem /\
     (if is_prefix then rem = [] \/ (exists t, rem = 47 :: t) else rem = [])) /\
  (is_match rd s = true -> find_match rd s = Val (Some (lenN (pattern_text p)))).
Proof. exact (static_matches_itself MAXSEG). Qed.

(* the default dynamic segment matches a non-empty run without '/' *)
Theorem C10_default_segment : forall is_prefix p s n ws nm w,
  wf_pattern p -> Matches is_prefix p s n ws ->
  In (SVar nm default_re) (p_segs p) -> In (nm, w) (values (p_segs p) ws) ->
  w <> [] /\ ~ In 47 w.
Proof. exact default_segment_value. Qed.

(* prefix resources stop only at a segment boundary; full resources match all or nothing *)
Theorem C10_prefix_boundary : forall p rd s n,
  wf_pattern p -> p_tail p = false -> construct MAXSEG (Single p) true = Val rd ->
  find_match rd s = Val (Some n) ->
  N.to_nat n = length s \/ nth_error s (N.to_nat n) = Some 47.
Proof. exact (prefix_boundary MAXSEG). Qed.

Theorem C10_full_match_is_total : forall p rd s n,
  wf_pattern p -> p_tail p = false -> construct MAXSEG (Single p) false = Val rd ->
  find_match rd s = Val (Some n) -> N.to_nat n = length s.
Proof. exact (full_match_is_total MAXSEG). Qed.

(* ------------------------------------------------------- 3. captured values are substrings *)
(* a successful capture_match_info with one dynamic pattern appends, for every dynamic segment,
   the u16 offsets of its word; reading them back (`Path::iter`, slicing the path at the stored
   offsets) yields the earlier parameters followed by exactly the words of the decomposition;
   and building the pattern from those values gives back the matched prefix *)
Theorem C10_captures_are_substrings : forall is_prefix p rd pth pth',
  wf_pattern p -> is_static p = false -> construct MAXSEG (Single p) is_prefix = Val rd ->
  path_ok pth -> capture_match_info MAXSEG rd pth = Val (true, pth') ->
  exists n ws,
    Matches is_prefix p (unprocessed pth) n ws /\
    find_match rd (unprocessed pth) = Val (Some (N.of_nat n)) /\
    path_iter pth' = rbind (path_iter pth) (fun old => Val (old ++ values (p_segs p) ws)) /\
    resource_path_from_iter rd (map snd (values (p_segs p) ws)) = (true, firstn n (unprocessed pth)).
Proof.
  intros pre p rd pth pth' WF NS C OK H.
  destruct (capture_single_dynamic MAXSEG pre p rd pth pth' WF NS C OK H) as (n & ws & Cp & FM).
  exists n, ws. pose proof Cp as (M & _). split; [exact M|]. split; [exact FM|]. split.
  - exact (captured_values pre p pth n ws pth' OK Cp).
  - cbn [construct] in C. unfold parse in C. rewrite NS in C. cbn [negb andb] in C.
    destruct (MAXSEG <? lenN (var_names (p_segs p))); [discriminate|]. cbn [rbind fst snd] in C.
    inversion C. unfold resource_path_from_iter. cbn [rd_segments]. eapply rebuild_matched_prefix. exact M.
Qed.

(* any constructed definition (static, dynamic, pattern list): a successful capture is a match
   of ONE member pattern -- for a list the FIRST member that matches at all -- it skips exactly
   the matched length and appends exactly that member's segment spans, shifted by the old skip
   ([captured]); this is the interface the routing property C09 builds on *)
Theorem C10_capture_detailed : forall ps is_prefix rd pth pth',
  wf_patterns ps -> construct MAXSEG ps is_prefix = Val rd -> path_ok pth ->
  capture_match_info MAXSEG rd pth = Val (true, pth') ->
  exists idx p n ws,
    nth_error (members ps) idx = Some p /\
    (Matches is_prefix p (unprocessed pth) n ws /\
     pth' = mkPath (p_path pth) (p_skip pth + N.of_nat n)
                   (p_segments pth ++ map (shift_item (p_skip pth)) (spans 0 (p_segs p) ws))) /\
    (forall j q, (j < idx)%nat -> nth_error (members ps) j = Some q ->
                 forall n' ws', ~ Matches is_prefix q (unprocessed pth) n' ws').
Proof. exact (capture_detailed MAXSEG). Qed.

(* the same for EVERY constructed definition, pattern lists included: the parameters appended
   by a successful capture are exactly the words of a decomposition of the matched prefix along
   the member that matched (the first member that matches at all); building that member from
   them, in order or by name, gives the matched prefix back; `resource_path_from_iter/_from_map`
   of the definition itself use the segments of the FIRST member (as the code does), hence give
   the matched prefix when that member is the one that matched *)
Theorem C10_captures_are_substrings_any : forall ps is_prefix rd pth pth',
  wf_patterns ps -> construct MAXSEG ps is_prefix = Val rd -> path_ok pth ->
  capture_match_info MAXSEG rd pth = Val (true, pth') ->
  exists idx p n ws,
    let u := unprocessed pth in
    let vals := values (p_segs p) ws in
    nth_error (members ps) idx = Some p /\ Matches is_prefix p u n ws /\
    (forall j q, (j < idx)%nat -> nth_error (members ps) j = Some q ->
                 forall n' ws', ~ Matches is_prefix q u n' ws') /\
    path_iter pth' = rbind (path_iter pth) (fun old => Val (old ++ vals)) /\
    unprocessed pth' = skipn n u /\
    build_from_iter (p_segs p) (map snd vals) [] = (true, firstn n u) /\
    build_from_map (p_segs p) vals [] = (true, firstn n u) /\
    (idx = 0%nat -> resource_path_from_iter rd (map snd vals) = (true, firstn n u) /\
                    resource_path_from_map rd vals = (true, firstn n u)).
Proof. exact (captures_are_substrings_any MAXSEG). Qed.

(* build_resource_path, both ways of supplying the values: from the (name, value) pairs of any
   match of the pattern -- looked up by name or consumed in order -- it writes the matched text;
   a map with additional entries does as well *)
Theorem C10_build_from_match : forall is_prefix p s n ws,
  NoDup (var_names (p_segs p)) -> Matches is_prefix p s n ws ->
  build_from_map (p_segs p) (values (p_segs p) ws) [] = (true, firstn n s) /\
  build_from_iter (p_segs p) (map snd (values (p_segs p) ws)) [] = (true, firstn n s).
Proof. exact build_from_match. Qed.

Theorem C10_build_from_map_ext : forall is_prefix p s n ws vals,
  Matches is_prefix p s n ws ->
  (forall nm w, In (nm, w) (values (p_segs p) ws) -> assoc nm vals = Some w) ->
  build_from_map (p_segs p) vals [] = (true, firstn n s).
Proof. exact build_from_map_ext. Qed.

(* ---------------------------------------------------------------------------- 4. round trip *)
(* FULL STATEMENT (false in general, see the counter-example below): for every pattern and
   values in the segments' languages, matching the built path returns those values.
   Proved: for full, non-tail patterns that are DELIMITED (every dynamic segment is followed by
   the end of the pattern or by constant text whose first byte its language excludes). *)
Theorem C10_roundtrip : forall p ws rd,
  wf_pattern p -> is_static p = false -> p_tail p = false ->
  delimited (fun _ => true) (p_segs p) = true ->
  decomp (p_segs p) ws -> lenN (concat ws) <= u16_max ->
  construct MAXSEG (Single p) false = Val rd ->
  resource_path_from_iter rd (map snd (values (p_segs p) ws)) = (true, concat ws) /\
  exists pth', capture_match_info MAXSEG rd (path_new (concat ws)) = Val (true, pth') /\
    path_iter pth' = Val (values (p_segs p) ws) /\ unprocessed pth' = [].
Proof. exact (roundtrip MAXSEG). Qed.

(* tail patterns `.../{t}*` (full resource): the segments before the tail are delimited, the
   tail value is arbitrary and may contain '/' (the tail takes everything that is left) *)
Theorem C10_roundtrip_tail : forall p front t ws rd,
  wf_pattern p -> p_tail p = true -> p_segs p = front ++ [SVar t tail_re] ->
  delimited (fun _ => true) (p_segs p) = true ->
  decomp (p_segs p) ws -> lenN (concat ws) <= u16_max ->
  construct MAXSEG (Single p) false = Val rd ->
  resource_path_from_iter rd (map snd (values (p_segs p) ws)) = (true, concat ws) /\
  exists pth', capture_match_info MAXSEG rd (path_new (concat ws)) = Val (true, pth') /\
    path_iter pth' = Val (values (p_segs p) ws) /\ unprocessed pth' = [].
Proof. exact (roundtrip_tail MAXSEG). Qed.

(* prefix resources (non-tail): delimited, and a dynamic segment in last position excludes '/' *)
Theorem C10_roundtrip_prefix : forall p ws rd,
  wf_pattern p -> is_static p = false -> p_tail p = false ->
  delimited (re_excludes 47) (p_segs p) = true ->
  decomp (p_segs p) ws -> lenN (concat ws) <= u16_max ->
  construct MAXSEG (Single p) true = Val rd ->
  resource_path_from_iter rd (map snd (values (p_segs p) ws)) = (true, concat ws) /\
  exists pth', capture_match_info MAXSEG rd (path_new (concat ws)) = Val (true, pth') /\
    path_iter pth' = Val (values (p_segs p) ws) /\ unprocessed pth' = [].
Proof. exact (roundtrip_prefix MAXSEG). Qed.

(* "/{a}-{b}" built from a = "x", b = "y-z" is "/x-y-z", which matches back as a = "x-y",
   b = "z": without the delimiter hypothesis the round trip fails for any matcher *)
Definition pat_ab : pattern :=
  mkPattern [SConst [47]; SVar [97] default_re; SConst [45]; SVar [98] default_re] false.

Theorem C10_roundtrip_needs_delimiter :
  exists p ws rd pth',
    wf_pattern p /\ decomp (p_segs p) ws /\ construct MAXSEG (Single p) false = Val rd /\
    capture_match_info MAXSEG rd (path_new (concat ws)) = Val (true, pth') /\
    path_iter pth' <> Val (values (p_segs p) ws).
Proof.
  exists pat_ab, [[47]; [120]; [45]; [121; 45; 122]].
  eexists. eexists. split; [|split; [|split; [vm_compute; reflexivity | split; [vm_compute; reflexivity|]]]].
  - split; cbn; [repeat constructor; cbn; intuition discriminate | intuition discriminate].
  - repeat constructor; apply default_re_lang; split; (discriminate || reflexivity).
  - vm_compute. discriminate.
Qed.

(* ------------------------------------------------------------------------- 5. u16 offsets *)
(* `Path::new` on a path shorter than 2^16 bytes satisfies [path_ok]; by C10_three_ways_agree
   every capture then keeps it, no `as u16` conversion truncates and no u16 addition overflows
   (no Panic), and by C10_captures_are_substrings `get`/`iter` return the captured words *)
Theorem C10_u16_offsets : forall s, lenN s <= u16_max -> path_ok (path_new s) /\ unprocessed (path_new s) = s.
Proof.
  intros s H. split; [split; cbn [path_new p_skip p_path]; [lia | exact H]|].
  unfold unprocessed, path_new. cbn [p_skip p_path]. rewrite N.min_l by lia. reflexivity.
Qed.

(* beyond the limit the matched length is truncated: on "/" ++ "c"*65536 the pattern "/{a}"
   matches all 65537 bytes (find_match), but capture_match_info skips 65537 mod 2^16 = 1 *)
Theorem C10_u16_truncates_beyond_limit :
  let p := mkPattern [SConst [47]; SVar [97] default_re] false in
  let s := 47 :: repeat 99 (N.to_nat 65536) in
  match construct MAXSEG (Single p) false with
  | Val rd =>
      find_match rd s = Val (Some 65537) /\
      match capture_match_info MAXSEG rd (path_new s) with
      | Val (true, pth') => p_skip pth' = 1 /\ lenN (unprocessed pth') = 65536
      | _ => False
      end
  | Panic => False
  end.
Proof. vm_compute. split; [reflexivity | split; reflexivity]. Qed.

(* ------------------------------------------------------------------------------ 6. requote *)
(* for every protected set accepted by Quoter::new (ASCII): requote is the left-to-right
   reference decoder; None exactly when nothing was decoded; a decoded result is strictly
   shorter *)
Theorem C10_requote_exact : forall prot q s,
  quoter_new prot = Val q ->
  match requote q s with
  | None => spec_decode prot s = s
  | Some d => d = spec_decode prot s /\ (length d < length s)%nat
  end.
Proof.
  intros prot q s H. unfold quoter_new in H. destruct (forallb (fun ch => ch <? 128) prot) eqn:E; [|discriminate].
  inversion H; subst q. exact (requote_exact prot E s).
Qed.

Theorem C10_requote_never_lengthens : forall prot q s,
  quoter_new prot = Val q -> (length (requote_full q s) <= length s)%nat.
Proof.
  intros prot q s H. unfold quoter_new in H. destruct (forallb (fun ch => ch <? 128) prot) eqn:E; [|discriminate].
  inversion H; subst q. rewrite (requote_full_spec prot E). apply spec_decode_length; exact E.
Qed.

(* a decodable escape is replaced by its byte and decoding resumes after it: "%2541" -> "%41" *)
Theorem C10_requote_no_double_decode : forall prot q p1 p2 rem,
  quoter_new prot = Val q -> is_hex p1 = true -> is_hex p2 = true ->
  existsb (fun x => x =? hex_val p1 * 16 + hex_val p2) prot = false ->
  requote_full q (37 :: p1 :: p2 :: rem) = (hex_val p1 * 16 + hex_val p2) :: requote_full q rem.
Proof.
  intros prot q p1 p2 rem H H1 H2 H3. unfold quoter_new in H.
  destruct (forallb (fun ch => ch <? 128) prot) eqn:E; [|discriminate]. inversion H; subst q.
  rewrite !(requote_full_spec prot E). apply no_double_decode; assumption.
Qed.

(* the number of occurrences of a protected byte (other than '%' and the hex digits, whose
   occurrences inside escapes necessarily disappear) is unchanged, and decoding never crosses
   such a byte: with '/' protected the segment structure of a path is preserved *)
Theorem C10_requote_preserves_protected : forall prot q x s,
  quoter_new prot = Val q -> In x prot -> x <> 37 -> is_hex x = false ->
  count_occ N.eq_dec (requote_full q s) x = count_occ N.eq_dec s x.
Proof.
  intros prot q x s H I N37 NH. unfold quoter_new in H.
  destruct (forallb (fun ch => ch <? 128) prot) eqn:E; [|discriminate]. inversion H; subst q.
  rewrite (requote_full_spec prot E). apply protected_count_preserved; assumption.
Qed.

Theorem C10_requote_splits_at_protected : forall prot q x a b,
  quoter_new prot = Val q -> In x prot -> x <> 37 -> is_hex x = false ->
  requote_full q (a ++ x :: b) = requote_full q a ++ x :: requote_full q b.
Proof.
  intros prot q x a b H I N37 NH. unfold quoter_new in H.
  destruct (forallb (fun ch => ch <? 128) prot) eqn:E; [|discriminate]. inversion H; subst q.
  rewrite !(requote_full_spec prot E). apply decode_splits_at_protected; assumption.
Qed.

(* --------------------------------------------------------- 7. all valid UTF-8 paths (no ASCII restriction) *)
(* A `&str` is a sequence of Unicode scalar values; the regex consumes whole characters, offsets
   are bytes (Router/Utf8.v, Router/ResourceDefU.v: [p_path] holds scalars, [p_skip] and the
   segment offsets are byte offsets obtained through [utf8_len]).  The matcher theorems of
   section 2 (C10_is_match_iff_language, C10_captures_sound/_complete, C10_leftmost_greedy) and
   the purely pattern-level ones (C10_default_segment, C10_build_from_match, decomp_unique) are
   stated over [list N] and never use that elements are below 256: they hold verbatim for scalar
   strings.  Below: the Path-level statements redone with byte offsets.
   [pathu_ok pth i]: skip = byte offset of character index i, path shorter than 2^16 BYTES. *)
Theorem C10_utf8_three_ways_agree : forall ps is_prefix rd pth i,
  wf_patterns ps -> construct MAXSEG ps is_prefix = Val rd -> pathu_ok pth i ->
  exists (o : option N) (pth' : path),
    let s := skipn i (p_path pth) in
    unprocessed_u pth = Val s /\
    find_match_u rd s = Val o /\
    is_match_u rd s = isSome o /\
    capture_match_info_u MAXSEG rd pth = Val (isSome o, pth') /\
    match o with
    | Some nb => exists n, (n <= length s)%nat /\ nb = N.of_nat (boff s n) /\ pathu_ok pth' (i + n) /\
                           p_path pth' = p_path pth /\ p_skip pth' = p_skip pth + nb
    | None => pth' = pth
    end.
Proof.
  intros ps pre rd pth i WF C OK.
  destruct (three_ways_agree_u MAXSEG ps pre rd pth i WF C OK) as (o & pth' & A & B & D & E).
  exists o, pth'. cbv zeta. split; [exact (unprocessed_u_ok pth i OK)|].
  split; [exact A|]. split; [exact B|]. split; [exact D | exact E].
Qed.

(* captured values are sequences of WHOLE characters: `Path::iter` after a successful capture
   yields the earlier parameters followed by the words of a decomposition of the matched
   characters, each in its segment's language read over scalar values (so `[^/]+` can never
   return half of a multi-byte character), and the Path stays on a character boundary *)
Theorem C10_utf8_captures_whole_characters : forall is_prefix p rd pth i pth',
  wf_pattern p -> is_static p = false -> construct MAXSEG (Single p) is_prefix = Val rd -> pathu_ok pth i ->
  capture_match_info_u MAXSEG rd pth = Val (true, pth') ->
  exists n ws,
    Matches is_prefix p (skipn i (p_path pth)) n ws /\ pathu_ok pth' (i + n) /\
    path_iter_u pth' = rbind (path_iter_u pth) (fun old => Val (old ++ values (p_segs p) ws)) /\
    unprocessed_u pth' = Val (skipn n (skipn i (p_path pth))).
Proof.
  intros pre p rd pth i pth' WF NS C OK H.
  destruct (capture_single_u MAXSEG pre p rd pth i pth' WF NS C OK H) as (n & ws & (M & _) & A & B & D).
  exists n, ws. split; [exact M|]. split; [exact A|]. split; [exact B | exact D].
Qed.

Theorem C10_utf8_new_path_ok : forall s, N.of_nat (blen s) <= u16_max -> pathu_ok (path_new s) 0.
Proof. exact pathu_ok_new. Qed.

(* on ASCII strings byte offsets are character indices (the two models coincide; the
   correspondence driver additionally evaluates both on every ASCII case and compares) *)
Theorem C10_utf8_ascii_offsets : forall s i,
  forallb (fun c => c <? 128) s = true -> (i <= length s)%nat -> boff s i = i /\ blen s = length s.
Proof. intros s i H L. split; [apply boff_ascii; assumption | apply blen_ascii; exact H]. Qed.

(* "/{a}/x" on "/€¡/x" (U+20AC, U+00A1: 3 + 2 bytes): a = "€¡", 8 bytes consumed *)
Example C10_example_utf8 :
  let p := mkPattern [SConst [47]; SVar [97] default_re; SConst [47; 120]] false in
  let s := [47; 8364; 161; 47; 120] in
  exists rd pth', construct MAXSEG (Single p) false = Val rd /\ pathu_ok (path_new s) 0 /\
    find_match_u rd s = Val (Some 8) /\
    capture_match_info_u MAXSEG rd (path_new s) = Val (true, pth') /\
    path_iter_u pth' = Val [([97], [8364; 161])] /\ p_skip pth' = 8 /\
    p_segments pth' = [([97], PISegment 1 6)].
Proof.
  cbv zeta. eexists. eexists. split; [vm_compute; reflexivity|].
  split; [split; [cbn; lia | split; [reflexivity | vm_compute; discriminate]]|].
  split; [vm_compute; reflexivity|]. split; [vm_compute; reflexivity|].
  split; [vm_compute; reflexivity|]. split; reflexivity.
Qed.

(* ------------------------------------------------- 8. translator tie (Gen/RouterTables.v) *)
(* The string and numeric literals of resource.rs / quoter.rs are regenerated from the Rust
   source on every run; the model's default class, tail class, flags, suffix rule, the whole
   regex text of sample patterns, the hex-digit radix, the nibble shift, the escape byte and the
   bit-set layout are the interpretation of exactly those literals.  A changed literal breaks one
   of these statements. *)
Theorem C10_tables_regex_literals :
  (read_items (length ROUTER_DEFAULT_PATTERN) ROUTER_DEFAULT_PATTERN = Some (map compile_atom default_re) /\
   render_re default_re = ROUTER_DEFAULT_PATTERN) /\
  (read_items (length ROUTER_DEFAULT_PATTERN_TAIL) ROUTER_DEFAULT_PATTERN_TAIL = Some (map compile_atom tail_re) /\
   render_re tail_re = ROUTER_DEFAULT_PATTERN_TAIL) /\
  (read_items (length ROUTER_SUFFIX_FULL) ROUTER_SUFFIX_FULL = Some (suffix false false) /\
   read_items (length ROUTER_SUFFIX_PREFIX) ROUTER_SUFFIX_PREFIX = Some (suffix true false)) /\
  (read_flags ROUTER_REGEX_FLAGS = Some (true, false, []) /\ cls_mem CAny 10 = true) /\
  ROUTER_TABLE_MAX_DYNAMIC_SEGMENTS = MAXSEG.
Proof.
  split; [exact default_pattern_is_not_slash_plus|]. split; [exact default_pattern_tail_is_any_star|].
  split; [exact suffix_rule_is_generated|]. split; [exact regex_flags_are_s_minus_m | exact max_dynamic_segments_same].
Qed.

(* the regex TEXT assembled from the generated literals (REGEX_FLAGS, the format strings, the
   suffixes, regex::escape) reads back as [compile] on sample patterns covering full / prefix /
   tail / custom regexes / static text *)
Theorem C10_tables_regex_text :
  forall x, In x tie_patterns ->
  exists re, read_regex (regex_text (fst x) (snd x)) = Some re /\ length re = length (compile (fst x) (snd x)).
Proof.
  intros x I. pose proof regex_text_reads_as_compile as H. rewrite forallb_forall in H. specialize (H x I).
  destruct (read_regex (regex_text (fst x) (snd x))) as [re|]; [|discriminate].
  exists re. split; [reflexivity|]. apply andb_true_iff in H as (L & _). apply Nat.eqb_eq. exact L.
Qed.

Theorem C10_tables_quoter :
  (forall d, hex_digit d = to_digit QUOTER_HEX_RADIX d) /\
  (forall d1 d2, hex_pair_to_char d1 d2 =
     match to_digit QUOTER_HEX_RADIX d1, to_digit QUOTER_HEX_RADIX d2 with
     | Some h, Some l => Some (h * 2 ^ QUOTER_HIGH_SHIFT + l)
     | _, _ => None
     end) /\
  (forall q b p1 p2 rem,
     escape_at q (b :: p1 :: p2 :: rem) =
     if bytes_eqb [b] QUOTER_ESCAPE_BYTE then
       match hex_pair_to_char p1 p2 with
       | Some ch => if (ch <? QUOTER_ASCII_LIMIT) && bit_at q ch then None else Some (ch, rem)
       | None => None
       end
     else None) /\
  (forall prot, quoter_new prot =
     if forallb (fun ch => N.shiftr ch QUOTER_BITMAP_INDEX_SHIFT <? QUOTER_BITMAP_BYTES) prot
     then Val prot else Panic) /\
  (forall a b, N.shiftr a QUOTER_BITMAP_INDEX_SHIFT = N.shiftr b QUOTER_BITMAP_INDEX_SHIFT ->
               N.land a QUOTER_BITMAP_BIT_MASK = N.land b QUOTER_BITMAP_BIT_MASK -> a = b).
Proof.
  split; [exact hex_digit_is_to_digit_radix|]. split; [exact hex_pair_uses_shift|].
  split; [exact escape_at_uses_generated|]. split; [exact quoter_new_is_bitmap_bound | exact bitmap_position_injective].
Qed.

(* ------------------------------------------------------------------------------ non-vacuity *)
(* "/user/{id}/x" as a prefix on "/user/ab/x/z": matched length 10, id = "ab", rest "/z" *)
Example C10_example_prefix :
  let p := mkPattern [SConst [47;117;115;101;114;47]; SVar [105;100] default_re; SConst [47;120]] false in
  let s := [47;117;115;101;114;47;97;98;47;120;47;122] in
  wf_pattern p /\ path_ok (path_new s) /\
  exists rd pth', construct MAXSEG (Single p) true = Val rd /\
    find_match rd s = Val (Some 10) /\ is_match rd s = true /\
    capture_match_info MAXSEG rd (path_new s) = Val (true, pth') /\
    path_iter pth' = Val [([105;100], [97;98])] /\ unprocessed pth' = [47;122] /\
    Matches true p s 10 [[47;117;115;101;114;47]; [97;98]; [47;120]].
Proof.
  cbv zeta. split; [split; cbn; [repeat constructor; intuition | intuition discriminate]|].
  split; [split; vm_compute; discriminate|].
  eexists. eexists. split; [vm_compute; reflexivity|]. split; [vm_compute; reflexivity|].
  split; [vm_compute; reflexivity|]. split; [vm_compute; reflexivity|].
  split; [vm_compute; reflexivity|]. split; [vm_compute; reflexivity|].
  split; [|split; [reflexivity | split; [cbn; lia | right; reflexivity]]].
  repeat constructor. apply default_re_lang. split; [discriminate | reflexivity].
Qed.

(* a pattern list, its second member matching; a delimited pattern; the default quoter *)
Example C10_example_misc :
  (let ps := PList [mkPattern [SConst [47;97]] false;
                    mkPattern [SConst [47]; SVar [120] [ACls CDigit QPlus]] false] in
   exists rd pth', construct MAXSEG ps false = Val rd /\ wf_patterns ps /\
     find_match rd [47;50;49] = Val (Some 3) /\
     capture_match_info MAXSEG rd (path_new [47;50;49]) = Val (true, pth') /\
     path_iter pth' = Val [([120], [50;49])]) /\
  delimited (fun _ => true) [SConst [47]; SVar [97] default_re; SConst [47;120]; SVar [98] [ACls CDigit QPlus]] = true /\
  (exists q, quoter_new [37;47;43] = Val q /\
     requote q [47;97;37;50;53;52;49;37;50;70;37;52;49] = Some [47;97;37;50;53;52;49;37;50;70;65]).
Proof.
  split; [|split; [reflexivity | eexists; split; vm_compute; reflexivity]].
  cbv zeta. eexists. eexists. split; [vm_compute; reflexivity|]. split.
  - repeat constructor; cbn; intuition discriminate.
  - split; [vm_compute; reflexivity|]. split; vm_compute; reflexivity.
Qed.
