(* C13 — content coding is lossless, correctly labelled and correctly negotiated.
   Only statements here; proofs live in Web/ContentCodingProofs.v and Web/NegotiateProofs.v.

   The compression libraries are external code.  They appear as an abstract streaming codec
   (E, enc_write, enc_take, enc_finish / D, dec_feed, dec_eof) with a whole-body decoder
   [whole_dec]; the two laws assumed about them are explicit premises:
     codec_law    for every interleaving of writes and takes followed by finish, whole_dec of
                  everything taken ++ finish = everything written
     decoder_law  streaming decode of any segmentation of an encoded body = whole_dec of it
   (both are tested on flate2 / brotli / zstd by harness/src/bin/c13.rs: a test, not a proof).
   The blocking pool and the body stream are oracles that may answer Pending any number of times:
   every statement quantifies over the oracle [o]. *)
From Coq Require Import String.
From AV Require Import Lib.Base Gen.Consts Web.ContentCoding Web.ContentCodingProofs
                       Web.Negotiate Web.NegotiateSpec Web.NegotiateProofs Web.WireCompose
                       Gen.CodingTables Web.CodingTie
                       Web.ContentCodingEndProofs Web.ContentCodingSelect Web.ContentCodingSelectProofs.
(* the HTTP/1 response encoder model, its RFC 7230 reader and the HTTP/2 header preparation are
   the models of C02 / C08; their names are used qualified *)
From AV Require H1.Encoder H1.RespSpec H1.EncoderProofs H2.Prepare.

Section AbstractCodec.
  Variable E : Type.
  Variable enc_write : E -> bytes -> E.
  Variable enc_take : E -> bytes * E.
  Variable enc_finish : E -> bytes.
  Variable D : Type.
  Variable dec_feed : D -> bytes -> option (bytes * D).
  Variable dec_eof : D -> option bytes.
  Variable e0 : E.
  Variable d0 : D.
  Variable whole_dec : bytes -> option bytes.
  (* the in-place / blocking-pool thresholds: any values (instantiated from the sources below) *)
  Variable max_enc max_dec : N.

  Let law_enc := codec_law E enc_write enc_take enc_finish e0 whole_dec.
  Let law_dec := decoder_law D dec_feed dec_eof whole_dec d0.
  Let drive_enc := enc_drive E enc_write enc_take enc_finish max_enc.
  Let drive_dec := dec_drive D dec_feed dec_eof max_dec.

  (* LOSSLESS (response): for every chunk list of the handler's body and every Pending pattern,
     the consumer of Encoder::poll_next sees the end of the stream, receives no empty chunk, and
     what it received decodes to exactly the body *)
  Theorem C13_lossless_encoder : law_enc -> forall (body : list bytes) (o : list bool),
    let '(outs, _, fin) := drive_enc (enc_budget body o) (enc_init E (Some e0) body) o in
    fin = true /\ whole_dec (concat outs) = Some (concat body) /\
    Forall (fun c => nonempty c = true) outs.
  Proof. exact (encoder_lossless E enc_write enc_take enc_finish max_enc e0 whole_dec). Qed.

  (* the emitted bytes do not depend on the Pending pattern (in-place and blocking-pool paths
     produce the same stream) *)
  Theorem C13_encoder_schedule_independent : forall (body : list bytes) (o1 o2 : list bool),
    concat (fst (fst (drive_enc (enc_budget body o1) (enc_init E (Some e0) body) o1))) =
    concat (fst (fst (drive_enc (enc_budget body o2) (enc_init E (Some e0) body) o2))).
  Proof. exact (encoder_schedule_independent E enc_write enc_take enc_finish max_enc e0 whole_dec). Qed.

  (* LOSSLESS (request): a valid encoding of [plain], cut into wire chunks in any way, under any
     Pending pattern, is delivered without error as chunks whose concatenation is [plain] *)
  Theorem C13_lossless_decoder : law_dec -> forall (wire : list bytes) (plain : bytes) (o : list bool),
    whole_dec (concat wire) = Some plain ->
    let '(outs, _, fin) := drive_dec (dec_budget wire o) (dec_init D (Some d0) wire) o in
    fin = true /\ ~ In DErr outs /\ concat (only_chunks outs) = plain.
  Proof. exact (decoder_lossless D dec_feed dec_eof max_dec whole_dec d0). Qed.

  (* response encoder and request decoder of one coding compose to the identity *)
  Theorem C13_roundtrip : law_enc -> law_dec ->
    forall (body : list bytes) (o1 : list bool) (wire : list bytes) (o2 : list bool),
    concat wire = concat (fst (fst (drive_enc (enc_budget body o1) (enc_init E (Some e0) body) o1))) ->
    let '(outs, _, fin) := drive_dec (dec_budget wire o2) (dec_init D (Some d0) wire) o2 in
    fin = true /\ ~ In DErr outs /\ concat (only_chunks outs) = concat body.
  Proof. exact (roundtrip_lossless E enc_write enc_take enc_finish D dec_feed dec_eof max_enc max_dec e0 d0 whole_dec). Qed.

  (* TERMINATION: once Encoder::poll_next has reported the end, no later poll yields a chunk *)
  Theorem C13_encoder_end_is_final : forall (s : enc_st E) (fuel : nat) (o : list bool),
    terminal E s -> (0 < fuel)%nat ->
    match fst (fst (enc_poll E enc_write enc_take enc_finish max_enc fuel s o)) with
    | Ready (Some _) => False
    | _ => True
    end /\ terminal E (snd (fst (enc_poll E enc_write enc_take enc_finish max_enc fuel s o))).
  Proof. exact (encoder_end_is_final E enc_write enc_take enc_finish max_enc). Qed.

  (* after the body's end: at most one more chunk (the codec's finish output), then the end *)
  Theorem C13_encoder_after_body_end : forall (e : E) (o : list bool) (fuel : nat), (0 < fuel)%nat ->
    let s := {| e_body := []; e_encoder := Some e; e_fut := None; e_eof := false |} in
    match enc_poll E enc_write enc_take enc_finish max_enc fuel s o with
    | (Pending, s', _) => s' = s
    | (Ready (Some c), s', _) => c = enc_finish e /\ e_eof E s' = true
    | (Ready None, s', _) => enc_finish e = [] /\ terminal E s'
    end.
  Proof. exact (encoder_after_body_end E enc_write enc_take enc_finish max_enc). Qed.

  Theorem C13_decoder_end_is_final : forall (s : dec_st D) (fuel : nat) (o : list bool),
    d_eof D s = true -> d_fut D s = None -> (0 < fuel)%nat ->
    dec_poll D dec_feed dec_eof max_dec fuel s o = (Ready None, s, o).
  Proof. exact (decoder_end_is_final D dec_feed dec_eof max_dec). Qed.

  (* TERMINATION, the eof flag: [enc_drive_obs] is [enc_drive] (first conjunct) with one more
     result, the number of `None`s the handler's body returned.  From the state Encoder::response
     builds (any codec or none), for every body, every Pending pattern and every number of consumer
     polls up to the answer's end: the handler's body answers None AT MOST ONCE, i.e. it is never
     polled again after its end (whatever it would do then: panic, pend for ever), and exactly once
     when the consumer has seen the end *)
  Theorem C13_body_never_polled_after_its_end :
    forall (enc : option E) (body : list bytes) (o : list bool) (n : nat),
    let '(outs, sf, fin, nones) :=
        enc_drive_obs E enc_write enc_take enc_finish max_enc n (enc_init E enc body) o in
    (outs, sf, fin) = drive_enc n (enc_init E enc body) o /\
    (nones <= 1)%nat /\ (fin = true -> nones = 1%nat).
  Proof.
    intros enc body o n.
    pose proof (encoder_body_never_polled_after_its_end E enc_write enc_take enc_finish max_enc enc body o n) as H.
    pose proof (enc_drive_obs_erase E enc_write enc_take enc_finish max_enc n (enc_init E enc body) o) as He.
    destruct (enc_drive_obs E enc_write enc_take enc_finish max_enc n (enc_init E enc body) o) as [[[outs sf] fin] k].
    split; [exact He|exact H].
  Qed.

  (* ... and the poll after the trailer chunk (the codec's non-empty finish output) answers the end
     at once, polling nothing: eof is set, the count is 0, state and oracle are untouched *)
  Theorem C13_encoder_none_right_after_trailer : forall (e : E) (o o2 : list bool) (f1 f2 : nat),
    nonempty (enc_finish e) = true ->
    let s := {| e_body := []; e_encoder := Some e; e_fut := None; e_eof := false |} in
    exists s', enc_poll_obs E enc_write enc_take enc_finish max_enc (S f1) s (true :: o)
                 = (Ready (Some (enc_finish e)), s', o, 1%nat) /\
               e_eof E s' = true /\
               enc_poll_obs E enc_write enc_take enc_finish max_enc (S f2) s' o2 = (Ready None, s', o2, O).
  Proof. exact (encoder_none_right_after_trailer E enc_write enc_take enc_finish max_enc). Qed.

  (* the three returns of the arm of Encoder::poll_next that runs at the body's end are the
     generated rows of the source (which return, `*this.eof = true` before it or not) *)
  Theorem C13_body_end_arm_is_the_source : forall (fuel : nat) (enc : option E) (o : list bool),
    let s := {| e_body := []; e_encoder := enc; e_fut := None; e_eof := false |} in
    let '(r, s', _) := enc_poll E enc_write enc_take enc_finish max_enc (S fuel) s (true :: o) in
    exists sets_eof ret, end_arm_row (end_arm_of E enc_finish enc) = Some (sets_eof, ret) /\
      e_eof E s' = sets_eof /\
      match ret with
      | RetEnd => r = Ready None
      | RetChunk => exists e, enc = Some e /\ r = Ready (Some (enc_finish e))
      end.
  Proof. exact (enc_body_end_tie E enc_write enc_take enc_finish max_enc). Qed.

  (* PASS-THROUGH of the body: without an encoder / decoder the chunks are handed on unchanged,
     one by one, under every Pending pattern *)
  Theorem C13_passthrough_body : forall (chunks : list bytes) (o : list bool) (n : nat),
    (length o + length chunks < n)%nat ->
    (let '(outs, _, fin) := drive_enc n (enc_init E None chunks) o in outs = chunks /\ fin = true) /\
    (let '(outs, _, fin) := drive_dec n (dec_init D None chunks) o in outs = map DChunk chunks /\ fin = true).
  Proof.
    intros chunks o n H. split.
    - exact (encoder_passthrough E enc_write enc_take enc_finish max_enc e0 whole_dec chunks o n H).
    - exact (decoder_passthrough D dec_feed dec_eof max_dec whole_dec d0 chunks o n H).
  Qed.

  (* NO STALE LENGTH ON THE WIRE (HTTP/1; repaired code, F29), composed with C02's encoder model.
     For every response that Encoder::response decides to encode, EVERY request context of a
     non-HEAD request (CONNECT / upgrade included), every handler-announced length
     (`.no_chunking(len)`: Content-Length header + NO_CHUNKING flag, both part of [h]), every other
     header list: the head written by the h1 encoder has no content-length line; the body is chunk-
     or close-framed; an RFC 7230 reader recovers from the wire exactly the stream the Encoder
     emitted; and (codec_law) that stream decodes to the handler's body.
     Premises: [others] are the head's remaining fields (no second content-length among them; for a
     CONNECT / upgrade request no handler-set transfer-encoding); chunk sizes are usize. *)
  Theorem C13_no_stale_length_on_wire : law_enc ->
    forall (enc : coding) (h : head) (size : bsize) (c : coding) (h' : head),
    encoder_response enc h size = (BEncode c, h') ->
    forall (cd : Encoder.codec) (conn : option Encoder.conn_t) (others : list (bytes * bytes))
           (body : list bytes) (o : list bool),
    Encoder.c_head cd = false ->
    RespSpec.no_body_status (h_status h') = false ->
    EncoderProofs.lower_names others ->
    has_field "content-length" others = false ->
    (Encoder.c_stream cd = true -> has_field "transfer-encoding" others = false) ->
    let '(outs, _, fin) := drive_enc (enc_budget body o) (enc_init E (Some e0) body) o in
    Forall (fun b => lenN b < 2 ^ 64) outs ->
    let r := h1_resp h' conn others in
    let sz := h1_size (encoder_size (BEncode c) size) in
    let fields := Encoder.hd_fields (EncoderProofs.item_head cd r sz) in
    let cd1 := EncoderProofs.item_codec cd r sz in
    fin = true /\
    RespSpec.field_values "content-length" fields = [] /\
    exists cd3 tail f encoded,
      Encoder.codec_encode_eof (fst (Encoder.codec_encode_chunks cd1 outs)) = Some (cd3, tail) /\
      (f = RespSpec.FChunked \/ f = RespSpec.FClose) /\
      RespSpec.read_message false (h_status h') fields
        (snd (Encoder.codec_encode_chunks cd1 outs) ++ tail) true =
      RespSpec.RComplete f encoded (lenN (snd (Encoder.codec_encode_chunks cd1 outs) ++ tail)) /\
      whole_dec encoded = Some (concat body).
  Proof.
    intros Hlaw enc h size c h' Hdec cd conn others body o Hh Hst Hlow Hcl Hte.
    pose proof (encoder_lossless E enc_write enc_take enc_finish max_enc e0 whole_dec Hlaw body o) as Hl.
    unfold drive_enc. destruct (enc_drive E enc_write enc_take enc_finish max_enc _ _ o) as [[outs sf] fin].
    destruct Hl as [Hfin [Hdecode _]]. intro Hlen. cbv zeta.
    destruct (encoded_response_on_h1_wire enc h size c h' Hdec cd conn others outs Hh Hst Hlow Hcl Hte Hlen)
      as [Hno [cd3 [tail [f [He [Hf Hr]]]]]].
    split; [exact Hfin|]. split; [exact Hno|].
    exists cd3, tail, f, (concat outs). repeat split; assumption.
  Qed.
End AbstractCodec.

(* ---------------------------------------------------------------- request side: which decoder *)

(* SUPPORTED Content-Encoding => DECODED: when the first Content-Encoding value of the request is
   the token of a coding with a codec (br, gzip, deflate, zstd) in ANY letter case, with ANY
   optional whitespace (space / tab) around it, Decoder::from_headers builds the decoder of exactly
   that coding (and C13_lossless_decoder then applies) *)
Theorem C13_supported_token_selects_its_decoder :
  forall (c : coding) (pre tok post : bytes) (more : list bytes),
  selectable c = true ->
  forallb ows pre = true -> forallb ows post = true ->
  map to_lower tok = coding_name c ->
  decoder_from_headers ((pre ++ tok ++ post) :: more) = c /\ decoder_new_has c = true.
Proof. exact supported_token_selects_its_decoder. Qed.

(* no header, a value that is not visible ASCII, a value the parser rejects, or identity in any
   case: no decoder *)
Theorem C13_no_decoder_cases : forall (vals : list bytes),
  vals = [] \/
  (exists v more, vals = v :: more /\ (to_str_ok v = false \/ content_encoding_from_str v = None)) \/
  (exists pre tok post more, vals = (pre ++ tok ++ post) :: more /\ forallb ows pre = true /\
      forallb ows post = true /\ map to_lower tok = coding_name Identity) ->
  decoder_new_has (decoder_from_headers vals) = false.
Proof. exact no_decoder_cases. Qed.

(* the model of ContentEncoding::from_str / Decoder::from_headers / Decoder::new is the
   interpretation of the generated tables (trim, comparison and literal of every arm in order, the
   fallback variant, the variants with a decoder) *)
Theorem C13_decoder_selection_is_the_source : forall (enc v : bytes) (more : list bytes) (c : coding),
  content_encoding_from_str enc =
    from_str_chain CE_FROM_STR_ARMS (if CE_FROM_STR_TRIMS then trim enc else enc) /\
  decoder_from_headers [] = variant_coding DEC_FROM_HEADERS_FALLBACK /\
  (to_str_ok v = false \/ content_encoding_from_str v = None ->
   decoder_from_headers (v :: more) = variant_coding DEC_FROM_HEADERS_FALLBACK) /\
  decoder_new_has c =
    existsb (fun a : ce_variant * ce_variant => coding_eqb (variant_coding (fst a)) c) DECODER_NEW_ARMS /\
  forallb (fun a : ce_variant * ce_variant => coding_eqb (variant_coding (fst a)) (variant_coding (snd a)))
          DECODER_NEW_ARMS = true.
Proof.
  intros enc v more c. split; [apply from_str_tie|].
  destruct (from_headers_fallback_tie v more) as [H1 H2]. split; [exact H1|]. split; [exact H2|].
  apply decoder_new_tie.
Qed.

(* non-vacuity: "\tGZip " selects gzip; "Br" (first of two fields) selects br; "gzip, br",
   "x-gzip", a value with an obs-text byte and no header select nothing *)
Example C13_select_example :
  decoder_from_headers [[9; 71; 90; 105; 112; 32]] = Gzip /\
  decoder_from_headers [[66; 114]; [103; 122; 105; 112]] = Brotli /\
  decoder_from_headers [[103; 122; 105; 112; 44; 32; 98; 114]] = Identity /\
  decoder_from_headers [[120; 45; 103; 122; 105; 112]] = Identity /\
  decoder_from_headers [[103; 122; 105; 112; 233]] = Identity /\
  decoder_from_headers [] = Identity /\
  forallb ows [9] = true /\ map to_lower [71; 90; 105; 112] = coding_name Gzip.
Proof. vm_compute. repeat split. Qed.

(* ---------------------------------------------------------------- decision, label, negotiation *)

(* PASS-THROUGH of the head: already encoded, 101, 204, 206, identity, none / empty body:
   head unchanged, no encoder, size unchanged *)
Theorem C13_passthrough : forall (enc : coding) (h : head) (size : bsize),
  h_content_encoding h <> None \/ h_status h = 101 \/ h_status h = 204 \/ h_status h = 206 \/
  enc = Identity \/ size = SzNone \/ size = SzSized 0 ->
  snd (encoder_response enc h size) = h /\
  (forall c, fst (encoder_response enc h size) <> BEncode c) /\
  encoder_size (fst (encoder_response enc h size)) size = size.
Proof. exact response_passthrough. Qed.

(* LABEL: when the body is encoded with coding c then c is the negotiated coding, has a codec,
   Content-Encoding names it, Vary: accept-encoding is appended, the status is kept, chunking is re-enabled, a
   handler-supplied Content-Length is removed (F29) and the body size becomes Stream; and none of the pass-through conditions held *)
Theorem C13_label : forall (enc : coding) (h : head) (size : bsize) (c : coding) (h' : head),
  encoder_response enc h size = (BEncode c, h') ->
  c = enc /\ selectable c = true /\
  h_content_encoding h' = Some (coding_name c) /\ h_vary h' = h_vary h ++ [vary_accept_encoding] /\
  h_status h' = h_status h /\ h_no_chunking h' = false /\ h_content_length h' = None /\
  encoder_size (BEncode c) size = SzStream /\
  h_content_encoding h = None /\ h_status h <> 101 /\ h_status h <> 204 /\ h_status h <> 206 /\
  c <> Identity /\ size <> SzNone /\ size <> SzSized 0.
Proof. exact response_label. Qed.

(* NEGOTIATION (repaired code): the coding chosen is supported and permitted by RFC 7231 5.3.4 *)
Theorem C13_negotiation_permitted : forall (h : list qitem) (e : coding),
  negotiate h supported_encodings = Some e -> mem e supported_encodings = true /\ permitted h e.
Proof. intros h e H. exact (negotiate_sound h supported_encodings e eq_refl H). Qed.

(* the Compress middleware encodes only with the negotiated, permitted coding of a request that
   carried a parsable Accept-Encoding, and only compressible content types *)
Theorem C13_compress_encodes_only_negotiated :
  forall (ae : option (list qitem)) (compressible : bool) (h : head) (size : bsize) (c : coding) (h' : head) (sz : bsize),
  compress ae compressible h size = Responded (BEncode c) h' sz ->
  exists items, ae = Some items /\ negotiate items supported_encodings = Some c /\
                permitted items c /\ mem c supported_encodings = true /\ compressible = true /\
                encoder_response c h size = (BEncode c, h') /\ sz = SzStream.
Proof. exact compress_encodes_only_negotiated. Qed.

(* ... and otherwise hands the response on with head and size unchanged *)
Theorem C13_compress_otherwise_unchanged :
  forall (ae : option (list qitem)) (compressible : bool) (h : head) (size : bsize) (a : body_action) (h' : head) (sz : bsize),
  compress ae compressible h size = Responded a h' sz -> (forall c, a <> BEncode c) -> h' = h /\ sz = size.
Proof. exact compress_otherwise_unchanged. Qed.

(* F4: BEFORE the repair `*;q=0.5, identity;q=0` negotiated identity, which the header excludes;
   the repaired code answers None (406) *)
Theorem C13_refuted_F4_before_repair :
  exists h, Known_F4 h /\ negotiate_orig h supported_encodings = Some Identity /\ ~ permitted h Identity /\
            negotiate h supported_encodings = None.
Proof.
  exists [(PAny, 500); (PSpec Identity, 0)]. destruct F4_witness as [H1 [H2 [H3 H4]]].
  split; [exact H3|split; [exact H1|split; [exact H2|exact H4]]].
Qed.

(* not claimed: the converse of C13_negotiation_permitted.  By design a coding is never chosen on
   the strength of "*" alone, so a permitted supported coding may exist while the answer is 406 *)
Theorem C13_negotiation_incomplete_by_design :
  exists h, permitted h Gzip /\ mem Gzip supported_encodings = true /\ negotiate h supported_encodings = None.
Proof. exists [(PAny, 500); (PSpec Identity, 0)]. exact negotiation_incomplete. Qed.

(* ranked_items only rearranges the header's items *)
Theorem C13_ranked_is_rearrangement : forall (h : list qitem) (q : qitem),
  (In q (ranked_items h) <-> In q h) /\ length (ranked_items h) = length h.
Proof. intros h q. split; [apply ranked_items_in|apply ranked_items_length]. Qed.


(* ---------------------------------------------------------------- HTTP/2, and the code before F29 *)

(* NO STALE LENGTH ON HTTP/2 (repaired code), composed with C08's prepare_response: for an encoded
   response no content-length is announced, whatever the handler announced *)
Theorem C13_no_stale_length_on_h2 :
  forall (enc : coding) (h : head) (size : bsize) (c : coding) (h' : head),
  encoder_response enc h size = (BEncode c, h') ->
  forall (now : bytes) (others : list Prepare.header),
  Prepare.values_of Prepare.h_content_length others = [] ->
  Prepare.values_of Prepare.h_content_length
    (fst (Prepare.prepare_response now (h_status h') (h2_headers h' others)
            (h2_size (encoder_size (BEncode c) size)))) = [].
Proof. exact encoded_response_on_h2. Qed.

(* F29, before the repair (commit 933caef): update_head left the handler's Content-Length in the head.
   A CONNECT / upgrade request (h1 codec in STREAM mode) and HTTP/2 forwarded it in front of the
   encoded body; both were reproduced on the implementation (content-length: 6100, 91 body bytes).
   With the repaired update_head the same heads carry no content-length. *)
Theorem C13_refuted_before_F29_h1_stream_request :
  let h' := update_head_before_F29 Gzip head_announcing_6100 in
  let cd := Encoder.codec_decode (Encoder.codec_new true) (Encoder.mkReq false Encoder.V11 None true false) in
  Encoder.c_stream cd = true /\
  RespSpec.field_values "content-length"
    (Encoder.hd_fields (EncoderProofs.item_head cd (h1_resp h' None []) Encoder.BStream)) = [Encoder.str "6100"] /\
  RespSpec.field_values "content-length"
    (Encoder.hd_fields (EncoderProofs.item_head cd (h1_resp (update_head Gzip head_announcing_6100) None [])
                                                Encoder.BStream)) = [].
Proof. exact before_F29_stale_length_on_upgrade_request. Qed.

Theorem C13_refuted_before_F29_h2 : forall now,
  Prepare.values_of Prepare.h_content_length
    (fst (Prepare.prepare_response now 200 (h2_headers (update_head_before_F29 Gzip head_announcing_6100) [])
            Prepare.SStream)) = [Encoder.str "6100"] /\
  Prepare.values_of Prepare.h_content_length
    (fst (Prepare.prepare_response now 200 (h2_headers (update_head Gzip head_announcing_6100) [])
            Prepare.SStream)) = [].
Proof. exact before_F29_stale_length_on_h2. Qed.


(* ---------------------------------------------------------------- tie to the source text
   Gen/CodingTables.v is regenerated from encoder.rs / decoder.rs on every check
   (tools/gen/content_coding.py): the disjuncts of should_encode, the short-cut arms of
   `match body.size()`, the in-place comparisons, the statements of update_head in source order,
   and the write call of ContentEncoder::write. *)

(* Encoder::response is the generated short-cut arms followed by the generated should_encode, and
   update_head is the generated statement list (insert Content-Encoding, append Vary, remove
   Content-Length, no_chunking(false)) *)
Theorem C13_decision_is_the_source_tables : forall (enc : coding) (h : head) (size : bsize),
  encoder_response enc h size =
  match empty_arm size with
  | Some RNone => (BNone, h)
  | Some REmpty => (BEmpty, h)
  | None => if should_encode enc h && selectable enc
            then (BEncode enc, fold_left (apply_stmt enc) UPDATE_HEAD_STMTS h) else (BPass, h)
  end.
Proof. exact encoder_response_tie. Qed.

Theorem C13_update_head_is_the_source_statements : forall (c : coding) (h : head),
  update_head c h = fold_left (apply_stmt c) UPDATE_HEAD_STMTS h.
Proof. exact update_head_tie. Qed.

(* the in-place / blocking-pool split of both machines is the source's comparison *)
Theorem C13_in_place_tests_are_the_source :
  forall (E : Type) (enc_write : E -> bytes -> E) (enc_take : E -> bytes * E) (enc_finish : E -> bytes)
         (D : Type) (dec_feed : D -> bytes -> option (bytes * D)) (dec_eof : D -> option bytes)
         (max_enc max_dec : N) (fuel : nat) (c : bytes) (rest : list bytes) (o : list bool),
  (forall e,
    enc_poll E enc_write enc_take enc_finish max_enc (S fuel)
      {| e_body := c :: rest; e_encoder := Some e; e_fut := None; e_eof := false |} (true :: o) =
    if in_place ENC_IN_PLACE_OP (lenN c) max_enc then
      let '(chunk, e2) := enc_take (enc_write e c) in
      let s2 := {| e_body := rest; e_encoder := Some e2; e_fut := None; e_eof := false |} in
      if nonempty chunk then (Ready (Some chunk), s2, o)
      else enc_poll E enc_write enc_take enc_finish max_enc fuel s2 o
    else enc_poll E enc_write enc_take enc_finish max_enc fuel
           {| e_body := rest; e_encoder := None; e_fut := Some (enc_write e c); e_eof := false |} o) /\
  (forall d,
    dec_poll D dec_feed dec_eof max_dec (S fuel)
      {| d_in := c :: rest; d_decoder := Some d; d_fut := None; d_eof := false |} (true :: o) =
    if in_place DEC_IN_PLACE_OP (lenN c) max_dec then
      match dec_feed d c with
      | None => (Ready (Some DErr), {| d_in := rest; d_decoder := None; d_fut := None; d_eof := false |}, o)
      | Some (out, d2) =>
          let s2 := {| d_in := rest; d_decoder := Some d2; d_fut := None; d_eof := false |} in
          if nonempty out then (Ready (Some (DChunk out)), s2, o)
          else dec_poll D dec_feed dec_eof max_dec fuel s2 o
      end
    else dec_poll D dec_feed dec_eof max_dec fuel
           {| d_in := rest; d_decoder := None; d_fut := Some (dec_feed d c); d_eof := false |} o).
Proof.
  intros. split; intro.
  - apply enc_in_place_tie.
  - apply dec_in_place_tie.
Qed.

(* ContentEncoder::write hands the whole chunk to the codec in every arm (write_all): the source
   fact behind the total [enc_write] of the model and the premise codec_law *)
Theorem C13_encoder_write_consumes_all : ENCODER_WRITE_ALL_ARMS = 4%nat /\ ENCODER_WRITE_PARTIAL_ARMS = 0%nat.
Proof. exact encoder_write_consumes_all. Qed.

(* non-vacuity: a scripted codec satisfying nothing in particular still runs the machine; a
   negotiation with q-values; an encoded and a passed-through decision *)
Example C13_example :
  negotiate [(PSpec Gzip, 500); (PSpec Brotli, 1000); (PAny, 0)] supported_encodings = Some Brotli /\
  negotiate [(PSpec Identity, 0)] supported_encodings = None /\
  negotiate [(PAny, 1000)] supported_encodings = Some Identity /\
  fst (encoder_response Gzip {| h_status := 200; h_content_encoding := None; h_vary := []; h_no_chunking := true; h_content_length := None |}
                        (SzSized 10)) = BEncode Gzip /\
  fst (encoder_response Gzip {| h_status := 206; h_content_encoding := None; h_vary := []; h_no_chunking := true; h_content_length := None |}
                        (SzSized 10)) = BPass /\
  ENC_MAX_CHUNK_SIZE_ENCODE_IN_PLACE = 1024 /\ DEC_MAX_CHUNK_SIZE_DECODE_IN_PLACE = 2049.
Proof. vm_compute. repeat split. Qed.

(* non-vacuity of C13_no_stale_length_on_wire: a GET over HTTP/1.1 keep-alive, the handler announced
   `content-length: 6100` and disabled chunking, the response is gzip-encoded: the head announces
   transfer-encoding: chunked and no content-length; the pass-through head (206) keeps the length *)
Example C13_wire_example :
  let cd := Encoder.codec_decode (Encoder.codec_new true) (Encoder.mkReq false Encoder.V11 None false false) in
  let h' := snd (encoder_response Gzip head_announcing_6100 (SzSized 6100)) in
  let fields := Encoder.hd_fields (EncoderProofs.item_head cd
                  (h1_resp h' None [(Encoder.str "content-encoding", Encoder.str "gzip")])
                  (h1_size (encoder_size (fst (encoder_response Gzip head_announcing_6100 (SzSized 6100))) (SzSized 6100)))) in
  fst (encoder_response Gzip head_announcing_6100 (SzSized 6100)) = BEncode Gzip /\
  RespSpec.field_values "content-length" fields = [] /\
  RespSpec.field_values "transfer-encoding" fields = [Encoder.str "chunked"] /\
  RespSpec.field_values "content-encoding" fields = [Encoder.str "gzip"] /\
  h_content_length (snd (encoder_response Gzip
     {| h_status := 206; h_content_encoding := None; h_vary := []; h_no_chunking := true;
        h_content_length := Some (Encoder.str "6100") |} (SzSized 6100))) = Some (Encoder.str "6100").
Proof. vm_compute. repeat split. Qed.
