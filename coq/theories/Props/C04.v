(* C04 — HTTP/1 connections always progress: no lost wake-ups, all bytes flushed.
   Only statements here; proofs live in H1/FlushProofs.v, H1/ReadBufProofs.v, H1/PollProofs.v. *)
From AV Require Import Lib.Base Gen.Consts H1.ReadBuf H1.ReadBufProofs H1.Flush H1.FlushProofs
     H1.Gates H1.GatesCfg H1.GatesProofs H1.PollProofs.

(* Over ANY history of "append response bytes to write_buf" and "poll_flush against a socket that
   answers each poll_write with Accept k (partial write) | Pending | Ok(0) | Err and the final
   poll_flush with Ready | Pending | Err": the bytes the socket accepted are, in order, a prefix of
   everything ever put into write_buf; as long as no poll_flush failed, accepted ++ write_buf is
   exactly what was put (every byte written once, in order, none lost), so they are equal whenever
   write_buf is empty. *)
Theorem C04_flush_exactly_once_in_order : forall ops : list fop,
  let s := frun ops in
  prefix_of (s_wire s) (s_put s) /\
  (s_failed s = false -> s_wire s ++ s_buf s = s_put s) /\
  (s_failed s = false -> s_buf s = [] -> s_wire s = s_put s).
Proof. exact flush_exactly_once_in_order. Qed.

(* a socket answering Ok(0) while bytes remain => Err(WriteZero), nothing written *)
Theorem C04_flush_write_zero : forall buf script dflt fl,
  buf <> [] -> fst (next_ans script dflt) = WZero ->
  f_res (poll_flush buf script dflt fl) = FlWriteZero /\ f_wire (poll_flush buf script dflt fl) = [].
Proof. exact poll_flush_zero. Qed.

(* Ready means flushed; Pending means the writer's waker is registered; unflushed bytes after a
   non-failing poll_flush mean Pending + registered: the task never sleeps on unflushed bytes
   without the socket knowing *)
Theorem C04_flush_pending_is_registered : forall (ops : list fop) script dflt fl,
  let s := frun (ops ++ [FFlush script dflt fl]) in
  s_failed (frun ops) = false ->
  (s_last s = FlReady -> s_buf s = [] /\ s_wire s = s_put s) /\
  (s_last s = FlPending -> s_wreg s = true) /\
  (s_buf s <> [] -> s_failed s = false -> s_last s = FlPending /\ s_wreg s = true).
Proof. exact flush_result_sound. Qed.

(* read side: whenever read_available returns Ok(false) ("keep the connection, I will be woken") a
   wake-up has been arranged -- the socket reader registered, or a forced self-wake at the size cap,
   or (payload paused) the payload's io waker -- given a socket that honours the AsyncRead
   contract (Pending rather than a WouldBlock error) *)
Theorem C04_read_pending_is_registered : forall buf script pl,
  ~ In RWouldBlock script ->
  let o := read_available H1_MAX_BUFFER_SIZE false buf script pl in
  ra_res o = RaOk false ->
  ra_rreg o = true \/ ra_self_wake o = true \/ (pl = Some PPause /\ ra_io_reg o = true).
Proof. intros buf script pl H. apply read_available_wake. exact H. Qed.

(* internal source "a complete message sits in read_buf and the gates of poll_request are open":
   nobody but the task itself can signal it.  Right after every poll_request it is absent ... *)
Theorem C04_poll_request_leaves_no_stall_source : forall wbs r h431 fx (x : sim),
  let c := std_cfg wbs r h431 fx in
  let x' := fst (poll_request c x) in stall_source c x' = false \/ bad x' = true.
Proof. intros. apply poll_request_leaves_no_stall_source. Qed.

(* ... but `Dispatcher::poll` runs poll_request BEFORE poll_response.  FALSE of the code (F21): the
   queue was full at the top of the poll, poll_response drains it, the requests read meanwhile stay
   undecoded, and the task returns Pending with no waker pending: nothing unread at the socket, no
   handler running, nothing to flush, no self-wake -- while 10 complete requests sit in read_buf
   behind open gates. *)
Theorem C04_refuted_queue_drain_stall :
  let '(x, p) := f21_after false in
  let c := std_cfg 32768 H1_LW_BUFFER_SIZE 123 false in
  p = PPend /\ bad x = false /\ stall_source c x = true /\ o_wake x = false /\
  sock x = 0 /\ state (m x) = SNone /\ wb (m x) = 0 /\ started x = 17 /\ rb (m x) = 180.
Proof. vm_compute. repeat split. Qed.

(* the repaired dispatcher (fixes/F21.patch: self-wake when the queue was full at poll_request
   and is not full at the end of the poll while read_buf is not empty) wakes itself on the same
   schedule, and one more poll dispatches the ten late requests *)
Theorem C04_repaired_queue_drain_wakes :
  let '(x, p) := f21_after true in
  let c := std_cfg 32768 H1_LW_BUFFER_SIZE 123 true in
  p = PPend /\ bad x = false /\ o_wake x = true /\
  let '(x', p') := poll c 200 x (mk_round 0 false [WAccept 100000] [] false) in
  p' = PPend /\ started x' = 27 /\ stall_source c x' = false /\ rb (m x') = 0 /\ bad x' = false.
Proof. vm_compute. repeat split. Qed.

(* FULL STATEMENT (not proved; see notes/C04.md):
     forall c F x r, c_fix21 c = true \/ ~ queue_full_at_poll_request x r ->
       let '(x', p) := poll c F x r in p = PPend -> bad x' = false ->
       stall_source c x' = true -> o_wake x' = true.
   Proved part: C04_poll_request_leaves_no_stall_source (every decode pass is complete and a closed
   gate means no stall source at that point) and the two witnesses above.  Missing: the invariant
   through poll_response (queue pops re-open the queue gate; a consumer that takes a chunk re-opens
   the payload gate and wakes the io waker registered by need_read) up to the end of the poll. *)

(* bounded-response liveness of the write side: against a socket whose first answer in every poll
   accepts at least one byte, |write_buf| polls empty the buffer, with everything on the wire *)
Theorem C04_flush_drains_within_partial : forall (s : fstate) (ops : list fop),
  Forall accepting ops -> s_failed s = false -> lenN (s_buf s) <= lenN ops ->
  let s' := fold_left fstep ops s in
  s_failed s' = true \/ (s_buf s' = [] /\ s_wire s' = s_wire s ++ s_buf s).
Proof. exact flush_drains_within. Qed.

(* FULL STATEMENT of termination (not proved): from a state with the peer's EOF delivered, all
   handler and body scripts exhausted and a socket that eventually accepts, `poll` returns
   Ready within |write_buf| + |messages| + 2 further polls.  Proved: the flush part above; the
   shutdown epilogue is exercised by the correspondence (every generated EOF scenario ends in
   PDone on both sides) but not proved. *)

(* non-vacuity: partial writes, a Pending in the middle, completion *)
Example C04_example :
  let ops := [FPut [1;2;3;4;5]; FFlush [WAccept 2; WPending] WPending FReady;
              FPut [6;7]; FFlush [WAccept 1; WAccept 10] WPending FPending;
              FFlush [] WPending FReady] in
  s_wire (frun ops) = [1;2;3;4;5;6;7] /\ s_buf (frun ops) = [] /\ s_last (frun ops) = FlReady /\
  s_wire (frun (firstn 2 ops)) = [1;2] /\ s_wreg (frun (firstn 2 ops)) = true.
Proof. vm_compute. repeat split. Qed.
