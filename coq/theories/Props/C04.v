(* C04 — HTTP/1 connections always progress: no lost wake-ups, all bytes flushed.
   Only statements here; proofs live in H1/FlushProofs.v, H1/ReadBufProofs.v, H1/PollProofs.v. *)
From AV Require Import Lib.Base Gen.Consts H1.ReadBuf H1.ReadBufProofs H1.Flush H1.FlushProofs
     H1.Gates H1.GatesCfg H1.GatesProofs H1.PollProofs H1.PollProofs2 Gen.DispatcherGuards H1.GuardsTie H1.EofProofs.

(* Over ANY history of "append response bytes to write_buf" and "poll_flush against a socket that
   answers each poll_write with Accept k (partial write) | Pending | Ok(0) | Err and the final
   poll_flush with Ready | Pending | Err": the bytes the socket accepted are, in order, a prefix of
   everything ever put into write_buf; as long as no poll_flush failed, accepted ++ write_buf is
   exactly what was put (every byte written once, in order, none lost), so they are equal whenever
   write_buf is empty. *)
Theorem C04_flush_exactly_once_in_order : forall ops : list fop,
  let s := frun ops in
  prefix_of (s_wire s) (s_put s) /\
  (s_failed s = false -> s_wire s ++ s_buf s = s_put s) /\
  (s_failed s = false -> s_buf s = [] -> s_wire s = s_put s).
Proof. exact flush_exactly_once_in_order. Qed.

(* a socket answering Ok(0) while bytes remain => Err(WriteZero), nothing written *)
Theorem C04_flush_write_zero : forall buf script dflt fl,
  buf <> [] -> fst (next_ans script dflt) = WZero ->
  f_res (poll_flush buf script dflt fl) = FlWriteZero /\ f_wire (poll_flush buf script dflt fl) = [].
Proof. exact poll_flush_zero. Qed.

(* Ready means flushed; Pending means the writer's waker is registered; unflushed bytes after a
   non-failing poll_flush mean Pending + registered: the task never sleeps on unflushed bytes
   without the socket knowing *)
Theorem C04_flush_pending_is_registered : forall (ops : list fop) script dflt fl,
  let s := frun (ops ++ [FFlush script dflt fl]) in
  s_failed (frun ops) = false ->
  (s_last s = FlReady -> s_buf s = [] /\ s_wire s = s_put s) /\
  (s_last s = FlPending -> s_wreg s = true) /\
  (s_buf s <> [] -> s_failed s = false -> s_last s = FlPending /\ s_wreg s = true).
Proof. exact flush_result_sound. Qed.

(* read side: whenever read_available returns Ok(false) ("keep the connection, I will be woken") a
   wake-up has been arranged -- the socket reader registered, or a forced self-wake at the size cap,
   or (payload paused) the payload's io waker -- given a socket that honours the AsyncRead
   contract (Pending rather than a WouldBlock error) *)
Theorem C04_read_pending_is_registered : forall buf script pl,
  ~ In RWouldBlock script ->
  let o := read_available H1_MAX_BUFFER_SIZE false buf script pl in
  ra_res o = RaOk false ->
  ra_rreg o = true \/ ra_self_wake o = true \/ (pl = Some PPause /\ ra_io_reg o = true).
Proof. intros buf script pl H. apply read_available_wake. exact H. Qed.

(* at the MAX_BUFFER_SIZE cap no socket read was polled to Pending, so the ONLY wake-ups available
   are the forced self-wake and the payload's io waker; the code self-wakes for every payload status
   except Pause (alive consumer applying back-pressure, io waker registered by need_read): in
   particular for Dropped (drain mode), where no waker of any kind exists *)
Theorem C04_cap_wake_decision : forall st : option pstatus,
  (cap_self_wake st = true \/ st = Some PPause) /\
  cap_self_wake (Some PDropped) = true /\ cap_self_wake (Some PRead) = true /\ cap_self_wake None = true /\
  cap_self_wake (Some PPause) = false.
Proof. intro st. split; [apply cap_decision_sound|repeat split]. Qed.

(* internal source "a complete message sits in read_buf and the gates of poll_request are open":
   nobody but the task itself can signal it.  Right after every poll_request it is absent ... *)
Theorem C04_poll_request_leaves_no_stall_source : forall wbs r h431 fx (x : sim),
  let c := std_cfg wbs r h431 fx in
  let x' := fst (poll_request c x) in stall_source c x' = false \/ bad x' = true.
Proof. intros. apply poll_request_leaves_no_stall_source. Qed.

(* ... but `Dispatcher::poll` runs poll_request BEFORE poll_response.  FALSE of the code (F21): the
   queue was full at the top of the poll, poll_response drains it, the requests read meanwhile stay
   undecoded, and the task returns Pending with no waker pending: nothing unread at the socket, no
   handler running, nothing to flush, no self-wake -- while 10 complete requests sit in read_buf
   behind open gates. *)
Theorem C04_refuted_queue_drain_stall :
  let '(x, p) := f21_after false in
  let c := std_cfg 32768 H1_LW_BUFFER_SIZE 123 false in
  p = PPend /\ bad x = false /\ stall_source c x = true /\ o_wake x = false /\
  sock x = 0 /\ state (m x) = SNone /\ wb (m x) = 0 /\ started x = 17 /\ rb (m x) = 180.
Proof. vm_compute. repeat split. Qed.

(* the repaired dispatcher (fixes/F21.patch: self-wake when the queue was full at poll_request
   and is not full at the end of the poll while read_buf is not empty) wakes itself on the same
   schedule, and one more poll dispatches the ten late requests *)
Theorem C04_repaired_queue_drain_wakes :
  let '(x, p) := f21_after true in
  let c := std_cfg 32768 H1_LW_BUFFER_SIZE 123 true in
  p = PPend /\ bad x = false /\ o_wake x = true /\
  let '(x', p') := poll c 200 x (mk_round 0 false [WAccept 100000] [] false) in
  p' = PPend /\ started x' = 27 /\ stall_source c x' = false /\ rb (m x') = 0 /\ bad x' = false.
Proof. vm_compute. repeat split. Qed.

(* INTERMEDIATE TREE (dd2b74c .. before 0586f2d: F21 repair only; kept as history -- the statement
   for the tree as it is now is C04_no_lost_decode_wake_general below).  With only the full-queue
   wake-up the claim needs the premise that the request-body gate was not the closed one when
   poll_request ran at the top of the poll (payload not Paused); for Paused polls it was false
   (C04_refuted_paused_payload_dropped_stall). *)
Theorem C04_no_lost_decode_wake : forall wbs r h431 F (x : sim) (rd : round) (x' : sim),
  let c := std_cfg wbs r h431 true in
  shut x = false -> cpl (m x) <> Some 0 -> Forall pos_head (todo x) ->
  poll c F x rd = (x', PPend) -> bad x' = false ->
  need_read_status (m (at_poll_request c x rd)) <> Some PPause ->
  stall_source c x' = true -> o_wake x' = true.
Proof.
  intros wbs r h431 F x rd x' c Hs Hc Hp Hpoll Hb Hn Hst.
  apply (no_lost_decode_wake c F x rd x'); auto; vm_compute; reflexivity.
Qed.

Theorem C04_wellformed_is_invariant : forall wbs r h431 fx F (x : sim) (rd : round) x' p,
  poll (std_cfg wbs r h431 fx) F x rd = (x', p) ->
  (bad x = true \/ cpl (m x) <> Some 0) -> Forall pos_head (todo x) ->
  (bad x' = true \/ cpl (m x') <> Some 0) /\ Forall pos_head (todo x').
Proof. intros wbs r h431 fx F x rd x' p H. exact (poll_preserves_wf _ F x rd x' p H). Qed.

(* BEFORE the repair 0586f2d (F28; witness kept as history): the same hole had a second entrance.
   The decode gate of poll_request can also be closed by a Paused request payload, and it re-opens
   without any wake-up when the handler DROPS the payload (PayloadStatus::Dropped) and answers in
   the same poll.  With the F21 repair alone the task returned Pending with read_buf full (131072
   bytes), 137921 bytes unread at the socket, no reader registered (read_available returned at the
   cap), the payload's io waker gone with the payload, nothing to flush, no timer armed. *)
Theorem C04_refuted_paused_payload_dropped_stall :
  let '(x, p) := f28_after false in
  let c := std_cfg2 32768 H1_LW_BUFFER_SIZE 123 true false in
  p = PPend /\ bad x = false /\ stall_source c x = true /\ o_wake x = false /\
  need_read_status (m x) = Some PDropped /\ rb (m x) = 131072 /\ sock x = 137921 /\
  state (m x) = SNone /\ wb (m x) = 0 /\ started x = 1.
Proof. vm_compute. repeat split. Qed.

(* MAIN STATEMENT FOR THE TREE AS IT IS (0586f2d: self-wake whenever the decode gate -- queue OR
   payload -- was closed when poll_request ran and is open at the end of the poll while read_buf is
   not empty).  For EVERY poll of the composer, with no premise on the payload: a poll that returns
   Pending with a decodable message behind open gates has woken itself.  The remaining premises
   (SHUTDOWN not set; payload decoder not at "0 remaining"; non-empty heads) describe a between-polls
   state of a well-formed run and are invariants of [poll] (C04_wellformed_is_invariant). *)
Theorem C04_no_lost_decode_wake_general : forall wbs r h431 fx F (x : sim) (rd : round) (x' : sim),
  let c := std_cfg2 wbs r h431 fx true in
  shut x = false -> cpl (m x) <> Some 0 -> Forall pos_head (todo x) ->
  poll c F x rd = (x', PPend) -> bad x' = false ->
  stall_source c x' = true -> o_wake x' = true.
Proof.
  intros wbs r h431 fx F x rd x' c Hs Hc Hp Hpoll Hb Hst.
  apply (no_lost_decode_wake_general c F x rd x'); auto. vm_compute. reflexivity.
Qed.

Theorem C04_generalised_repair_wakes :
  let '(x, p) := f28_after true in p = PPend /\ bad x = false /\ o_wake x = true.
Proof. vm_compute. repeat split. Qed.

(* the epilogue guard of Dispatcher::poll (`state_is_none && write_buf.is_empty()` before the stored
   stream error is surfaced): whenever the composer's poll resolves with that error, write_buf is
   empty and no request is in progress -- no response byte is dropped with the I/O object.  (The
   only other failing result of the composer, PFailIo, is a failure of the write side itself.) *)
Theorem C04_error_only_after_flush : forall wbs r h431 fx F (x : sim) (rd : round) (x' : sim),
  poll (std_cfg wbs r h431 fx) F x rd = (x', PFailTooLarge) -> wb (m x') = 0 /\ state (m x') = SNone.
Proof. intros wbs r h431 fx F x rd x'. apply error_only_after_flush. Qed.

(* bounded-response liveness of the write side: against a socket whose first answer in every poll
   accepts at least one byte, |write_buf| polls empty the buffer, with everything on the wire *)
Theorem C04_flush_drains_within_partial : forall (s : fstate) (ops : list fop),
  Forall accepting ops -> s_failed s = false -> lenN (s_buf s) <= lenN ops ->
  let s' := fold_left fstep ops s in
  s_failed s' = true \/ (s_buf s' = [] /\ s_wire s' = s_wire s ++ s_buf s).
Proof. exact flush_drains_within. Qed.

(* TERMINATION AFTER EOF, explicit bound.  From a state in which the peer's EOF has been processed
   (READ_DISCONNECT), no request is running or queued, no error is waiting to be surfaced and no
   socket answers are left over -- whatever is in write_buf, SHUTDOWN set or not -- against a
   socket that in every round is idle or accepts at least one byte: the connection future
   completes with Ready(Ok) no later than the round carrying the (|write_buf| + 1)-th accepting
   answer; in particular within |write_buf| + 1 polls against an always-accepting socket.
   NOT covered (partial): states with requests still queued or a handler / response body still
   running at EOF (their completion is exercised by the correspondence and the "no termination"
   oracle on every generated EOF scenario, not proved). *)
Theorem C04_terminates_after_eof : forall wbs r h431 fx F (rs : list round) (x : sim),
  (1 <= F)%nat -> Tail x ->
  Forall (fun rd => acc_round rd || idle_round rd = true) rs ->
  wb (m x) < count_acc rs ->
  snd (polls (std_cfg wbs r h431 fx) F x rs) = PDone.
Proof. intros. apply terminates_after_eof; assumption. Qed.

Theorem C04_terminates_within : forall wbs r h431 fx F (x : sim) (rs : list round),
  (1 <= F)%nat -> Tail x -> Forall (fun rd => acc_round rd = true) rs ->
  lenN rs = wb (m x) + 1 ->
  snd (polls (std_cfg wbs r h431 fx) F x rs) = PDone.
Proof. intros. apply terminates_within; assumption. Qed.

(* non-vacuity of the two theorems above: a Tail state with 5 unflushed bytes and a byte-wise socket *)
Example C04_termination_example :
  let c := std_cfg 32768 H1_LW_BUFFER_SIZE 123 true in
  let x := upd_m (fun s => set_rd_disc true (set_wb 5 s)) (sim_init [] []) in
  let rs := repeat (mk_round 0 false [WAccept 1] [] false) 6 in
  Tail x /\ snd (polls c 8 x (firstn 4 rs)) = PPend /\ snd (polls c 8 x (firstn 5 rs)) = PDone /\ snd (polls c 8 x rs) = PDone.
Proof. vm_compute. repeat split. Qed.

(* TRANSLATOR TIE (tools/gen/dispatcher_guards.py -> Gen/DispatcherGuards.v): the wake / flush / epilogue
   guards of the models are the interpretation of the records extracted from dispatcher.rs on every
   run -- the three-way match on the payload status at the read cap (who self-wakes, who waits),
   the bookkeeping of the three arms of poll_flush (`written += n`, `advance(written)` + Pending,
   WriteZero) and its exit, the atoms under which the stored error is surfaced, and the
   F21/F28 self-wake condition.  Editing one of those source lines regenerates the records and
   breaks this theorem.  Last two conjuncts: the end-of-stream block of Dispatcher::poll (right after the
   top-level poll_request) is entered exactly when read_available reported end-of-stream -- its guard
   mentions neither read_buf, the payload nor the queue -- and sets READ_DISCONNECT. *)
Theorem C04_guards_match_source :
  (forall st, cap_lookup DG_CAP_MATCH (dg_of_status st) = Some (if cap_self_wake st then DgSelfWake else DgWait)) /\
  (forall a b, op_b DG_FLUSH_LOOP_OP a b = (a <? b)) /\
  (forall fuel buf written script dflt wire calls,
     op_b DG_FLUSH_LOOP_OP written (lenN buf) = true -> fst (next_ans script dflt) = WPending ->
     let o := write_loop (S fuel) buf written script dflt wire calls in
     f_buf o = (if has_stmt DgAdvanceWritten DG_FLUSH_PENDING then slice_from written buf else buf) /\
     f_res o = (if has_stmt DgReturnPending DG_FLUSH_PENDING then FlPending else FlReady) /\ f_wire o = wire) /\
  (forall fuel buf written script dflt wire calls k,
     op_b DG_FLUSH_LOOP_OP written (lenN buf) = true -> fst (next_ans script dflt) = WAccept k ->
     N.min k (lenN (slice_from written buf)) =? 0 = false ->
     let n := N.min k (lenN (slice_from written buf)) in
     write_loop (S fuel) buf written script dflt wire calls =
     write_loop fuel buf (if has_stmt DgWrittenAddN DG_FLUSH_READYN then written + n else written)
                (snd (next_ans script dflt)) dflt (wire ++ take n (slice_from written buf)) (calls + 1)) /\
  (forall buf script dflt fl,
     (buf <> [] -> fst (next_ans script dflt) = WZero ->
      f_res (poll_flush buf script dflt fl) = (if has_stmt DgErrWriteZero DG_FLUSH_READY0 then FlWriteZero else FlReady)) /\
     (f_res (poll_flush buf script dflt fl) = FlReady ->
      f_buf (poll_flush buf script dflt fl) = (if has_stmt DgClear DG_FLUSH_DONE then [] else buf) /\
      has_stmt DgPollFlush DG_FLUSH_DONE = true /\ fl = FReady)) /\
  (forall none wbe wc op rbn, atoms_b none wbe wc op rbn DG_ERROR_GUARD = none && wbe) /\
  (forall c F x r x', poll c F x r = (x', PFailTooLarge) ->
     atoms_b (match state (m x') with SNone => true | _ => false end) (wb (m x') =? 0) false false false
             DG_ERROR_GUARD = true) /\
  (forall c qtop crtop qend crend rbn,
     let was_closed := conn_b DG_WAS_CLOSED_CONN (op_b DG_WAS_CLOSED_OP qtop (c_maxp c)) (neg_b DG_WAS_CLOSED_NEG crtop) in
     let is_open := conn_b DG_OPEN_CONN (op_b DG_OPEN_OP qend (c_maxp c)) (neg_b DG_OPEN_NEG crend) in
     atoms_b false false was_closed is_open rbn DG_SELF_WAKE =
     ((c_maxp c <=? qtop) || negb crtop) && ((qend <? c_maxp c) && crend) && rbn) /\
  (forall sd rb_empty no_payload queue_empty, disc_guard_b sd rb_empty no_payload queue_empty = sd) /\
  (has_disc_stmt DgSetReadDisconnect = true /\ has_disc_stmt DgPayloadIncomplete = true /\
   has_disc_stmt DgPayloadFeedEof = true).
Proof.
  split; [exact tie_cap_match|]. split; [exact tie_flush_loop_op|]. split; [exact tie_flush_pending|].
  split; [exact tie_flush_ready_n|]. split; [exact tie_flush_ready0_done|]. split; [exact tie_error_guard|].
  split; [exact tie_error_guard_poll|]. split; [exact tie_self_wake|].
  split; [exact tie_disconnect_guard|exact tie_disconnect_stmts].
Qed.

(* EOF SEEN => READ_DISCONNECT SET IN THE SAME POLL, whatever read_buf holds (undecodable leftovers:
   a truncated head, a stray CRLF), whatever is queued, running or being decoded.  EVERY poll of the
   normal branch in which the socket has been closed by the peer (in this round or earlier) while
   READ_DISCONNECT was not yet set, with fewer than MAX_BUFFER_SIZE bytes buffered + readable, ends
   with READ_DISCONNECT set, whatever its result ([bad]: the model run is flagged -- a guard of the
   event model was closed or a loop ran out of fuel). *)
Theorem C04_eof_sets_read_disconnect : forall wbs r h431 fx f28 F (x : sim) (rd : round) x' p,
  let c := std_cfg2 wbs r h431 fx f28 in
  shut x = false -> rd_disc (m x) = false -> eof x || r_eof rd = true ->
  rb (m x) + (sock x + r_add rd) < H1_MAX_BUFFER_SIZE ->
  poll c F x rd = (x', p) -> rd_disc (m x') = true \/ bad x' = true.
Proof.
  intros wbs r h431 fx f28 F x rd x' p c Hs Hr He Hlt Hp.
  exact (eof_poll_sets_read_disconnect c F x rd x' p Hs Hr He Hlt Hp).
Qed.

(* non-vacuity: the first handler waits, two requests are queued, then 27 bytes of a 400-byte head
   arrive together with the FIN: the poll returns Pending with READ_DISCONNECT set, the queue intact
   and the leftover in read_buf; once the handler answers, everything is answered and the future
   completes *)
Example C04_eof_with_queue_example :
  let c := std_cfg2 32768 H1_LW_BUFFER_SIZE 123 true true in
  let x := fst (polls c 20 (sim_init [IReq 18 None; IReq 18 None; IReq 18 None; IReq 400 None]
                                      [[HWait; HRespond 56 None]; [HRespond 56 None]; [HRespond 56 None]])
                      [mk_round 54 false [WAccept 1000] [] false]) in
  let '(x', p) := poll c 20 x (mk_round 27 true [WAccept 1000] [] false) in
  shut x = false /\ rd_disc (m x) = false /\ lenN (q (m x)) = 2 /\
  p = PPend /\ rd_disc (m x') = true /\ bad x' = false /\ lenN (q (m x')) = 2 /\ rb (m x') = 27 /\
  let '(x'', p') := poll c 20 x' (mk_round 0 false [WAccept 1000] [] true) in
  p' = PDone /\ started x'' = 3 /\ accepted x'' = 168 /\ bad x'' = false.
Proof. vm_compute. repeat split. Qed.

(* non-vacuity: partial writes, a Pending in the middle, completion *)
Example C04_example :
  let ops := [FPut [1;2;3;4;5]; FFlush [WAccept 2; WPending] WPending FReady;
              FPut [6;7]; FFlush [WAccept 1; WAccept 10] WPending FPending;
              FFlush [] WPending FReady] in
  s_wire (frun ops) = [1;2;3;4;5;6;7] /\ s_buf (frun ops) = [] /\ s_last (frun ops) = FlReady /\
  s_wire (frun (firstn 2 ops)) = [1;2] /\ s_wreg (frun (firstn 2 ops)) = true.
Proof. vm_compute. repeat split. Qed.
