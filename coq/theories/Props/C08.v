(* C08 — HTTP/2 responses are complete and well-described under any flow-control schedule.
   Only statements here; proofs live in H2/{SendLoopProofs,PrepareProofs,ResponseProofs}.v.

   Reading guide.  [handle_response C now r sr caps sds] is the model of
   actix-http/src/h2/dispatcher.rs::handle_response for the response [r] (HEAD-ness of the request,
   status, handler headers, body size, body script) against an abstract h2 stream: [caps] are the
   successive answers of `poll_capacity` (ANY list of CapNone | CapErr | CapOk n, n arbitrary),
   [sds] the successive results of `send_data`. It returns the successful stream calls in order
   (OHead / OReserve / OData) and how the function ended. [body_loop] is the
   `while let Some(chunk)` loop alone. The model is the code WITH fixes/F10.patch (empty chunks are
   skipped); [body_loop_orig] is the loop before it. *)
From AV Require Import Lib.Base Gen.Consts H2.Prepare H2.SendLoop H2.Spec
  H2.PrepareProofs H2.SendLoopProofs H2.ResponseProofs H2.ErrorProofs
  H2.RecvPayload H2.RecvPayloadProofs H2.Dispatch H2.DispatchProofs
  Gen.H2Tables H2.TablesTie H2.LengthProofs H2.ConnWindow H2.ConnWindowProofs.

Definition C := H2_CHUNK_SIZE.

(* For every body script and every capacity-grant sequence: the concatenation of the send_data
   payloads is a prefix of the body's bytes (in order, nothing invented, nothing reordered); if the
   loop ends normally it is the whole body, the body did not fail, and exactly one END_STREAM was
   sent, as the last operation; if it does not end normally no END_STREAM is sent at all. *)
Theorem C08_data_exact : forall (evs : list bev) (caps : list cap_ans) (sds : list bool) t o,
  body_loop C evs caps sds = (t, o) ->
  exists rest, body_bytes evs = data_of t ++ rest /\
    (o = ODone -> rest = [] /\ body_fails evs = false /\
                  exists t0, t = t0 ++ [OData [] true] /\ eos_count t0 = O) /\
    (o <> ODone -> eos_count t = O).
Proof. exact (body_loop_spec C). Qed.

(* The same for the whole response (head included): DATA is a prefix of the body; a response that
   completes with a body carries all of it. *)
Theorem C08_response_data_exact : forall now r caps sds t o,
  handle_response C now r true caps sds = (t, o) ->
  exists rest, body_bytes (r_body r) = data_of t ++ rest /\
    (o = ODone -> r_head_req r = false ->
     is_eof (snd (prepare_response now (r_status r) (r_hdrs r) (r_size r))) = false ->
     rest = [] /\ body_fails (r_body r) = false).
Proof. exact (response_data C). Qed.

(* A completed response has exactly one END_STREAM and it is on the last frame; a response that
   does not complete (reset, error, stalled peer) has none. *)
Theorem C08_one_end_stream : forall now r caps sds t o,
  handle_response C now r true caps sds = (t, o) ->
  (o = ODone -> exists t0 x, t = t0 ++ [x] /\ is_eos_op x = true /\ eos_count t0 = O) /\
  (o <> ODone -> eos_count t = O).
Proof. exact (one_end_stream C). Qed.

(* Flow-control schedules cannot change what a completed response delivers. *)
Theorem C08_schedule_independent : forall now r caps1 sds1 caps2 sds2 t1 t2,
  handle_response C now r true caps1 sds1 = (t1, ODone) ->
  handle_response C now r true caps2 sds2 = (t2, ODone) ->
  data_of t1 = data_of t2 /\ hd_error t1 = hd_error t2.
Proof.
  intros now r caps1 sds1 caps2 sds2 t1 t2 H1 H2.
  pose proof (response_data C _ _ _ _ _ _ H1) as [r1 [D1 F1]].
  pose proof (response_data C _ _ _ _ _ _ H2) as [r2 [D2 F2]].
  apply handle_response_spec in H1, H2. cbn zeta in H1, H2.
  destruct (is_eof _ || r_head_req r) eqn:E.
  - destruct H1 as [-> _], H2 as [-> _]. split; reflexivity.
  - apply orb_false_iff in E as [E1 E2].
    destruct (F1 eq_refl E2 E1) as [-> _]. destruct (F2 eq_refl E2 E1) as [-> _].
    rewrite !app_nil_r in *. destruct H1 as [tb1 [-> _]], H2 as [tb2 [-> _]].
    split; [congruence|reflexivity].
Qed.

(* Progress: every iteration of the 'send loop that is granted cap > 0 strictly shrinks the
   pending chunk. *)
Theorem C08_progress : forall (chunk : bytes) (cap : N),
  chunk <> [] -> 0 < cap ->
  lenN (skipn (N.to_nat (N.min (lenN chunk) cap)) chunk) < lenN chunk.
Proof. exact split_progress. Qed.

(* Hence: whenever every grant is positive, at most |body| grants complete the response. *)
Theorem C08_completes_under_positive_grants : forall evs caps,
  body_fails evs = false -> Forall positive_grant caps ->
  (length (body_bytes evs) <= length caps)%nat ->
  snd (body_loop C evs caps []) = ODone.
Proof. exact (body_loop_completes C). Qed.

(* The repaired loop never asks h2 for zero capacity (so its liveness does not depend on how h2
   treats such a request), and never for more than CHUNK_SIZE. *)
Theorem C08_never_reserves_zero : forall evs caps sds t o,
  body_loop C evs caps sds = (t, o) -> Forall (fun n => 0 < n <= C) (reserves_of t).
Proof. intros evs caps sds t o. apply body_loop_reserves. reflexivity. Qed.

(* F10 (repaired by fixes/F10.patch).  Hypothesis [cap_zero_request_pends]: after
   reserve_capacity(0), poll_capacity never becomes ready (read in h2 0.3.27:
   `send_capacity_inc` is set only when capacity is assigned; re-established on the real code by
   the harness: ["ab","","cd"] times out).  Under it the loop as it was never completes a body
   that contains an empty chunk, whatever the peer grants: *)
Theorem C08_refuted_empty_chunk_stalls : forall zero_pends : bool,
  zero_pends = true (* cap_zero_request_pends *) ->
  exists evs, body_fails evs = false /\
    forall caps sds, snd (body_loop_orig C zero_pends evs caps sds) <> ODone /\
                     data_of (fst (body_loop_orig C zero_pends evs caps sds)) <> body_bytes evs.
Proof.
  intros zp ->. exists [BChunk [97;98]; BChunk []; BChunk [99;100]]. split; [reflexivity|].
  intros caps sds.
  destruct (body_loop_orig C true [BChunk [97;98]; BChunk []; BChunk [99;100]] caps sds) as [t o] eqn:E.
  apply (orig_empty_chunk_stalls C [[97;98]] [BChunk [99;100]]) in E as [Ho [rest Hr]].
  - split; [exact Ho|]. cbn [fst concat app body_bytes] in *. intro Hd. rewrite Hd in Hr.
    apply (f_equal (@length N)) in Hr. rewrite app_length in Hr. cbn [length] in Hr. lia.
  - constructor; [discriminate|constructor].
Qed.

(* ... and outside that class of bodies the old loop and the repaired loop are the same function,
   so every theorem above also held for the old code on bodies without empty chunks. *)
Theorem C08_orig_holds_outside_known : forall zero_pends evs caps sds,
  has_empty_chunk evs = false ->
  body_loop_orig C zero_pends evs caps sds = body_loop C evs caps sds.
Proof. exact (orig_agrees_without_empty C). Qed.

(* No connection-specific header reaches an HTTP/2 client, whatever the handler put in. *)
Theorem C08_no_connection_headers : forall now status hdrs size name,
  In name connection_specific ->
  has_header name (fst (prepare_response now status hdrs size)) = false.
Proof. exact no_forbidden_header. Qed.

(* content-length: present iff the body size is Sized n and the status is not one for which the
   code suppresses it (204/100/102/101), then exactly once with the decimal numeral of n.
   (Premise: a handler-supplied content-length next to a Stream body is copied through; see
   C08_user_length_dropped for the other sizes.) *)
Theorem C08_content_length : forall now status hdrs size,
  (size = SStream -> values_of h_content_length hdrs = []) ->
  values_of h_content_length (fst (prepare_response now status hdrs size)) =
  match size with
  | SSized n => if code_no_length status then [] else [itoa n]
  | _ => []
  end.
Proof. exact content_length_rule. Qed.

Theorem C08_length_numeral : forall n, n < 2 ^ 64 -> atoi (itoa n) = n.
Proof. exact atoi_itoa. Qed.

(* unless the body is a Stream, a handler-supplied content-length never reaches the client *)
Theorem C08_user_length_dropped : forall now status hdrs size,
  size <> SStream ->
  values_of h_content_length (fst (prepare_response now status hdrs size)) =
  match snd (prepare_response now status hdrs size) with SSized n => [itoa n] | _ => [] end.
Proof. exact user_length_dropped_when_sized. Qed.

(* FULL statement wanted by the property: "a content-length that matches when one is sent", for
   every handler body.  Proved part: for an HONEST body (size() = Sized(number of bytes it yields))
   the header equals the number of DATA bytes of the completed response.  Missing: nothing in
   actix or in h2's sending side enforces honesty; a lying body cannot satisfy both "exactly the
   bytes the handler produced" and "a matching content-length". *)
Theorem C08_content_length_matches_partial : forall now r caps sds t,
  handle_response C now r true caps sds = (t, ODone) ->
  r_head_req r = false -> code_no_length (r_status r) = false ->
  r_size r = SSized (lenN (body_bytes (r_body r))) ->
  exists hs eos tb, t = OHead hs eos :: tb /\
    values_of h_content_length hs = [itoa (lenN (data_of t))].
Proof. exact (content_length_matches C). Qed.

(* HEAD requests and the statuses the code treats as body-less (204, 100, 102), and bodies of size
   None / Sized(0): END_STREAM travels with the head and no DATA frame is ever sent, for every
   body script and schedule. *)
Theorem C08_head_and_bodiless : forall now r caps sds,
  (r_head_req r = true \/ code_bodiless (r_status r) = true \/
   (r_status r <> 101 /\ is_eof (r_size r) = true)) ->
  handle_response C now r true caps sds =
    ([OHead (fst (prepare_response now (r_status r) (r_hdrs r) (r_size r))) true], ODone).
Proof.
  intros now r caps sds H. apply handle_response_bodiless; [|reflexivity].
  destruct H as [H|[H|[H1 H2]]]; [left; exact H|right|right]; rewrite prepare_size.
  - rewrite H. reflexivity.
  - destruct (code_bodiless (r_status r)); [reflexivity|].
    apply N.eqb_neq in H1. rewrite H1. exact H2.
Qed.

(* Known finding `status-304-body`: RFC 9110 makes 304 and every 1xx body-less too; the code
   streams the handler's body for them. *)
Theorem C08_refuted_status_304_body :
  exists r, rfc_bodiless (r_status r) = true /\ r_status r = 304 /\
            data_of (fst (handle_response C [] r true [CapOk 3] [])) <> [].
Proof.
  exists (mkResp false 304 [] (SSized 3) [BChunk [1;2;3]]). repeat split. vm_compute. discriminate.
Qed.

Theorem C08_bodiless_holds_outside_known : forall now r caps sds,
  (r_head_req r = true \/ rfc_bodiless (r_status r) = true) ->
  known_status_body r = false ->
  handle_response C now r true caps sds =
    ([OHead (fst (prepare_response now (r_status r) (r_hdrs r) (r_size r))) true], ODone).
Proof. exact (bodiless_outside_known C). Qed.

(* ------------------------------------------------------------------ error paths of handle_response *)

(* Every abnormal outcome has its cause in the environment: a send error comes from an
   Err of poll_capacity or of send_data, a dropped body from poll_capacity = None, a body error from
   the handler's body; SendResponse errors cannot come out of the body loop. *)
Theorem C08_error_causes : forall evs caps sds t o,
  body_loop C evs caps sds = (t, o) ->
  match o with
  | OErrSend => In CapErr caps \/ In false sds
  | ODropped => In CapNone caps
  | OErrBody => body_fails evs = true
  | OErrResponse => False
  | ODone | OBlocked => True
  end.
Proof. exact (body_loop_causes C). Qed.

(* ... and each cause takes effect at once: Err(capacity) / Err(send_data) => DispatchError::SendData,
   None => Ok(()) without END_STREAM, body Err => DispatchError::ResponseBody with nothing further
   sent, failing final send_data => SendData error and no END_STREAM. *)
Theorem C08_error_effects :
  (forall chunk caps sds, snd (send_chunk C chunk (CapErr :: caps) sds) = SStop OErrSend) /\
  (forall chunk caps sds, snd (send_chunk C chunk (CapNone :: caps) sds) = SStop ODropped) /\
  (forall chunk n caps sds, send_chunk C chunk (CapOk n :: caps) (false :: sds) =
                            ([OReserve (N.min (lenN chunk) C)], SStop OErrSend)) /\
  (forall evs caps sds, body_loop C (BErr :: evs) caps sds = ([], OErrBody)) /\
  (forall sds, finish (false :: sds) = ([], OErrSend)).
Proof.
  repeat split; try reflexivity.
Qed.

(* A failing body never completes the response and never gets an END_STREAM (the dropped stream is
   reset by h2), whatever the schedule; under fair grants the function returns exactly the body
   error after sending what preceded it. *)
Theorem C08_body_error_resets : forall evs,
  body_fails evs = true ->
  (forall caps sds t o, body_loop C evs caps sds = (t, o) -> o <> ODone /\ eos_count t = O) /\
  (forall caps, Forall positive_grant caps -> (length (body_bytes evs) <= length caps)%nat ->
                snd (body_loop C evs caps []) = OErrBody).
Proof.
  intros evs Hf. split.
  - intros caps sds t o H. destruct (body_loop_spec C _ _ _ _ _ H) as [rest [_ [Hd Hn]]].
    assert (Ho : o <> ODone) by (intro Ho; destruct (Hd Ho) as [_ [Hf' _]]; congruence).
    split; [exact Ho|exact (Hn Ho)].
  - intros caps HF Hl. apply body_loop_error; assumption.
Qed.

(* send_response failing (stream already reset): nothing is sent, DispatchError::SendResponse. *)
Theorem C08_send_response_error : forall now r caps sds,
  handle_response C now r false caps sds = ([], OErrResponse).
Proof. exact (send_response_error C). Qed.

(* One run of handle_response sends exactly one response head, or none iff send_response failed. *)
Theorem C08_one_head_per_task : forall now r sr caps sds t o,
  handle_response C now r sr caps sds = (t, o) ->
  head_count t = (if sr then 1 else 0)%nat /\ (sr = false <-> o = OErrResponse).
Proof. exact (one_head C). Qed.

(* ------------------------------------------------------------------ Dispatcher::poll bookkeeping *)

(* For every sequence of poll_accept answers: the spawned handle_response tasks are exactly the
   accepted requests of a prefix of that sequence, in order, one each, with head_req = (method is
   HEAD); while the connection neither ends nor fails every accepted request has its task. With
   C08_one_head_per_task: exactly one response (or a reset) per request. *)
Theorem C08_dispatch_one_task_per_request :
  (forall ka accs fl ppos sp res acts,
     dispatch ka fl accs ppos = (sp, res, acts) -> exists k, sp = reqs_of (firstn k accs)) /\
  (forall accs fl ppos, forallb (fun a => negb (is_stop a)) accs = true ->
     dispatch false fl accs ppos = (reqs_of accs, DOpen, [])).
Proof. split; [exact dispatch_spawns|exact dispatch_all]. Qed.

(* Keep-alive ping-pong of one poll call (hypothesis inside the model: a timer reset in this call
   is pending for the rest of it): the loop ends within three rounds; at most one PING is sent; the
   connection is closed for a missing pong only when a PING was outstanding at entry and the timer
   fired; a PING is marked outstanding afterwards only if one was before or one was just sent; a new
   PING while one was outstanding is only sent after its pong arrived. *)
Theorem C08_ping_pong : forall in_flight pongs timer ping_ok,
  pp_poll in_flight false pongs timer ping_ok <> None /\
  forall r fl acts ps, pp_poll in_flight false pongs timer ping_ok = Some (r, fl, acts, ps) ->
    (pings acts <= 1)%nat /\
    (r = PClose -> in_flight = true /\ timer = true /\ acts = []) /\
    (fl = true -> in_flight = true \/ pings acts = 1%nat) /\
    (in_flight = true -> pings acts = 1%nat -> fst (next_pong pongs) = PgReady).
Proof.
  intros. split; [apply pp_poll_total|]. intros. eapply pp_poll_spec; eassumption.
Qed.

(* ------------------------------------------------------------------ request side: h2::Payload *)

(* [drain evs rels]: the handler polls `Payload::poll_next` once per answer of the RecvStream
   ([RData b | RErr e | RPending | REnd], any list); [rels] are the results of release_capacity. *)

(* Capacity given back to the peer = bytes handed to the handler: never more, never less. *)
Theorem C08_payload_release_exact : forall evs rels its ops,
  drain evs rels = (its, ops) -> released ops = lenN (concat (delivered its)).
Proof. exact released_eq_delivered. Qed.

(* release_capacity is called once per data chunk with that chunk's length, and for nothing else
   (no call for an error item, for the end, for Pending). *)
Theorem C08_payload_release_calls : forall evs rels its ops,
  drain evs rels = (its, ops) -> map rel_amount ops = map lenN (received evs).
Proof. exact release_calls. Qed.

(* While release_capacity succeeds the handler sees the stream's answers one for one: the same
   chunks in the same order, errors as PayloadError::Http2Payload, the end as the end. *)
Theorem C08_payload_transparent : forall evs rels its ops,
  forallb rel_ok rels = true -> drain evs rels = (its, ops) ->
  its = map item_of evs /\ delivered its = received evs.
Proof. exact transparent_when_release_ok. Qed.

(* In general the delivered chunks are a subsequence of the received ones, in order: a chunk is
   withheld only when its release_capacity fails, and then that error is delivered instead. *)
Theorem C08_payload_subsequence : forall evs rels its ops,
  drain evs rels = (its, ops) -> subseq (delivered its) (received evs).
Proof. exact delivered_subseq. Qed.

(* Error mapping: every stream error reaches the handler as Http2Payload of the same h2 error, and
   the handler sees no error that is not an h2 stream error or a release_capacity error. *)
Theorem C08_payload_error_mapping : forall evs rels its ops e,
  drain evs rels = (its, ops) ->
  (In (RErr e) evs -> In (PErr (Http2Payload e)) its) /\
  (In (PErr (Http2Payload e)) its -> In (RErr e) evs \/ In (Some e) rels).
Proof.
  intros. split; [eapply stream_errors_forwarded|eapply error_sources]; eassumption.
Qed.

(* ------------------------------------------------------------------ translator tie (Gen/H2Tables.v)
   tools/gen/h2.py re-reads h2/dispatcher.rs on every check run and writes the literals below; a
   definition is omitted when its anchored pattern is gone, so these theorems then fail to build. *)

(* For every status code 100..=999: the model's body-less statuses are exactly the arm
   `NO_CONTENT | CONTINUE | PROCESSING => *size = BodySize::None` as written, its Stream rule is the
   `SWITCHING_PROTOCOLS => { skip_len = true; *size = BodySize::Stream }` arm, and the whole
   `match head.status` block of the model equals the block described by the generated tables. *)
Theorem C08_status_rule_matches_generated : forall status,
  100 <= status <= 999 ->
  code_bodiless status = memN status H2_NONE_STATUSES /\
  code_no_length status = (memN status H2_NONE_STATUSES || memN status H2_STREAM_STATUSES) /\
  forall skip_len size, status_size status skip_len size = status_size_gen status skip_len size.
Proof. exact status_rule_matches_generated. Qed.

(* For EVERY header name: the copy loop of the model skips it iff it is in the generated name
   lists (`&CONNECTION | &TRANSFER_ENCODING | &UPGRADE` and the `from_static("keep-alive")` /
   `("proxy-connection")` tests, as written) or it is content-length and skip_len holds; and the
   names C08_no_connection_headers speaks about are that same set. *)
Theorem C08_skipped_headers_match_generated : forall skip_len k,
  dropped skip_len k = memB k (H2_SKIPPED_CONSTS ++ H2_SKIPPED_STATIC)
                       || (bytes_eqb k h_content_length && skip_len)
  /\ memB k connection_specific = memB k (H2_SKIPPED_CONSTS ++ H2_SKIPPED_STATIC).
Proof. intros. split; [apply skipped_headers_match_generated|apply spec_names_match_generated]. Qed.

(* Literal presence checks: `let mut skip_len = size != &BodySize::Stream;`,
   `&CONTENT_LENGTH if skip_len => continue`, `&DATE => has_date = true`, `skip_len = true` in the 101
   arm, `let eof_or_head = size.is_eof() || head_req;` (+ its two uses), BodySize::is_eof =
   None | Sized(0), `cmp::min(chunk.len(), CHUNK_SIZE)` + reserve_capacity, the split_to rule, the
   empty-chunk skip (F10 repair), the closing `send_data(Bytes::new(), true)`; and no further arm in
   either match. *)
Theorem C08_literal_rules_present :
  H2_SKIP_LEN_UNLESS_STREAM && H2_CL_SKIPPED_IF_SKIP_LEN && H2_DATE_NOTED_AND_KEPT
  && H2_STREAM_SETS_SKIP_LEN && H2_EOS_RULE && H2_IS_EOF_NONE_OR_SIZED0
  && H2_CHUNK_CAP_RULE && H2_SPLIT_RULE && H2_SKIP_EMPTY_CHUNK && H2_FINAL_FRAME_RULE
  && (H2_STATUS_ARMS =? 2) && (H2_COPY_ARMS =? 5) = true.
Proof. exact literal_rules_present. Qed.

(* non-vacuity: a two-chunk body (with an empty chunk in between, the F10 witness) through a
   window that forces splitting, grants 0 / exact / larger than requested included *)
Example C08_example :
  let r := mkResp false 200 [(h_connection, [1]); (h_content_length, [55])] (SSized 4)
                  [BChunk [97;98]; BPending; BChunk []; BChunk [99;100]] in
  handle_response C [] r true [CapOk 1; CapOk 0; CapOk 7; CapOk 1; CapOk 16384] [] =
    ([OHead [(h_content_length, [52]); (h_date, [])] false;
      OReserve 2; OData [97] false; OReserve 1; OData [] false; OReserve 1; OData [98] false;
      OReserve 2; OData [99] false; OReserve 1; OData [100] false; OData [] true], ODone)
  /\ Forall positive_grant [CapOk 1; CapOk 7] /\ known_status_body r = false.
Proof. repeat split; try (vm_compute; reflexivity). repeat constructor. Qed.

Example C08_example_request_side :
  drain [RData [1;2]; RPending; RData []; RData [3]; RErr 8; REnd] [None; None; Some 5] =
    ([PChunk [1;2]; PPending; PChunk []; PErr (Http2Payload 5); PErr (Http2Payload 8); PEnd],
     [RelOk 2; RelOk 0; RelFail 1])
  /\ dispatch true false [AReq 1 false; APending; AReq 3 true; APending; AEnd]
        [mkPP [] true true; mkPP [PgReady] false true] =
      ([(1, false); (3, true)], DOk, [PSendPing; PResetTimer; PResetTimer]).
Proof. split; vm_compute; reflexivity. Qed.

(* ---------------------------------------------------------------- session 4 *)

(* skip_len as the copy loop sees it, for the four BodySize cases (None, Sized(0), Sized(n), Stream)
   and every status: true for every size but Stream (initialiser `size != &BodySize::Stream`), and
   for Stream exactly under 101. A handler-supplied content-length is copied iff it is false. *)
Theorem C08_skip_len_rule : forall status size,
  fst (status_size status (skip_len_init size) size) =
  match size with SNone | SSized _ => true | SStream => status =? 101 end.
Proof. exact skip_len_final. Qed.

(* the initialiser is the one the translator evaluates from the source expression *)
Theorem C08_skip_len_init_matches_generated : forall size,
  skip_len_init size =
  match size with
  | SNone => H2_SKIP_LEN_INIT_NONE | SSized _ => H2_SKIP_LEN_INIT_SIZED | SStream => H2_SKIP_LEN_INIT_STREAM
  end.
Proof. exact skip_len_init_matches_generated. Qed.

(* All content-length values of the emitted head, for EVERY size, status and handler header set
   (no premise on the handler's headers): the function's own `itoa n` for the final size Sized n,
   followed -- only next to a Stream body outside 101 -- by the handler's own values. *)
Theorem C08_content_length_values : forall now status hdrs size,
  values_of h_content_length (fst (prepare_response now status hdrs size)) =
  (match snd (prepare_response now status hdrs size) with SSized n => [itoa n] | _ => [] end)
  ++ (match size with
      | SStream => if status =? 101 then [] else values_of h_content_length hdrs
      | _ => []
      end).
Proof. exact content_length_values_all. Qed.

(* None / Sized body, ANY handler header set (a handler-supplied content-length, right or wrong,
   included), any status, any schedule: every content-length value on the wire of a completed
   non-HEAD response is the number of DATA bytes (premise: a Sized body yields what it declares;
   see C08_sized_claim_unchecked for the other case). *)
Theorem C08_content_length_wire : forall now r caps sds t,
  handle_response C now r true caps sds = (t, ODone) ->
  r_head_req r = false -> r_size r <> SStream ->
  (forall n, r_size r = SSized n -> n = lenN (body_bytes (r_body r))) ->
  exists hs eos tb, t = OHead hs eos :: tb /\
    forall v, In v (values_of h_content_length hs) -> v = itoa (lenN (data_of t)).
Proof. exact (content_length_wire C). Qed.

Example C08_content_length_wire_example :
  let r := mkResp false 200 [(h_content_length, [53])] SNone [] in
  handle_response C [] r true [] [] = ([OHead [(h_date, [])] true], ODone)
  /\ r_size r <> SStream.
Proof. split; [vm_compute; reflexivity|discriminate]. Qed.

(* Task 2 -- a body that declares Sized(n), n > 0, and yields another number of bytes: the head
   says n, the DATA frames carry exactly what the body yields, END_STREAM follows and the function
   returns Ok(()): nothing compares n with the bytes, no reset, no error, for any n. *)
Theorem C08_sized_claim_unchecked : forall now r caps sds t n,
  handle_response C now r true caps sds = (t, ODone) ->
  r_head_req r = false -> code_no_length (r_status r) = false ->
  r_size r = SSized n -> n <> 0 ->
  exists hs tb, t = OHead hs false :: tb /\
    values_of h_content_length hs = [itoa n] /\
    data_of t = body_bytes (r_body r) /\ body_fails (r_body r) = false /\
    exists t0, t = t0 ++ [OData [] true].
Proof. exact (sized_claim_unchecked C). Qed.

(* "a content-length that matches when one is sent" is false of the code for a body whose size()
   lies: content-length 5, three bytes, END_STREAM, Ok(()) (short), and content-length 1, three
   bytes (long). The positive statement outside this class is C08_content_length_wire /
   C08_content_length_matches_partial. *)
Theorem C08_refuted_content_length_lying_size :
  exists r1 r2 caps t1 t2,
    handle_response C [] r1 true caps [] = (t1, ODone) /\
    handle_response C [] r2 true caps [] = (t2, ODone) /\
    (exists hs tb, t1 = OHead hs false :: tb /\ values_of h_content_length hs = [itoa 5]) /\
    lenN (data_of t1) = 3 /\
    (exists hs tb, t2 = OHead hs false :: tb /\ values_of h_content_length hs = [itoa 1]) /\
    lenN (data_of t2) = 3.
Proof.
  exists (mkResp false 200 [] (SSized 5) [BChunk [1;2;3]]),
         (mkResp false 200 [] (SSized 1) [BChunk [1;2;3]]), [CapOk 3].
  eexists. eexists. split; [vm_compute; reflexivity|]. split; [vm_compute; reflexivity|].
  split; [eexists; eexists; split; [reflexivity|vm_compute; reflexivity]|].
  split; [vm_compute; reflexivity|].
  split; [eexists; eexists; split; [reflexivity|vm_compute; reflexivity]|vm_compute; reflexivity].
Qed.

(* ---- the shared connection window (H2/ConnWindow.v) ----
   [assign] is h2 distributing the connection window; the premises are the hypotheses about h2:
   distributing changes only assigned amounts, what a stream holds stays assigned while it is open
   (monotone), and a stream is never given more than it requested. With the code's reservation
   rule -- never more than the unsent remainder: min(len, CHUNK_SIZE) <= len -- in every reachable
   state (any interleaving of chunk arrivals, sends and peer grants on any number of streams)
   each stream holds at most what it requested and requested at most its own unsent bytes. *)
Theorem C08_held_capacity_le_pending : forall (assign : cst -> cst),
  (forall c, Forall2 (fun s s' => s_pend s' = s_pend s /\ s_req s' = s_req s /\ s_asg s <= s_asg s' /\
                                  (s_asg s <= s_req s -> s_asg s' <= s_req s'))
                     (c_streams c) (c_streams (assign c))) ->
  forall evs c, Forall held_ok (c_streams c) ->
    Forall held_ok (c_streams (fold_left (step (fun len => N.min len C) assign) evs c)).
Proof.
  intros assign H evs c. apply held_le_pending; [exact H|intro len; lia].
Qed.

(* hence a stream whose handler idles (no unsent bytes) holds NO connection window, however many
   chunks it sent before *)
Theorem C08_idle_streams_hold_nothing : forall (assign : cst -> cst),
  (forall c, Forall2 (fun s s' => s_pend s' = s_pend s /\ s_req s' = s_req s /\ s_asg s <= s_asg s' /\
                                  (s_asg s <= s_req s -> s_asg s' <= s_req s'))
                     (c_streams c) (c_streams (assign c))) ->
  forall evs c, Forall held_ok (c_streams c) ->
    Forall (fun s => s_pend s = 0 -> s_asg s = 0)
           (c_streams (fold_left (step (fun len => N.min len C) assign) evs c)).
Proof.
  intros assign H evs c. apply idle_streams_hold_nothing; [exact H|intro len; lia].
Qed.

(* and a stream waiting for capacity next to any number of idle streams receives every positive
   grant of the peer (premises 2 and 3 about h2: distribution conserves the window and leaves none
   unassigned while a stream still asks): after the grant it holds min(held + window + grant,
   request) > 0, so its next send makes progress (C08_progress). *)
Theorem C08_grant_reaches_waiting_stream_partial : forall (assign : cst -> cst),
  (forall c, Forall2 (fun s s' => s_pend s' = s_pend s /\ s_req s' = s_req s /\ s_asg s <= s_asg s' /\
                                  (s_asg s <= s_req s -> s_asg s' <= s_req s'))
                     (c_streams c) (c_streams (assign c))) ->
  (forall c, c_win (assign c) + sum_asg (c_streams (assign c)) = c_win c + sum_asg (c_streams c)) ->
  (forall c, c_win (assign c) = 0 \/ Forall (fun s => s_req s <= s_asg s) (c_streams (assign c))) ->
  forall win a idles g,
    held_ok a -> Forall idle_ok idles -> 0 < s_req a -> 0 < g ->
    exists a' idles',
      c_streams (step (fun len => N.min len C) assign (mkC win (a :: idles)) (EGrant g)) = a' :: idles' /\
      s_pend a' = s_pend a /\ s_req a' = s_req a /\
      N.min (s_asg a + win + g) (s_req a) <= s_asg a' /\ 0 < s_asg a' /\
      Forall idle_ok idles'.
Proof.
  intros assign H1 H2 H3 win a idles g. apply grant_reaches_waiting_stream; assumption.
Qed.

(* non-vacuity: the first-come-first-served distribution satisfies premise 1; five streams that
   each sent a 10-byte chunk and idle, a sixth with a 40 000-byte chunk, window 65 535: under the
   code's rule the sixth stream is assigned its whole request of 16 384 bytes; had the loop
   reserved CHUNK_SIZE regardless of the chunk, the five idle streams would hold 4 x 16 374 + 39
   bytes and the sixth would get nothing *)
Example C08_conn_window_example :
  let idle5 := [EChunk 0 10; ESend 0; EChunk 1 10; ESend 1; EChunk 2 10; ESend 2;
                EChunk 3 10; ESend 3; EChunk 4 10; ESend 4; EChunk 5 40000] in
  let c0 := mkC 65535 (repeat (mkSst 0 0 0) 6) in
  map s_asg (c_streams (fold_left (step (fun len => N.min len C) assign_ref) idle5 c0))
    = [0; 0; 0; 0; 0; 16384]
  /\ map s_asg (c_streams (fold_left (step (fun _ => C) assign_ref) idle5 c0))
    = [16374; 16374; 16374; 16373; 0; 0]
  /\ Forall held_ok (c_streams c0).
Proof. split; [vm_compute; reflexivity|split; [vm_compute; reflexivity|]]. repeat constructor; cbn; lia. Qed.
