(* C08 — placeholder while the proofs are being developed *)
From AV Require Import Lib.Base H2.Prepare H2.SendLoop.
