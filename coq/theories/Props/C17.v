(* C17 — the HTTP client delivers a response body completely or with an error, never cut; a
   connection goes back to the pool only when the response was read to its end; the number of
   open connections is bounded by the limit.  Only statements here; proofs in Client/*Proofs.v.

   Vocabulary (models in Client/ClientCodec.v, PlStream.v, Pool.v, Conn.v):
   - [body_result v c buf segs closed]: what `ClientResponse::body()` returns - (Ok body | Err |
     time-out, fate of the connection) - when the codec state after the head is [c], [buf] was read
     beyond the head, the socket then delivers the reads [segs] and finally end-of-stream
     ([closed = true]) or silence.  [v] selects the code: [v_orig] = THE TREE AS IT IS (findings
     F9 and F17 are known findings: the repository's own tests test_server::not_modified_spec_h1 and
     ::content_length pin the behaviour); [v_fixed] = the tree with fixes/F9.proposed.patch and
     fixes/F17.proposed.patch, NOT applied - theorems about it are named `..._with_proposed_...`.
   - [pbw k s []]: the payload decoder [k] (PayloadDecoder::length(n) | chunked() | eof(), model
     shared with C01) run over the whole byte string [s]: Ok (_, rest, body, finished).
   - [fresh k]: [k] is one of the three decoders a response head installs. *)
From AV Require Import Lib.Base Gen.Consts H1.Chunked H1.PayloadDec H1.Framing
  Client.ClientCodec Client.PlStream Client.Pool Client.Conn Client.RespHead
  Client.RespDecProofs Client.BodyProofs Client.ClientProofs Client.PoolProofs
  Client.PoolOwnership Client.LeftoverProofs Client.RespHeadLaws Gen.ClientTables Client.ClientTie
  Client.ReqConn Client.PoolWait Client.PoolWaitProofs.

(* 1. Segmentation independence of the response body: two ways of cutting the same bytes into
      reads give the same body, the same ending and the same fate of the connection. *)
Theorem C17_segmentation : forall (v : variant) (c : ccodec) (k : kind) (buf : bytes)
    (segs1 segs2 : list bytes) (closed : bool),
  cc_payload c = Some k -> fresh k -> nonempty segs1 -> nonempty segs2 ->
  concat segs1 = concat segs2 ->
  body_result v c buf segs1 closed = body_result v c buf segs2 closed.
Proof. exact segmentation. Qed.

(* 2. Complete or error.  FALSE of the tree as it is (finding F9, class
      [Known_F9]: the connection ends while a Content-Length / chunked decoder is unfinished);
      refuted below, and proved outside the class: *)
Definition Known_F9 (k : kind) (stream : bytes) (closed : bool) : Prop :=
  closed = true /\ k <> KEof /\ exists k' r b, pbw k stream [] = Ok (k', r, b, false).

Theorem C17_holds_outside_known_F9 : forall (c : ccodec) (k : kind) (buf : bytes) (segs : list bytes)
    (closed : bool) (body : bytes) (ft : fate),
  cc_payload c = Some k -> fresh k -> k <> KEof -> nonempty segs ->
  ~ Known_F9 k (buf ++ concat segs) closed ->
  body_result v_orig c buf segs closed = (BOk body, ft) ->
  exists k' rest, pbw k (buf ++ concat segs) [] = Ok (k', rest, body, true).
Proof.
  intros c k buf segs closed body ft Hc Hk Hne Hs Hnk H.
  destruct (orig_complete_or_known c k buf segs closed body ft Hc Hk Hs H) as [Hd|[-> (k' & r & E)]].
  - exact Hd.
  - exfalso. apply Hnk. split; [reflexivity|]. split; [exact Hne|]. do 3 eexists; exact E.
Qed.

(* in particular, as long as the connection does not end the tree as it is never delivers a cut body *)
Theorem C17_complete_or_error_open_connection : forall (c : ccodec) (k : kind) (buf : bytes) (segs : list bytes) body ft,
  cc_payload c = Some k -> fresh k -> nonempty segs ->
  body_result v_orig c buf segs false = (BOk body, ft) ->
  exists k' rest, pbw k (buf ++ concat segs) [] = Ok (k', rest, body, true).
Proof. exact orig_outside_f9. Qed.

(* WOULD HOLD with fixes/F9.proposed.patch (not applied): no exception for the end of the connection *)
Theorem C17_complete_or_error_with_proposed_F9 : forall (c : ccodec) (k : kind) (buf : bytes) (segs : list bytes)
    (closed : bool) (body : bytes) (ft : fate),
  cc_payload c = Some k -> fresh k -> k <> KEof -> nonempty segs ->
  body_result v_fixed c buf segs closed = (BOk body, ft) ->
  exists k' rest, pbw k (buf ++ concat segs) [] = Ok (k', rest, body, true).
Proof. exact complete_or_error. Qed.

(* ... and for Content-Length "reached its end" means: exactly the first n bytes of the stream *)
Theorem C17_length_exact : forall (n : N) (s : bytes) k' rest body,
  pbw (KLength n) s [] = Ok (k', rest, body, true) -> s = body ++ rest /\ lenN body = n.
Proof. exact length_complete. Qed.

(* 3. Finding F9 (known; the tree as it is).  Refutation: a concrete short success ... *)
Theorem C17_refuted_F9 :
  exists (c : ccodec) (segs : list bytes),
    cc_payload c = Some (KLength 10) /\
    body_result v_orig c [] segs true = (BOk [104;101;108;108;111], FClosed) /\
    pbw (KLength 10) (concat segs) [] = Ok (KLength 5, [], [104;101;108;108;111], false).
Proof.
  exists (mk_ccodec (Some (KLength 10)) CKeepAlive false false), [[104;101;108;108;111]].
  vm_compute. repeat split.
Qed.

(* ... in fact EVERY end of stream inside a length-delimited or chunked body is one (the decode
   buffer is always empty when the payload decoder asks for more) ... *)
Theorem C17_F9_every_cut : forall (c : ccodec) (k : kind) (buf : bytes) (segs : list bytes) k' r body,
  cc_payload c = Some k -> fresh k -> nonempty segs ->
  pbw k (buf ++ concat segs) [] = Ok (k', r, body, false) ->
  body_result v_orig c buf segs true = (BOk body, FClosed).
Proof. exact f9_every_cut. Qed.

(* 4. Read-to-close bodies (HTTP/1.0 without length, 101) end where the connection ends: every
      byte is delivered and the connection is not reused. *)
Theorem C17_read_to_close : forall (v : variant) (c : ccodec) (buf : bytes) (segs : list bytes),
  cc_payload c = Some KEof -> nonempty segs ->
  body_result v c buf segs true = (BOk (buf ++ concat segs), FClosed).
Proof. exact read_to_close. Qed.

(* 5. Release only when done: `on_release(true)` happens only on a keep-alive connection whose
      body decoder reached its end (PayloadItem::Eof), and the body was then delivered whole. *)
Theorem C17_release_only_when_done : forall (v : variant) (c : ccodec) (k : kind) (buf : bytes)
    (segs : list bytes) (closed : bool) (b : bodyres),
  cc_payload c = Some k -> fresh k -> nonempty segs ->
  body_result v c buf segs closed = (b, FReleased) ->
  keep_alive c = true /\
  exists k' rest body, pbw k (buf ++ concat segs) [] = Ok (k', rest, body, true) /\ b = BOk body.
Proof. exact release_only_when_done. Qed.

(* 5'. ... and only when the REQUEST was sent persistent.  [exchange_ct .. rc ..] is one whole
      exchange (head and body) after a request whose head had connection type [rc] (Close for
      force_close / HTTP/1.0; `encode` installs it in the codec, `decode` takes only a DOWNGRADE
      from the peer: "do not use peer's keep-alive").  Released to the pool => the request was
      keep-alive, the response head did not say close / upgrade, and the response either has no
      body or its body was read and delivered as Ok (then 5. applies: the decoder reached its
      end).  Every tokenizer, both variants, every segmentation. *)
Theorem C17_release_requires_persistent_request : forall (hp : bytes -> rhead_res) (maxb : N) (v : variant)
    (rc : ctype) (is_head read_all : bool) (segs : list bytes) (closed : bool),
  x_fate (exchange_ct hp maxb v rc is_head read_all segs closed) = FReleased ->
  rc = CKeepAlive /\
  exists h c f segs',
    read_head hp maxb v (length (concat segs)) (codec_after_encode is_head rc) framed0 segs closed
      = HHead h c f segs' /\
    keep_alive c = true /\ head_persistent h /\
    (message_type c = MTNone \/
     (read_all = true /\ exists body,
        x_out (exchange_ct hp maxb v rc is_head read_all segs closed) = OResp (rh_status h) (Some (BOk body)))).
Proof. exact release_needs_persistent_request. Qed.

(* ... hence a request sent non-persistent is the LAST one its connection carries, whatever the
   peer answers (`connection: keep-alive` included) *)
Theorem C17_nonpersistent_request_ends_connection : forall (hp : bytes -> rhead_res) (maxb : N) (v : variant)
    (rc : ctype) (is_head read_all : bool) (more : list (ctype * bool * bool)) (evs : list ev),
  rc <> CKeepAlive ->
  length (conn_run_ct hp maxb v ((rc, is_head, read_all) :: more) evs) = 1%nat.
Proof. exact nonpersistent_request_ends_connection. Qed.

(* non-vacuity: `200 content-length: 2 "ok"` after a keep-alive request is released; after a
   force_close request answered `connection: keep-alive` it is delivered and NOT released, and the
   follow-up request does not go to that connection *)
Example C17_example_request_conn :
  x_fate (exchange_ct simple_rhead 131072 v_orig CKeepAlive false true [resp_ok2] false) = FReleased /\
  x_fate (exchange_ct simple_rhead 131072 v_orig CClose false true [resp_ok2_ka] false) = FClosed /\
  x_out (exchange_ct simple_rhead 131072 v_orig CClose false true [resp_ok2_ka] false) = OResp 200 (Some (BOk [111;107])) /\
  conn_run_ct simple_rhead 131072 v_orig [(CClose, false, true); (CKeepAlive, false, true)]
    [EW; ED resp_ok2_ka; EW; ED resp_ok2] = [OResp 200 (Some (BOk [111;107]))].
Proof. exact req_conn_examples. Qed.

(* ... and a pooled connection is handed out again only if it was idle in the pool, the check
   found nothing to read on it (Live) and it has not expired *)
Theorem C17_reuse_sound : forall p k now chk p' a c,
  acquire k now chk p = (p', EvReused a c) ->
  exists pc, In pc (avail_get k (p_avail p)) /\ p_conn pc = c /\ chk c = Live /\
    now - p_used pc <= c_keep_alive (p_cfg p) /\ now - p_created pc <= c_lifetime (p_cfg p).
Proof. exact reuse_sound. Qed.

(* 6. Requests in flight never exceed the limit, for every history of pool operations
      (acquire with any check outcomes / release / close / drop / pool drop, any keys). *)
Theorem C17_inflight_limit : forall (c : cfg) (ops : list pop),
  let p := run_pool (pool0 c) ops in
  permits_out p <= c_limit c /\ lenN (held_conns p) <= permits_out p.
Proof. exact inflight_limit. Qed.

(* 7. One authority: sockets held by the client (in use + idle) never exceed the limit. *)
Theorem C17_open_limit_single_authority : forall (c : cfg) (k : key) (ops : list pop),
  single_key k ops ->
  lenN (open_conns (run_pool (pool0 c) ops)) <= c_limit c.
Proof. exact open_limit_single_authority. Qed.

(* 7'. ... also when requests QUEUE on the limit.  `ConnectionPool::call` awaits the permit FIRST
       and scans the idle connections AFTER the wake-up (statement order read from the source:
       POOL_PERMIT_BEFORE_LOOKUP, Gen/ClientTables.v), so a caller that waited finds the connection
       whose release freed its permit.  Histories = every interleaving of WCall (call polled:
       proceeds or queues, FIFO) / WWake (first queued caller polled again) / release / close /
       drop; one authority: in-use + idle sockets <= limit. *)
Theorem C17_open_limit_with_waiters : forall (c : cfg) (k : key) (ops : list wop),
  wsingle_key k ops ->
  lenN (open_conns (wp_pool (run_wpool POOL_PERMIT_BEFORE_LOOKUP (wpool0 c) ops))) <= c_limit c.
Proof. exact open_limit_waiters. Qed.

(* the order matters: with the scan BEFORE the await (its result carried over the wait) the same
   kind of history - limit 1, A in flight, B queues, A releases keep-alive, B woken - ends with two
   sockets; with the order of the tree B reuses A's connection (non-vacuity of 7') *)
Theorem C17_scan_before_permit_refuted :
  lenN (open_conns (wp_pool (run_wpool false (wpool0 (mk_cfg 1 15000 75000)) wait_witness))) = 2.
Proof. exact scan_before_permit_refuted. Qed.

Example C17_example_waiter_reuses :
  let w := run_wpool POOL_PERMIT_BEFORE_LOOKUP (wpool0 (mk_cfg 1 15000 75000)) wait_witness in
  open_conns (wp_pool w) = [0] /\ wp_wait w = [] /\ permits_out (wp_pool w) = 1 /\ wsingle_key 0 wait_witness.
Proof.
  destruct wait_witness_reuses as (A & B & C). split; [exact A|]. split; [exact B|]. split; [exact C|].
  intros o k' Hin Hk. unfold wait_witness in Hin. cbn [In] in Hin.
  repeat (destruct Hin as [<-|Hin]; [cbn in Hk; congruence|]). destruct Hin.
Qed.

(* Finding F11 (known, documented semantics of `limit`): with two authorities the idle connection
   of the other authority is not counted - limit 1, two sockets. *)
Theorem C17_refuted_F11 :
  exists (c : cfg) (ops : list pop),
    c_limit c = 1 /\ lenN (open_conns (run_pool (pool0 c) ops)) = 2.
Proof. exists (mk_cfg 1 15000 75000), f11_witness. split; [reflexivity|exact f11_refutes]. Qed.

(* Exclusive ownership, every history: no connection occurs twice among (held by requests in
   flight ++ idle in the pool): never handed to two acquirers, never both idle and in use. *)
Theorem C17_exclusive_ownership : forall (c : cfg) (ops : list pop),
  NoDup (open_conns (run_pool (pool0 c) ops)).
Proof. exact exclusive_ownership. Qed.

(* 8. No leftovers: the response returned for a request is the peer's final response to it.
      FALSE of the tree as it is (finding F17, class: the peer sends a 1xx head other than 101).
      Refutation: the peer answers request 1 with `103` and (after a further request arrived)
      `200 FIRST`; the client returns 103 as the final response of request 1 and FIRST as the
      response of request 2. *)
Theorem C17_refuted_F17 :
  conn_run simple_rhead H1_MAX_BUFFER_SIZE v_orig [(false, true); (false, true)] f17_script =
  [OResp 103 (Some (BOk [])); OResp 200 (Some (BOk body_first))].
Proof. exact f17_refutes. Qed.

(* Outside the class: if no head the client tokenizes from the peer's bytes is a 1xx other than
   101 ([no_interim_heads hp]), the head `send_request` returns is not an interim one - for every
   stream, segmentation and variant, in particular the tree as it is. *)
Theorem C17_holds_outside_known_F17 : forall (hp : bytes -> rhead_res) (maxb : N) (fuel : nat)
    (c : ccodec) (f : framed) (segs : list bytes) (closed : bool) h c' f' segs',
  no_interim_heads hp ->
  read_head hp maxb v_orig fuel c f segs closed = HHead h c' f' segs' ->
  is_interim h = false.
Proof. intros hp maxb fuel c f segs closed h c' f' segs'. apply no_interim_outside_known. Qed.

(* WOULD HOLD with fixes/F17.proposed.patch (not applied): whatever the peer sends, the head
   returned is never an interim response without payload ... *)
Theorem C17_no_interim_as_final_with_proposed_F17 : forall (hp : bytes -> rhead_res) (maxb : N) (fuel : nat)
    (c : ccodec) (f : framed) (segs : list bytes) (closed : bool) h c' f' segs',
  read_head hp maxb v_fixed fuel c f segs closed = HHead h c' f' segs' ->
  is_interim h = true -> message_type c' <> MTNone.
Proof. intros hp maxb fuel c f segs closed h c' f' segs'. apply no_interim_as_final. reflexivity. Qed.

(* ... and the witnesses of F17 behave: request 1 waits for its final response (time-out, the
   connection is dropped, nothing of exchange 1 reaches request 2); interim + final in one segment:
   each request gets its own response *)
Theorem C17_no_leftovers_partial_with_proposed_F17 :
  conn_run simple_rhead H1_MAX_BUFFER_SIZE v_fixed [(false, true); (false, true)] f17_script = [OSendErr STimeout] /\
  conn_run simple_rhead H1_MAX_BUFFER_SIZE v_fixed [(false, true); (false, true)]
    [EW; ED (hex103 ++ resp_first); EW; ED resp_second] =
  [OResp 200 (Some (BOk body_first)); OResp 200 (Some (BOk body_second))].
Proof. split; [exact f17_fixed_witness|exact f17_fixed_same_segment]. Qed.
(* 9. No leftovers, in general.  The peer's behaviour on one connection: [script blocks fc] =
      wait for a request, send the segments of block 1, wait, send block 2, ... and finally close
      ([fc = true]) or not.  [conn_run] = requests sent one after the other on that connection as
      long as it is reused (released by the previous exchange AND found `Live` by the pool's check);
      a request is (HEAD?, body read to the end? / dropped early).

   (a) Structural, every tokenizer and both variants: the k-th outcome is the outcome of the
       exchange run on block k ALONE - no byte of another block is read, whatever was dropped. *)
Theorem C17_no_leftovers_structural : forall (hp : bytes -> rhead_res) (maxb : N) (v : variant)
    (reqs : list (bool * bool)) (blocks : list block) (fc : bool),
  (length reqs <= length blocks)%nat ->
  exists n, conn_run hp maxb v reqs (script blocks fc) = firstn n (intended hp maxb v reqs blocks fc).
Proof. exact no_leftovers_blocks. Qed.

(* (b) Head-level segmentation (tree as it is), under the prefix-stability laws [hp_laws] of the
       head tokenizer: the outcome and the connection's fate of a WHOLE exchange (head and body)
       are the same for any two segmentations of the same bytes (heads below MAX_BUFFER_SIZE). *)
Theorem C17_exchange_segmentation : forall (hp : bytes -> rhead_res) (maxb : N),
  hp_laws hp ->
  forall (is_head read_all : bool) (segs1 segs2 : list bytes) (closed : bool),
  nonempty segs1 -> nonempty segs2 -> concat segs1 = concat segs2 ->
  lenN (concat segs1) < maxb ->
  let x1 := exchange hp maxb v_orig is_head read_all segs1 closed in
  let x2 := exchange hp maxb v_orig is_head read_all segs2 closed in
  x_out x1 = x_out x2 /\ x_fate x1 = x_fate x2.
Proof. intros hp maxb L. exact (exchange_segmentation hp maxb v_orig L eq_refl). Qed.

(* (c) Together: the response returned for request k on a reused connection is what the bytes of
       block k mean as one response ([exchange_sem], a function of [concat block_k] only), for
       every sequence of exchanges, every segmentation, early-dropped bodies included. *)
Theorem C17_no_leftovers : forall (hp : bytes -> rhead_res) (maxb : N),
  hp_laws hp ->
  forall (reqs : list (bool * bool)) (blocks : list block) (fc : bool),
  blocks_ok maxb blocks -> (length reqs <= length blocks)%nat ->
  exists n, conn_run hp maxb v_orig reqs (script blocks fc) =
            firstn n (owed hp maxb v_orig reqs blocks fc).
Proof. intros hp maxb L. exact (no_leftovers hp maxb v_orig L eq_refl). Qed.

(* (d) ... and outside the class of F17 (the peer sends no 1xx head other than 101) that response
       is a FINAL one: the server's k-th final response. *)
Theorem C17_owed_is_final_outside_known_F17 : forall (hp : bytes -> rhead_res) (maxb : N) (v : variant)
    (is_head read_all : bool) (s : bytes) (closed : bool) (st : N) b,
  no_interim_heads hp ->
  fst (exchange_sem hp maxb v is_head read_all s closed) = OResp st b ->
  (100 <=? st) && (st <? 200) && negb (st =? 101) = false.
Proof. exact owed_final. Qed.

(* the laws are satisfiable: the tokenizer of the driver (Client/RespHead.v) has them, so (b), (c)
   hold outright for it.  For httparse they are an assumption (a streaming parser restarted on
   the grown buffer: a complete head is not changed by later bytes, a rejected one stays rejected). *)
Theorem C17_tokenizer_laws_satisfiable : hp_laws simple_rhead.
Proof. exact simple_rhead_laws. Qed.
(* NOT covered (kept for the record): gates INSIDE a response (the peer stops in the middle of a
   response until a further request arrives: the exchange stalls = time-out error; needs
   monotonicity of [exchange_sem] under extension of the stream), the interim-head loop of the
   proposed F17 patch at head level, heads of MAX_BUFFER_SIZE and more (finding F19 territory). *)

(* 10. The models ARE the source text.  Gen/ClientTables.v is regenerated on every check run from
       actix-http/src/h1/{decoder,client}.rs and awc/src/client/{h1proto,pool}.rs by
       tools/gen/client.py (decisions as data, in source order); Client/ClientTie.v interprets it.
       Each conjunct: the interpretation of the generated table = the model's function. *)
Theorem C17_decisions_match_source :
  (* the framing chain of set_headers: chunked, then upgrade, then content-length, then none -
     the order C01's H1/Framing.plen_of tests (a response with both headers is chunked) *)
  (forall a, interp_framing FRAMING_CHAIN a = plen_of a) /\
  (* ClientCodec::decode: what is installed per payload type, nothing for HEAD *)
  (forall c h pt,
     codec_of c h pt =
     let conn := match rh_conn_type h with
                 | Some CKeepAlive => cc_conn c | Some ct => ct | None => cc_conn c end in
     if negb (cc_head c)
     then interp_install (lookup_install (pt_pat_of pt) CLIENT_INSTALL) (pt_kind pt) c conn
     else interp_install CLIENT_INSTALL_HEAD None c conn) /\
  (* the connection type: `encode` installs the request head's (KeepAlive only if enabled), `decode`
     takes from the peer's Connection header only a downgrade ("do not use peer's keep-alive") *)
  (forall is_head rc, cc_conn (codec_after_encode is_head rc) =
                      interp_enc (lookup_enc (enc_pat_of rc) CLIENT_ENCODE_CONN) true) /\
  (forall c h pt, cc_conn (codec_of c h pt) = interp_peer CLIENT_PEER_CONN (cc_conn c) (rh_conn_type h)) /\
  (* ClientPayloadCodec: no decode_eof override (F9) and that is [v_orig] *)
  (pc_decode_eof PAYLOAD_DECODE_EOF_OVERRIDE = deof_default pc_decode PEIo /\
   f9_fixed v_orig = PAYLOAD_DECODE_EOF_OVERRIDE) /\
  (* send_request: one head read, no interim loop (F17) and that is [v_orig] *)
  (SEND_REQUEST_HEAD_READS = 1%nat /\ f17_fixed v_orig = SEND_REQUEST_INTERIM_LOOP) /\
  (* ConnectionPool::call: pop_front, `idle > keep_alive || age > lifetime` => close, otherwise the
     probe: Tainted => close, Skip => drop, Live => take *)
  (forall c now chk conns, pick c now chk conns = interp_pick c now chk (deque_order POOL_POP conns)) /\
  (* the probe's classification: data => Tainted, Pending => Live, else => Skip *)
  (forall evs, arm_of (conn_state evs) = lookup_obs (obs_of evs) POOL_PROBE_CLASSIFY) /\
  (* release pushes at the back; the permit is taken before the map is looked at *)
  (forall l x, interp_push POOL_RELEASE_PUSH l x = l ++ [x]) /\ POOL_PERMIT_BEFORE_LOOKUP = true.
Proof.
  split; [exact tie_framing|]. split; [exact tie_client_install|].
  split; [exact tie_encode_conn|]. split; [exact tie_peer_conn|]. split; [exact tie_decode_eof|].
  split; [split; apply tie_send_request|]. split; [exact tie_pool_pick|]. split; [exact tie_probe|].
  split; [intros; apply tie_pool_release|apply (tie_pool_release [] (mk_pooled 0 0 0))].
Qed.

(* ... the response-side payload decision (CL 0 => none; Payload; 101 => stream; HTTP/1.0 => close +
   read-to-close; else none), the arms of ClientPayloadCodec::decode and of PlStream::poll_next
   (only `Some(None)` = PayloadItem::Eof releases, with `codec.keep_alive()`) *)
Theorem C17_decisions_match_source_response : forall hp maxb src len ver st hs pl ka ex,
  hp src = RComplete len ver st hs -> (st <? 100) || (999 <? st) = false ->
  set_headers ver hs = Some (pl, ka, ex) ->
  response_decode hp maxb src =
  let fl := match ka with Some c => set_ct c rflags0 | None => rflags0 end in
  let '(fl', pt) := interp_rp RESPONSE_PAYLOAD_CHAIN (zero_reset RESPONSE_ZERO_CL_IS_NONE pl) st ver fl in
  DOk (Some (mk_rhead ver st fl', pt, skipn len src)).
Proof. exact tie_response. Qed.

Theorem C17_decisions_match_source_payload : forall v c k f src segs closed,
  (cc_payload c = Some k ->
   pc_decode c src =
   match pdecode k src with
   | Ok (k', src', it) =>
       let '(c', r) := interp_pc (lookup_pc (pc_pat_of it) PAYLOAD_CODEC_ARMS) c k' it in DOk (c', src', r)
   | Err => DErr PEIo
   | Pend => DPanic
   | Pan => DPanic
   end) /\
  pl_poll_next v c f segs closed =
  match pl_next v c f segs closed with
  | (NItem (Some chunk) c' f', s) => (interp_pl (lookup_pl PlSomeChunk PLSTREAM_ARMS) chunk c' f', s)
  | (NItem None c' f', s) => (interp_pl (lookup_pl PlSomeEnd PLSTREAM_ARMS) [] c' f', s)
  | (NNone c' f', s) => (interp_pl (lookup_pl PlStreamEnd PLSTREAM_ARMS) [] c' f', s)
  | (NErr e, s) => (PlErr e, s)
  | (NPending _ _, s) => (PlPending, s)
  | (NPanic, s) => (PlPanic, s)
  end.
Proof. intros. split; [apply tie_payload_codec|apply tie_plstream]. Qed.

(* non-vacuity: a chunked body cut into three reads, keep-alive: delivered whole and released *)
Example C17_example :
  let c := mk_ccodec (Some kchunked0) CKeepAlive false false in
  (* "5\r\nhel" | "lo\r\n0\r" | "\n\r\n" *)
  body_result v_orig c [] [[53;13;10;104;101;108]; [108;111;13;10;48;13]; [10;13;10]] false
    = (BOk [104;101;108;108;111], FReleased)
  /\ fresh kchunked0 /\ nonempty [[53;13;10;104;101;108]; [108;111;13;10;48;13]; [10;13;10]].
Proof.
  split; [vm_compute; reflexivity|]. split; [right; left; reflexivity|].
  repeat constructor; discriminate.
Qed.

(* non-vacuity of [no_interim_heads]: a tokenizer that only ever yields `200` heads *)
Example C17_example_no_interim : no_interim_heads (fun _ => RComplete 17 V11 200 []).
Proof. intros b len ver st hs H. inversion H; subst. reflexivity. Qed.
