(* C17 - placeholder while the models are brought up; theorems follow. *)
From AV Require Import Lib.Base Client.ClientCodec Client.PlStream Client.Pool Client.Conn.
