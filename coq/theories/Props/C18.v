(* C18 — HeaderMap behaves as an order-preserving multimap under every operation sequence.
   Only statements here; proofs live in Header/MapProofs.v. *)
From Coq Require Import Permutation.
From AV Require Import Lib.Base Header.Map Header.MapSpec Header.MapProofs.
From AV Require Import Gen.HeaderMapTables Header.MapTie.

(* After ANY history of insert/append/remove/retain/clear/drain, every query agrees with the
   reference multimap (a flat insertion-ordered pair list): values of one name in insertion
   order, first value, membership, number of values, emptiness; never a panic. *)
Theorem C18_refines_multimap : forall ops : list op,
  let m := run ops in let l := spec_run ops in
  (forall k, get_all k m = values k l) /\
  (forall k, get k m = Val (match values k l with v :: _ => Some v | [] => None end)) /\
  (forall k, contains_key k m = negb (match values k l with [] => true | _ => false end)) /\
  len m = lenN l /\ is_empty m = (lenN l =? 0).
Proof.
  intros ops m l. pose proof (run_refines ops) as HR. fold m l in HR.
  split; [apply HR|]. split; [intro; apply get_refines; exact HR|].
  split; [intro; apply contains_refines; exact HR|].
  split; [apply len_refines; exact HR|apply is_empty_refines; exact HR].
Qed.

(* what insert and remove hand back is exactly the old value list of that name *)
Theorem C18_removed_values : forall (ops : list op) (o : op),
  let m := run ops in let l := spec_run ops in
  match o with
  | OInsert k v => match snd (insert k v m) with Some vs => vs | None => [] end = values k l
  | ORemove k => match snd (remove k m) with Some vs => vs | None => [] end = values k l
  | _ => True
  end.
Proof.
  intros ops o. pose proof (removed_refines (run ops) (spec_run ops) o (run_refines ops)) as H.
  destruct o; exact H.
Qed.

(* names are compared case-insensitively: keys differing only in ASCII case are one key *)
Theorem C18_case_insensitive : forall s1 s2 : bytes,
  map lower_byte s1 = map lower_byte s2 -> valid_name s1 = true -> valid_name s2 = true ->
  key_of s1 = key_of s2.
Proof. intros s1 s2 H H1 H2. unfold key_of, canon. rewrite H1, H2, H. reflexivity. Qed.

(* iter()/into_iter(): whatever order the hash map yields its entries in, the iterator yields
   exactly the map's pairs (each name's values in order), the size hint after the j-th item is
   len-j, `remaining` never underflows, and the count equals len(). *)
Theorem C18_iter_exact : forall (ops : list op) (es : list entry),
  Permutation es (run ops) ->
  iter_collect (S (length (flatten es))) (iter_new es (len (run ops))) =
  Val (combine (flatten es) (hints (length (flatten es)) (len (run ops)))) /\
  N.of_nat (length (flatten es)) = len (run ops).
Proof.
  intros ops es Hp. rewrite <- (len_perm es (run ops) Hp). split; [apply iter_exact|reflexivity].
Qed.

(* drain(): same, and the name is present exactly on the first value of each group *)
Theorem C18_drain_exact : forall (ops : list op) (es : list entry),
  Permutation es (run ops) ->
  drain_collect (S (length (flatten es))) (drain_new es (len (run ops))) =
  Val (combine (drain_items es) (hints (length (flatten es)) (len (run ops)))).
Proof. intros ops es Hp. rewrite <- (len_perm es (run ops) Hp). apply drain_exact. Qed.

(* the last size hint is 0: the iterator is exhausted exactly when it says so *)
Theorem C18_hints_end : forall n total, N.of_nat n = total -> last (hints n total) 0 = 0.
Proof. exact hints_last. Qed.

(* Removed is an ExactSizeIterator: len() is total, also for an absent key (was F13) *)
Theorem C18_removed_len_total : forall r : removed,
  exact_len (removed_size_hint r) = Val (match r with Some vs => lenN vs | None => 0 end).
Proof. exact removed_len_total. Qed.

(* conversion through http::HeaderMap preserves every (name, value) pair and per-name order *)
Theorem C18_http_roundtrip : forall es : list entry,
  NoDup (keys es) -> nonempty_entries es ->
  match drain_items es with
  | [] => es = []
  | _ => exists m', from_drain (drain_items es) = Val m' /\ Inv m' /\
                    forall k, get_all k m' = get_all k es
  end.
Proof. exact http_roundtrip. Qed.


(* Source tie: the literal decisions of header/map.rs, regenerated from the Rust source on every
   run (Gen/HeaderMapTables.v), are the ones the model makes: size hint of Removed for an absent
   key, which element Drain::next takes and how `remaining` is decremented, the name handed out
   once per group, from_drain's fallback to the previous name, insert/append/retain/len shapes. *)
Theorem C18_model_matches_source_tables :
  removed_size_hint None = HM_REMOVED_NONE_HINT /\
  (forall inner on vs rem,
     drain_next {| dr_inner := inner; dr_multi := Some (on, vs); dr_rem := rem |} =
     match take_of HM_DRAIN_TAKES vs with
     | Some (v, rest) =>
         if rem <? HM_DRAIN_DEC_PER_ITEM then Panic
         else Val (Some (on, v), {| dr_inner := inner;
                                    dr_multi := Some (if HM_DRAIN_NAME_ONCE then None else on, rest);
                                    dr_rem := rem - HM_DRAIN_DEC_PER_ITEM |})
     | None => drain_pull inner rem
     end) /\
  (forall inner k v vs rem,
     iter_next {| it_inner := inner; it_multi := Some (k, v :: vs); it_rem := rem |} =
     if rem <? HM_ITER_DEC_PER_ITEM then Panic
     else Val (Some (k, v), {| it_inner := inner; it_multi := Some (k, vs); it_rem := rem - HM_ITER_DEC_PER_ITEM |})) /\
  HM_FROM_DRAIN_FALLBACK = HmPrevName /\ HM_INTOITER_DEC_PER_ITEM = HM_ITER_DEC_PER_ITEM /\
  HM_INSERT_REPLACES_WITH_ONE = true /\ HM_APPEND_PUSHES_BACK = true /\
  HM_RETAIN_DROPS_EMPTY = true /\ HM_LEN_IS_SUM_OF_VALUES = true.
Proof.
  split; [exact tie_removed_none_hint|]. split; [exact tie_drain_next|]. split; [exact tie_iter_next|].
  repeat split; reflexivity.
Qed.

(* non-vacuity: a concrete mixed history *)
Example C18_example :
  let ops := [OAppend [97] [1]; OAppend [98] [2]; OAppend [97] [3]; OInsert [98] [4]; ORemove [99]] in
  get_all [97] (run ops) = [[1]; [3]] /\ len (run ops) = 3 /\ Permutation (run ops) (run ops).
Proof. cbv. repeat split. apply Permutation_refl. Qed.
