(* C19 — No peer-controlled input makes the library panic.

   PARTIAL BY DESIGN. A proof cannot quantify over "the library". What is proved here is, for each
   modelled core, that its panic-aware Gallina model (every slice / index / split_at / advance,
   every + and - at machine width, every unwrap and assert! is a partial primitive returning
   [Panic]) never evaluates to [Panic], for ALL inputs. Everything else (httparse, http, mime,
   language-tags, serde_urlencoded, regex, url, the glue between the cores) is covered by the
   exploration stream of harness/src/bin/c19 only, which is testing and is labelled so in the
   evidence.

   Part (a): re-statements of the never-panic results of the cores built for other properties
             (closed by the pinned theorems of Props/C01, C07, C09, C10, C12, C14, C16, C17, C18).
   Part (b): the typed parsers nobody else models (theories/Panic): ContentDisposition::from_raw,
             http::header::Range + ByteRangeSpec::to_satisfiable_range, ConnectionInfo::new, the
             h1 encoder's header writer (length accounting), the multipart field scanner and
             boundary readers (index arithmetic; look-ahead constant read from the sources). `Query` extraction is a single call
             of serde_urlencoded::from_str (outside).
   Part (c): the shared parsers of the typed request headers (theories/Panic/TypedHdr.v): EntityTag,
             QualityItem<T>, from_comma_delimited / from_one_raw_str, the {Any / (item)+} arm of
             common_header!, Preference<T>, Encoding, ContentRangeSpec. *)
From AV Require Import Lib.Base.
From AV Require Props.C01 Props.C07 Props.C09 Props.C10 Props.C12 Props.C14 Props.C16 Props.C17 Props.C18.
From AV Require Gen.Consts Panic.ClientNoPanic.
From AV Require Import Panic.Str Panic.StrProofs.
From AV Require Import Panic.CDisp Panic.CDispProofs Panic.RangeHdr Panic.RangeHdrProofs.
From AV Require Import Panic.ConnInfo Panic.ConnInfoProofs Panic.HdrWriter Panic.HdrWriterProofs.
From AV Require Import Panic.MpScan Panic.MpScanProofs Panic.HeadPhase Panic.HeadPhaseProofs.
From AV Require Panic.TypedHdr Panic.TypedHdrProofs.

(* ============================== (a) cores modelled for other properties ====================== *)

(* h1 chunked decoder (ChunkedState::step): `size.checked_mul(16)` then `*size += digit` never
   overflows; the byte-wise body semantics and the batched PayloadDecoder (Length / Chunked / Eof,
   `split_to(min(remaining, len))`) never panic, for every segmentation. [C01] *)
Theorem C19_h1_chunked_never_panics :
  (forall (s : Chunked.cst) (sz : N) (b : byte), Chunked.cstep s sz b <> Chunked.Pan) /\
  (forall (k : PayloadDec.kind) (buf acc : bytes), PayloadDecProofs.body_bw k buf acc <> Chunked.Pan) /\
  (forall (segs : list bytes) (k : PayloadDec.kind) (acc : bytes),
     PayloadDecProofs.kinv k -> PayloadDecProofs.kopen k -> PayloadDec.pfeed segs k [] acc <> Chunked.Pan).
Proof.
  destruct C01.C01_chunk_size_no_overflow as (A & _ & B & C). split; [exact A|]. split; [exact B|exact C].
Qed.

(* request-body channel (h1::Payload): `self.len -= data.len()` never underflows, no operation
   of any history of both handles panics. [C07] *)
Theorem C19_h1_payload_channel_never_panics :
  forall (e : bool) (os : list (Payload.op bytes)) (s : Payload.sys bytes) (t : list (Payload.event bytes)),
  Payload.run lenN C07.LIMIT e os = (s, t) ->
  forall x : Payload.event bytes, In x t -> PayloadSpec.ev_res x <> Payload.RPanic.
Proof. intros e os s t H. exact (proj2 (C07.C07_len_accounting e os s t H)). Qed.

(* WebSocket: Parser::parse (parse_metadata indices, `idx.checked_add(length)`, advance,
   split_to, unmask) and Codec::decode never panic, for every buffer, role and max_size. [C14] *)
Theorem C19_ws_parse_never_panics : forall (src : bytes) (server : bool) (max_size : N),
  Frame.parse src server max_size <> Panic.
Proof. exact C14.C14_parse_never_panics. Qed.

Theorem C19_ws_decode_never_panics : forall (lossy : bytes -> bytes) (c : Codec.codec) (src : bytes),
  Codec.decode lossy c src <> Panic.
Proof. exact C14.C14_decode_never_panics. Qed.

(* actix-files PathBufWrap::parse_path: neither assert! fires, `segment_count -= 1` never
   underflows, for every request path, on Unix and Windows. [C16] *)
Theorem C19_files_path_never_panics :
  forall (valid_utf8 : bytes -> bool) (windows hidden : bool) (path : bytes),
  PathBuf.parse_path valid_utf8 windows hidden path <> Panic.
Proof. exact C16.C16_asserts_hold. Qed.

(* actix-files Range parsing (http-range as wrapped) has no u64 wrap-around; NamedFile's response
   decision (range arithmetic `offset + length - 1`, repaired by F8) never panics. [C16] *)
Theorem C19_files_range_never_panics : forall (hdr : bytes) (size : N),
  size <= u64_max -> Range.parse_bytes hdr size <> Panic.
Proof.
  intros hdr size H E. pose proof (C16.C16_range_parse_sound hdr size H) as S. rewrite E in S. exact S.
Qed.

Theorem C19_files_response_never_panics :
  forall (flen : N) (range_hdr : option bytes) (c : Named.cond),
  flen <= u64_max -> Named.into_response true flen range_hdr c <> Panic.
Proof.
  intros flen rh c H E. destruct (C16.C16_status_total flen rh c H) as (r & Er & _). congruence.
Qed.

(* router: on every Path whose u16 offsets are in range (true for every path below the http::Uri
   length limit), find_match / capture_match_info of every constructed ResourceDef return values:
   no slice out of range, no u16 addition overflows. [C10] *)
Theorem C19_router_match_never_panics :
  forall (ps : Pattern.patterns) (is_prefix : bool) (rd : ResourceDef.rdef) (pth : Path.path),
  ResourceProofs.wf_patterns ps -> ResourceDef.construct C10.MAXSEG ps is_prefix = Val rd ->
  ResourceProofs.path_ok pth ->
  ResourceDef.find_match rd (Path.unprocessed pth) <> Panic /\
  ResourceDef.capture_match_info C10.MAXSEG rd pth <> Panic.
Proof.
  intros ps pre rd pth W C O. destruct (C10.C10_three_ways_agree ps pre rd pth W C O) as (o & p' & A & _ & B & _).
  cbv zeta in A. rewrite A, B. split; discriminate.
Qed.

Theorem C19_router_path_offsets_in_range : forall s : list N,
  lenN s <= Path.u16_max -> ResourceProofs.path_ok (Path.path_new s).
Proof. intros s H. exact (proj1 (C10.C10_u16_offsets s H)). Qed.

(* HeaderMap: `Removed::len()` (ExactSizeIterator, was F13) is total; iterating a map reached by
   any operation history never underflows `remaining`. [C18] *)
Theorem C19_headermap_removed_len_never_panics : forall r : Map.removed,
  Map.exact_len (Map.removed_size_hint r) <> Panic.
Proof. intros r. rewrite C18.C18_removed_len_total. discriminate. Qed.

Theorem C19_headermap_iter_never_panics : forall (ops : list Map.op) (es : list Map.entry),
  Permutation.Permutation es (Map.run ops) ->
  Map.iter_collect (S (length (MapProofs.flatten es))) (Map.iter_new es (Map.len (Map.run ops))) <> Panic.
Proof. intros ops es P. rewrite (proj1 (C18.C18_iter_exact ops es P)). discriminate. Qed.

(* WebSocket handshake: `hash_key` (SHA-1 + base64 into a 28-byte array: the `unwrap` of
   encode_slice and the `assert_eq!(n, 28)` cannot fire) and `handshake` are total. [C14] *)
Theorem C19_ws_hash_key_never_panics : forall key : bytes, HashKey.hash_key key <> Panic.
Proof. intro key. destruct (C14.C14_hash_key_28 key) as (b & E & _). rewrite E. discriminate. Qed.

Theorem C19_ws_handshake_never_panics : forall (method : bytes) (h : Handshake.headers),
  HashKey.handshake method h <> Panic.
Proof.
  intros m h. pose proof (C14.C14_handshake_total m h) as T.
  destruct (Handshake.verify_handshake m h); [rewrite T; discriminate|].
  destruct T as [a E]. rewrite E. discriminate.
Qed.

(* application routing (scopes, resources, guards, default services; nested Path captures with
   their u16 offsets): for every buildable application and every request path below the 2^16
   limit of http::Uri, `route` returns an outcome. [C09] *)
Theorem C19_app_routing_never_panics : forall (a : RouteTree.app) (rq : RouteTree.req),
  RouteSpec.wf_app C09.MAX a -> lenN (RouteTree.r_uri_path rq) <= 65535 ->
  RouteTree.route C09.MAX a rq <> Panic.
Proof.
  intros a rq W L. destruct (C09.C09_route_refines_spec_code_rule a rq W L) as ((o & E) & _).
  rewrite E. discriminate.
Qed.

(* Quoter::requote (the in-place percent decoder in front of the router; total in its model):
   the output never outgrows the input, so the write cursor stays inside the buffer. [C10] *)
Theorem C19_router_requote_never_lengthens : forall (prot : bytes) (q : Quoter.quoter) (s : bytes),
  Quoter.quoter_new prot = Val q -> (length (Quoter.requote_full q s) <= length s)%nat.
Proof. exact C10.C10_requote_never_lengthens. Qed.

(* MultipartForm limits: every successful `checked_sub` bookkeeping step subtracts exactly the
   field's bytes from the remaining budgets: no wrap-around. [C12] *)
Theorem C19_multipart_limits_no_wrap : forall (l l' : Extract.limits) (n : N) (in_memory : bool),
  Extract.try_consume_limits l n in_memory = Some l' ->
  Extract.total_rem l' + n = Extract.total_rem l /\
  Extract.memory_rem l' + (if in_memory then n else 0) = Extract.memory_rem l.
Proof.
  intros l l' n m H. destruct (C12.C12_multipart_no_wrap l l' n m H) as (A & B & _). split; assumption.
Qed.

(* h1 client: reading a response body (ClientPayloadCodec over the payload decoder, driven like
   awc does, any segmentation, connection closed or not) ends in data, an error or a time-out,
   never in a panic (debug_assert!(payload.is_some()), unwrap, split_to). From C17's model and
   semantic lemma + C01's chunk arithmetic. [C17, C01] *)
Theorem C19_client_body_never_panics :
  forall (v : PlStream.variant) (c : ClientCodec.ccodec) (k : PayloadDec.kind) (buf : bytes)
         (segs : list bytes) (closed : bool),
  ClientCodec.cc_payload c = Some k -> ClientProofs.fresh k -> BodyProofs.nonempty segs ->
  fst (ClientProofs.body_result v c buf segs closed) <> PlStream.BPanic.
Proof. exact ClientNoPanic.client_body_never_panics. Qed.

(* h1 server: the drain loop of poll_request (decode until the codec asks for more) never runs
   out of the fuel the model gives it, for every tokenizer obeying the head laws: no unbounded
   decode loop. [C01] *)
Theorem C19_h1_drain_loop_terminates : forall head, CodecProofs.HeadLaws head -> forall buf acc,
  Codec.run head Consts.H1_MAX_BUFFER_SIZE (Codec.run_fuel buf) Codec.codec0 buf acc <> Codec.OFuel.
Proof. exact C01.C01_run_fuel_suffices. Qed.

(* ============================== (b) typed parsers modelled here ============================== *)

(* ContentDisposition::from_raw: for every header value (any bytes) and every behaviour of the
   language-tag parser, every `split_at`, `&left[end + 1..]` is in range and on a char boundary,
   `end + 1` does not overflow, and the parameter loop ends within len + 1 rounds. *)
Theorem C19_content_disposition_never_panics : forall (lang_ok : bytes -> bool) (hv : bytes),
  lenN hv < usize_max -> from_raw lang_ok hv <> Panic.
Proof. intros l hv H. destruct (from_raw_total l hv H) as [r E]. rewrite E. discriminate. Qed.

(* the fact about UTF-8 the boundary reasoning rests on: in a valid string no continuation byte
   follows an ASCII byte, so the offset after a double quote, a semicolon or an equals sign is a char boundary *)
Theorem C19_utf8_boundary_after_ascii : forall (s : bytes) (i : N),
  utf8_valid s = true -> i < lenN s -> nthN s i < 128 -> is_char_boundary s (i + 1) = true.
Proof. intros s i V. apply icb_after_ascii. apply utf8_valid_aa_ok. exact V. Qed.

(* http::header::Range: `Range::from_str` never panics ... *)
Theorem C19_range_header_never_panics : forall s : bytes, range_from_str s <> Panic.
Proof. exact range_from_str_never_panics. Qed.

(* ... and to_satisfiable_range never underflows (`full_length - 1`, `full_length - last`) and
   keeps its documented contract 0 <= from <= to < full_length, for every spec and length *)
Theorem C19_satisfiable_range_never_panics : forall (sp : spec) (full : N),
  match to_satisfiable_range sp full with
  | Panic => False
  | Val None => True
  | Val (Some (a, b)) => a <= b /\ b < full
  end.
Proof. exact to_satisfiable_range_spec. Qed.

(* ConnectionInfo::new: every index the Forwarded / X-Forwarded-* splitting, trimming and
   unquoting computes is in range, for every header content *)
Theorem C19_connection_info_never_panics :
  forall (forwarded : list bytes) (xf_proto xf_host xf_for host_hdr uri_scheme uri_authority : option bytes)
         (secure : bool) (cfg_host : bytes),
  conn_info forwarded xf_proto xf_host xf_for host_hdr uri_scheme uri_authority secure cfg_host <> Panic.
Proof. intros. apply total_not_panic, conn_info_total. Qed.

(* h1 encoder header writer (length accounting only): for every reserve behaviour satisfying
   BytesMut::reserve's contract, every initial buffer and every list of header lines, the writer
   never advances or writes beyond the capacity, none of `pos += len`, `remaining -= len`,
   `len * 2`, `capacity - len` wraps, and the buffer grows by exactly the lines written.
   Premise: the doubled total fits a usize (the lines exist in memory). *)
Theorem C19_h1_header_writer_never_panics :
  forall (grow : N -> N -> N -> N),
  (forall len cap add, len + add <= usize_max -> len + add <= grow len cap add /\ grow len cap add <= usize_max) ->
  forall (len cap : N) (hs : list (N * N)),
  len <= cap -> cap <= usize_max -> len + 2 * sumN (map line_len hs) <= usize_max ->
  exists cap', write_headers grow len cap hs = Val (len + sumN (map line_len hs), cap') /\
               len + sumN (map line_len hs) <= cap'.
Proof. exact write_headers_ok. Qed.

(* h1 HEAD phase (decoder.rs: request and response): httparse's answer is an input constrained by
   the decidable contract [hp_okb] (consumed length inside the buffer; every name / value a
   sub-slice of the consumed prefix, given as address + length; at most MAX_HEADERS; method, path,
   version, code present; values free of control bytes). HeaderIndex::record, computed on
   addresses (`ptr as usize - bytes_ptr`, `start + len`), turns it into index pairs that are
   sub-slices of the head slice ... *)
Theorem C19_h1_head_record_establishes_invariant :
  forall (base : N) (buf : bytes) (p : parsed),
  hp_okb Consts.H1_MAX_HEADERS base buf (HComplete p) = true ->
  exists ixs, record Consts.H1_MAX_HEADERS base (p_headers p) = Val ixs /\
              Forall (idx_ok (takeN (p_len p) buf)) ixs.
Proof. exact (record_establishes Consts.H1_MAX_HEADERS). Qed.

(* ... so that, in the code after F27, the whole request-head phase (unwraps, record,
   split_to(len), &headers[..h_len], every slice[idx.name.0..idx.name.1] / value slice of
   set_headers, the debug assertion of from_maybe_shared_unchecked, &bytes[0..4], post-checks)
   returns a value for every buffer and every httparse answer within the contract ... *)
Theorem C19_h1_request_head_never_panics :
  forall (buf : bytes) (base : N) (hp : hp_res) (method_ok uri_ok is_post is_connect : bool),
  hp_okb Consts.H1_MAX_HEADERS base buf hp = true ->
  request_decode Consts.H1_MAX_HEADERS Consts.H1_MAX_BUFFER_SIZE true buf base hp method_ok uri_ok is_post is_connect <> Panic.
Proof.
  intros. destruct (request_decode_total Consts.H1_MAX_HEADERS Consts.H1_MAX_BUFFER_SIZE buf base hp
                      method_ok uri_ok is_post is_connect H) as [r E]. rewrite E. discriminate.
Qed.

(* ... and so does the response-head phase of the client *)
Theorem C19_h1_response_head_never_panics :
  forall (buf : bytes) (base : N) (hp : hp_res) (code : N),
  hp_okb Consts.H1_MAX_HEADERS base buf hp = true ->
  response_decode Consts.H1_MAX_HEADERS Consts.H1_MAX_BUFFER_SIZE true buf base hp code <> Panic.
Proof.
  intros. destruct (response_decode_total Consts.H1_MAX_HEADERS Consts.H1_MAX_BUFFER_SIZE buf base hp code H)
    as [r E]. rewrite E. discriminate.
Qed.

(* F27 exactly: a field name longer than 65535 bytes is answered with Err(ParseError::Header) *)
Theorem C19_h1_long_header_name_is_error :
  forall (http11 : bool) (sl : bytes) (st : sh) (ns ne vs ve : N),
  ns <= ne -> ne <= lenN sl -> 65535 < ne - ns ->
  header_step true http11 sl st (ns, ne, vs, ve) = Val None.
Proof. exact long_name_is_err. Qed.

(* ... whereas the code before the repair (`.unwrap()`) panicked on the minimal input
   "GET / HTTP/1.1\r\n" ++ "a" * 65536 ++ ": x\r\n\r\n", which is inside httparse's contract *)
Theorem C19_h1_head_refuted_before_F27 :
  exists (buf : bytes) (base : N) (hp : hp_res),
    hp_okb Consts.H1_MAX_HEADERS base buf hp = true /\
    request_decode Consts.H1_MAX_HEADERS Consts.H1_MAX_BUFFER_SIZE false buf base hp true true false false = Panic /\
    request_decode Consts.H1_MAX_HEADERS Consts.H1_MAX_BUFFER_SIZE true buf base hp true true false false = Val DHeader.
Proof. exists f27_buf, 4096, (f27_hp 4096). exact f27_witness. Qed.

(* multipart field scanner InnerField::read_stream with the look-ahead constant READ FROM THE
   SOURCES (`cur + 4 > len`): payload.buf[0], [2..4], [1..3], [b_len..b_size], &buf[pos..],
   [cur..cur+2], [cur+2..cur+4], [cur..=cur], [cur+1..cur+3] and split_to(cur) are all inside the
   buffer, no offset addition wraps, and the scan loop ends — for every buffer content, eof flag
   and boundary. (Byte exactness of the scanner is C15.) *)
Theorem C19_multipart_scan_never_panics : forall (buf : bytes) (eof : bool) (boundary : bytes),
  lenN buf + 4 <= usize_max -> lenN boundary + 4 <= usize_max ->
  read_stream Consts.MULTIPART_SCAN_LOOKAHEAD buf eof boundary <> Panic.
Proof.
  intros buf eof b H1 H2. change Consts.MULTIPART_SCAN_LOOKAHEAD with 4.
  destruct (read_stream_total buf eof b H1 H2) as [r E]. rewrite E. discriminate.
Qed.

(* ... and the constant matters: with a look-ahead of 3 the CRLF arm slices one past the end
   when the buffer ends one byte after a CRLF (the segmentation-dependent panic of seeded C19-1) *)
Theorem C19_multipart_scan_lookahead_3_panics :
  exists (buf boundary : bytes), read_stream 3 buf false boundary = Panic.
Proof. exists [97; 13; 10; 88], [120]. exact lookahead_3_panics. Qed.

(* PayloadBuffer::read_max / read_exact / read_until (split_to(idx + needle.len())), the line
   reader of read_boundary, InnerField::read_len (`*size -= len`) and the readline loop of
   skip_until_boundary never panic and the loop ends *)
Theorem C19_multipart_readers_never_panic : forall (buf needle boundary : bytes) (size : N) (eof : bool),
  lenN buf <= usize_max ->
  read_max buf size <> Panic /\ read_exact buf size <> Panic /\ read_until buf needle <> Panic /\
  read_len buf size <> Panic /\ read_boundary_line buf eof <> Panic /\
  skip_until_boundary buf boundary <> Panic.
Proof.
  intros buf needle b size eof H.
  destruct (read_max_total buf size) as [x1 E1]. destruct (read_exact_total buf size) as [x2 E2].
  destruct (read_len_total buf size) as [x4 E4]. destruct (read_boundary_line_total buf eof H) as [x5 E5].
  destruct (skip_until_boundary_total buf b H) as [x6 E6].
  rewrite E1, E2, E4, E5, E6. repeat split; try discriminate.
  destruct (read_until_spec buf needle H) as [E|(i & _ & E)]; rewrite E; discriminate.
Qed.

(* non-vacuity: concrete inputs exercise the partial primitives (escapes, a multi-byte character
   right after the closing quote position, ext-value; suffix range; bracketed IPv6 "for";
   a writer run with two reserves) *)
Example C19_example :
  from_raw (fun _ => true)
    [102;111;114;109;45;100;97;116;97;59;32;110;97;109;101;61;34;97;92;34;98;34;59;32;102;105;108;101;110;97;109;101;42;61;85;84;70;45;56;39;39;37;101;50;37;56;50;37;97;99]
    = Val (Some (DFormData, [PName [97;34;98]; PFilenameExt (mkExt [85;84;70;45;56] false [226;130;172])])) /\
  to_satisfiable_range (Last 5) 3 = Val (Some (0, 2)) /\
  conn_info [[102;111;114;61;34;91;58;58;49;93;58;56;48;34;59;112;114;111;116;111;61;104;116;116;112;115]]
            None None None None None None false [104] = Val ([104;116;116;112;115], [104], Some [58;58;49]) /\
  write_headers grow_min 3 8 [(6, 10); (7, 100)] = Val (3 + 20 + 111, 245) /\
  read_stream 4 [97; 13; 10; 88] false [120] = Val (RChunk [97] [13; 10; 88]) /\
  read_stream 4 [13; 10; 45; 45; 120; 13; 10] false [120] = Val RBoundary.
Proof. vm_compute. repeat split. Qed.

(* ============================== (c) typed request headers: the shared parsers ================= *)
(* Panic/TypedHdr.v. The literals of the length guards come from Gen/Consts.v (extracted from
   entity.rs / quality_item.rs on every run): a changed guard breaks these proofs. *)

(* EntityTag::from_str (ETag, If-Match, If-None-Match, If-Range): `&slice[1..length - 1]` and
   `&slice[3..length - 1]` are in range and on char boundaries, `length - 1` does not underflow,
   for every &str (valid UTF-8) *)
Theorem C19_entity_tag_never_panics : forall s : bytes, utf8_valid s = true ->
  TypedHdr.entity_from_str Consts.ETAG_MIN_LEN Consts.ETAG_STRONG_MIN_LEN Consts.ETAG_WEAK_MIN_LEN s <> Panic.
Proof.
  intros s V.
  destruct (TypedHdrProofs.entity_from_str_total Consts.ETAG_MIN_LEN Consts.ETAG_STRONG_MIN_LEN Consts.ETAG_WEAK_MIN_LEN
              ltac:(vm_compute; discriminate) ltac:(vm_compute; discriminate) s (utf8_valid_aa_ok s V)) as [o E].
  rewrite E. discriminate.
Qed.

(* the guards are needed: one less in either literal and a one-byte dquote / the three bytes W/dquote panic *)
Theorem C19_entity_tag_weaker_guards_panic :
  TypedHdr.entity_from_str 1 1 4 [34] = Panic /\ TypedHdr.entity_from_str 2 2 3 [87; 47; 34] = Panic.
Proof. split; vm_compute; reflexivity. Qed.

(* QualityItem<T>::from_str: `&q_attr[0..2]`, `&q_attr[2..]` in range and on char boundaries, for
   every item parser that is total on ASCII strings and every float parser *)
Theorem C19_quality_item_never_panics :
  forall (T : Type) (item : bytes -> R (option T)) (qparse : bytes -> option N) (s : bytes),
  (forall x, TypedHdr.is_ascii x = true -> item x <> Panic) ->
  TypedHdr.qitem_from_str item qparse Consts.QITEM_MIN_ATTR_LEN Consts.QITEM_MAX_QVAL_LEN s <> Panic.
Proof.
  intros T item qparse s H. apply TypedHdrProofs.qitem_from_str_never_panics; [exact H|vm_compute; discriminate].
Qed.
Theorem C19_quality_item_weaker_guard_panics :
  TypedHdr.qitem_from_str (fun x => Val (Some x)) (fun _ => None) 1 5 [97; 59; 113] = Panic.
Proof. vm_compute. reflexivity. Qed.

(* from_comma_delimited / from_one_raw_str / the {Any / (item)+} arm of common_header! /
   Preference<T>::from_str, for every item parser that is total on ASCII strings *)
Theorem C19_header_list_parsers_never_panic :
  forall (T : Type) (item : bytes -> R (option T)) (vals : list bytes) (one : option bytes) (s : bytes),
  (forall x, TypedHdr.is_ascii x = true -> item x <> Panic) ->
  TypedHdr.from_comma_delimited_g item vals [] <> Panic /\
  TypedHdr.from_one_raw_str_g item one <> Panic /\
  TypedHdr.any_or_items item vals <> Panic /\
  (TypedHdr.is_ascii s = true -> TypedHdr.preference_from_str item s <> Panic).
Proof.
  intros T item vals one s H. repeat split.
  - destruct (TypedHdrProofs.from_comma_delimited_g_total T item H vals []) as [o E]. rewrite E. discriminate.
  - apply TypedHdrProofs.from_one_raw_str_g_never_panics, H.
  - apply TypedHdrProofs.any_or_items_never_panics, H.
  - apply TypedHdrProofs.preference_from_str_never_panics, H.
Qed.

(* the instances the framework parses: If-Match / If-None-Match (Any or entity-tag list), ETag and the
   entity-tag arm of If-Range (one raw str), Accept-Encoding (list of QualityItem<Preference<Encoding>>) *)
Definition etag_item : bytes -> R (option (bool * bytes)) :=
  TypedHdr.entity_from_str Consts.ETAG_MIN_LEN Consts.ETAG_STRONG_MIN_LEN Consts.ETAG_WEAK_MIN_LEN.
Definition accept_encoding_item (qparse : bytes -> option N) : bytes -> R (option ((unit + bytes) * N)) :=
  TypedHdr.qitem_from_str (TypedHdr.preference_from_str TypedHdr.encoding_from_str) qparse
    Consts.QITEM_MIN_ATTR_LEN Consts.QITEM_MAX_QVAL_LEN.
Theorem C19_etag_and_accept_encoding_headers_never_panic :
  forall (vals : list bytes) (one : option bytes) (qparse : bytes -> option N),
  TypedHdr.any_or_items etag_item vals <> Panic /\
  TypedHdr.from_one_raw_str_g etag_item one <> Panic /\
  TypedHdr.from_comma_delimited_g (accept_encoding_item qparse) vals [] <> Panic.
Proof.
  intros vals one qparse.
  assert (He : forall x, TypedHdr.is_ascii x = true -> etag_item x <> Panic).
  { intros x Hx. unfold etag_item.
    destruct (TypedHdrProofs.entity_from_str_total Consts.ETAG_MIN_LEN Consts.ETAG_STRONG_MIN_LEN Consts.ETAG_WEAK_MIN_LEN
                ltac:(vm_compute; discriminate) ltac:(vm_compute; discriminate) x (TypedHdrProofs.is_ascii_aa_ok x Hx)) as [o E].
    rewrite E. discriminate. }
  assert (Hp : forall x, TypedHdr.is_ascii x = true -> TypedHdr.preference_from_str TypedHdr.encoding_from_str x <> Panic).
  { intros x Hx. apply TypedHdrProofs.preference_from_str_never_panics; [|exact Hx].
    intros y _. apply TypedHdrProofs.encoding_from_str_never_panics. }
  repeat split.
  - apply TypedHdrProofs.any_or_items_never_panics, He.
  - apply TypedHdrProofs.from_one_raw_str_g_never_panics, He.
  - destruct (TypedHdrProofs.from_comma_delimited_g_total _ (accept_encoding_item qparse)
               (fun x _ => C19_quality_item_never_panics _ _ qparse x Hp) vals []) as [o E].
    rewrite E. discriminate.
Qed.

(* ContentRangeSpec::from_str *)
Theorem C19_content_range_never_panics : forall s : bytes, TypedHdr.content_range_from_str s <> Panic.
Proof. exact TypedHdrProofs.content_range_never_panics. Qed.

(* non-vacuity: a weak tag with a multi-byte character, `gzip ; Q=0.5`, `*, W/dquote a dquote`, `bytes 0-9/*` *)
Example C19_example_typed_headers :
  TypedHdr.entity_from_str 2 2 4 [87; 47; 34; 195; 169; 34] = Val (Some (true, [195; 169])) /\
  TypedHdr.qitem_from_str (fun x => Val (Some x)) (fun v => if bytes_eqb v [48; 46; 53] then Some 500 else None) 2 5
    [103; 122; 105; 112; 32; 59; 32; 81; 61; 48; 46; 53] = Val (Some ([103; 122; 105; 112], 500)) /\
  TypedHdr.any_or_items etag_item [[42; 44; 32; 87; 47; 34; 97; 34]] = Val (Some (inr [(true, [97])])) /\
  TypedHdr.content_range_from_str [98; 121; 116; 101; 115; 32; 48; 45; 57; 47; 42] = Val (Some (TypedHdr.CRBytes (Some (0, 9)) None)).
Proof. vm_compute. repeat split. Qed.
