(* C09 — App routing picks the first registered match and exposes exactly its parameters.
   Only statements here; proofs live in Router/RouteProofs.v (on top of C10's Router/*Proofs.v).
   [route] is the model of AppRouting / ScopeService / ResourceService / Router::recognize_fn /
   Url::new (Router/RouteTree.v); [Routes] is the property's relation and [RoutesCode] the same
   relation with the default-inheritance rule of Scope::register as it is (Router/RouteSpec.v);
   they differ only on the tables of finding F26 ([Known_F26]). *)
From AV Require Import Router.ResourceProofs.
From AV Require Import Lib.Base Gen.Consts Router.Pattern Router.Match Router.Path Router.ResourceDef
  Router.Quoter Router.Spec Router.RouteTree Router.RouteSpec Router.RouteProofs.
From Coq Require Import String.
From AV Require Import Gen.RoutingTables Router.RouteTie.

Definition MAX := ROUTER_MAX_DYNAMIC_SEGMENTS.

(* ---------------------------------------------------------------- refinement (all trees, all requests) *)
(* For every application that can be built and every request (path below the 2^16 limit of
   http::Uri): routing never panics, and its result is EXACTLY the one the relational
   specification allows — sound, complete, and the specification is deterministic.  Rule for
   default services: the one of the code. *)
Theorem C09_route_refines_spec_code_rule : forall (a : app) (rq : req),
  wf_app MAX a -> lenN (r_uri_path rq) <= 65535 ->
  (exists o, route MAX a rq = Val o) /\
  (forall o, route MAX a rq = Val o <-> RoutesCode MAX a rq o) /\
  (forall o1 o2, RoutesCode MAX a rq o1 -> RoutesCode MAX a rq o2 -> o1 = o2).
Proof.
  intros a rq WF LEN. destruct (route_g_spec MAX rq false a WF LEN) as (o & EV & RI & UQ & _).
  rewrite route_g_false in EV. split; [exists o; exact EV|]. split.
  - intro o'. split; [intro H; rewrite EV in H; inversion H; subst; exact RI | intro H; rewrite (UQ o' H); exact EV].
  - intros o1 o2 H1 H2. rewrite (UQ o1 H1), (UQ o2 H2). reflexivity.
Qed.

(* the property's relation (nearest enclosing default) is total and deterministic as well *)
Theorem C09_spec_total_deterministic : forall (a : app) (rq : req),
  wf_app MAX a -> lenN (r_uri_path rq) <= 65535 ->
  (exists o, Routes MAX a rq o) /\ (forall o1 o2, Routes MAX a rq o1 -> Routes MAX a rq o2 -> o1 = o2).
Proof.
  intros a rq WF LEN. destruct (route_g_spec MAX rq true a WF LEN) as (o & _ & RI & UQ & _).
  split; [exists o; exact RI|]. intros o1 o2 H1 H2. rewrite (UQ o1 H1), (UQ o2 H2). reflexivity.
Qed.

(* THE PROPERTY, outside the class of finding F26: for every table that does not nest a
   default-less scope inside a scope with a default service, routing = the first registered
   match, depth-first, else the nearest enclosing default. *)
Theorem C09_holds_outside_known : forall (a : app) (rq : req),
  ~ Known_F26 a -> wf_app MAX a -> lenN (r_uri_path rq) <= 65535 ->
  forall o, route MAX a rq = Val o <-> Routes MAX a rq o.
Proof.
  intros a rq NK WF LEN o. destruct (route_g_spec MAX rq true a WF LEN) as (o' & EV & RI & UQ & _).
  rewrite <- (route_g_agree MAX rq a NK), route_g_false in EV.
  split; [intro H; rewrite EV in H; inversion H; subst; exact RI | intro H; rewrite (UQ o H); exact EV].
Qed.

(* Finding F26: scope "/s1" with default service 7 containing the default-less scope "/s2";
   GET /s1/s2/x is answered by the application's 404, the nearest enclosing default is 7. *)
Definition f26_app : app :=
  mkApp [Scope (mkPattern [SConst [47; 115; 49]] false) []
           [Scope (mkPattern [SConst [47; 115; 50]] false) [] [] None None] (Some 7) None] None [].
Definition f26_req : req := mkReq 0 None [] [47; 115; 49; 47; 115; 50; 47; 120].

Lemma f26_wf : wf_app MAX f26_app.
Proof.
  repeat constructor; try (intros []); try (eexists; vm_compute; reflexivity).
Qed.

Theorem C09_refuted_nested_scope_default :
  exists a rq o, wf_app MAX a /\ Known_F26 a /\ route MAX a rq = Val o /\ o_handler o = H404 /\
    ~ Routes MAX a rq o /\ exists o', Routes MAX a rq o' /\ o_handler o' = HDefault 7.
Proof.
  assert (LEN : lenN (r_uri_path f26_req) <= 65535) by (vm_compute; discriminate).
  destruct (route_g_spec MAX f26_req true f26_app f26_wf LEN) as (o' & EV & RI & UQ & _).
  assert (E : route_g MAX f26_req true f26_app =
              Val (mkOut (HDefault 7) [0%nat; 0%nat] false (mkPath [47; 115; 49; 47; 115; 50; 47; 120] 6 []) [[]]))
    by (vm_compute; reflexivity).
  rewrite E in EV. inversion EV; subst o'; clear EV.
  exists f26_app, f26_req, (mkOut H404 [0%nat; 0%nat] false (mkPath [47; 115; 49; 47; 115; 50; 47; 120] 6 []) [[]]).
  split; [exact f26_wf|]. split; [vm_compute; reflexivity|]. split; [vm_compute; reflexivity|].
  split; [reflexivity|]. split.
  - intro H. apply UQ in H. discriminate.
  - eexists. split; [exact RI | reflexivity].
Qed.

(* ------------------------------------------------------------------------ parameters exact *)
(* The handler's match_info is the concatenation, in order, of the captures of the patterns on
   the chosen chain — each chain member matched one of its patterns on the then-unprocessed part
   (C10's [captured]: a decomposition in the pattern's language, ending at a segment boundary for
   a prefix) — and nothing else: whatever rejected candidates computed left no trace.  The
   routed path is the reference decoding of the request path. *)
Theorem C09_params_exact : forall (a : app) (rq : req) (o : outcome),
  wf_app MAX a -> lenN (r_uri_path rq) <= 65535 -> route MAX a rq = Val o ->
  exists steps,
    Trace (a_children a) (routed_path rq) (o_ids o) (o_path o) steps /\
    path_iter (o_path o) = Val (chain_values steps) /\
    p_path (o_path o) = spec_decode [37; 47; 43] (r_uri_path rq).
Proof.
  intros a rq o WF LEN EV. destruct (route_g_spec MAX rq false a WF LEN) as (o' & EV' & _ & _ & steps & TR & _).
  rewrite route_g_false, EV in EV'. inversion EV'; subst o'. exists steps. split; [exact TR|].
  destruct (trace_facts _ _ _ _ _ TR (routed_path_ok rq LEN)) as (_ & PP & _ & _ & IT).
  split; [rewrite IT; reflexivity | rewrite PP; reflexivity].
Qed.

(* a candidate whose guards reject leaves the Path exactly as it was, and so does one whose
   pattern does not match *)
Theorem C09_rejection_leaves_path_untouched : forall (rd : rdef) (p : path),
  (forall r, capture_match_info_fn MAX rd p false = Val r -> r = (false, p)) /\
  (forall g p', capture_match_info_fn MAX rd p g = Val (false, p') -> p' = p).
Proof. intros rd p. split; [apply check_false_untouched | apply no_match_untouched]. Qed.

(* "at a segment boundary": when a scope (prefix without tail) is committed, what is left of the
   path is empty or starts with '/' *)
Theorem C09_scope_commit_at_segment_boundary : forall pfx gs kids d dat (rq : req) (pth pth' : path),
  let c := Scope pfx gs kids d dat in
  wf_def MAX c -> path_ok pth -> p_tail pfx = false -> committed MAX c pth pth' ->
  unprocessed pth' = [] \/ exists r, unprocessed pth' = 47 :: r.
Proof.
  intros pfx gs kids d dat rq pth pth' c (WFP & rd & C) OK NT (rd' & C' & CMI).
  rewrite C in C'. inversion C'; subst rd'.
  destruct (capture_detailed MAX (node_pats c) (node_prefix c) rd pth pth' WFP C OK CMI)
    as (idx & p & n & ws & NP & CAP & _).
  assert (p = ensure_slash pfx) by (destruct idx as [|[|idx]]; cbn in NP; inversion NP; reflexivity). subst p.
  apply (prefix_commit_boundary (ensure_slash pfx) pth n ws pth' OK CAP).
  unfold ensure_slash. destruct (render pfx) as [|c0 r]; [exact NT|]. destruct (c0 =? 47); exact NT.
Qed.

(* skip = the sum of the matched lengths of the chain; the handler's unprocessed() is the routed
   path without that prefix *)
Theorem C09_skip_is_sum : forall (a : app) (rq : req) (o : outcome),
  wf_app MAX a -> lenN (r_uri_path rq) <= 65535 -> route MAX a rq = Val o ->
  exists steps,
    Trace (a_children a) (routed_path rq) (o_ids o) (o_path o) steps /\
    p_skip (o_path o) = N.of_nat (chain_len steps) /\
    unprocessed (o_path o) = skipn (chain_len steps) (spec_decode [37; 47; 43] (r_uri_path rq)).
Proof.
  intros a rq o WF LEN EV. destruct (route_g_spec MAX rq false a WF LEN) as (o' & EV' & _ & _ & steps & TR & _).
  rewrite route_g_false, EV in EV'. inversion EV'; subst o'. exists steps. split; [exact TR|].
  destruct (trace_facts _ _ _ _ _ TR (routed_path_ok rq LEN)) as (_ & _ & SK & UN & _).
  split; [rewrite SK; reflexivity|]. rewrite UN. f_equal. apply unprocessed_new.
Qed.

(* percent-decoding never moves a segment boundary: the routed path has as many '/' as the
   request path, and decoding distributes over every '/' *)
Theorem C09_boundaries_preserved : forall raw : bytes,
  count_occ N.eq_dec (spec_decode [37; 47; 43] raw) 47 = count_occ N.eq_dec raw 47 /\
  (forall a b, raw = a ++ 47 :: b ->
     spec_decode [37; 47; 43] raw = spec_decode [37; 47; 43] a ++ 47 :: spec_decode [37; 47; 43] b) /\
  url_path raw = Val (spec_decode [37; 47; 43] raw).
Proof.
  intro raw. destruct (decode_keeps_slashes raw) as (A & B). split; [exact A|]. split; [exact B|apply url_path_spec].
Qed.

(* application data: the handler's container stack is the root container followed by the
   containers of the chain, outermost first; a lookup returns the value of the innermost
   container holding the key (inside one container: of the last insert) *)
Theorem C09_app_data_innermost : forall (a : app) (rq : req) (o : outcome),
  wf_app MAX a -> lenN (r_uri_path rq) <= 65535 -> route MAX a rq = Val o ->
  (exists steps,
     Trace (a_children a) (routed_path rq) (o_ids o) (o_path o) steps /\
     o_stack o = a_data a ::
       flat_map (fun s : node * pattern * nat * list bytes =>
                   match s with (c, _, _, _) => match node_data c with Some d => [d] | None => [] end end) steps) /\
  (forall k v, stack_get k (o_stack o) = Some v <->
     exists outer c inner, o_stack o = outer ++ c :: inner /\ ext_get k c = Some v /\
       forall c', In c' inner -> ext_get k c' = None) /\
  (forall k, stack_get k (o_stack o) = None <-> forall c, In c (o_stack o) -> ext_get k c = None).
Proof.
  intros a rq o WF LEN EV. destruct (route_g_spec MAX rq false a WF LEN) as (o' & EV' & _ & _ & steps & TR & STK).
  rewrite route_g_false, EV in EV'. inversion EV'; subst o'. split; [|split].
  - exists steps. split; [exact TR|]. rewrite STK, chain_stack_app. reflexivity.
  - intros k v. split; [apply stack_get_some_inv|]. intros (outer & c & inner & -> & E & N).
    apply stack_get_innermost; assumption.
  - intro k. split; [apply stack_get_none_inv | apply stack_get_none].
Qed.

Theorem C09_last_insert_wins : forall k v c1 c2, (forall v', ~ In (k, v') c2) ->
  ext_get k (c1 ++ (k, v) :: c2) = Some v.
Proof. exact ext_get_last. Qed.

(* registration (builder calls): `configure(f)` on an App / Scope appends the services [f]
   registers; if [f] registers no default service the one registered BEFORE the call is kept, if it
   registers one it replaces it *)
Theorem C09_configure_keeps_or_replaces_default : forall (calls : list bld) (s : bst),
  let c := apply_calls true calls (mkB [] (Some []) None) in
  let s' := apply_call false (BConfigure calls) s in
  b_services s' = b_services s ++ b_services c /\
  (b_default c = None -> b_default s' = b_default s) /\
  (forall d, b_default c = Some d -> b_default s' = Some d).
Proof. exact configure_default. Qed.

Example C09_example_default_then_configure :
  build_app [BScope (mkPattern [SConst [47; 97]] false) []
               [BDefault 5; BConfigure [BRes (Single (mkPattern [SConst [47; 120]] false)) [] [([], 1)] None None]]] =
  mkApp [Scope (mkPattern [SConst [47; 97]] false) []
           [Resource (Single (mkPattern [SConst [47; 120]] false)) [] [([], 1)] None None] (Some 5) (Some [])]
        None [].
Proof. reflexivity. Qed.

(* ------------------------------------------------------------- tie to the Rust source text *)
(* The statements of the routing code, re-read from the sources on every run by
   tools/gen/routing.py (Gen/RoutingTables.v), interpreted statement by statement
   (Router/RouteTie.v), are the model. *)

(* (a) Router::recognize_fn: services in registration order, guard check inside the capture call,
   first hit returns; AppRouting / ScopeService: hit -> push id, mark, call; miss -> default *)
Theorem C09_routing_matches_source_recognize :
  (exists d, read_recognize = Some (SReturnSomeVal, SReturnNone, d)) /\
  (forall d, read_recognize = Some (SReturnSomeVal, SReturnNone, d) ->
     forall M rq A (enter : nat -> node -> path -> R A) miss cs pth,
       recognize_gen M rq enter miss d cs pth = recognize M rq enter miss 0 cs pth) /\
  routing_call_ok APP_ROUTING_CALL = true /\ routing_call_ok SCOPE_SERVICE_CALL = true.
Proof. split; [exact tie_recognize_read|]. split; [exact tie_recognize|exact tie_routing_calls]. Qed.

(* … capture_match_info_fn: the check runs after the staging match and BEFORE `path.add` / `path.skip`;
   a rejected candidate returns the Path as it was *)
Theorem C09_routing_matches_source_capture :
  (forall check ml vars p,
     run_capture CAPTURE_FN check ml vars p =
     (if negb check then Val (false, p)
      else rbind (add_all p vars) (fun p' => rbind (path_skip p' (u16_mod ml)) (fun p'' => Val (true, p''))))) /\
  (forall M rd p, exists stage, forall check,
     capture_match_info_fn M rd p check =
     rbind stage (fun st => match st with
                            | None => Val (false, p)
                            | Some (ml, vars) => run_capture CAPTURE_FN check ml vars p
                            end)).
Proof. split; [exact tie_capture_tail|exact tie_capture_fn]. Qed.

(* (b) defaults: configure keeps an earlier default unless the closure sets one (seed C09-2),
   default_service overwrites, ServiceConfig::configure = f(self); Scope::register: own default =
   default_service or the configuration's, children registered with the configuration's (F26) *)
Theorem C09_routing_matches_source_defaults :
  (forall calls s,
     let c := apply_calls true calls (mkB [] (Some []) None) in
     interp_configure SCOPE_CONFIGURE c s = apply_call false (BConfigure calls) s /\
     interp_configure APP_CONFIGURE c s = apply_call false (BConfigure calls) s /\
     configure_fresh SCOPE_CONFIGURE = true /\ configure_fresh APP_CONFIGURE = true) /\
  (CFG_CONFIGURE = [(SRunClosureOnSelf, []); (SReturnSelf, [])] /\
   forall calls s, apply_call true (BConfigure calls) s = apply_calls true calls s) /\
  (forall in_cfg id s,
     fold_left (exec_default id) SCOPE_DEFAULT_SERVICE s = apply_call in_cfg (BDefault id) s /\
     fold_left (exec_default id) APP_DEFAULT_SERVICE s = apply_call in_cfg (BDefault id) s /\
     fold_left (exec_default id) CFG_DEFAULT_SERVICE s = apply_call in_cfg (BDefault id) s) /\
  (forall dflt cfg, interp_register dflt cfg = (Some (default_handler dflt cfg), Some cfg)) /\
  (forall rq cfg pfx gs kids dflt dat pth st ids,
     Val (enter_node MAX rq cfg (Scope pfx gs kids dflt dat) pth st ids) =
     match interp_register dflt cfg with
     | (Some own, Some cfg') =>
         Val (recognize MAX rq (fun i k p => enter_node MAX rq cfg' k p (push dat st) (ids ++ [i]))
                (fun p => Val (mkOut own ids false p (push dat st))) 0%nat kids pth)
     | _ => Panic
     end).
Proof.
  split; [exact tie_configure|]. split; [exact tie_cfg_configure|]. split; [exact tie_default_service|].
  split; [exact tie_register|]. intros. apply tie_enter_scope.
Qed.

(* (c) ResourceService::call: first route (registration order) whose check passes, else the default;
   RouteService::check: every guard *)
Theorem C09_routing_matches_source_resource :
  (exists d, read_resource_call = Some (SReturnRouteCall, SCallDefault, d)) /\
  (forall d, read_resource_call = Some (SReturnRouteCall, SCallDefault, d) ->
     forall rq routes dflt, select_gen d rq routes dflt = select_route rq routes dflt) /\
  (exists d, read_route_check = Some (SReturnFalse, SReturnTrue, d)) /\
  (forall d, read_route_check = Some (SReturnFalse, SReturnTrue, d) ->
     forall rq gs, check_gen d rq gs = guards_ok rq gs).
Proof.
  split; [exact tie_resource_call_read|]. split; [exact tie_resource_call|].
  split; [exact tie_route_check_read|exact tie_route_check].
Qed.

(* (d) the data container is pushed (at the back) before the inner service is called; the lookup
   walks the containers from the back *)
Theorem C09_routing_matches_source_app_data :
  (forall dat st,
     interp_wrap SCOPE_WRAP "scope_data"%string dat st = Some (push dat st) /\
     interp_wrap RESOURCE_WRAP "resource_data"%string dat st = Some (push dat st)) /\
  (exists d, read_app_data = Some (SReturnSomeData, SReturnNone, d)) /\
  (forall d, read_app_data = Some (SReturnSomeData, SReturnNone, d) ->
     forall k st, lookup_gen d k st = stack_get k st).
Proof. split; [exact tie_wrap|]. split; [exact tie_app_data_read|exact tie_app_data]. Qed.

(* (e) Url::new requotes `uri.path()` with the quoter whose protected set is the source's literal;
   Url::path falls back to the raw path when nothing was decoded *)
Theorem C09_routing_matches_source_url : forall raw,
  URL_NEW = [(SPathRequoteLossyOfUriPath, []); (SUrlStruct, [])] /\
  URL_PATH = [(SPathOrUriPath, [])] /\
  url_path raw = rbind (quoter_new URL_PROTECTED) (fun q => Val (requote_full q raw)).
Proof. exact tie_url. Qed.

(* ------------------------------------------------------------------------------ non-vacuity *)
(* Overlapping patterns, rejecting guard first: two resources "/u/{id}" in scope "/api"; the
   first requires POST, the second does not.  GET /api/u/a%2Fb%41 is answered by the second
   (route 2), with exactly id = "a%2FbA" ('/' stays encoded, %41 is decoded), nothing from the
   first candidate; a POST goes to the first (route 1).  The scope pushed data (0 -> 5) over the
   app's (0 -> 1, 1 -> 9). *)
Definition ex_pat : pattern := mkPattern [SConst [47; 117; 47]; SVar [105; 100] default_re] false.
Definition ex_app : app :=
  mkApp [Scope (mkPattern [SConst [47; 97; 112; 105]] false) []
           [Resource (Single ex_pat) [GMethod 1] [([], 1)] None None;
            Resource (Single ex_pat) [] [([GMethod 0], 2)] None None]
           None (Some [(0, 5)])]
        (Some 3) [(0, 1); (1, 9)].
Definition ex_path : bytes := [47; 97; 112; 105; 47; 117; 47; 97; 37; 50; 70; 98; 37; 52; 49].

Example C09_example_guard_rejects_first :
  wf_app MAX ex_app /\ ~ Known_F26 ex_app /\
  (exists o, route MAX ex_app (mkReq 0 None [] ex_path) = Val o /\ Routes MAX ex_app (mkReq 0 None [] ex_path) o /\
     o_handler o = HRoute 2 /\ o_ids o = [0; 1]%nat /\
     path_iter (o_path o) = Val [([105; 100], [97; 37; 50; 70; 98; 65])] /\
     unprocessed (o_path o) = [] /\
     stack_get 0 (o_stack o) = Some 5 /\ stack_get 1 (o_stack o) = Some 9 /\ stack_get 2 (o_stack o) = None) /\
  (exists o, route MAX ex_app (mkReq 1 None [] ex_path) = Val o /\ o_handler o = HRoute 1 /\ o_ids o = [0; 0]%nat) /\
  (exists o, route MAX ex_app (mkReq 2 None [] ex_path) = Val o /\ o_handler o = H405) /\
  (exists o, route MAX ex_app (mkReq 0 None [] [47; 97; 112; 105; 47; 120]) = Val o /\ o_handler o = HDefault 3 /\
     o_ids o = [0]%nat /\ stack_get 0 (o_stack o) = Some 5).
Proof.
  assert (WF : wf_app MAX ex_app).
  { repeat constructor; try (intros [E|[]]; discriminate); try (intros []); try (eexists; vm_compute; reflexivity). }
  assert (NK : ~ Known_F26 ex_app) by (vm_compute; discriminate).
  split; [exact WF|]. split; [exact NK|]. split; [|split; [|split]].
  - eexists. split; [vm_compute; reflexivity|]. split.
    + apply (C09_holds_outside_known ex_app _ NK WF); [vm_compute; discriminate | vm_compute; reflexivity].
    + vm_compute. repeat split; reflexivity.
  - eexists. split; [vm_compute; reflexivity|]. split; reflexivity.
  - eexists. split; [vm_compute; reflexivity|]. reflexivity.
  - eexists. split; [vm_compute; reflexivity|]. vm_compute. repeat split; reflexivity.
Qed.
