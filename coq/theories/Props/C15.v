(* C15 — multipart parsing is exact, segmentation-independent and always terminates.
   Only statements here; proofs live in Multipart/ScanProofs.v and Multipart/ParserProofs.v.
   The model (Multipart/Buffer.v, Scan.v, Parser.v) has a switch at each of the three places
   repaired by fixes/F24.patch, fixes/F7.patch, fixes/F25.patch; [false] = repaired code. *)
From AV Require Import Lib.Base.
From AV Require Import Gen.Consts.
From AV Require Import Multipart.Buffer.
From AV Require Import Multipart.Scan.
From AV Require Import Multipart.Parser.
From AV Require Import Multipart.ScanProofs.
From AV Require Import Multipart.ParserProofs.
From AV Require Import Run.RunC15.
From AV Require Import Multipart.Roundtrip.
From AV Require Import Multipart.Stream2.
From AV Require Import Multipart.Roundtrip2.
From AV Require Import Multipart.Preamble.
From AV Require Import Multipart.Drop.
From AV Require Import Gen.MultipartTables.
From AV Require Import Multipart.GenTie.

(* The parse buffer never exceeds buffer_limit: for every header oracle, every code variant,
   every upstream script, every limit and every sequence of polls by the consumer
   (Multipart::poll_next / Field::poll_next in any order). *)
Theorem C15_buffer_bound :
  forall (hdr : bytes -> hres) (o24 o7 o25 : bool) (bnd : bytes) (script : list ev) (limit : N)
         (ops : list op),
  lenN (p_buf (m_pb (fold_left (step hdr o24 o7 o25) ops (mp_new bnd script limit)))) <= limit.
Proof.
  intros. destruct (buffer_bound_all hdr o24 o7 o25 ops (mp_new bnd script limit)) as [B L].
  - unfold bounded, lenN. cbn. lia.
  - unfold bounded in B. rewrite L in B. exact B.
Qed.

(* ... in particular for the default limit read from payload.rs *)
Theorem C15_buffer_bound_default :
  forall hdr o24 o7 o25 bnd script ops,
  lenN (p_buf (m_pb (fold_left (step hdr o24 o7 o25) ops
                               (mp_new bnd script MULTIPART_DEFAULT_BUFFER_LIMIT)))) <= 65536.
Proof. intros. apply (C15_buffer_bound hdr o24 o7 o25 bnd script MULTIPART_DEFAULT_BUFFER_LIMIT ops). Qed.

(* One poll of the delimiter scanner (InnerField::read_stream).  The buffer holds whatever has
   arrived of  c ++ CRLF "--" boundary ++ rest , c = the content still to deliver, containing CR,
   LF, dashes and boundary look-alikes at will but no delimiter and no bare-CR look-alike
   ([clean], the F7b class is excluded).  Then: data handed out is a NON-EMPTY PREFIX OF c,
   removed from the front of the buffer — never a byte of the delimiter; end-of-field is
   reported only when c is empty and the buffer begins with the delimiter; an error only at
   eof; Pending only before eof; nothing is consumed in the last three cases. *)
Theorem C15_scan_one_poll_exact : forall (p : pb) (bnd c rest : bytes),
  is_prefix (p_buf p) (c ++ delim bnd ++ rest) -> clean bnd c ->
  match read_stream p bnd with
  | (Ready (IData ch), p') =>
      ch <> [] /\ (exists c', c = ch ++ c') /\ p_buf p = ch ++ p_buf p' /\ p' = set_buf p (p_buf p')
  | (Ready IEnd, p') => c = [] /\ p' = p /\ is_prefix (delim bnd) (p_buf p)
  | (Ready (IErr e), p') => e = EIncomplete /\ p_eof p = true /\ p' = p
  | (Pending, p') => p_eof p = false /\ p' = p
  end.
Proof. exact read_stream_step. Qed.

(* Any schedule of arrivals (how the stream is cut into pieces), polls and end-of-stream:
   the bytes delivered are a prefix of the content; when the end of the field is reported they
   are EXACTLY the content and the buffer begins with the delimiter; an error is reported only
   after end-of-stream. *)
Theorem C15_scan_exact_any_schedule : forall (bnd : bytes) (acts : list act) (p : pb) (c rest : bytes),
  is_prefix (p_buf p ++ arrived acts) (c ++ delim bnd ++ rest) -> clean bnd c ->
  exists e, fst (fst (scan_exec bnd acts p [])) = e /\ is_prefix e c /\
    (snd (fst (scan_exec bnd acts p [])) = Some IEnd ->
       e = c /\ is_prefix (delim bnd) (p_buf (snd (scan_exec bnd acts p [])))) /\
    (forall x, snd (fst (scan_exec bnd acts p [])) = Some (IErr x) ->
       x = EIncomplete /\ p_eof (snd (scan_exec bnd acts p [])) = true).
Proof.
  intros bnd acts p c rest H1 H2.
  destruct (scan_exec_exact bnd acts p [] c rest H1 H2) as (e & E). exists e. exact E.
Qed.

(* Segmentation independence of the delivered content: two schedules over the same stream
   that both reach the end of the field delivered the same bytes. *)
Theorem C15_scan_segmentation_independent :
  forall (bnd c rest : bytes) (acts1 acts2 : list act) (limit : N),
  clean bnd c ->
  is_prefix (arrived acts1) (c ++ delim bnd ++ rest) ->
  is_prefix (arrived acts2) (c ++ delim bnd ++ rest) ->
  let r1 := scan_exec bnd acts1 (pb_new [] limit) [] in
  let r2 := scan_exec bnd acts2 (pb_new [] limit) [] in
  snd (fst r1) = Some IEnd -> snd (fst r2) = Some IEnd -> fst (fst r1) = fst (fst r2).
Proof.
  intros bnd c rest acts1 acts2 limit Hc H1 H2 r1 r2 E1 E2.
  destruct (scan_exec_exact bnd acts1 (pb_new [] limit) [] c rest H1 Hc) as (e1 & A1 & _ & B1 & _).
  destruct (scan_exec_exact bnd acts2 (pb_new [] limit) [] c rest H2 Hc) as (e2 & A2 & _ & B2 & _).
  subst r1 r2. rewrite A1, A2. destruct (B1 E1) as [-> _]. destruct (B2 E2) as [-> _]. reflexivity.
Qed.

(* Completeness: with the content and its whole delimiter buffered, at most |c|+1 polls
   deliver exactly c, report the end of the field and leave the delimiter in the buffer. *)
Theorem C15_scan_complete : forall (bnd : bytes) (n : nat) (c : bytes) (p : pb) (tail : bytes),
  p_buf p = c ++ delim bnd ++ tail -> clean bnd c -> (length c < n)%nat ->
  exists p', scan_exec bnd (repeat PollScan n) p [] = (c, Some IEnd, p') /\
             p_buf p' = delim bnd ++ tail.
Proof. intros. apply (scan_complete bnd n c p [] tail); assumption. Qed.

(* No hang (repaired code): a poll of the Multipart stream or of a Field returns Pending only
   when a wake-up of the task is guaranteed (self-wake, or the upstream stream returned
   Pending and therefore holds the waker). *)
Theorem C15_no_hang_multipart : forall (hdr : bytes -> hres) (m : mp) (w : bool) (m' : mp),
  mp_poll_next hdr false false false m = (Pending, w, m') -> w = true.
Proof. exact mp_poll_no_hang. Qed.

Theorem C15_no_hang_field : forall (m : mp) (w : bool) (m' : mp),
  field_poll_next false false false m = (Pending, w, m') -> w = true.
Proof. exact field_poll_no_hang. Qed.

(* ... because poll_stream omits the wake-up only when it has just seen the end of the stream,
   and after the end of the stream no parser function waits (C15_scan_one_poll_exact: Pending
   only before eof). *)
Theorem C15_poll_stream_wakes : forall (p p' : pb) (w : bool),
  poll_stream false p = Ok (p', w) -> w = false -> p_eof p' = true.
Proof. exact poll_stream_woken. Qed.

(* Malformed delimiters yield Err, never a merged field: after a field, Inner::read_boundary
   accepts exactly the line "--" boundary CRLF (another field follows) or "--" boundary "--"
   [CRLF] (end); and the scanner never hands out bytes beyond the first delimiter
   (C15_scan_exact_any_schedule), so no field spans two rendered fields. *)
Theorem C15_boundary_line_exact : forall (p : pb) (bnd : bytes) (fin : bool) (p' : pb),
  read_boundary p bnd = Ok (Some fin, p') ->
  exists line, p_buf p = line ++ p_buf p' /\
    if fin then line = DD ++ bnd ++ DD \/ line = DD ++ bnd ++ DD ++ CRLF
    else line = DD ++ bnd ++ CRLF.
Proof. exact read_boundary_exact. Qed.

(* PayloadBuffer::poll_stream neither loses, duplicates nor reorders a byte, whatever the
   chunking, the Pending pattern, the limit and the 16-chunk budget: buffer ++ held-back chunk
   ++ rest of the stream is invariant, and the buffer only grows at its end (this is the
   [Arrive] of the scanner theorems). *)
Theorem C15_poll_stream_preserves_bytes : forall (o25 : bool) (p p' : pb) (w : bool),
  poll_stream o25 p = Ok (p', w) ->
  rest_of p' = rest_of p /\ exists added, p_buf p' = p_buf p ++ added.
Proof. exact poll_stream_rest. Qed.

(* The line and header-block reads (read_until: readline, boundary lines, header block) are
   independent of the segmentation: once the needle is found, the chunk returned is the same
   however much more of the stream has already arrived, and what is left is the rest plus
   that surplus. *)
Theorem C15_read_until_segmentation_independent :
  forall (needle : bytes) (p : pb) (chunk : bytes) (p' : pb) (extra : bytes),
  read_until needle p = Ok (Some chunk, p') ->
  read_until needle (set_buf p (p_buf p ++ extra)) = Ok (Some chunk, set_buf p (p_buf p' ++ extra)).
Proof. exact read_until_stable. Qed.

(* End of a field: when the scanner has reported the end (the buffer begins with the delimiter,
   C15_scan_exact_any_schedule), InnerField::poll consumes exactly the CRLF in front of
   "--" boundary and finishes the field; the boundary line itself is left for read_boundary. *)
Theorem C15_field_end_handoff : forall (f : ifield) (p : pb) (bnd tail : bytes),
  p_buf p = delim bnd ++ tail ->
  field_stage2 f p = (Ready IEnd, mkField false (f_eof f) (f_length f), set_buf p (DD ++ bnd ++ tail)).
Proof. exact field_end_handoff. Qed.

(* the class of valid contents is decidable (same predicate as the harness classifier) *)
Theorem C15_clean_decidable : forall b c, cleanb b c = true -> clean b c.
Proof. exact cleanb_clean. Qed.

(* non-vacuity: boundary "ab", content  x CR LF - - a CR - - CR  (look-alikes of both kinds),
   delivered bytewise with a poll after every byte, then the next field's line *)
Example C15_example :
  let bnd := [97; 98] in
  let c := [120; 13; 10; 45; 45; 97; 13; 45; 45; 13] in
  let stream := c ++ delim bnd ++ [13; 10; 88] in
  let acts := flat_map (fun b => [Arrive [b]; PollScan]) stream in
  clean bnd c /\ arrived acts = stream /\
  fst (scan_exec bnd acts (pb_new [] 65536) []) = (c, Some IEnd).
Proof. cbv zeta. split; [apply cleanb_clean; reflexivity|]. split; reflexivity. Qed.

(* ==================== the whole parser (Inner::poll machine + consumer loop) ====================

   A body is  "--" boundary, then for every part  CRLF headers content CRLF "--" boundary,
   then a last line and anything after it ([Roundtrip.body]).  A part [fld] carries its header
   block (ending in the first CRLF CRLF, handed to the oracle [hdr], which answers with the
   part's name and Content-Length), and its content.  [fld_ok]: the oracle accepts the block; a
   part WITHOUT Content-Length has a content that is [clean] (any bytes — CR, LF, dashes,
   look-alikes — but no CRLF--boundary inside, and outside the F7b class); a part WITH
   Content-Length has ARBITRARY content (it may contain the delimiter itself).
   The consumer is the loop of Run/RunC15.v ([drive]: poll the Multipart, read each Field to its
   end, re-poll after Pending only when woken); [norm] drops the Pending entries and joins
   adjacent data chunks of the transcript; [chunks script] = the bytes the script delivers. *)

(* C15_roundtrip_any_chunking (final form): for every header oracle, boundary (non-empty, no
   LF), optional preamble [ls] (lines without LF that are not boundary lines), valid part list
   (0..n parts), epilogue, and EVERY upstream script — any chunking of the stream, empty chunks,
   Pending anywhere — the parser delivers exactly the rendered parts (name, Content-Length,
   exact content bytes), each finished, then the clean end; never an error, never a hang (the
   run is complete within |script| + |stream| + 1 polls).
   The parser buffer may be far smaller than the body: buffer_limit only has to hold what
   the parser must see whole — a boundary line (|boundary| + 6), every header block, every
   preamble line; field contents stream through it in pieces.
   Hypotheses that remain: no stream-error event; the consumer reads every field to its end. *)
Theorem C15_roundtrip_any_chunking :
  forall (hdr : bytes -> hres) (bnd : bytes) (ls : list bytes) (fs : list fld) (epilogue : bytes)
         (script : list ev) (limit : N) (fuel : nat),
  bnd <> [] -> ~ In 10 bnd -> Forall (pline_ok bnd limit) ls -> Forall (fld_ok hdr bnd) fs ->
  no_err script ->
  N.of_nat (length bnd + 6) <= limit -> Forall (fun f => lenN (fh f) <= limit) fs ->
  chunks script = pre ls ++ body bnd close_line epilogue fs ->
  (length script + length (chunks script) < fuel)%nat ->
  norm (drive hdr false false false None fuel (mp_new bnd script limit) AtMp) = exp_fields TEnd fs.
Proof. exact roundtrip_full. Qed.

(* C15_segmentation (whole parser): two scripts that carry the same valid stream — however
   differently cut and interleaved with Pending, through buffers of different sizes — deliver
   the same parts. *)
Theorem C15_segmentation :
  forall hdr bnd ls fs epilogue s1 s2 l1 l2 f1 f2,
  bnd <> [] -> ~ In 10 bnd -> Forall (pline_ok bnd l1) ls -> Forall (pline_ok bnd l2) ls ->
  Forall (fld_ok hdr bnd) fs -> no_err s1 -> no_err s2 ->
  N.of_nat (length bnd + 6) <= l1 -> N.of_nat (length bnd + 6) <= l2 ->
  Forall (fun f => lenN (fh f) <= l1) fs -> Forall (fun f => lenN (fh f) <= l2) fs ->
  chunks s1 = pre ls ++ body bnd close_line epilogue fs -> chunks s2 = chunks s1 ->
  (length s1 + length (chunks s1) < f1)%nat -> (length s2 + length (chunks s1) < f2)%nat ->
  norm (drive hdr false false false None f1 (mp_new bnd s1 l1) AtMp) =
  norm (drive hdr false false false None f2 (mp_new bnd s2 l2) AtMp).
Proof. exact segmentation_full. Qed.

(* C15_truncation_is_error (whole parser): the stream (preamble + body, no epilogue) is cut
   anywhere at least 3 bytes before its end — i.e. strictly inside  ... "--" boundary "--"; the
   cut points "--" boundary "--" and "--" boundary "--" CR are the optional final CRLF — and
   what is left is delivered under ANY chunking, through any sufficient buffer: the run ends
   with an ERROR after a prefix of the rendered parts ([tpre]: whole items, the last data chunk
   possibly cut short); never the clean end, never a hang (a hang would end the transcript with
   an unwoken Pending, not with TErr). This is the clause the seeded change C15-2 broke. *)
Theorem C15_truncation_is_error :
  forall (hdr : bytes -> hres) (bnd : bytes) (ls : list bytes) (fs : list fld) (missing : bytes)
         (script : list ev) (limit : N) (fuel : nat),
  bnd <> [] -> ~ In 10 bnd -> Forall (pline_ok bnd limit) ls -> Forall (fld_ok hdr bnd) fs ->
  no_err script ->
  N.of_nat (length bnd + 6) <= limit -> Forall (fun f => lenN (fh f) <= limit) fs ->
  pre ls ++ body bnd close_line [] fs = chunks script ++ missing -> (3 <= length missing)%nat ->
  (length script + length (pre ls ++ body bnd close_line [] fs) < fuel)%nat ->
  exists t e,
    norm (drive hdr false false false None fuel (mp_new bnd script limit) AtMp) = t ++ [TErr e] /\
    tpre t (exp_fields TEnd fs).
Proof. exact truncated_full. Qed.

(* C15_no_silent_merge (whole parser): if the line that follows the last delimiter
   CRLF "--" boundary is malformed (neither CRLF = another part, nor "--" CRLF = end), every
   part before it is still delivered exactly — no field spans a delimiter, nothing is merged —
   and the run ends with Err(BoundaryMissing), under every chunking (proved for bodies without
   preamble and buffer_limit > |body|). *)
Theorem C15_no_silent_merge :
  forall hdr bnd fs (x rest : bytes) script limit fuel,
  bnd <> [] -> ~ In 10 bnd -> Forall (fld_ok hdr bnd) fs -> fs <> [] -> no_err script ->
  ~ In 10 x -> x ++ [10] <> CRLF -> x ++ [10] <> DD ++ CRLF ->
  chunks script = body bnd x rest fs ->
  lenN (chunks script) < limit ->
  (length script + length (chunks script) < fuel)%nat ->
  norm (drive hdr false false false None fuel (mp_new bnd script limit) AtMp)
  = exp_fields (TErr EBoundary) fs.
Proof. exact malformed_delimiter_is_error. Qed.

(* non-vacuity of the three: boundary "ab", parts  x CR LF - - a  (scanned), empty (scanned),
   and CR LF - - a b CR LF with Content-Length 8; one byte per chunk, Pending after each; the
   hypotheses hold and the model run gives exactly the parts *)
Example C15_roundtrip_example :
  Forall (fld_ok ex_hdr [97;98]) ex_fs /\ no_err ex_script /\
  chunks ex_script = body [97;98] close_line [101] ex_fs /\
  norm (drive ex_hdr false false false None 1000 (mp_new [97;98] ex_script 65536) AtMp)
  = [TField (Some [7]) None; TData [120;13;10;45;45;97]; TFieldEnd;
     TField (Some [6]) None; TFieldEnd;
     TField (Some [7]) (Some 8); TData [13;10;45;45;97;98;13;10]; TFieldEnd; TEnd].
Proof. exact roundtrip_example. Qed.

(* non-vacuity of the final forms: a two-line preamble (one line is the near-boundary "--abx"),
   the 3-part body, an epilogue, buffer_limit 8 = |"ab"| + 6, one byte per chunk with Pending:
   exactly the parts; and the same stream cut after 12 bytes: Err(Incomplete) *)
Example C15_full_example :
  Forall (pline_ok [97;98] 8) ex_pre /\
  norm (drive ex_hdr false false false None 2000
          (mp_new [97;98] (flat_map (fun b => [EChunk [b]; EPending])
                                    (pre ex_pre ++ body [97;98] close_line [101;102] ex_fs)) 8) AtMp)
  = exp_fields TEnd ex_fs /\
  norm (drive ex_hdr false false false None 2000
          (mp_new [97;98] (flat_map (fun b => [EChunk [b]; EPending])
                                    (firstn 12 (pre ex_pre ++ ex_body))) 8) AtMp)
  = [TErr EIncomplete].
Proof. exact full_example. Qed.

(* ==================== translator tie: the model IS the interpretation of the source literals =====
   Gen/MultipartTables.v is regenerated from actix-multipart/src/{field,multipart,payload}.rs on
   every check run (tools/gen/multipart.py: anchored patterns; a pattern that no longer matches
   omits its definition). The statements below mention only generated names on one side and
   the model on the other; they are closed by conversion, so a changed literal, slice bound or
   comparison operator in the Rust source breaks them. *)

(* field.rs read_stream: the start-of-buffer test (guard `len >= 4` — the F24 line —, byte
   b'\r', starts_with(b"\r\n"), [2..4] == b"--" -> 4, [1..3] == b"--" -> 3, `len < b_size`
   wait test with its eof exit, [b_len..b_size] == boundary), the look-alike test of the scan
   loop, the look-ahead `cur + 4 > len`, and the memmem needle *)
Theorem C15_scan_matches_generated :
  (forall buf bnd eof, start_check false false buf bnd eof = start_check_g buf bnd eof) /\
  (forall l, lookalike l = lookalike_g l) /\
  (forall pre l : bytes, (length l <? 4)%nat = MP_LOOKAHEAD_SHORT (length pre) (length (pre ++ l))) /\
  (forall x : N, (x =? CR) = bytes_eqb [x] MP_SCAN_NEEDLE).
Proof.
  exact (conj start_check_matches_generated (conj lookalike_matches_generated
        (conj lookahead_matches_generated scan_needle_matches_generated))).
Qed.

(* field.rs: the look-ahead exit answers Err(Incomplete) at eof exactly when the source has
   the `else if payload.eof` arm (F7) *)
Theorem C15_eof_exits_match_generated : forall p bnd,
  (length (p_buf p) =? 0)%nat = false ->
  start_check false false (p_buf p) bnd (p_eof p) = None -> scan_from 0 (p_buf p) = SStuck ->
  read_stream p bnd = ((if MP_EOF_EXIT_STUCK && p_eof p then Ready (IErr EIncomplete) else Pending), p).
Proof. exact eof_exits_match_generated. Qed.

(* multipart.rs: the boundary-line forms of read_boundary (BOUNDARY_MARKER + boundary +
   LINE_BREAK | BOUNDARY_MARKER | b"--\r\n"), the header terminator b"\r\n\r\n", the line tests
   of skip_until_boundary; payload.rs: the readline needle b"\n" *)
Theorem C15_boundary_forms_match_generated :
  (forall p bnd, read_boundary p bnd = read_boundary_g p bnd) /\
  (forall (hdr : bytes -> hres) p,
     read_field_headers hdr p =
     match read_until MP_HEADER_TERMINATOR p with
     | Err e => Err e
     | Ok (None, p1) => if p_eof p1 then Err EIncomplete else Ok (None, p1)
     | Ok (Some block, p1) => Ok (Some (hdr block), p1)
     end) /\
  (forall p, readline p = read_until MP_READLINE_NEEDLE p) /\
  (forall k p bnd,
     skip_loop (S k) p bnd =
     match readline p with
     | Err e => Err e
     | Ok (None, p1) => if p_eof p1 then Err EIncomplete else Ok (None, p1)
     | Ok (Some chunk, p1) =>
         if is_nil chunk then Err EBoundary
         else
           match strip_suffix MP_SKIP_EOL chunk with
           | None => skip_loop k p1 bnd
           | Some line =>
               match strip_prefix MP_SKIP_PREFIX line with
               | Some l2 =>
                   if bytes_eqb l2 bnd then Ok (Some false, p1)
                   else if opt_bytes_eqb (strip_suffix MP_SKIP_FINAL_SUFFIX l2) bnd then Ok (Some true, p1)
                   else skip_loop k p1 bnd
               | None => skip_loop k p1 bnd
               end
           end
     end).
Proof.
  exact (conj read_boundary_matches_generated (conj header_terminator_matches_generated
        (conj readline_needle_matches_generated skip_loop_matches_generated))).
Qed.

(* payload.rs poll_stream: each of the three "stream still ready" exits wakes the task
   unconditionally exactly when the source has a bare `cx.waker().wake_by_ref()` there (F25),
   the buffer-full test is `buf.len() >= buffer_limit`, the end of the stream sets eof without
   a wake-up *)
Theorem C15_wakeups_match_generated :
  (forall p a, poll_loop false 0 p a = Ok (p, wake_flag MP_WAKE_AFTER_LOOP a)) /\
  (forall n p a d p1 a1,
     p_pending p = Some d -> append_pending p = Ok (p1, a1) ->
     is_some (p_pending p1) || MP_FULL_TEST (lenN (p_buf p1)) (p_limit p1) = true ->
     poll_loop false (S n) p a = Ok (p1, wake_flag MP_WAKE_EARLY_PENDING (a || a1))) /\
  (forall n p a data rest p1 a1,
     p_pending p = None -> p_stream p = EChunk data :: rest ->
     append_pending (set_pending (set_stream p rest) (Some data)) = Ok (p1, a1) ->
     is_some (p_pending p1) || MP_FULL_TEST (lenN (p_buf p1)) (p_limit p1) = true ->
     poll_loop false (S n) p a = Ok (p1, wake_flag MP_WAKE_EARLY_CHUNK (a || a1))) /\
  (forall n p a, p_pending p = None -> p_stream p = [] ->
     poll_loop false (S n) p a = Ok (set_eof p true, negb MP_EOF_NO_WAKE)).
Proof.
  exact (conj wake_after_loop_matches_generated (conj wake_early_pending_matches_generated
        (conj wake_early_chunk_matches_generated eof_exit_matches_generated))).
Qed.

(* payload.rs append_pending (the only place that grows the parse buffer): the Overflow guard,
   the free room `available = buffer_limit - buf.len()` derived from the buffer itself on EVERY
   call (no room carried between the two call sites of the poll loop), `min(data.len(),
   available)`, whole/split.  The seeded change C15-3 (room computed once per poll) breaks this
   statement; C15_poll_stream_never_overfills is what it buys. *)
Theorem C15_append_pending_matches_generated : forall p data,
  p_pending p = Some data -> is_nil data = false ->
  append_pending p =
    if MP_AP_OVERFLOW_TEST (lenN (p_buf p)) (p_limit p) then Err EOverflow
    else
      let len := MP_AP_LEN (lenN data) (MP_AP_AVAILABLE (p_limit p) (lenN (p_buf p))) in
      if MP_AP_WHOLE_TEST len (lenN data)
      then Ok (set_buf (set_pending p None) (p_buf p ++ data), negb (len =? 0))
      else Ok (set_pending (set_buf (set_pending p None) (p_buf p ++ firstn (N.to_nat len) data))
                           (Some (skipn (N.to_nat len) data)), negb (len =? 0)).
Proof. exact append_pending_matches_generated. Qed.

(* Back-pressure: one poll_stream call — held-back left-over first, then up to 16 ready chunks,
   each append with the room of THAT moment — never leaves more than buffer_limit bytes in the
   buffer, whatever the chunk sizes, for every variant. *)
Theorem C15_poll_stream_never_overfills : forall (o25 : bool) (p p' : pb) (w : bool),
  lenN (p_buf p) <= p_limit p -> poll_stream o25 p = Ok (p', w) ->
  lenN (p_buf p') <= p_limit p /\ p_limit p' = p_limit p.
Proof.
  intros o25 p p' w B H. destruct (poll_stream_spec o25 p p' w B H) as (B' & L & _).
  unfold bounded in B'. rewrite L in B'. auto.
Qed.

(* non-vacuity: limit 8, buffer holds 3 bytes, a 4-byte left-over is pending and two more chunks
   (6 and 5 bytes) are ready: the left-over fits, the next chunk is cut to the ONE byte of room
   that is left at that moment *)
Example C15_poll_stream_room_example :
  poll_stream false (mkPb [EChunk [1;2;3;4;5;6]; EChunk [7;7;7;7;7]] (Some [9;9;9;9]) [0;0;0] 8 false)
  = Ok (mkPb [EChunk [7;7;7;7;7]] (Some [2;3;4;5;6]) [0;0;0;9;9;9;9;1] 8 false, true).
Proof. reflexivity. Qed.

(* Consumer that DROPS a Field before its end (partial: local statement about the "release
   field" loop at the start of Inner::poll, for a scanned field — no Content-Length — whose
   remaining content c and whole delimiter have been buffered; the whole-parser composition
   over every chunking, and Content-Length fields, are exercised by the correspondence only:
   `consume: k` cases).  Full statement aimed at: for every valid part list, every chunking and
   every k, a consumer that drops each handle after k chunks gets the heads of all parts, a
   prefix of each content, and the clean end.
   Here: the loop discards exactly the rest of the content and the CRLF in front of the boundary
   line — whatever the content (CR, LF, dashes, look-alikes; clean) — reports the field
   released, and leaves "--" boundary ++ tail for read_boundary: nothing of the next part is
   swallowed (no merge), nothing of the dropped content is left over to be parsed as a line. *)
Theorem C15_dropped_field_skips_to_boundary_partial : forall (bnd c tail : bytes) (p : pb),
  p_buf p = c ++ delim bnd ++ tail -> clean bnd c ->
  release false false (S (length (p_buf p))) bnd (mkField true false None) p
  = RelDone None (set_buf p (DD ++ bnd ++ tail)).
Proof. intros bnd c tail p. exact (inner_release_scanned bnd c p tail). Qed.

(* non-vacuity: boundary "ab", dropped content  x CR LF - - a CR  (look-alike), next part "y" *)
Example C15_dropped_field_example :
  clean [97; 98] [120; 13; 10; 45; 45; 97; 13] /\
  release false false 100%nat [97; 98] (mkField true false None)
    (mkPb [] None ([120; 13; 10; 45; 45; 97; 13] ++ delim [97; 98] ++ [13; 10; 104; 13; 10; 13; 10; 121]) 64 false)
  = RelDone None (mkPb [] None (DD ++ [97; 98] ++ [13; 10; 104; 13; 10; 13; 10; 121]) 64 false).
Proof. split; [apply cleanb_clean; reflexivity|reflexivity]. Qed.
