(* C15 placeholder; theorems follow *)
From AV Require Import Lib.Base.
From AV Require Import Multipart.Buffer.
From AV Require Import Multipart.Scan.
From AV Require Import Multipart.Parser.
