(* C14 — WebSocket handshake and frame codec: round-trip, segmentation-free, strict.
   Only statements here; proofs live in Ws/*Proofs.v. The model is of the code after the repairs
   fixes/F5.patch (oversize frame refused before it is buffered) and fixes/F6.patch (FIN data frame
   inside a fragmented message refused). [lossy] stands for String::from_utf8_lossy. *)
From Coq Require Import String.
From AV Require Import Lib.Base Lib.V Gen.Consts Gen.WsTables Ws.Mask Ws.MaskProofs Ws.MaskFast Ws.Frame Ws.FrameProofs
  Ws.Codec Ws.ParseProofs Ws.Stream Ws.StreamProofs Ws.MoreProofs Ws.Handshake Ws.HandshakeProofs
  Ws.FrameSpec Ws.SpecProofs Ws.HdrProofs Ws.RoundProofs Ws.DeliverProofs Ws.RoundTrip Ws.OversizeProofs Ws.RoundTripSeq Ws.BatchProofs Ws.ReserveProofs
  Ws.Sha1 Ws.Base64 Ws.HashKey Ws.HashKeyProofs Ws.TablesTie Ws.SeqProofs Gen.WsHandshake Ws.HandshakeTie.
Open Scope N_scope.

(* ---------------- masking ---------------- *)

(* unmasking undoes masking, for every buffer and every key (no bound on the bytes needed) *)
Theorem C14_mask_involutive : forall (buf key : bytes), apply_mask (apply_mask buf key) key = buf.
Proof. exact apply_mask_involutive. Qed.

(* the word-wise fast path (little-endian) computes the byte-wise XOR whatever `align_to_mut`
   returns: prefix of any length p, any number k of 32-bit words, rest as suffix *)
Theorem C14_mask_fast_eq_bytewise : forall (p k : nat) (buf : bytes) (m0 m1 m2 m3 : N),
  m0 < 256 -> m1 < 256 -> m2 < 256 -> m3 < 256 -> Forall (fun b => b < 256) buf ->
  (p + 4 * k <= length buf)%nat ->
  apply_mask_fast32 p k buf [m0; m1; m2; m3] = apply_mask_fallback buf [m0; m1; m2; m3].
Proof. exact fast32_eq_fallback. Qed.

Example C14_mask_example :
  apply_mask_fast32 3 2 [243; 0; 1; 2; 3; 128; 129; 130; 255; 254; 0; 23; 116] [109; 182; 178; 128] =
  apply_mask_fallback [243; 0; 1; 2; 3; 128; 129; 130; 255; 254; 0; 23; 116] [109; 182; 178; 128] /\
  apply_mask_fallback [243; 0; 1; 2; 3] [109; 182; 178; 128] = [158; 182; 179; 130; 110].
Proof. vm_compute. split; reflexivity. Qed.

(* ---------------- no panic ---------------- *)

(* every index, slice, advance and split_to of parse_metadata / parse / decode is in range *)
Theorem C14_decode_never_panics : forall lossy (c : codec) (src : bytes), decode lossy c src <> Panic.
Proof. exact decode_never_panics. Qed.

Theorem C14_parse_never_panics : forall (src : bytes) (server : bool) (max_size : N),
  parse src server max_size <> Panic.
Proof. exact parse_never_panics. Qed.

(* ---------------- segmentation independence ---------------- *)

(* Feeding the decoder any split of the byte stream (each read appended to the buffer, `decode`
   called until it asks for more, stop at the first error) yields the frames, the final error or
   the held residue and codec state of decoding the whole stream at once. *)
Theorem C14_segmentation : forall lossy (c : codec) (segs : list bytes),
  feed lossy c [] segs = run_all lossy c (concat segs).
Proof. exact segmentation_independent. Qed.

(* the decoding loop always ends with "need more" or a protocol error: no panic, fuel suffices *)
Theorem C14_run_terminates : forall lossy (c : codec) (buf : bytes),
  match snd (run_all lossy c buf) with EMore _ _ | EErr _ => True | _ => False end.
Proof. intros. apply (run_all_ends lossy (S (length buf))). lia. Qed.

(* frames are atomic: if the decoder delivers a frame from [whole] leaving [rest], then on every
   shorter prefix of the frame's bytes it answers "need more" (and consumes nothing: DNone).
   This is the complete statement (every codec state, every proper prefix length n); it was called
   C14_partial_frame_needs_more, "partial" referring to the frame, not to the proof. *)
Theorem C14_incomplete_frame_needs_more : forall lossy c whole fr c' rest n,
  decode lossy c whole = Val (DFrame fr c' rest) -> (n + length rest < length whole)%nat ->
  decode lossy c (firstn n whole) = Val DNone.
Proof.
  intros lossy c whole fr c' rest n H Hn. rewrite decode_dd in *. injection H as H.
  f_equal. eapply partial_frame_needs_more; eauto.
Qed.

(* a delivered frame is followed by exactly the unconsumed suffix, and consumes at least 2 bytes *)
Theorem C14_frame_consumes_prefix : forall lossy c src fr c' rest,
  decode lossy c src = Val (DFrame fr c' rest) ->
  (exists consumed, src = consumed ++ rest) /\ lenN rest + 2 <= lenN src.
Proof.
  intros lossy c src fr c' rest H. rewrite decode_dd in H. injection H as H.
  apply dd_progress in H as (H1 & H2 & _). auto.
Qed.

Example C14_segmentation_example :
  let c := with_max_size (client_mode codec_new) 16 in
  let stream := [129; 2; 104; 105; 1; 1; 97; 137; 0; 128; 1; 98] in
  run_all (fun d => d) c stream =
    ([FText [104; 105]; FContinuation (FirstText [97]); FPing []; FContinuation (Last [98])],
     EMore c []) /\
  feed (fun d => d) c [] [[129]; [2; 104]; [105; 1; 1; 97; 137]; [0; 128; 1]; [98]] =
  run_all (fun d => d) c stream.
Proof. vm_compute. split; reflexivity. Qed.

(* ---------------- max_size ---------------- *)

(* no delivered payload exceeds max_size *)
Theorem C14_max_size : forall lossy c src f c' rest b,
  decode lossy c src = Val (DFrame f c' rest) -> frame_data f = Some b -> lenN b <= c_max c.
Proof.
  intros lossy c src f c' rest b H. rewrite decode_dd in H. injection H as H.
  eapply delivered_within_max; eauto.
Qed.

(* the payload a Close frame is parsed from is within max_size and 125 bytes *)
Theorem C14_close_payload_bounded : forall src server max_size fin pl rest,
  parse src server max_size = Val (PFrame fin OpClose (Some pl) rest) ->
  lenN pl <= max_size /\ lenN pl <= 125.
Proof.
  intros src server max_size fin pl rest H. rewrite parse_pp in H. injection H as H.
  eapply close_within_max; eauto.
Qed.

(* when it asks for more, the parser itself requests at most max_size + a header (14 bytes) of
   capacity, whatever length the peer announces *)
Theorem C14_reserve_bounded : forall src server max_size c,
  parse src server max_size = Val (PNone (Some c)) -> c <= max_size + 14.
Proof.
  intros src server max_size c H. rewrite parse_pp in H. injection H as H.
  eapply reserve_bounded; eauto.
Qed.

(* a frame announcing more than max_size is refused as soon as its header is there, whatever
   follows it (nothing, part of the payload, all of it): it is not buffered first (was F5) *)
Theorem C14_oversize_refused_before_buffering : forall lossy c (h : fhdr) (tail : bytes),
  hdr_ok h -> is_some (h_key h) = c_server c -> opcode_known (h_op h) = true ->
  c_max c < h_len h ->
  exists r, decode lossy c (hdr_bytes h ++ tail) = Val (DErr Overflow c r).
Proof.
  intros lossy c h tail H1 H2 H3 H4. destruct (oversize_refused lossy c h tail H1 H2 H3 H4) as (r & E).
  exists r. rewrite decode_dd, E. reflexivity.
Qed.

(* ---------------- strictness ---------------- *)

(* [hdr_bytes h] is the RFC 6455 section 5.2 header for ANY field values (FIN, RSV, 4-bit opcode,
   optional key, any of the three length forms); [frame_legal server open max h] is the
   property's list: masking fits the role, opcode known, control frames unfragmented and at most
   125 bytes, Continue only inside / Text and Binary only outside a fragmented message, length
   within max_size. Every complete frame outside that list is refused, except for the known
   class F6b (Close frame announcing more than 125 bytes). *)
Theorem C14_strict_illegal_frame_refused : forall lossy c (h : fhdr) (wire rest : bytes),
  hdr_ok h -> lenN wire = h_len h -> h_len h < 2 ^ 63 ->
  frame_legal (c_server c) (c_cont c) (c_max c) h = false -> close_overlong h = false ->
  exists e c' r, decode lossy c (hdr_bytes h ++ wire ++ rest) = Val (DErr e c' r).
Proof.
  intros lossy c h wire rest H1 H2 H3 H4 H5.
  destruct (illegal_frame_refused lossy c h wire rest H1 H2 H3 H4 H5) as (e & c' & r & E).
  exists e, c', r. rewrite decode_dd, E. reflexivity.
Qed.

(* F6b (deliberate upstream behaviour): an over-long Close frame is illegal but delivered as
   Close(None) *)
Theorem C14_refuted_close_overlong : exists lossy c (h : fhdr) (wire rest : bytes),
  hdr_ok h /\ lenN wire = h_len h /\ h_len h < 2 ^ 63 /\
  frame_legal (c_server c) (c_cont c) (c_max c) h = false /\ close_overlong h = true /\
  decode lossy c (hdr_bytes h ++ wire ++ rest) = Val (DFrame (FClose None) c rest).
Proof.
  exists (fun d => d), (client_mode codec_new), (mkHdr true 0 8 None L16 126), (repeat 0 126), [7].
  unfold hdr_ok. cbn [h_rsv h_op h_key h_lform h_len].
  repeat split; try lia; try (vm_compute; reflexivity).
Qed.

(* the known class exactly: what the code does with ANY over-long Close frame (masking right for the
   role, within max_size, FIN set or not): payload dropped, Close(None) delivered, state untouched,
   exactly the frame consumed. With C14_strict_illegal_frame_refused this is the only deviation. *)
Theorem C14_close_overlong_exact : forall lossy c (h : fhdr) (wire rest : bytes),
  hdr_ok h -> lenN wire = h_len h -> h_len h < 2 ^ 63 ->
  is_some (h_key h) = c_server c -> close_overlong h = true -> h_len h <= c_max c ->
  decode lossy c (hdr_bytes h ++ wire ++ rest) = Val (DFrame (FClose None) c rest).
Proof. intros. rewrite decode_dd, close_overlong_delivered by assumption. reflexivity. Qed.

(* wrong masking and reserved opcodes are refused from the first two bytes on, nothing consumed *)
Theorem C14_wrong_mask_refused : forall lossy c (h : fhdr) (tail : bytes),
  hdr_ok h -> is_some (h_key h) <> c_server c ->
  decode lossy c (hdr_bytes h ++ tail) =
  Val (DErr (if c_server c then UnmaskedFrame else MaskedFrame) c (hdr_bytes h ++ tail)).
Proof. intros. rewrite decode_dd, dd_wrong_mask by assumption. reflexivity. Qed.

Theorem C14_reserved_opcode_refused : forall lossy c (h : fhdr) (tail : bytes),
  hdr_ok h -> is_some (h_key h) = c_server c -> opcode_known (h_op h) = false ->
  decode lossy c (hdr_bytes h ++ tail) = Val (DErr (InvalidOpcode (h_op h)) c (hdr_bytes h ++ tail)).
Proof. intros. rewrite decode_dd, dd_bad_opcode by assumption. reflexivity. Qed.

(* conversely every legal frame is delivered, unmasked, with exactly the rest left; the
   "fragmented message open" flag follows the frame *)
Theorem C14_legal_frame_delivered : forall lossy c (h : fhdr) (wire rest : bytes),
  hdr_ok h -> lenN wire = h_len h -> h_len h < 2 ^ 63 ->
  frame_legal (c_server c) (c_cont c) (c_max c) h = true ->
  decode lossy c (hdr_bytes h ++ wire ++ rest) =
  Val (DFrame (frame_of_hdr lossy h (unmask (h_key h) wire)) (set_cont c (open_after h (c_cont c))) rest).
Proof. intros. rewrite decode_dd, legal_frame_delivered by assumption. reflexivity. Qed.

Example C14_strict_example :
  let c := with_max_size codec_new 1000 in                      (* server *)
  let key := [1; 2; 3; 4] in
  (* unfinished Ping, masked *)
  frame_legal true false 1000 (mkHdr false 0 9 (Some key) L7 0) = false /\
  decode (fun d => d) c (hdr_bytes (mkHdr false 0 9 (Some key) L7 0) ++ []) =
    Val (DErr (ContinuationFragment OpPing) c []) /\
  (* Continue without start, non-minimal 16-bit length form, RSV bits set *)
  decode (fun d => d) c (hdr_bytes (mkHdr true 5 0 (Some key) L16 1) ++ [9]) =
    Val (DErr ContinuationNotStarted c []) /\
  (* FIN Text inside a fragmented message (was F6) *)
  decode (fun d => d) (set_cont c true) (hdr_bytes (mkHdr true 0 1 (Some key) L7 1) ++ [9]) =
    Val (DErr ContinuationStarted (set_cont c true) []).
Proof. vm_compute. repeat split; reflexivity. Qed.

(* ---------------- fragmentation state machine over whole sequences ---------------- *)

(* [ref_recv] is the reference receiver written from RFC 6455 section 5.4: a one-bit automaton
   ("a fragmented message is open") that walks a list of frames, delivers while [frame_legal] holds
   in the current state, moves the state with [open_after] and stops at the first illegal frame.
   For EVERY sequence of complete RFC-layout frames (all header fields free, control frames
   interleaved anywhere), every codec state / role / max_size and EVERY split of the bytes across
   reads, Codec::decode delivers exactly the reference's frames, then asks for more in the
   reference's state with nothing held, or stops with a protocol error at the first illegal frame
   (outside the known class: no over-long Close in the sequence). *)
Theorem C14_decode_follows_reference_automaton : forall lossy (fs : list (fhdr * bytes)) (c : codec)
  (segs : list bytes),
  Forall wframe_ok fs -> Forall (fun f => close_overlong (fst f) = false) fs ->
  concat segs = concat (map wframe_bytes fs) ->
  let '(out, o, bad) := ref_recv lossy (c_server c) (c_cont c) (c_max c) fs in
  match bad with
  | None => feed lossy c [] segs = (out, EMore (set_cont c o) [])
  | Some _ => exists e, feed lossy c [] segs = (out, EErr e)
  end.
Proof. exact feed_follows_reference. Qed.

(* control frames may sit anywhere inside a fragmented message: they neither move the state nor
   does their legality depend on it *)
Theorem C14_control_frames_keep_state : forall (h : fhdr) (server o1 o2 : bool) (max_size : N),
  is_control (h_op h) = true -> opcode_known (h_op h) = true ->
  open_after h o1 = o1 /\ frame_legal server o1 max_size h = frame_legal server o2 max_size h.
Proof.
  intros h server o1 o2 max_size H1 H2. split; [apply control_keeps_state; assumption|].
  apply control_legal_any_state. exact H1.
Qed.

(* the writer side, as the code is: for every message sequence Encoder::encode writes exactly the
   messages the writer automaton [ref_send] lets through (First* only when no fragmented message
   is open, Continue/Last only when one is; everything else always) and ends in its state *)
Theorem C14_encode_follows_reference_automaton : forall (ms : list (message * bytes)) (c : codec),
  let '(c', _, outs) := encode_all c ms in
  map is_ok outs = fst (ref_send (c_wcont c) (map fst ms)) /\
  c' = set_wcont c (snd (ref_send (c_wcont c) (map fst ms))).
Proof. exact encode_follows_reference. Qed.

(* client reading: FirstBinary, Ping, Continue, Pong, Last, Text are delivered with the state going
   open .. open, closed; then a Continue without start is the first illegal frame *)
Example C14_automaton_example :
  let c := client_mode codec_new in
  let f fin op w := (mkHdr fin 0 op None L7 (lenN w), w) in
  let fs := [f false 2 [1]; f true 9 []; f false 0 [2]; f true 10 [7]; f true 0 [3]; f true 1 [104];
             f true 0 [9]; f true 1 [105]] in
  Forall wframe_ok fs /\ Forall (fun x => close_overlong (fst x) = false) fs /\
  ref_recv (fun d => d) false false 65536 fs =
    ([FContinuation (FirstBinary [1]); FPing []; FContinuation (Continue [2]); FPong [7];
      FContinuation (Last [3]); FText [104]], false, Some (mkHdr true 0 0 None L7 1)) /\
  run_all (fun d => d) c (concat (map wframe_bytes fs)) =
    (fst (fst (ref_recv (fun d => d) false false 65536 fs)), EErr ContinuationNotStarted) /\
  ref_send false [MsgContinuation (FirstText []); MsgPing []; MsgContinuation (FirstText []);
                  MsgText []; MsgContinuation (Last []); MsgContinuation (Last [])] =
    ([true; true; false; true; true; false], false).
Proof.
  cbv zeta. split; [|split; [|vm_compute; repeat split; reflexivity]].
  - repeat constructor; cbn; try lia; vm_compute; reflexivity.
  - repeat constructor.
Qed.

(* ---------------- round trip ---------------- *)

(* Every message one role encodes (any mask key the RNG returns) is decoded by the peer role,
   from the front of whatever follows, as the same message ([frame_of_message]: same payload
   bytes, same kind; Nop writes nothing), provided the sender respects what any RFC 6455 receiver
   demands ([sendable]: payload within the peer's max_size, control payloads <= 125, no new data
   message while a fragmented one is open); the fragmentation flags of the two codecs stay in step. *)
Theorem C14_roundtrip : forall lossy (enc dec : codec) (m : message) (key rest : bytes) enc' out,
  c_server dec = negb (c_server enc) -> c_cont dec = c_wcont enc -> length key = 4%nat ->
  sendable (c_wcont enc) (c_max dec) m ->
  encode enc m [] key = (enc', Ok out) ->
  match frame_of_message lossy m with
  | None => out = []
  | Some f => decode lossy dec (out ++ rest) = Val (DFrame f (set_cont dec (c_wcont enc')) rest)
  end.
Proof.
  intros lossy enc dec m key rest enc' out H1 H2 H3 H4 H5.
  pose proof (roundtrip_one lossy enc dec m key rest enc' out H1 H2 H3 H4 H5) as H.
  destruct (frame_of_message lossy m); [rewrite decode_dd, H; reflexivity|exact H].
Qed.

(* a whole conversation: the concatenated output of encoding any list of messages (each with its
   own mask key; messages the encoder refuses write nothing) is decoded by the peer, HOWEVER THE
   BYTES ARE SPLIT ACROSS READS, as exactly the accepted messages in order, ending with an empty
   buffer and the fragmentation flags in step *)
Theorem C14_roundtrip_conversation : forall lossy (ms : list (message * bytes)) (enc dec : codec)
  (segs : list bytes),
  c_server dec = negb (c_server enc) -> c_cont dec = c_wcont enc ->
  all_sendable enc (c_max dec) ms ->
  let '(enc', stream, _) := encode_all enc ms in
  concat segs = stream ->
  feed lossy dec [] segs = (expected_frames lossy enc ms, EMore (set_cont dec (c_wcont enc')) []).
Proof.
  intros lossy ms enc dec segs H1 H2 H3.
  pose proof (roundtrip_all lossy ms enc dec H1 H2 H3) as H.
  destruct (encode_all enc ms) as ((enc', stream), outs). intro Hc.
  rewrite segmentation_independent, Hc. exact H.
Qed.

Example C14_conversation_example :
  let enc := codec_new in let dec := client_mode codec_new in
  let ms := [(MsgContinuation (FirstText [104]), [0; 0; 0; 0]); (MsgPing [], [0; 0; 0; 0]);
             (MsgContinuation (FirstText [1]), [0; 0; 0; 0]);          (* refused by the encoder *)
             (MsgNop, [0; 0; 0; 0]); (MsgContinuation (Last [105; 33]), [0; 0; 0; 0])] in
  all_sendable enc (c_max dec) ms /\
  expected_frames (fun d => d) enc ms =
    [FContinuation (FirstText [104]); FPing []; FContinuation (Last [105; 33])] /\
  snd (fst (encode_all enc ms)) = [1; 1; 104; 137; 0; 128; 2; 105; 33].
Proof.
  cbv zeta. split; [|vm_compute; split; reflexivity].
  cbn [all_sendable encode fst c_wcont codec_new set_wcont]. unfold sendable.
  cbn [message_payload]. change (2 ^ 63) with 9223372036854775808.
  repeat split; try reflexivity; try (vm_compute; discriminate); try lia.
Qed.

(* ---------------- several messages queued in one write buffer ---------------- *)

(* Parser::write_message on a buffer that already holds [dst] (frames queued and not yet flushed):
   [dst] is left exactly as it was and is followed by the frame the message is written as into an
   empty buffer. The in-place masking step (`pos = dst.len() - payload_len`) therefore touches the
   payload bytes of the NEW frame only. Every payload, opcode, key; both roles. *)
Theorem C14_write_message_appends : forall (dst payload : bytes) (op : opcode) (fin mask : bool) (key : bytes),
  write_message dst payload op fin mask key = dst ++ write_message [] payload op fin mask key.
Proof. exact write_message_app. Qed.

(* the in-place step itself: XOR from `len - payload_len` on changes the appended payload only *)
Theorem C14_mask_in_place_touches_payload_only : forall (held payload key : bytes),
  mask_from (held ++ payload) (lenN (held ++ payload) - lenN payload) key = held ++ apply_mask payload key.
Proof. exact mask_from_tail. Qed.

(* Encoder::encode only appends: what the buffer held stays, the new bytes are those of the same
   message encoded into an empty buffer, the writer state is the same *)
Theorem C14_encode_only_appends : forall (c : codec) (m : message) (dst key : bytes) c' out,
  encode c m dst key = (c', Ok out) -> exists w, out = dst ++ w /\ encode c m [] key = (c', Ok w).
Proof. exact encode_only_appends. Qed.

(* A SEQUENCE of messages (any number, any kinds and sizes, each with its own mask key) encoded
   back-to-back into ONE buffer that already holds [dst0]: the buffer afterwards is dst0 followed
   by a stream that the peer decodes, however it is split across reads, as exactly the accepted
   messages in order, nothing left over, flags in step. Nothing of dst0 is altered. *)
Theorem C14_roundtrip_batch : forall lossy (ms : list (message * bytes)) (enc dec : codec)
  (dst0 : bytes) (segs : list bytes),
  c_server dec = negb (c_server enc) -> c_cont dec = c_wcont enc ->
  all_sendable enc (c_max dec) ms ->
  let '(enc', buf, _) := encode_into enc ms dst0 in
  firstn (length dst0) buf = dst0 /\
  (concat segs = skipn (length dst0) buf ->
   feed lossy dec [] segs = (expected_frames lossy enc ms, EMore (set_cont dec (c_wcont enc')) [])).
Proof.
  intros lossy ms enc dec dst0 segs H1 H2 H3.
  destruct (roundtrip_batch lossy ms enc dec dst0 H1 H2 H3) as (enc' & stream & Hb & Hr).
  destruct (encode_into enc ms dst0) as ((e, buf), outs). cbn [fst] in Hb.
  injection Hb; intros; subst. rewrite firstn_exact, skipn_exact by reflexivity.
  split; [reflexivity|]. intro Hc. rewrite segmentation_independent, Hc. exact Hr.
Qed.

(* every intermediate buffer of a batch extends the buffer the batch started with *)
Theorem C14_batch_buffers_extend : forall (ms : list (message * bytes)) (c : codec) (dst : bytes),
  Forall (fun o => match o with Ok b => exists w, b = dst ++ w | Err _ => True end)
         (snd (encode_into c ms dst)).
Proof. exact encode_into_outs_extend. Qed.

(* client role (masking), two held bytes in front, a Text and a Ping queued behind each other with
   different keys: the held bytes and the first frame are intact after the second encode *)
Example C14_batch_example :
  let enc := client_mode codec_new in let dec := codec_new in
  let ms := [(MsgText [104; 105], [1; 2; 3; 4]); (MsgPing [7], [250; 251; 252; 253])] in
  all_sendable enc (c_max dec) ms /\
  snd (fst (encode_into enc ms [9; 9])) =
    [9; 9] ++ [129; 130; 1; 2; 3; 4; 105; 107] ++ [137; 129; 250; 251; 252; 253; 253] /\
  run_all (fun d => d) dec (skipn 2 (snd (fst (encode_into enc ms [9; 9])))) =
    ([FText [104; 105]; FPing [7]], EMore dec []).
Proof.
  cbv zeta. split; [|vm_compute; split; reflexivity].
  cbn [all_sendable encode fst c_wcont codec_new client_mode]. unfold sendable.
  cbn [message_payload]. change (2 ^ 63) with 9223372036854775808.
  repeat split; try reflexivity; try (vm_compute; discriminate); try lia.
Qed.

(* the writer uses the 7-bit, 16-bit and 64-bit length forms exactly at the RFC boundaries, and
   what it writes is the RFC layout *)
Theorem C14_writer_layout : forall (dst payload : bytes) (op : opcode) (fin mask : bool) (key : bytes),
  lenN payload < 2 ^ 64 ->
  write_message dst payload op fin mask key =
  dst ++ hdr_bytes (wire_hdr payload op fin mask key) ++ (if mask then apply_mask payload key else payload).
Proof. exact write_message_spec. Qed.

(* lengths 125 / 126 / 65535 / 65536: instances of the theorem, for every payload of that length *)
Corollary C14_roundtrip_length_boundaries : forall lossy (enc dec : codec) (payload key rest : bytes),
  c_server dec = negb (c_server enc) -> c_cont dec = false -> c_wcont enc = false -> length key = 4%nat ->
  (lenN payload = 125 \/ lenN payload = 126 \/ lenN payload = 65535 \/ lenN payload = 65536) ->
  lenN payload <= c_max dec ->
  decode lossy dec (write_message [] payload OpBinary true (negb (c_server enc)) key ++ rest) =
  Val (DFrame (FBinary payload) dec rest).
Proof.
  intros lossy enc dec payload key rest H1 H2 H3 H4 H5 H6.
  pose proof (C14_roundtrip lossy enc dec (MsgBinary payload) key rest enc
                (write_message [] payload OpBinary true (negb (c_server enc)) key)) as H.
  cbn [frame_of_message] in H. rewrite H; try assumption; try reflexivity.
  - rewrite H3. destruct dec; cbn in *; subst; reflexivity.
  - congruence.
  - unfold sendable. cbn [message_payload]. change (2 ^ 63) with 9223372036854775808.
    split; [assumption|]. split; [lia|assumption].
Qed.

Example C14_length_forms :
  minimal_form 125 = L7 /\ minimal_form 126 = L16 /\ minimal_form 65535 = L16 /\ minimal_form 65536 = L64.
Proof. vm_compute. repeat split; reflexivity. Qed.

Example C14_roundtrip_example :
  let enc := client_mode codec_new in let dec := codec_new in
  let m := MsgClose (Some (1000, Some [98; 121; 101])) in
  let key := [167; 3; 250; 17] in
  sendable false 65536 m /\
  fst (encode enc m [] key) = enc /\
  decode (fun d => d) dec (match snd (encode enc m [] key) with Ok b => b | Err _ => [] end ++ [1; 2]) =
    Val (DFrame (FClose (Some (1000, Some [98; 121; 101]))) dec [1; 2]).
Proof.
  cbv zeta. split; [|vm_compute; split; reflexivity].
  unfold sendable. cbn [message_payload fst]. change (2 ^ 63) with 9223372036854775808.
  repeat split; try (vm_compute; discriminate); try lia; vm_compute; reflexivity.
Qed.

(* ---------------- handshake ---------------- *)

(* verify_handshake accepts exactly the well-formed upgrade requests: GET, first Upgrade value
   visible ASCII containing "websocket" (any case), first Connection value containing "upgrade",
   first Sec-WebSocket-Version value 13, 8 or 7, a Sec-WebSocket-Key present (its content is not
   examined by the code) *)
Theorem C14_handshake_accepts_exactly_wellformed : forall (method : bytes) (h : headers),
  verify_handshake method h = None <-> wellformed method h.
Proof. exact handshake_ok_iff. Qed.

(* the error names the first part that is missing *)
Theorem C14_handshake_error_order : forall method h e, verify_handshake method h = Some e ->
  match e with
  | GetMethodRequired => method <> s_get
  | NoWebsocketUpgrade => method = s_get /\ ~ first_value_has s_upgrade s_websocket h
  | NoConnectionUpgrade => first_value_has s_upgrade s_websocket h /\ ~ first_value_has s_connection s_upgrade h
  | NoVersionHeader => first_value_has s_connection s_upgrade h /\ hget s_version h = None
  | UnsupportedVersion => exists v, hget s_version h = Some v /\ v <> [49; 51] /\ v <> [56] /\ v <> [55]
  | BadWebsocketKey => hget s_key h = None
  end.
Proof. exact handshake_err_order. Qed.

Example C14_handshake_example :
  let h := [([104; 111; 115; 116], [120]);
            (s_upgrade, [87; 101; 98; 83; 111; 99; 107; 101; 116]);          (* "WebSocket" *)
            (s_connection, [107; 101; 101; 112; 45; 97; 108; 105; 118; 101; 44; 32; 85; 112; 103; 114; 97; 100; 101]);
            (s_version, [49; 51]); (s_key, [120; 61])] in
  verify_handshake s_get h = None /\ wellformed s_get h /\
  verify_handshake s_get (removelast h) = Some BadWebsocketKey /\
  verify_handshake [80; 79; 83; 84] h = Some GetMethodRequired.
Proof.
  cbv zeta. repeat split; try (vm_compute; reflexivity).
  - exists [87; 101; 98; 83; 111; 99; 107; 101; 116]. vm_compute. repeat split; reflexivity.
  - eexists. vm_compute. repeat split; reflexivity.
  - eexists. split; [vm_compute; reflexivity|]. left. reflexivity.
  - eexists. vm_compute. reflexivity.
Qed.

(* the tests of verify_handshake IN SOURCE ORDER with the error each returns are read from
   ws/mod.rs (and RequestHead::upgrade from requests/head.rs) on every run: Gen/WsHandshake.v.
   [verify_tbl] runs such a table (first failing test returns its error); the model is exactly the
   source's table *)
Theorem C14_tie_handshake_tests : forall method h,
  verify_tbl WS_HANDSHAKE_TESTS method h =
  match verify_handshake method h with None => VAccept | Some e => VReject e end.
Proof. exact verify_handshake_is_source_table. Qed.

(* the first failing test decides the error: verify_handshake returns e exactly when the source's
   table splits into tests that all pass, then a test that fails and carries e *)
Theorem C14_handshake_first_failing_test_decides : forall method h e,
  verify_handshake method h = Some e <->
  exists pre t post, WS_HANDSHAKE_TESTS = pre ++ t :: post /\ Forall (row_passes method h) pre /\
                     row_fails_with method h t e.
Proof. exact handshake_first_failing_test_decides. Qed.

(* ... and it accepts exactly when every test of the source's table passes; for any table at all
   the same two facts hold of [verify_tbl] (induction over the table) *)
Theorem C14_handshake_accepts_iff_all_source_tests_pass : forall method h,
  verify_handshake method h = None <-> Forall (row_passes method h) WS_HANDSHAKE_TESTS.
Proof. exact handshake_accepts_iff_all_tests_pass. Qed.

Theorem C14_any_table_first_failing_test_decides : forall tests method h e,
  verify_tbl tests method h = VReject e <->
  exists pre t post, tests = pre ++ t :: post /\ Forall (row_passes method h) pre /\
                     row_fails_with method h t e.
Proof. exact verify_tbl_reject. Qed.

(* the RFC's reading of the headers (Upgrade / Connection are comma-separated token lists compared
   case-insensitively, version 13): every request well-formed in that sense is accepted. The code
   tests for a substring and also takes versions 8 and 7, so the converse fails (example below;
   recorded as an observation, the property's "well-formed" is [wellformed]). *)
Theorem C14_handshake_rfc_wellformed_accepted : forall method h,
  rfc_wellformed method h -> verify_handshake method h = None.
Proof. exact rfc_wellformed_accepted. Qed.

Example C14_handshake_tests_example :
  let h := [(s_upgrade, [104; 50; 99; 44; 32; 87; 101; 98; 83; 111; 99; 107; 101; 116]);   (* "h2c, WebSocket" *)
            (s_connection, [107; 101; 101; 112; 45; 97; 108; 105; 118; 101; 44; 85; 112; 103; 114; 97; 100; 101]);
            (s_version, [49; 51]); (s_key, [120; 61])] in
  rfc_wellformed s_get h /\ Forall (row_passes s_get h) WS_HANDSHAKE_TESTS /\
  (* without the version header: tests 1-3 pass, test 4 (present sec-websocket-version) decides *)
  verify_tbl WS_HANDSHAKE_TESTS s_get (firstn 2 h ++ skipn 3 h) = VReject NoVersionHeader /\
  (* accepted by the code, not well-formed in the RFC's sense *)
  verify_handshake s_get lenient_request = None /\ ~ rfc_wellformed s_get lenient_request.
Proof.
  cbv zeta. split; [|split; [|split; [vm_compute; reflexivity|exact rfc_converse_witness]]].
  - split; [reflexivity|]. split; [|split; [|split; [reflexivity|eexists; reflexivity]]].
    + eexists. split; [reflexivity|]. split; [vm_compute; reflexivity|].
      exists [104; 50; 99; 44; 32], [87; 101; 98; 83; 111; 99; 107; 101; 116], [].
      split; [reflexivity|]. split; [vm_compute; reflexivity|]. split; [|left; reflexivity].
      right. exists [104; 50; 99; 44], 32. split; reflexivity.
    + eexists. split; [reflexivity|]. split; [vm_compute; reflexivity|].
      exists [107; 101; 101; 112; 45; 97; 108; 105; 118; 101; 44], [85; 112; 103; 114; 97; 100; 101], [].
      split; [reflexivity|]. split; [vm_compute; reflexivity|]. split; [|left; reflexivity].
      right. exists [107; 101; 101; 112; 45; 97; 108; 105; 118; 101], 44. split; reflexivity.
  - repeat constructor; vm_compute; try reflexivity; discriminate.
Qed.

(* ---------------- accept key: hash_key = base64(sha1(key ++ GUID)) ---------------- *)

(* the Gallina SHA-1 agrees with the RFC 3174 test vectors TEST1, TEST2 (two blocks), TEST4
   ("01234567" x 80, ten blocks) and the empty message *)
Example C14_sha1_vectors :
  hex_of_bytes (sha1 (hx "616263")) = "a9993e364706816aba3e25717850c26c9cd0d89d"%string /\
  hex_of_bytes (sha1 []) = "da39a3ee5e6b4b0d3255bfef95601890afd80709"%string /\
  hex_of_bytes (sha1 (hx "6162636462636465636465666465666765666768666768696768696a68696a6b696a6b6c6a6b6c6d6b6c6d6e6c6d6e6f6d6e6f706e6f7071"))
    = "84983e441c3bd26ebaae4aa1f95129e5e54670f1"%string /\
  hex_of_bytes (sha1 (concat (repeat (hx "3031323334353637") 80)))
    = "dea356a2cddd90c7a7ecedc5ebb563934f460452"%string.
Proof. vm_compute. repeat split; reflexivity. Qed.

(* RFC 4648 section 10: "", "f", "fo", "foo", "foob", "fooba", "foobar" *)
Example C14_base64_vectors :
  base64 [] = [] /\ base64 (hx "66") = hx "5a673d3d" /\ base64 (hx "666f") = hx "5a6d383d" /\
  base64 (hx "666f6f") = hx "5a6d3976" /\ base64 (hx "666f6f62") = hx "5a6d397659673d3d" /\
  base64 (hx "666f6f6261") = hx "5a6d3976596d453d" /\ base64 (hx "666f6f626172") = hx "5a6d3976596d4679".
Proof. vm_compute. repeat split; reflexivity. Qed.

(* RFC 6455 section 1.3: "dGhlIHNhbXBsZSBub25jZQ==" gives "s3pPLMBiTxaQ9kYGzzhZRbK+xOo=" *)
Example C14_rfc6455_accept_key :
  hash_key (hx "6447686c49484e68625842735a5342756232356a5a513d3d") =
  Val (hx "733370504c4d426954786151396b59477a7a685a52624b2b784f6f3d").
Proof. vm_compute. reflexivity. Qed.

(* hash_key never panics (neither the `unwrap` of encode_slice nor `assert_eq!(n, 28)` can fire):
   for EVERY key the result is 27 characters of the base64 alphabet followed by '=' *)
Theorem C14_hash_key_28 : forall key : bytes,
  exists body, hash_key key = Val (body ++ [pad_char]) /\ length body = 27%nat /\
               forallb is_b64char body = true.
Proof. exact hash_key_shape. Qed.

Theorem C14_hash_key_is_base64_sha1 : forall key : bytes,
  hash_key key = Val (base64 (sha1 (key ++ ws_guid))).
Proof. exact hash_key_val. Qed.

(* base64 is lossless: the RFC 4648 decoder inverts the encoder on every byte string *)
Theorem C14_base64_roundtrip : forall l : bytes,
  Forall (fun b => b < 256) l -> base64_decode (base64 l) = l.
Proof. exact base64_roundtrip. Qed.

(* for every well-formed upgrade request ws::handshake answers with
   Sec-WebSocket-Accept = base64(sha1(key ++ GUID)) of the request's (first) Sec-WebSocket-Key;
   and it never panics: the `unwrap` of the key lookup is guarded by verify_handshake *)
Theorem C14_handshake_accept_key : forall (method : bytes) (h : headers), wellformed method h ->
  exists key, hget s_key h = Some key /\
              handshake method h = Val (HsOk (base64 (sha1 (key ++ ws_guid)))).
Proof. exact handshake_accept_key. Qed.

Theorem C14_handshake_total : forall (method : bytes) (h : headers),
  match verify_handshake method h with
  | Some e => handshake method h = Val (HsErr e)
  | None => exists a, handshake method h = Val (HsOk a)
  end.
Proof. exact handshake_total. Qed.

(* ---------------- translator tie: the model's literals are the ones in the Rust sources -------- *)
(* Gen/WsTables.v is regenerated from actix-http/src/ws/{frame,proto,mod}.rs on every run
   (tools/extract_consts.py, extract_ws_tables). [*_gen] are the model functions with the generated
   constants in place of their literals (Ws/TablesTie.v). A changed literal in the source breaks
   one of these obligations (or, when a pattern no longer matches, their compilation). *)

Theorem C14_tie_parse_metadata : forall src server,
  parse_metadata src server = parse_metadata_gen src server.
Proof. exact parse_metadata_tie. Qed.

Theorem C14_tie_write_message : forall dst payload op fin mask key,
  write_message dst payload op fin mask key = write_message_gen dst payload op fin mask key.
Proof. exact write_message_tie. Qed.

(* the control-frame limit of `parse` (both arms) and of the strictness spec is the source's *)
Theorem C14_tie_control_limit : forall src server max_size idx fin op len mask,
  parse_metadata src server = Val (Ok (Some (idx, fin, op, len, mask))) ->
  checked_add idx len = Some (idx + len) -> (lenN src <? idx + len) = false ->
  (max_size <? len) = false -> (len =? 0) = false ->
  parse src server max_size =
  rbind (advance src idx) (fun src1 => rbind (split_to src1 len) (fun ds =>
    let '(data, src2) := ds in
    match control_arm_gen op len with
    | Some (Some e) => Val (PErr e src2)
    | Some None => Val (PFrame true OpClose None src2)
    | None => Val (PFrame fin op (Some (match mask with Some mk => apply_mask data mk | None => data end)) src2)
    end)).
Proof. exact parse_control_limit_tie. Qed.

(* writer and parser literals agree with each other; header sizes = start + extension bytes; the
   spec's minimal length form (C14_roundtrip_length_boundaries) switches at the writer's limits *)
Theorem C14_tie_literals_consistent :
  (WS_W_FIN_BIT = WS_P_FIN_BIT /\ WS_W_MASK_BIT = WS_P_MASK_BIT /\ WS_W_MASK_BYTES = WS_P_MASK_BYTES /\
   WS_W_LEN16_MARKER = WS_P_LEN16_MARKER /\ WS_W_LEN64_MARKER = WS_P_LEN64_MARKER /\
   WS_W_LEN7_LIMIT = WS_P_LEN16_MARKER /\ WS_W_LEN16_MAX + 1 = 256 ^ WS_P_EXT16_BYTES /\
   WS_P_LEN7_MASK = WS_P_MASK_BIT - 1 /\ WS_P_LEN64_MARKER = WS_P_LEN7_MASK) /\
  (WS_P_HDR16 = WS_P_HDR_MIN + WS_P_EXT16_BYTES /\ WS_P_HDR64 = WS_P_HDR_MIN + WS_P_EXT64_BYTES) /\
  (forall len, minimal_form len =
               if len <? WS_W_LEN7_LIMIT then L7 else if len <=? WS_W_LEN16_MAX then L16 else L64) /\
  (forall server open max_size h,
     frame_legal server open max_size h =
     Bool.eqb (is_some (h_key h)) server && opcode_known (h_op h) &&
     (if is_control (h_op h) then h_fin h && (h_len h <=? WS_CONTROL_MAX)
      else if h_op h =? 0 then open else negb open) && (h_len h <=? max_size)).
Proof.
  split; [exact writer_parser_literals_agree|]. split; [exact header_sizes_tie|].
  split; [exact minimal_form_tie|exact frame_legal_limit_tie].
Qed.

(* impl From<u8> for OpCode / From<OpCode> for u8 are the model's two conversions, and the opcodes
   the strictness spec calls known are the table's keys *)
Theorem C14_tie_opcode_tables :
  (forall b, b < 256 ->
     opcode_name (opcode_of_u8 b) = lookup_n b WS_OPCODE_FROM_U8 WS_OPCODE_FROM_U8_DEFAULT) /\
  (forall o, lookup_s (opcode_name o) WS_OPCODE_TO_U8 = Some (u8_of_opcode o)) /\
  (forall op, op < 16 -> opcode_known op = existsb (fun kv => op =? fst kv) WS_OPCODE_FROM_U8).
Proof. split; [exact opcode_of_u8_tie|]. split; [exact u8_of_opcode_tie|exact opcode_known_tie]. Qed.

(* From<u16> for CloseCode followed by From<CloseCode> for u16 is the identity on every code: the
   model may keep the close code as its number *)
Theorem C14_tie_close_codes : forall code, close_roundtrip code = code.
Proof. exact close_code_tie. Qed.

(* the versions verify_handshake accepts, the GUID and the accept-key length of hash_key *)
Theorem C14_tie_handshake :
  (forall method h, verify_handshake method h = verify_handshake_gen method h) /\
  ws_guid = WS_GUID /\ (forall key, hash_key key = hash_key_gen key).
Proof. split; [exact verify_handshake_tie|]. split; [exact guid_tie|exact hash_key_tie]. Qed.

(* RFC 6455 section 1.3 sample with the GUID read from proto.rs *)
Example C14_rfc6455_accept_key_source_guid :
  hash_key_gen (hx "6447686c49484e68625842735a5342756232356a5a513d3d") =
  Val (hx "733370504c4d426954786151396b59477a7a685a52624b2b784f6f3d").
Proof. vm_compute. reflexivity. Qed.

(* the default max_size of Codec::new() is the constant in the sources *)
Example C14_default_max_size : c_max codec_new = WS_DEFAULT_MAX_SIZE.
Proof. reflexivity. Qed.
