(* C14 placeholder; theorems follow *)
From AV Require Import Lib.Base Ws.Mask Ws.Frame Ws.Codec Ws.Stream Ws.Handshake.
