(* C11 — Requests are isolated: nothing from an earlier request is visible in a later one.

   Model: Web/Pool.v (the thread-local RequestHead pool of actix-http and the HttpRequest pool of
   actix-web, with HttpRequest::drop and AppInitService::call). Specification: Web/PoolSpec.v.
   Only statements here; proofs are in Web/PoolProofs.v.

   A "history" is an arbitrary list of events on one worker:
     ERequest q      a request arrives (Message::new + producer writes + AppInitService::call)
     EMut k m        router / middleware mutates request k through Rc::get_mut (path captures,
                     skip, resource ids, scoped app_data, header edits)
     EExt k t v      something inserts into the request-local extensions of request k
     EClone k        a handle of request k is cloned;   EDrop k   a handle is dropped
     EDisable        the service is dropped (pool disabled and emptied)
   [run .. st_init history = Val s] says the history ran (no routing mutation hit a cloned
   request, which panics in the implementation) and ended in worker state [s]. *)
From AV Require Import Lib.Base Web.Pool Web.PoolSpec Web.PoolProofs Gen.Consts.
From AV Require Import Gen.PoolTables Web.PoolTie Web.PoolObs.

Definition HCAP : N := HEAD_POOL_CAP.      (* actix-http/src/message.rs: pool.len() < 128 *)
Definition RCAP : N := REQUEST_POOL_CAP.   (* actix-web/src/request.rs: with_capacity(128) *)

(* The model follows the repaired RequestHead::clear (commit 319fa1c, F30: a recycled head is
   reset to RequestHead::default()). Before that repair the statement below needed the premise
   "the producer writes method, uri, version and peer_addr", and was false without it: a request
   built with actix_http::test::TestRequest::finish() after two ordinary requests showed the
   first request's peer address to the handler (corpus/C11.jsonl line 2 is that history). *)

(* After ANY history, what the router, the middleware and the handler can see of the next
   request is exactly what they would see on a worker that has never served a request. *)
Theorem C11_view_independent_of_history :
  forall (requote : bytes -> option bytes) (root : container)
         (history : list ev) (s : st) (q : reqd),
  run HCAP RCAP requote root st_init history = Val s ->
  view_of (snd (request HCAP requote root s q)) =
  view_of (snd (request HCAP requote root st_init q)).
Proof. intros. eapply view_independent_of_history; eassumption. Qed.

(* ... and that view is this explicit function ([spec_view], Web/PoolSpec.v) of what the producer
   conveys of the request and of the configuration, for EVERY producer (h1/h2 transports, both
   test builders, a bare Request::new()): every one of the fifteen observable fields (method, uri, version, headers, peer, flags, path uri, requoted
   path, skip, segments, resource path, matched flag, app_data stack, conn_data, extensions). *)
Theorem C11_view_determined_by_request :
  forall requote root history s q,
  run HCAP RCAP requote root st_init history = Val s ->
  view_of (snd (request HCAP requote root s q)) = spec_view requote root q.
Proof. intros. eapply view_determined; eassumption. Qed.

(* The same after any sequence of routing mutations and extension inserts applied to the request
   (what the handler finally sees): those read and write observable fields only. *)
Theorem C11_handler_view_independent :
  forall requote root history s q (acts : list hact),
  run HCAP RCAP requote root st_init history = Val s ->
  view_of (fold_left apply_hact acts (snd (request HCAP requote root s q))) =
  view_of (fold_left apply_hact acts (snd (request HCAP requote root st_init q))).
Proof. intros. eapply handler_view_independent; eassumption. Qed.

(* Supporting invariant: every request object waiting in the pool has only the root container on
   its app_data stack, no extensions and no conn_data. *)
Theorem C11_pooled_clean :
  forall requote root history s o,
  run HCAP RCAP requote root st_init history = Val s ->
  In o (s_rpool s) ->
  o_app_data o = [root] /\ o_exts o = [] /\ o_conn o = None.
Proof. intros. eapply pooled_objects_clean; eassumption. Qed.

(* Both pools stay within their capacities. *)
Theorem C11_pool_bounds :
  forall requote root history s,
  run HCAP RCAP requote root st_init history = Val s ->
  lenN (s_rpool s) <= RCAP /\ lenN (s_hpool s) <= HCAP.
Proof. intros. eapply pool_bounds; eassumption. Qed.

(* An object with an outstanding clone is never pushed: dropping a handle of a request that still
   has another handle changes the count and nothing else. *)
Theorem C11_clone_blocks_reuse :
  forall requote root (s : st) (k : N) (en : lent),
  find_live k (s_live s) = Some en -> 1 < l_rc en ->
  exists s', step HCAP RCAP requote root s (EDrop k) = Val s' /\
             s_rpool s' = s_rpool s /\ s_hpool s' = s_hpool s /\
             find_live k (s_live s') = Some (mkLent k (l_obj en) (l_rc en - 1)).
Proof. intros. eapply drop_with_outstanding_clone; eassumption. Qed.

(* Dropping the last handle pushes the scrubbed object iff the pool is enabled and not full. *)
Theorem C11_last_drop_pushes_iff_available :
  forall requote root (s : st) (k : N) (en : lent),
  find_live k (s_live s) = Some en -> l_rc en <= 1 ->
  exists s', step HCAP RCAP requote root s (EDrop k) = Val s' /\
             s_rpool s' = if s_enabled s && (lenN (s_rpool s) <? RCAP)
                          then obj_scrub (l_obj en) :: s_rpool s else s_rpool s.
Proof. intros. eapply drop_last_handle; eassumption. Qed.

(* No request object is in the pool twice, or in the pool while a handle to it exists. *)
Theorem C11_no_aliasing :
  forall requote root history s,
  run HCAP RCAP requote root st_init history = Val s ->
  NoDup (map o_id (s_rpool s) ++ map (fun e => o_id (l_obj e)) (s_live s)).
Proof. intros. eapply reachable_no_aliasing; eassumption. Qed.

(* Message::new() hands out RequestHead::default() whatever the head pool contains: a recycled
   head carries nothing of the request it served before. *)
Theorem C11_recycled_head_is_default :
  forall (hpool : list head) (n : N), exists id, fst (head_get hpool n) = head_default id.
Proof. exact head_get_default. Qed.

(* In particular a bare Request::new() after any history is GET / HTTP/1.1 without headers,
   peer address or flags, on an object with only the root container. *)
Theorem C11_raw_request_is_default :
  forall requote root history s (exts : container),
  run HCAP RCAP requote root st_init history = Val s ->
  view_of (snd (request HCAP requote root s (mkReq PRaw [] [] 0 [] None 0 exts None))) =
  mkView [71; 69; 84] [47] 11 [] None 0 [47] (requote [47]) 0 [] [] false [root] None exts.
Proof. intros. erewrite view_determined by eassumption. reflexivity. Qed.

(* ---- Tie of the model to the source text (tools/gen/pool.py -> Gen/PoolTables.v, regenerated on
   every check run): the reset statements found in RequestHead::clear, in the pooled arm of
   AppInitService::call and in Drop for HttpRequest, interpreted one by one, are the model's
   head_clear / obj_reinit / obj_scrub + push, and they carry exactly the guards the model
   assumes. A reset line deleted, guarded or rewritten in the Rust source breaks one of these. *)
Theorem C11_tie_head_clear : forall h : head, interp_head HEAD_CLEAR h = head_clear h.
Proof. exact tie_head_clear. Qed.

Theorem C11_tie_acquire : forall requote (o : obj) (h : head) (q : reqd),
  interp_acquire requote h q ACQUIRE_REINIT o = obj_reinit requote o h q.
Proof. exact tie_acquire. Qed.

Theorem C11_tie_drop :
  (forall o : obj, interp_drop DROP_SCRUB o = (obj_scrub o, true)) /\
  option_map fst (nth_error (rev DROP_SCRUB) 0) = Some SPush /\
  forallb (fun p => String.eqb (snd p) NO_GUARD) HEAD_CLEAR = true /\
  forallb (fun p => String.eqb (snd p) NO_GUARD) ACQUIRE_REINIT = true /\
  forallb (fun p => String.eqb (snd p) DROP_GUARD) DROP_SCRUB = true.
Proof. split; [exact tie_drop|]. split; [exact tie_drop_push_last|]. exact tie_guards. Qed.

(* ---- The callees of the pooled arm, read from actix-router on every run as well.
   Url::update: the stored URI is replaced and the decoded-path cache is ASSIGNED the quoter's
   answer, whatever it is (also None): afterwards the Url is the one Url::new(uri) builds, whatever
   URI and decoded path the recycled object carried. A variant that keeps the old cache when the
   quoter answers None (Url::update delegating to a conditional update_with_quoter) is not this
   statement list: the translator reports it and this theorem no longer checks. *)
Theorem C11_tie_url_update : forall requote (h : head) (o : obj),
  let o' := interp_url requote h URL_UPDATE o in
  o_uri o' = h_uri h /\ o_qpath o' = requote (h_uri h) /\
  o' = mkObj (o_head o) (h_uri h) (requote (h_uri h)) (o_skip o) (o_segs o) (o_rids o) (o_matched o)
             (o_app_data o) (o_conn o) (o_exts o) (o_id o).
Proof. exact tie_url_update. Qed.

(* Path::reset: skip = 0, segments cleared, nothing else touched. *)
Theorem C11_tie_path_reset : forall o : obj,
  interp_path PATH_RESET o =
  mkObj (o_head o) (o_uri o) (o_qpath o) 0 [] (o_rids o) (o_matched o)
        (o_app_data o) (o_conn o) (o_exts o) (o_id o).
Proof. exact tie_path_reset. Qed.

(* Component by component (the table [component_resets] of Web/PoolTie.v names, for each component
   of the handler's view, the source statements that give it its value on a recycled object):
   running the statement lists found in the source on ANY pooled object [o], every component
   except app_data is a function of the new request's head [h] and data [q] alone, app_data is
   what the object carried, and Drop leaves at most its first container; every statement the table
   names is in the source, every writing statement of the source is in the table, and the callees'
   statements are unconditional. *)
Theorem C11_tie_components : forall requote (o : obj) (h : head) (q : reqd),
  let o' := interp_acquire requote h q ACQUIRE_REINIT o in
  (o_head o' = h /\
   o_uri o' = h_uri h /\ o_qpath o' = requote (h_uri h) /\
   o_skip o' = 0 /\ o_segs o' = [] /\
   o_rids o' = [] /\ o_matched o' = false /\
   o_exts o' = q_exts q /\ o_conn o' = q_conn q /\
   o_app_data o' = o_app_data o /\
   o_app_data (fst (interp_drop DROP_SCRUB o)) = firstn 1 (o_app_data o)) /\
  forallb (fun row => forallb (fun st => existsb (stmt_eqb st) all_source_stmts) (snd row))
          component_resets = true /\
  forallb (fun st => stmt_eqb st SPush || existsb (fun row => existsb (stmt_eqb st) (snd row)) component_resets)
          all_source_stmts = true /\
  forallb (fun p => String.eqb (snd p) NO_GUARD) URL_UPDATE = true /\
  forallb (fun p => String.eqb (snd p) NO_GUARD) PATH_RESET = true.
Proof.
  intros. split; [exact (tie_components requote o h q)|].
  split; [exact tie_component_stmts_present|]. split; [exact tie_component_stmts_complete|].
  exact tie_guards_callees.
Qed.

(* ---- Handler level (Web/PoolObs.v). What the PUBLIC accessors return -- method, URI, version,
   headers, peer address, connection flags; Url::path (decoded-path cache or the URI's own path),
   the path parameters cut out of it, the unprocessed rest; match_pattern() / match_name() (id path
   under the matched flag, else look-up by path); extensions().get::<T>(), conn_data::<T>(),
   app_data::<T>() (innermost container first) for any list [ts] of types -- after the router and
   the middleware ([route]: any function of what they can observe of the entering request) have
   worked on the request: after ANY history this is [spec_observed], which mentions the request
   [q] and the configuration (root container, quoter, route, resource map look-ups) and nothing
   else. No premise on the producer, the quoter, the router or the resource map. *)
Theorem C11_handler_observations_determined :
  forall (uri_path : bytes -> bytes)
         (pat_by_rids name_by_rids : list N -> option bytes)
         (pat_by_path name_by_path : bytes -> option bytes)
         (requote : bytes -> option bytes) (root : container) (route : view -> list hact)
         (history : list ev) (s : st) (q : reqd) (ts : list N),
  run HCAP RCAP requote root st_init history = Val s ->
  handler_sees uri_path pat_by_rids name_by_rids pat_by_path name_by_path route ts
               (snd (request HCAP requote root s q)) =
  spec_observed uri_path pat_by_rids name_by_rids pat_by_path name_by_path requote root route ts q.
Proof. intros. eapply handler_sees_determined; eassumption. Qed.

(* The property as worded: the same request after any two histories of the same worker
   configuration is observed identically. *)
Theorem C11_handler_observations_independent :
  forall uri_path pat_by_rids name_by_rids pat_by_path name_by_path
         requote root (route : view -> list hact)
         (history1 history2 : list ev) (s1 s2 : st) (q : reqd) (ts : list N),
  run HCAP RCAP requote root st_init history1 = Val s1 ->
  run HCAP RCAP requote root st_init history2 = Val s2 ->
  handler_sees uri_path pat_by_rids name_by_rids pat_by_path name_by_path route ts
               (snd (request HCAP requote root s1 q)) =
  handler_sees uri_path pat_by_rids name_by_rids pat_by_path name_by_path route ts
               (snd (request HCAP requote root s2 q)).
Proof. intros. eapply handler_sees_any_two_histories; eassumption. Qed.

(* In particular the path the router matches against (Url::path) has no memory: it is the quoter's
   answer for THIS request's URI, or that URI's own path. *)
Theorem C11_decoded_path_has_no_memory :
  forall (uri_path : bytes -> bytes) requote root history s q,
  run HCAP RCAP requote root st_init history = Val s ->
  url_path uri_path (view_of (snd (request HCAP requote root s q))) =
  match requote (q_uri (conveyed q)) with
  | Some p => p
  | None => uri_path (q_uri (conveyed q))
  end.
Proof. intros. erewrite view_determined by eassumption. reflexivity. Qed.

(* Non-vacuity of the handler-level theorems: request 0 ("/a%20b", decoded to "/a b") is routed to
   resource [3] and marked matched, gets a scoped container, an extension and conn_data, and is
   dropped; request 1 ("/g") receives that very object (o_id = 0). Its handler sees the path "/g"
   (not "/a b"), the parameter cut out of "/g", the pattern and name of resource [2; 1] (not of
   [3; 2; 1]), the root's app_data only, no extension and no conn_data. *)
Example C11_example_observations :
  let root := [(0, 0)] in
  let requote := fun u => if bytes_eqb u [47;97;37;50;48;98] then Some [47;97;32;98] else None in
  let id := fun u : bytes => u in
  let by_rids := fun r : list N =>
    match r with [3] => Some [97] | [2; 1] => Some [103] | _ => None end in
  let none := fun _ : bytes => @None bytes in
  let route := fun w : view =>
    if bytes_eqb (url_path id w) [47;103]
    then [HMut (MRid 2); HMut (MRid 1); HMut (MMark true); HMut (MAdd [105] 1 2); HMut (MSkip 2)]
    else [HMut (MRid 3); HMut (MMark true); HMut (MData [(0, 5)]); HExt 1 1] in
  let qa := mkReq PH1 [71;69;84] [47;97;37;50;48;98] 11 [([104], [49])] (Some 5) 2 [] (Some [(0, 3)]) in
  let qb := mkReq PTest [80;85;84] [47;103] 10 [] None 0 [] None in
  let history := [ERequest qa; EMut 0 (MRid 3); EMut 0 (MMark true); EMut 0 (MData [(0, 5)]);
                  EExt 0 1 1; EDrop 0] in
  exists s, run HCAP RCAP requote root st_init history = Val s /\
            o_id (snd (request HCAP requote root s qb)) = 0 /\
            handler_sees id by_rids by_rids none none route [0; 1]
                         (snd (request HCAP requote root st_init qa)) =
            mkObs [71;69;84] [47;97;37;50;48;98] 11 [([104], [49])] (Some 5) 2
                  [47;97;32;98] [] [47;97;32;98] (Some [97]) (Some [97])
                  [None; Some 1] [Some 3; None] [Some 5; None] /\
            handler_sees id by_rids by_rids none none route [0; 1]
                         (snd (request HCAP requote root s qb)) =
            mkObs [80;85;84] [47;103] 10 [] None 0
                  [47;103] [([105], [103])] [] (Some [103]) (Some [103])
                  [None; None] [None; None] [Some 0; None].
Proof. eexists. split; [vm_compute; reflexivity|]. vm_compute. repeat split. Qed.

(* Non-vacuity: request 0 is routed into a scope (captures, skip, resource ids, scoped data),
   gets extensions and conn_data, is cloned and dropped twice; request 1 then really receives the
   recycled object (o_id = 0 although it is request number 1), and its view is the specified one. *)
Example C11_example :
  let root := [(0, 0)] in
  let qa := mkReq PH1 [71;69;84] [47;115;49;47;55] 11 [([104], [49])] (Some 5) 2 [(1, 9)] (Some [(0, 3)]) in
  let qb := mkReq PTest [80;85;84] [47] 10 [] None 0 [] None in
  let history := [ERequest qa; EMut 0 (MAdd [105;100] 4 5); EMut 0 (MSkip 5); EMut 0 (MRid 10);
                  EMut 0 (MMark true); EMut 0 (MData [(0, 1)]); EExt 0 7 7;
                  EClone 0; EDrop 0; EDrop 0] in
  exists s, run HCAP RCAP (fun _ => None) root st_init history = Val s /\
            lenN (s_rpool s) = 1 /\ s_nreq s = 1 /\
            o_id (snd (request HCAP (fun _ => None) root s qb)) = 0 /\
            view_of (snd (request HCAP (fun _ => None) root s qb)) = spec_view (fun _ => None) root qb.
Proof. eexists. split; [vm_compute; reflexivity|]. vm_compute. repeat split. Qed.

(* Non-vacuity for the partial producers: the history that used to leak. After a request with
   peer 127.0.0.2:1 and a second one, the head pool holds the first head; a request built by
   actix_http's test builder receives that very allocation (h_id = 0) and sees no peer. *)
Example C11_example_recycled_head :
  let q0 := mkReq PTest [71;69;84] [47;97] 11 [] (Some 131073) 0 [] None in
  let q1 := mkReq PTest [71;69;84] [47;98] 11 [] None 0 [] None in
  let q2 := mkReq PHttpTest [71;69;84] [47;99] 11 [] None 0 [] None in
  exists s, run HCAP RCAP (fun _ => None) [] st_init [ERequest q0; EDrop 0; ERequest q1; EDrop 1] = Val s /\
            map h_id (s_hpool s) = [0] /\ map h_peer (s_hpool s) = [Some 131073] /\
            h_id (o_head (snd (request HCAP (fun _ => None) [] s q2))) = 0 /\
            v_peer (view_of (snd (request HCAP (fun _ => None) [] s q2))) = None.
Proof. eexists. split; [vm_compute; reflexivity|]. vm_compute. repeat split. Qed.
