From AV Require Import Lib.Base Web.Pool.
