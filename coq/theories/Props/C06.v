(* C06 — HTTP/1 connections are time-bounded: slow head, keep-alive, shutdown, drain.
   Statements only; proofs in H1/ConnTimers.v, ConnGraceful.v, ConnProofs.v.
   Time is virtual ms ([now]); deadlines are computed as in config.rs from the DateService's
   cached clock ([cached]); a timer polled at [now] is ready iff deadline <= now.
   fx_sd = fixes/F14.patch (in the tree). *)
Require Import AV.Lib.Base AV.H1.ConnRec AV.H1.ConnState AV.H1.ConnSpec AV.H1.ConnProofs.
Require Import AV.H1.ConnGraceful AV.H1.ConnTimers AV.H1.ConnSeal AV.H1.ConnLocal AV.H1.ConnKeepAlive.
Require Import AV.Gen.ConnStateTables AV.H1.ConnTie.
Require Import AV.H1.TimerSM AV.H1.ConnConfig AV.H1.ConnClock AV.Gen.TimerCfgTables AV.H1.ConnCfgTie.

(* TIE TO THE SOURCE TEXT (see Props/C03.v): for the tree as it is the model's timer and shutdown
   transitions ARE the interpretation of the generated statement lists of poll_head_timer,
   poll_ka_timer, poll_shutdown_timer (bodies under `timer.poll(cx).is_ready()`),
   ensure_linger_timer, enter_linger, poll_graceful_shutdown, the DRAINING gate of poll_request, and
   the draining / idle arms of poll_response. *)
Theorem C06_timers_match_source : forall c s, fx c = mkFixes true false true ->
  poll_head_timer c s = (if t_ready (head_t s) (now s) then run c env0 CS_HEAD_TIMER s else s) /\
  poll_ka_timer c s = (if t_ready (ka_tm s) (now s) then run c env0 CS_KA_TIMER s else s) /\
  poll_sd_timer s = (if t_ready (sd_t s) (now s) then run c env0 CS_SD_TIMER s else s) /\
  ensure_linger_timer c s = (run c env0 CS_ENSURE_LINGER s, match out c env0 CS_ENSURE_LINGER s with ORetBool b => b | _ => false end) /\
  set_finished true (set_linger true (set_keep_alive false s)) = run c env0 CS_ENTER_LINGER s /\
  (forall sig, poll_graceful sig s = run c (with_notified (sig_armed s && sig) env0) CS_GRACEFUL_SIGNAL s) /\
  G c env0 CS_REQUEST_DRAIN_GATE s = (draining s && is_none (dstate s)) /\
  (forall f, dstate s = SNone -> draining s = true -> poll_response (S f) c s = run c env0 CS_DRAINING_ARM s) /\
  (forall f, dstate s = SNone -> draining s = false -> messages s = [] -> poll_response (S f) c s = run c env0 CS_POP_NONE s).
Proof. intros c s T. exact (timers_match_source c s T). Qed.

(* the cached clock is at most one DateService period behind and never ahead: every deadline
   [cached now + timeout] lies in (now + timeout - TICK, now + timeout] *)
Theorem C06_cached_clock_slack : forall n, cached n <= n /\ n < cached n + TICK.
Proof. exact cached_bounds. Qed.

(* ---- slow first head ------------------------------------------------------------------------ *)
(* the first poll of a fresh connection arms the head timer *)
Theorem C06_head_timer_armed : forall c s,
  started s = false -> read_disc s = false -> sock s = [] -> rbuf s = [] -> sock_end s = RPending -> req_to c <> 0 ->
  head_t (read_phase c s) = TActive (cached (now s) + req_to c) /\ started (read_phase c s) = true.
Proof. exact head_timer_armed. Qed.

(* at the first poll whose clock has reached the deadline: 408 (encoded with the codec's connection
   type, which is Close until a request has been decoded), response complete, SHUTDOWN; with
   fixes/F14.patch the timer is cleared *)
Theorem C06_slow_head_408 : forall c s d,
  head_t s = TActive d -> d <= now s -> shutdown s = false -> read_disc s = false ->
  let s' := poll_head_timer c s in
  shutdown s' = true /\
  trace s' = trace s ++ [THead None 408 (c_v11 s) (c_head s) (resp_conn c ONone s); TComplete] /\
  (payload s = None -> draining s = false -> resp_conn c ONone s = c_conn s) /\
  (fx_sd (fx c) = true -> head_t s' = TInactive).
Proof. exact slow_head_408. Qed.

Theorem C06_head_timer_quiet_before_deadline : forall c s d,
  head_t s = TActive d -> now s < d -> poll_head_timer c s = s.
Proof. exact head_timer_quiet. Qed.

(* a head that completes clears the timer: whatever the decode loop does afterwards *)
Theorem C06_example_head_in_time :
  let c := mkCfg (KaTimeout 5000) 1000 0 true false (mkFixes true false true) in
  let r0 := mkReq 0 false true ONone RBNone in
  let s := run_polls c [mkRound 0 [IPart] RPending false false false;
                        mkRound 999 [IReq r0] RPending false false false;
                        mkRound 5 [] RPending false false false]
                     (init c [[HRespond ONone 0 0]]) in
  head_t s = TInactive /\ count_heads 408 (trace s) = 0%nat /\ count_heads 200 (trace s) = 1%nat.
Proof. vm_compute. repeat split; reflexivity. Qed.

(* the shutdown branch resolves the future once the peer takes the bytes and poll_shutdown is ready *)
Theorem C06_shutdown_completes : forall c s, write_disc s = false ->
  res (shutdown_io c false false s) = 1 /\ wbuf (shutdown_io c false false s) = [].
Proof. exact shutdown_io_done. Qed.

(* ---- keep-alive ------------------------------------------------------------------------------- *)
Theorem C06_keepalive_expiry : forall c s d,
  ka_tm s = TActive d -> d <= now s ->
  let s' := poll_ka_timer c s in
  shutdown s' = true /\
  (disc_to c = 0 -> write_disc s' = true) /\
  (disc_to c <> 0 -> t_active (sd_t s') = true /\ write_disc s' = write_disc s) /\
  trace s' = trace s.
Proof. exact ka_expiry. Qed.

Theorem C06_keepalive_drop_is_immediate : forall c wb sp s, write_disc s = true -> res (shutdown_io c wb sp s) = 1.
Proof. exact shutdown_io_write_disc. Qed.

Theorem C06_keepalive_quiet_before_deadline : forall c s d,
  ka_tm s = TActive d -> now s < d -> poll_ka_timer c s = s.
Proof. exact ka_timer_quiet. Qed.

(* the two debug_assert!s of poll_ka_timer hold of every reachable state, for every tree variant:
   KEEP_ALIVE is set only on an idle connection (state None, empty queue, no payload, not draining,
   keep-alive context) and the keep-alive timer is active only while KEEP_ALIVE is set *)
Theorem C06_keepalive_timer_only_when_idle : forall c hs es,
  let s := run_events c es (init c hs) in
  (keep_alive s = true -> dstate s = SNone /\ messages s = [] /\ payload s = None /\ draining s = false /\ c_conn s = CKeepAlive) /\
  (t_active (ka_tm s) = true -> keep_alive s = true).
Proof. intros c hs es. apply run_events_K. apply init_K. Qed.

(* hence no expiry of the keep-alive timer can close the connection while a request is in flight or
   queued or a response body is streaming *)
Theorem C06_keepalive_timer_inactive_while_busy : forall c hs es,
  let s := run_events c es (init c hs) in
  (dstate s <> SNone \/ messages s <> []) -> t_active (ka_tm s) = false /\ poll_ka_timer c s = s.
Proof. intros c hs es s B. apply ka_timer_inactive_while_busy; [apply run_events_K; apply init_K|exact B]. Qed.

(* second half of the keep-alive claim, general: for EVERY idle keep-alive state and EVERY round that
   brings a complete request head while the clock of the poll is before the keep-alive deadline
   (the timer is not ready at now + adv) and the shutdown signal does not fire, the poll decodes
   and dispatches that request (the read phase first clears KEEP_ALIVE and the timer); by the two
   theorems above the timer stays inactive until the connection is idle again. Timers are polled
   before the read phase: in a poll that sees both the expiry and the bytes the timer wins
   (C06_keepalive_expiry, boundary instance below). *)
Theorem C06_keepalive_request_in_time_is_served : forall c r s x more,
  Idle s -> r_arrive r = IReq x :: more -> sig_armed s && r_signal r = false ->
  t_ready (ka_tm s) (now s + r_adv r) = false ->
  exists l, trace (poll c r s) = trace s ++ TDecode x :: TStart x :: l.
Proof. exact ka_request_in_time_is_served. Qed.

(* Idle is reachable: after a first keep-alive exchange *)
Example C06_idle_reachable :
  let c := mkCfg (KaTimeout 2000) 0 1000 true false (mkFixes true false true) in
  let r0 := mkReq 0 false true ONone RBNone in
  let s := run_polls c [mkRound 0 [IReq r0] RPending false false false] (init c [[HRespond ONone 2 0]]) in
  Idle s /\ ka_tm s = TActive 2000.
Proof. vm_compute. repeat split; reflexivity. Qed.

(* boundary instances: 1 ms before the deadline the request is served, 1 ms after it the timer wins *)
Theorem C06_keepalive_boundary :
  let c := mkCfg (KaTimeout 2000) 0 0 true false (mkFixes true false true) in
  let r0 := mkReq 0 false true ONone RBNone in
  let r1 := mkReq 1 false true ONone RBNone in
  let first := mkRound 0 [IReq r0] RPending false false false in
  let hs := [[HRespond ONone 0 0]; [HRespond ONone 0 0]] in
  (* second request 1 ms before the deadline (cached 0 + 2000): served, timer cleared *)
  (let s := run_polls c [first; mkRound 1999 [IReq r1] RPending false false false] (init c hs) in
   count_heads 200 (trace s) = 2%nat /\ res s = 0) /\
  (* 1 ms after: the timer wins, the request is not dispatched, the connection is dropped *)
  (let s := run_polls c [first; mkRound 2001 [IReq r1] RPending false false false] (init c hs) in
   count_heads 200 (trace s) = 1%nat /\ res s = 1).
Proof. vm_compute. repeat split; reflexivity. Qed.

(* ---- shutdown bounded by the disconnect timeout ------------------------------------------------ *)
(* FALSE of the unrepaired code on every path (F14): *)
Theorem C06_refuted_unarmed_shutdown :
  let c := mkCfg (KaTimeout 2000) 1000 1000 true false no_fixes in
  let blocked := mkRound 1001 [] RPending true true false in
  let r0 := mkReq 0 false true ONone RBNone in
  (* 408 path, peer accepts nothing: 10 s later the future is still pending *)
  (let s := run_polls c (mkRound 0 [] RPending false false false :: repeat blocked 10) (init c []) in
   shutdown s = true /\ res s = 0 /\ now s = 10010) /\
  (* keep-alive expiry path, poll_shutdown pending: the expired keep-alive timer re-arms the
     shutdown timer on every poll, so it never fires *)
  (let s := run_polls c (mkRound 0 [IReq r0] RPending false false false :: mkRound 2001 [] RPending false true false ::
                         repeat (mkRound 1001 [] RPending false true false) 10)
                      (init c [[HRespond ONone 0 0]]) in
   shutdown s = true /\ res s = 0 /\ now s = 12011).
Proof. vm_compute. repeat split; reflexivity. Qed.

(* with fixes/F14.patch: entering the shutdown branch arms a deadline at most disc_to ahead ... *)
Theorem C06_shutdown_deadline_armed : forall c wb sp s,
  fx_sd (fx c) = true -> disc_to c <> 0 -> SD s -> t_active (sd_t s) = false -> write_disc s = false ->
  let s' := shutdown_io c wb sp s in
  res s' = 0 -> K (cached (now s) + disc_to c) s' /\ cached (now s) + disc_to c <= now s + disc_to c.
Proof. intros c wb sp s F D. exact (sd_armed_on_entry c F D wb sp s). Qed.

(* ... the deadline never moves while the future is pending ... *)
Theorem C06_shutdown_deadline_kept : forall c d r s,
  fx_sd (fx c) = true -> disc_to c <> 0 -> K d s -> res (poll c r s) = 0 -> K d (poll c r s).
Proof. intros c d r s F D. exact (sd_deadline_kept c F D d r s). Qed.

(* ... and whatever the peer does (blocked writes, pending poll_shutdown, more bytes), the first
   poll whose clock has reached it resolves the future: shutdown never outlasts the timeout *)
Theorem C06_shutdown_bounded : forall c d rs s,
  fx_sd (fx c) = true -> disc_to c <> 0 -> K d s ->
  (exists pre r post, rs = pre ++ r :: post /\ d <= now (run_polls c pre s) + r_adv r) ->
  res (run_polls c rs s) <> 0.
Proof. intros c d rs s F D. exact (shutdown_bounded c F D d rs s). Qed.

Theorem C06_example_shutdown_bounded :
  let c := mkCfg (KaTimeout 2000) 1000 1000 true false (mkFixes true false true) in
  let blocked := mkRound 1001 [] RPending true true false in
  let s := run_polls c [mkRound 0 [] RPending false false false; blocked; blocked] (init c []) in
  res s = 4 /\ now s = 2002 /\ count_heads 408 (trace s) = 1%nat.
Proof. vm_compute. repeat split; reflexivity. Qed.

(* ---- graceful shutdown -------------------------------------------------------------------------- *)
(* the signal sets DRAINING (and clears KEEP_ALIVE and the keep-alive timer) *)
Theorem C06_signal_sets_draining : forall s, sig_armed s = true ->
  draining (poll_graceful true s) = true /\ keep_alive (poll_graceful true s) = false /\
  t_active (ka_tm (poll_graceful true s)) = false.
Proof.
  intros s A. unfold poll_graceful. rewrite A. cbn. destruct (ka_tm s) eqn:E; cbn; rewrite ?E; repeat split; reflexivity.
Qed.

(* once DRAINING is set, for EVERY later event sequence: it stays set, no service call is started,
   and every response head that is encoded carries close *)
Theorem C06_graceful : forall c es s, draining s = true ->
  draining (run_events c es s) = true /\
  exists l, trace (run_events c es s) = trace s ++ l /\
            forallb (fun e => match e with TStart _ => false | THead _ _ _ _ k => is_close k | _ => true end) l = true.
Proof. intros c es s D. destruct (run_events_G c es s D) as [D' [l [T Q]]]. split; [exact D'|]. exists l. split; [exact T|exact Q]. Qed.

(* ... and an idle dispatcher clears its queue and enters SHUTDOWN *)
Theorem C06_graceful_idle_shuts_down : forall c f s,
  draining s = true -> dstate s = SNone -> linger s = false ->
  let s' := poll_response (S f) c s in messages s' = [] /\ shutdown s' = true /\ keep_alive s' = false.
Proof. intros c f s D N L. cbn [poll_response]. rewrite N, D. cbn. rewrite L. cbn. auto. Qed.

(* non-vacuity: signal while request 0 is in flight and request 1 is queued behind it *)
Example C06_example_graceful :
  let c := mkCfg (KaTimeout 5000) 0 0 true true (mkFixes true false true) in
  let r0 := mkReq 0 false true ONone RBNone in
  let r1 := mkReq 1 false true ONone RBNone in
  let s := run_polls c [mkRound 0 [IReq r0; IReq r1] RPending false false false;
                        mkRound 7 [] RPending false false true;
                        mkRound 500 [] RPending false false false]
                     (init c [[HUntil 500; HRespond ONone 3 0]; [HRespond ONone 0 0]]) in
  trace s = [TDecode r0; TStart r0; TDecode r1; THead (Some r0) 200 true false CClose; TComplete] /\ res s = 1.
Proof. vm_compute. repeat split; reflexivity. Qed.

(* ================================================================================================
   Session 4: the cached clock with explicit slack (a), KeepAlive normalisation and the deadline
   functions (b), the TimerState machine (c), and finding F31 (set_and_init with a stale deadline).
   ================================================================================================ *)

(* TIE: timer.rs, keep_alive.rs, config.rs (deadlines, ServiceConfig::new, builder) and date.rs are
   transcribed by H1/TimerSM.v and H1/ConnConfig.v exactly as the tables read from the source say *)
Theorem C06_timer_cfg_match_source :
  (forall e, t_new e = i_new TC_NEW e) /\
  (forall t, t_enabled t = i_is_enabled TC_IS_ENABLED t) /\
  (forall d t, ts_set d t = tc_timer TC_SET d) /\
  (forall t, ts_clear t = tc_timer TC_CLEAR 0) /\
  (forall t, ts_init t = i_init TC_INIT_POLLS t) /\
  (forall d t, ts_set_and_init d t = i_ops TC_SET_AND_INIT d t) /\
  (forall k, ka_is_enabled k = negb (kapat_matches KA_NOT_ENABLED k)) /\
  (forall k, ka_normalize k = i_normalize KA_NORMALIZE k) /\
  (forall d, ka_from_duration d = i_from_duration d) /\
  (forall o, ka_from_option o = i_from_option o) /\
  (forall k cache, keep_alive_deadline k cache = i_ka_deadline CFG_KA_DEADLINE k cache) /\
  (forall c cache, client_request_deadline c cache = i_deadline CFG_REQ_DEADLINE c cache) /\
  (forall c cache, client_disconnect_deadline c cache = i_deadline CFG_DISC_DEADLINE c cache) /\
  (forall k rq dc hc sg f, ka (config_new k rq dc hc sg f) = i_store CFG_NEW_KA k) /\
  (forall k rq dc hc sg f, ka (config_builder k rq dc hc sg f) = i_store CFG_BUILDER_KA k) /\
  CFG_NOW_IS_CACHE = true /\ DATE_NOW_READS_CACHE = true /\ DATE_INITIAL_IS_NOW = true /\ TICK = DATE_REFRESH_MS.
Proof. exact timer_cfg_match_source. Qed.

(* ---- (a) cached clock, adversarial phase, explicit slack ---------------------------------------- *)
(* SLACK is the DateService period read from date.rs. A cache refreshed at phase, phase + TICK, ...
   (any phase) is never ahead and less than SLACK behind; in the time frame shifted by TICK - phase
   it is the model's [cached], and all theorems quantify over every clock value. *)
Theorem C06_cache_any_phase : forall phase t, phase < TICK -> phase <= t ->
  cache_read phase t <= t /\ t < cache_read phase t + SLACK /\
  cache_read phase t + (TICK - phase) = cached (t + (TICK - phase)).
Proof.
  intros phase t P L. destruct (cache_read_bounds phase t L) as [A B].
  repeat split; [exact A|exact B|apply cache_read_is_cached; assumption].
Qed.
Example C06_cache_phase_example : SLACK = 500 /\ cache_read 130 1129 = 630 /\ cache_read 130 1130 = 1130 /\ cached 1499 = 1000.
Proof. vm_compute. repeat split; reflexivity. Qed.

(* every deadline armed at clock value [now s] lies in (now + timeout - SLACK, now + timeout] *)
Theorem C06_deadline_window : forall to s, exists d, arm to s = TActive d /\ d <= now s + to /\ now s + to < d + SLACK.
Proof. exact arm_window. Qed.

(* 408: by the first poll at/after (first poll + timeout); by no poll up to (first poll + timeout - SLACK) *)
Theorem C06_408_with_slack : forall c s0 s,
  started s0 = false -> read_disc s0 = false -> sock s0 = [] -> rbuf s0 = [] -> sock_end s0 = RPending -> req_to c <> 0 ->
  head_t s = head_t (read_phase c s0) ->
  (now s0 + req_to c <= now s -> shutdown s = false -> read_disc s = false ->
     shutdown (poll_head_timer c s) = true /\
     trace (poll_head_timer c s) = trace s ++ [THead None 408 (c_v11 s) (c_head s) (resp_conn c ONone s); TComplete]) /\
  (now s + SLACK <= now s0 + req_to c -> poll_head_timer c s = s).
Proof. exact head_408_with_slack. Qed.

(* keep-alive armed by the idle poll at t1: closed by the first poll at/after t1 + d; quiet, and an
   arriving request served, up to t1 + d - SLACK *)
Theorem C06_keepalive_with_slack : forall c d t1 s,
  ka_tm s = TActive (cached t1 + d) ->
  (t1 + d <= now s -> shutdown (poll_ka_timer c s) = true) /\
  (now s + SLACK <= t1 + d -> poll_ka_timer c s = s) /\
  (forall r x more, Idle s -> r_arrive r = IReq x :: more -> sig_armed s && r_signal r = false ->
     now s + r_adv r + SLACK <= t1 + d ->
     exists l, trace (poll c r s) = trace s ++ TDecode x :: TStart x :: l).
Proof. exact keepalive_with_slack. Qed.
Example C06_keepalive_with_slack_example :
  let c := mkCfg (KaTimeout 2000) 0 1000 true false (mkFixes true false true) in
  let r0 := mkReq 0 false true ONone RBNone in
  let s := run_polls c [mkRound 700 [IReq r0] RPending false false false] (init c [[HRespond ONone 2 0]]) in
  Idle s /\ ka_tm s = TActive (cached 700 + 2000) /\ cached 700 + 2000 = 2500.
Proof. vm_compute. repeat split; reflexivity. Qed.

(* shutdown entered at clock value [now s] with a disconnect timeout: resolved by the first poll
   at/after now + timeout whatever the peer does; the DisconnectTimeout deadline < SLACK early *)
Theorem C06_shutdown_with_slack : forall c wb sp s,
  fx_sd (fx c) = true -> disc_to c <> 0 -> SD s -> t_active (sd_t s) = false -> write_disc s = false ->
  let s' := shutdown_io c wb sp s in
  res s' = 0 ->
  (forall rs, (exists pre r post, rs = pre ++ r :: post /\ now s + disc_to c <= now (run_polls c pre s') + r_adv r) ->
     res (run_polls c rs s') <> 0) /\
  (exists dl, sd_t s' = TActive dl /\ dl <= now s + disc_to c /\ now s + disc_to c < dl + SLACK).
Proof. exact shutdown_with_slack. Qed.

(* ---- (b) KeepAlive normalisation, deadlines, and what "not configured" means --------------------- *)
Theorem C06_keepalive_normalisation :
  ka_from_duration 0 = KaDisabled /\ (forall d, d <> 0 -> ka_from_duration d = KaTimeout d) /\
  (forall o, ka_from_option o = match o with Some d => if d =? 0 then KaDisabled else KaTimeout d | None => KaDisabled end) /\
  (forall k, ka_normalize (ka_normalize k) = ka_normalize k) /\
  (forall k, ka_normalize k <> KaTimeout 0) /\
  (forall k, ka_is_enabled (ka_normalize k) = true <-> (k = KaOs \/ exists d, k = KaTimeout d /\ d <> 0)).
Proof.
  repeat split; try reflexivity.
  - exact ka_from_duration_pos. - exact ka_from_option_spec. - exact ka_normalize_idem.
  - exact ka_normalize_never_zero. - apply ka_enabled_normalized. - apply ka_enabled_normalized.
Qed.

Theorem C06_deadline_none_iff_zero : forall c cache,
  (client_request_deadline c cache = None <-> req_to c = 0) /\
  (client_disconnect_deadline c cache = None <-> disc_to c = 0) /\
  (keep_alive_deadline (ka c) cache = None <-> forall d, ka c <> KaTimeout d).
Proof.
  intros c cache. repeat split; try apply deadline_none_iff_zero.
  - destruct (ka c); cbn; intros H d0; congruence.
  - destruct (ka c) eqn:E; cbn; intro H; try reflexivity. exfalso. apply (H d). reflexivity.
Qed.

(* the dispatcher model arms its timers through exactly these functions *)
Theorem C06_model_uses_deadlines : forall c s,
  (if req_to c =? 0 then s else set_head_t (arm (req_to c) s) s) = set_opt set_head_t (client_request_deadline c (cached (now s))) s /\
  match ka c with KaTimeout d => set_ka_tm (arm d s) s | _ => s end = set_opt set_ka_tm (keep_alive_deadline (ka c) (cached (now s))) s /\
  (t_active (sd_t s) = false ->
   ensure_linger_timer c s =
   match client_disconnect_deadline c (cached (now s)) with Some d => (set_sd_t (TActive d) s, true) | None => (s, false) end).
Proof. intros c s. split; [apply model_head_arm|]. split; [apply model_ka_arm|apply model_linger_arm]. Qed.

(* NO BOUND where no duration is configured (the premise of each C06 clause): on every reachable
   state, for every tree variant, a zero request timeout means no head timer (never a 408 from it), a
   zero disconnect timeout no shutdown timer (never DisconnectTimeout), KeepAlive::Os / Disabled no
   keep-alive timer: each timer function is the identity *)
Theorem C06_no_timer_without_timeout : forall c hs es,
  let s := run_events c es (init c hs) in
  (req_to c = 0 -> t_active (head_t s) = false /\ poll_head_timer c s = s) /\
  (disc_to c = 0 -> t_active (sd_t s) = false /\ poll_sd_timer s = s) /\
  ((forall d, ka c <> KaTimeout d) -> t_active (ka_tm s) = false /\ poll_ka_timer c s = s).
Proof.
  intros c hs es s. destruct (run_events_NT c es _ (init_NT c hs)) as (A & B & C & _). fold s in A, B, C.
  split; [|split].
  - intro Z. split; [exact (A Z)|]. unfold poll_head_timer. rewrite (inactive_not_ready _ _ (A Z)). reflexivity.
  - intro Z. split; [exact (B Z)|]. unfold poll_sd_timer. rewrite (inactive_not_ready _ _ (B Z)). reflexivity.
  - intro Z. assert (Q : ka_duration (ka c) = None) by (destruct (ka c) as [d0| |]; try reflexivity; exfalso; apply (Z d0); reflexivity).
    split; [exact (C Q)|]. unfold poll_ka_timer. rewrite (inactive_not_ready _ _ (C Q)). reflexivity.
Qed.

(* keep-alive disabled (KeepAlive::Disabled, Timeout(ZERO) through ServiceConfig::new / From): on
   every reachable state the codec context is Close, so every response head is encoded with close
   whatever the request and the handler ask for, KEEP_ALIVE is never set, and the epilogue turns a
   finished exchange into SHUTDOWN: the connection closes after the response *)
Theorem C06_disabled_keepalive_closes_after_response : forall c hs es,
  ka_is_enabled (ka c) = false ->
  let s := run_events c es (init c hs) in
  c_conn s = CClose /\ keep_alive s = false /\
  (forall who st ro bl bp, resp_conn c ro s = CClose /\ c_conn (send_response c who st ro bl bp s) = CClose) /\
  (write_disc s = false -> dstate s = SNone -> wbuf s = [] -> err s = None -> finished s = true -> payload s = None ->
   shutdown (fst (epilogue c s)) = true /\ snd (epilogue c s) = true).
Proof.
  intros c hs es D s. destruct (run_events_NT c es _ (init_NT c hs)) as (_ & _ & _ & X). fold s in X. specialize (X D).
  assert (KA : keep_alive s = false).
  { destruct (keep_alive s) eqn:E; [|reflexivity].
    destruct (run_events_K c es _ (init_K c hs)) as [Y _]. fold s in Y. destruct (Y E) as (_ & _ & _ & _ & Z). congruence. }
  split; [exact X|]. split; [exact KA|]. split.
  - intros. apply disabled_ka_response_closes; exact X.
  - intros W Dn Wb Er Fi Pl. unfold epilogue. rewrite W, Dn. cbn [is_none].
    destruct (read_disc s && (negb (half_closed c) || true)); cbn; rewrite ?Wb, ?Er, ?Fi, ?Pl, ?KA; cbn; split; reflexivity.
Qed.
Example C06_disabled_keepalive_example :
  let c := config_new (KaTimeout 0) 0 0 true false (mkFixes true false true) in
  let r0 := mkReq 0 false true OKeepAlive RBNone in
  let s := run_polls c [mkRound 0 [IReq r0] RPending false false false] (init c [[HRespond OKeepAlive 2 0]]) in
  ka c = KaDisabled /\ trace s = [TDecode r0; TStart r0; THead (Some r0) 200 true false CClose; TComplete] /\ res s = 1.
Proof. vm_compute. repeat split; reflexivity. Qed.

(* ---- (c) TimerState ------------------------------------------------------------------------------ *)
(* after ANY history of set / set_and_init / clear / init / polls / passage of time, a poll reports
   an expiry iff a deadline is in force (last set not followed by a clear) and the clock has
   reached it: never before the deadline, and at the first poll at or after it *)
Theorem C06_timer_expiry_iff : forall ops t n,
  ts_expired ops (t, n) = true <-> exists d, in_force ops (dl_of t) = Some d /\ d <= n + elapsed ops.
Proof. exact ts_expired_iff. Qed.
Theorem C06_timer_armed_then_polled : forall pre mid t n d,
  forallb passive mid = true ->
  (ts_expired (pre ++ [OSetInit d] ++ mid) (t, n) = true <-> d <= n + elapsed pre + elapsed mid) /\
  (ts_expired (pre ++ [OSet d] ++ mid) (t, n) = true <-> d <= n + elapsed pre + elapsed mid).
Proof. exact ts_armed_then_polled. Qed.
Theorem C06_timer_quiet_when_cleared_or_disabled :
  (forall pre mid t n, forallb passive mid = true -> ts_expired (pre ++ [OClear] ++ mid) (t, n) = false) /\
  (forall ops n, forallb no_set ops = true -> ts_expired ops (t_new false, n) = false).
Proof. split; [exact ts_cleared_is_quiet|exact ts_disabled_never_fires]. Qed.

(* ---- F31: set_and_init with a deadline that has already passed ------------------------------------ *)
(* FALSE of the code as it is (wake-driven executor): duration below the cache's lag, no wake-up *)
Theorem C06_refuted_stale_deadline_no_wake :
  exists timeout n, timeout <> 0 /\ next_timer_poll false (cached n + timeout) n = None.
Proof. exact set_and_init_refuted_stale_deadline. Qed.
(* outside the class F31-stale-deadline-no-wake (every configured duration >= the refresh period),
   or with fixes/F31.patch in the tree ([init_wakes] is read from timer.rs), a poll is scheduled no
   later than the deadline (or at once) for every clock value *)
Theorem C06_timer_wake_holds_outside_known : forall timeout n,
  init_wakes = true \/ TICK <= timeout ->
  exists t, next_timer_poll init_wakes (cached n + timeout) n = Some t /\ t <= N.max (cached n + timeout) n.
Proof. exact timer_wake_scheduled. Qed.
