(* C06 — HTTP/1 connections are time-bounded: slow head, keep-alive, shutdown, drain.
   Statements only; proofs in H1/ConnTimers.v, ConnGraceful.v, ConnProofs.v.
   Time is virtual ms ([now]); deadlines are computed as in config.rs from the DateService's
   cached clock ([cached]); a timer polled at [now] is ready iff deadline <= now.
   fx_sd = fixes/F14.patch (in the tree). *)
Require Import AV.Lib.Base AV.H1.ConnRec AV.H1.ConnState AV.H1.ConnSpec AV.H1.ConnProofs.
Require Import AV.H1.ConnGraceful AV.H1.ConnTimers AV.H1.ConnSeal AV.H1.ConnLocal AV.H1.ConnKeepAlive.
Require Import AV.Gen.ConnStateTables AV.H1.ConnTie.

(* TIE TO THE SOURCE TEXT (see Props/C03.v): for the tree as it is the model's timer and shutdown
   transitions ARE the interpretation of the generated statement lists of poll_head_timer,
   poll_ka_timer, poll_shutdown_timer (bodies under `timer.poll(cx).is_ready()`),
   ensure_linger_timer, enter_linger, poll_graceful_shutdown, the DRAINING gate of poll_request, and
   the draining / idle arms of poll_response. *)
Theorem C06_timers_match_source : forall c s, fx c = mkFixes true false true ->
  poll_head_timer c s = (if t_ready (head_t s) (now s) then run c env0 CS_HEAD_TIMER s else s) /\
  poll_ka_timer c s = (if t_ready (ka_tm s) (now s) then run c env0 CS_KA_TIMER s else s) /\
  poll_sd_timer s = (if t_ready (sd_t s) (now s) then run c env0 CS_SD_TIMER s else s) /\
  ensure_linger_timer c s = (run c env0 CS_ENSURE_LINGER s, match out c env0 CS_ENSURE_LINGER s with ORetBool b => b | _ => false end) /\
  set_finished true (set_linger true (set_keep_alive false s)) = run c env0 CS_ENTER_LINGER s /\
  (forall sig, poll_graceful sig s = run c (with_notified (sig_armed s && sig) env0) CS_GRACEFUL_SIGNAL s) /\
  G c env0 CS_REQUEST_DRAIN_GATE s = (draining s && is_none (dstate s)) /\
  (forall f, dstate s = SNone -> draining s = true -> poll_response (S f) c s = run c env0 CS_DRAINING_ARM s) /\
  (forall f, dstate s = SNone -> draining s = false -> messages s = [] -> poll_response (S f) c s = run c env0 CS_POP_NONE s).
Proof. intros c s T. exact (timers_match_source c s T). Qed.

(* the cached clock is at most one DateService period behind and never ahead: every deadline
   [cached now + timeout] lies in (now + timeout - TICK, now + timeout] *)
Theorem C06_cached_clock_slack : forall n, cached n <= n /\ n < cached n + TICK.
Proof. exact cached_bounds. Qed.

(* ---- slow first head ------------------------------------------------------------------------ *)
(* the first poll of a fresh connection arms the head timer *)
Theorem C06_head_timer_armed : forall c s,
  started s = false -> read_disc s = false -> sock s = [] -> rbuf s = [] -> sock_end s = RPending -> req_to c <> 0 ->
  head_t (read_phase c s) = TActive (cached (now s) + req_to c) /\ started (read_phase c s) = true.
Proof. exact head_timer_armed. Qed.

(* at the first poll whose clock has reached the deadline: 408 (encoded with the codec's connection
   type, which is Close until a request has been decoded), response complete, SHUTDOWN; with
   fixes/F14.patch the timer is cleared *)
Theorem C06_slow_head_408 : forall c s d,
  head_t s = TActive d -> d <= now s -> shutdown s = false -> read_disc s = false ->
  let s' := poll_head_timer c s in
  shutdown s' = true /\
  trace s' = trace s ++ [THead None 408 (c_v11 s) (c_head s) (resp_conn c ONone s); TComplete] /\
  (payload s = None -> draining s = false -> resp_conn c ONone s = c_conn s) /\
  (fx_sd (fx c) = true -> head_t s' = TInactive).
Proof. exact slow_head_408. Qed.

Theorem C06_head_timer_quiet_before_deadline : forall c s d,
  head_t s = TActive d -> now s < d -> poll_head_timer c s = s.
Proof. exact head_timer_quiet. Qed.

(* a head that completes clears the timer: whatever the decode loop does afterwards *)
Theorem C06_example_head_in_time :
  let c := mkCfg (KaTimeout 5000) 1000 0 true false (mkFixes true false true) in
  let r0 := mkReq 0 false true ONone RBNone in
  let s := run_polls c [mkRound 0 [IPart] RPending false false false;
                        mkRound 999 [IReq r0] RPending false false false;
                        mkRound 5 [] RPending false false false]
                     (init c [[HRespond ONone 0 0]]) in
  head_t s = TInactive /\ count_heads 408 (trace s) = 0%nat /\ count_heads 200 (trace s) = 1%nat.
Proof. vm_compute. repeat split; reflexivity. Qed.

(* the shutdown branch resolves the future once the peer takes the bytes and poll_shutdown is ready *)
Theorem C06_shutdown_completes : forall c s, write_disc s = false ->
  res (shutdown_io c false false s) = 1 /\ wbuf (shutdown_io c false false s) = [].
Proof. exact shutdown_io_done. Qed.

(* ---- keep-alive ------------------------------------------------------------------------------- *)
Theorem C06_keepalive_expiry : forall c s d,
  ka_tm s = TActive d -> d <= now s ->
  let s' := poll_ka_timer c s in
  shutdown s' = true /\
  (disc_to c = 0 -> write_disc s' = true) /\
  (disc_to c <> 0 -> t_active (sd_t s') = true /\ write_disc s' = write_disc s) /\
  trace s' = trace s.
Proof. exact ka_expiry. Qed.

Theorem C06_keepalive_drop_is_immediate : forall c wb sp s, write_disc s = true -> res (shutdown_io c wb sp s) = 1.
Proof. exact shutdown_io_write_disc. Qed.

Theorem C06_keepalive_quiet_before_deadline : forall c s d,
  ka_tm s = TActive d -> now s < d -> poll_ka_timer c s = s.
Proof. exact ka_timer_quiet. Qed.

(* the two debug_assert!s of poll_ka_timer hold of every reachable state, for every tree variant:
   KEEP_ALIVE is set only on an idle connection (state None, empty queue, no payload, not draining,
   keep-alive context) and the keep-alive timer is active only while KEEP_ALIVE is set *)
Theorem C06_keepalive_timer_only_when_idle : forall c hs es,
  let s := run_events c es (init c hs) in
  (keep_alive s = true -> dstate s = SNone /\ messages s = [] /\ payload s = None /\ draining s = false /\ c_conn s = CKeepAlive) /\
  (t_active (ka_tm s) = true -> keep_alive s = true).
Proof. intros c hs es. apply run_events_K. apply init_K. Qed.

(* hence no expiry of the keep-alive timer can close the connection while a request is in flight or
   queued or a response body is streaming *)
Theorem C06_keepalive_timer_inactive_while_busy : forall c hs es,
  let s := run_events c es (init c hs) in
  (dstate s <> SNone \/ messages s <> []) -> t_active (ka_tm s) = false /\ poll_ka_timer c s = s.
Proof. intros c hs es s B. apply ka_timer_inactive_while_busy; [apply run_events_K; apply init_K|exact B]. Qed.

(* second half of the keep-alive claim, general: for EVERY idle keep-alive state and EVERY round that
   brings a complete request head while the clock of the poll is before the keep-alive deadline
   (the timer is not ready at now + adv) and the shutdown signal does not fire, the poll decodes
   and dispatches that request (the read phase first clears KEEP_ALIVE and the timer); by the two
   theorems above the timer stays inactive until the connection is idle again. Timers are polled
   before the read phase: in a poll that sees both the expiry and the bytes the timer wins
   (C06_keepalive_expiry, boundary instance below). *)
Theorem C06_keepalive_request_in_time_is_served : forall c r s x more,
  Idle s -> r_arrive r = IReq x :: more -> sig_armed s && r_signal r = false ->
  t_ready (ka_tm s) (now s + r_adv r) = false ->
  exists l, trace (poll c r s) = trace s ++ TDecode x :: TStart x :: l.
Proof. exact ka_request_in_time_is_served. Qed.

(* Idle is reachable: after a first keep-alive exchange *)
Example C06_idle_reachable :
  let c := mkCfg (KaTimeout 2000) 0 1000 true false (mkFixes true false true) in
  let r0 := mkReq 0 false true ONone RBNone in
  let s := run_polls c [mkRound 0 [IReq r0] RPending false false false] (init c [[HRespond ONone 2 0]]) in
  Idle s /\ ka_tm s = TActive 2000.
Proof. vm_compute. repeat split; reflexivity. Qed.

(* boundary instances: 1 ms before the deadline the request is served, 1 ms after it the timer wins *)
Theorem C06_keepalive_boundary :
  let c := mkCfg (KaTimeout 2000) 0 0 true false (mkFixes true false true) in
  let r0 := mkReq 0 false true ONone RBNone in
  let r1 := mkReq 1 false true ONone RBNone in
  let first := mkRound 0 [IReq r0] RPending false false false in
  let hs := [[HRespond ONone 0 0]; [HRespond ONone 0 0]] in
  (* second request 1 ms before the deadline (cached 0 + 2000): served, timer cleared *)
  (let s := run_polls c [first; mkRound 1999 [IReq r1] RPending false false false] (init c hs) in
   count_heads 200 (trace s) = 2%nat /\ res s = 0) /\
  (* 1 ms after: the timer wins, the request is not dispatched, the connection is dropped *)
  (let s := run_polls c [first; mkRound 2001 [IReq r1] RPending false false false] (init c hs) in
   count_heads 200 (trace s) = 1%nat /\ res s = 1).
Proof. vm_compute. repeat split; reflexivity. Qed.

(* ---- shutdown bounded by the disconnect timeout ------------------------------------------------ *)
(* FALSE of the unrepaired code on every path (F14): *)
Theorem C06_refuted_unarmed_shutdown :
  let c := mkCfg (KaTimeout 2000) 1000 1000 true false no_fixes in
  let blocked := mkRound 1001 [] RPending true true false in
  let r0 := mkReq 0 false true ONone RBNone in
  (* 408 path, peer accepts nothing: 10 s later the future is still pending *)
  (let s := run_polls c (mkRound 0 [] RPending false false false :: repeat blocked 10) (init c []) in
   shutdown s = true /\ res s = 0 /\ now s = 10010) /\
  (* keep-alive expiry path, poll_shutdown pending: the expired keep-alive timer re-arms the
     shutdown timer on every poll, so it never fires *)
  (let s := run_polls c (mkRound 0 [IReq r0] RPending false false false :: mkRound 2001 [] RPending false true false ::
                         repeat (mkRound 1001 [] RPending false true false) 10)
                      (init c [[HRespond ONone 0 0]]) in
   shutdown s = true /\ res s = 0 /\ now s = 12011).
Proof. vm_compute. repeat split; reflexivity. Qed.

(* with fixes/F14.patch: entering the shutdown branch arms a deadline at most disc_to ahead ... *)
Theorem C06_shutdown_deadline_armed : forall c wb sp s,
  fx_sd (fx c) = true -> disc_to c <> 0 -> SD s -> t_active (sd_t s) = false -> write_disc s = false ->
  let s' := shutdown_io c wb sp s in
  res s' = 0 -> K (cached (now s) + disc_to c) s' /\ cached (now s) + disc_to c <= now s + disc_to c.
Proof. intros c wb sp s F D. exact (sd_armed_on_entry c F D wb sp s). Qed.

(* ... the deadline never moves while the future is pending ... *)
Theorem C06_shutdown_deadline_kept : forall c d r s,
  fx_sd (fx c) = true -> disc_to c <> 0 -> K d s -> res (poll c r s) = 0 -> K d (poll c r s).
Proof. intros c d r s F D. exact (sd_deadline_kept c F D d r s). Qed.

(* ... and whatever the peer does (blocked writes, pending poll_shutdown, more bytes), the first
   poll whose clock has reached it resolves the future: shutdown never outlasts the timeout *)
Theorem C06_shutdown_bounded : forall c d rs s,
  fx_sd (fx c) = true -> disc_to c <> 0 -> K d s ->
  (exists pre r post, rs = pre ++ r :: post /\ d <= now (run_polls c pre s) + r_adv r) ->
  res (run_polls c rs s) <> 0.
Proof. intros c d rs s F D. exact (shutdown_bounded c F D d rs s). Qed.

Theorem C06_example_shutdown_bounded :
  let c := mkCfg (KaTimeout 2000) 1000 1000 true false (mkFixes true false true) in
  let blocked := mkRound 1001 [] RPending true true false in
  let s := run_polls c [mkRound 0 [] RPending false false false; blocked; blocked] (init c []) in
  res s = 4 /\ now s = 2002 /\ count_heads 408 (trace s) = 1%nat.
Proof. vm_compute. repeat split; reflexivity. Qed.

(* ---- graceful shutdown -------------------------------------------------------------------------- *)
(* the signal sets DRAINING (and clears KEEP_ALIVE and the keep-alive timer) *)
Theorem C06_signal_sets_draining : forall s, sig_armed s = true ->
  draining (poll_graceful true s) = true /\ keep_alive (poll_graceful true s) = false /\
  t_active (ka_tm (poll_graceful true s)) = false.
Proof.
  intros s A. unfold poll_graceful. rewrite A. cbn. destruct (ka_tm s) eqn:E; cbn; rewrite ?E; repeat split; reflexivity.
Qed.

(* once DRAINING is set, for EVERY later event sequence: it stays set, no service call is started,
   and every response head that is encoded carries close *)
Theorem C06_graceful : forall c es s, draining s = true ->
  draining (run_events c es s) = true /\
  exists l, trace (run_events c es s) = trace s ++ l /\
            forallb (fun e => match e with TStart _ => false | THead _ _ _ _ k => is_close k | _ => true end) l = true.
Proof. intros c es s D. destruct (run_events_G c es s D) as [D' [l [T Q]]]. split; [exact D'|]. exists l. split; [exact T|exact Q]. Qed.

(* ... and an idle dispatcher clears its queue and enters SHUTDOWN *)
Theorem C06_graceful_idle_shuts_down : forall c f s,
  draining s = true -> dstate s = SNone -> linger s = false ->
  let s' := poll_response (S f) c s in messages s' = [] /\ shutdown s' = true /\ keep_alive s' = false.
Proof. intros c f s D N L. cbn [poll_response]. rewrite N, D. cbn. rewrite L. cbn. auto. Qed.

(* non-vacuity: signal while request 0 is in flight and request 1 is queued behind it *)
Example C06_example_graceful :
  let c := mkCfg (KaTimeout 5000) 0 0 true true (mkFixes true false true) in
  let r0 := mkReq 0 false true ONone RBNone in
  let r1 := mkReq 1 false true ONone RBNone in
  let s := run_polls c [mkRound 0 [IReq r0; IReq r1] RPending false false false;
                        mkRound 7 [] RPending false false true;
                        mkRound 500 [] RPending false false false]
                     (init c [[HUntil 500; HRespond ONone 3 0]; [HRespond ONone 0 0]]) in
  trace s = [TDecode r0; TStart r0; TDecode r1; THead (Some r0) 200 true false CClose; TComplete] /\ res s = 1.
Proof. vm_compute. repeat split; reflexivity. Qed.
