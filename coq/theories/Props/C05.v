(* C05 — HTTP/1 per-connection memory is bounded by configuration, not by the peer.
   Only statements here; proofs live in H1/GatesProofs.v, H1/ReadBufProofs.v.

   [steps c st_init es] is the dispatcher's buffer state after ANY schedule [es] of the events of
   H1/Gates.v (bytes arrive, decode pass opens, heads / body chunks decoded, handlers start, consume
   request-body chunks and respond, response bodies yield chunks, the socket accepts bytes), each
   guarded by the test the code makes; an event whose guard is closed leaves the state alone.
   [std_cfg wbs r h431 fix] carries the constants extracted from the sources. *)
From AV Require Import Lib.Base Gen.Consts H1.ReadBuf H1.ReadBufProofs H1.Flush H1.Gates H1.GatesCfg H1.GatesProofs H1.GatesPollProofs Gen.DispatcherGuards H1.GuardsTie.

(* unparsed input: |read_buf| < MAX_BUFFER_SIZE + (largest single read), always *)
Theorem C05_read_buf_bound : forall wbs r h431 fx (es : list ev),
  rb (steps (std_cfg wbs r h431 fx) st_init es) < H1_MAX_BUFFER_SIZE + r.
Proof. intros. apply (read_buf_bound (std_cfg wbs r h431 fx)); vm_compute; reflexivity. Qed.

(* the same on the byte-level transcription of read_available, for every socket answer script whose
   reads return at most r bytes; at or above the cap nothing is read at all *)
Theorem C05_read_available_bound : forall r rd buf script pl,
  reads_le r script -> lenN buf < H1_MAX_BUFFER_SIZE + r ->
  lenN (ra_buf (read_available H1_MAX_BUFFER_SIZE rd buf script pl)) < H1_MAX_BUFFER_SIZE + r.
Proof. intros. apply read_available_bound; assumption. Qed.

Theorem C05_no_read_at_cap : forall buf script pl,
  H1_MAX_BUFFER_SIZE <= lenN buf ->
  let o := read_available H1_MAX_BUFFER_SIZE false buf script pl in
  ra_buf o = buf /\ ra_script o = script.
Proof. intros buf script pl H. destruct (read_available_at_cap _ buf script pl H) as (A & B & _). auto. Qed.

(* the growth rule always offers at least LW_BUFFER_SIZE bytes of room: a socket returning at
   most LW bytes per read is never truncated, so r = LW_BUFFER_SIZE for the scripted socket *)
Theorem C05_capacity_rule : forall remaining,
  H1_LW_BUFFER_SIZE <= spare_after_reserve H1_LW_BUFFER_SIZE H1_HW_BUFFER_SIZE remaining.
Proof. intro. apply spare_ge_LW. vm_compute. discriminate. Qed.

(* over-long head: a head still Partial when |read_buf| >= MAX_BUFFER_SIZE is refused (431 queued),
   the read side is closed, and no byte is read afterwards whatever happens *)
Theorem C05_too_large_431 : forall wbs r h431 fx s,
  let c := std_cfg wbs r h431 fx in
  pass s = true -> cpl s = None -> H1_MAX_BUFFER_SIZE <= rb s ->
  head_decision H1_MAX_BUFFER_SIZE (rb s) HPartial = DTooLarge /\
  exists s', step c s EvTooLarge = Some s' /\ rd_disc s' = true /\ q s' = q s ++ [QError] /\
             forall es, rd_disc (steps c s' es) = true /\ rb (steps c s' es) <= rb s'.
Proof.
  intros wbs r h431 fx s c Hp Hc Hr. split; [apply head_decision_too_large; exact Hr|].
  destruct (too_large_enabled c) with (s := s) as (s' & A & B & C & D); auto; try (vm_compute; reflexivity).
  exists s'. repeat split; auto; apply no_read_after_disconnect; auto; vm_compute; reflexivity.
Qed.

(* request-body read-ahead: every request-body channel (the running handler's, those of queued
   requests, the one being fed) holds fewer than payload::MAX_BUFFER_SIZE + MAX_BUFFER_SIZE + r
   bytes: the back-pressure limit plus what one decode pass can push out of a full read_buf *)
Theorem C05_payload_readahead_bound : forall wbs r h431 fx (es : list ev),
  let c := std_cfg wbs r h431 fx in
  let s := steps c st_init es in
  let B := H1_PAYLOAD_MAX_BUFFER_SIZE + H1_MAX_BUFFER_SIZE + r in
  (forall ch, hch s = Some ch -> ch_len ch < B) /\
  (forall ch, In (QItem (Some ch)) (q s) -> ch_len ch < B) /\
  tgt_len s < B.
Proof.
  intros wbs r h431 fx es c s B.
  destruct (channels_bound c) with (es := es) as (H1 & H2 & H3); try (vm_compute; reflexivity).
  fold s in H1, H2, H3. split; [|split].
  - intros ch E. rewrite E in H1. destruct H1 as [H1 _]. exact H1.
  - intros ch Hin. rewrite Forall_forall in H2. destruct (H2 _ Hin) as [X _]. exact X.
  - exact H3.
Qed.

(* pipelined requests: the gate is tested before the decode loop, not inside it, so the queue
   holds at most MAX_PIPELINED_MESSAGES + (requests decodable from one full read_buf) entries *)
Theorem C05_queue_bound : forall wbs r h431 fx (es : list ev),
  lenN (q (steps (std_cfg wbs r h431 fx) st_init es))
  <= H1_MAX_PIPELINED_MESSAGES + (H1_MAX_BUFFER_SIZE + r) / MIN_HEAD.
Proof.
  intros. apply div_bound; [vm_compute; reflexivity|].
  pose proof (queue_bound (std_cfg wbs r h431 fx)) as X. cbn [c_maxb c_mh c_maxp c_r std_cfg std_cfg2] in X.
  rewrite N.add_assoc. apply X; vm_compute; reflexivity.
Qed.

(* ... and the queue really does exceed MAX_PIPELINED_MESSAGES: one pending handler, then 40
   minimal requests decoded in one pass *)
Theorem C05_queue_exceeds_pipeline_limit : exists es,
  let c := std_cfg 32768 H1_LW_BUFFER_SIZE 0 false in
  steps_ok c st_init es = true /\ H1_MAX_PIPELINED_MESSAGES < lenN (q (steps c st_init es)).
Proof.
  exists ([EvRead 656; EvGate] ++ repeat (EvDecodeHead 16 None) 41). vm_compute. split; reflexivity.
Qed.

(* SendPayload pulls no chunk (and does not finish the body) while |write_buf| >= h1_write_buffer_size *)
Theorem C05_send_payload_gate : forall wbs r h431 fx s e s',
  let c := std_cfg wbs r h431 fx in
  step c s (EvBodyChunk e) = Some s' \/ step c s (EvBodyEnd e) = Some s' -> wb s < wbs.
Proof. intros wbs r h431 fx s e s' c H. apply (send_payload_gate c) with (e := e) (s' := s'); auto; vm_compute; reflexivity. Qed.

(* write_buf: with response heads of at most H bytes and encoded chunks / trailers of at most M
   bytes, |write_buf| < wbs + M + H * (1 + number of body-less responses encoded since the socket
   last emptied the buffer) *)
Theorem C05_write_buf_bound : forall wbs r h431 fx H M (es : list ev),
  0 < wbs -> h431 <= H -> Forall (ev_sizes H M) es ->
  let s := steps (std_cfg wbs r h431 fx) st_init es in
  wb s < wbs + M + H * (nbl s + 1).
Proof.
  intros wbs r h431 fx H M es Hw Hh Hes.
  apply (write_buf_bound (std_cfg wbs r h431 fx)); auto; try (vm_compute; reflexivity). cbn [c_wbs std_cfg std_cfg2]. lia.
Qed.

(* "response bytes buffered ahead of the socket are limited by the write-buffer size plus one body
   chunk" is FALSE of the code (F16): body-less responses are encoded inside the decode loop and
   nothing on that path looks at write_buf. For every n there is a schedule in which the socket
   accepts nothing and write_buf reaches n response heads. *)
Theorem C05_refuted_bodiless_pipeline : forall wbs h431 fx (h : N) (n : nat), exists es,
  let c := std_cfg wbs H1_LW_BUFFER_SIZE h431 fx in
  steps_ok c st_init es = true /\
  Forall (fun e => match e with EvAccept _ => False | _ => True end) es /\
  wb (steps c st_init es) = N.of_nat n * h.
Proof.
  intros wbs h431 fx h n. exists (f16_schedule n h).
  destruct (f16_run wbs h431 fx h n) as [A B]. cbn zeta in *. split; [exact A|]. split; [apply f16_no_accept|].
  rewrite B. reflexivity.
Qed.

(* outside the class (no body-less response in the schedule) the statement holds *)
Theorem C05_write_buf_bound_outside_known : forall wbs r h431 fx H M (es : list ev),
  0 < wbs -> h431 <= H -> Forall (ev_sizes H M) es ->
  Forall (fun e => bodiless e = false) es ->
  wb (steps (std_cfg wbs r h431 fx) st_init es) < wbs + M + H.
Proof.
  intros wbs r h431 fx H M es Hw Hh Hes Hnb.
  apply (write_buf_bound_outside_known (std_cfg wbs r h431 fx)); auto; try (vm_compute; reflexivity). cbn [c_wbs std_cfg std_cfg2]. lia.
Qed.

(* TRANSLATOR TIE (tools/gen/dispatcher_guards.py -> Gen/DispatcherGuards.v): the guards of the models
   are the interpretation of the operator / operand records extracted from dispatcher.rs on every
   run -- the read_available cap test and the growth rule, the two gates of poll_request with
   can_read, and the SendPayload gate (fill level of write_buf against h1_write_buffer_size).
   Editing one of those source lines regenerates the records and breaks this theorem. *)
Theorem C05_guards_match_source :
  (forall a b, op_b DG_READ_CAP_OP a b = (b <=? a)) /\
  (forall c s n s', step c s (EvRead n) = Some s' -> op_b DG_READ_CAP_OP (rb s) (c_maxb c) = false) /\
  (forall LW HW rem, DG_GROW_TEST_CONST = DgLW /\ DG_GROW_RESERVE_CONST = DgHW /\
     spare_after_reserve LW HW rem = (if op_b DG_GROW_OP rem LW then N.max rem (HW - rem) else rem)) /\
  (forall c s, pass s = false ->
     ((exists s', step c s EvGate = Some s') <-> request_gate_closed c s = false)) /\
  (forall c s, request_gate_closed c s = ((c_maxp c <=? lenN (q s)) || negb (can_read s))) /\
  (forall s, can_read s = negb (rd_disc s) &&
       match need_read_status s with
       | None => true
       | Some st => existsb (dg_status_eqb (dg_of_status (Some st))) DG_CAN_READ_STATUSES end) /\
  (forall a b, op_b DG_SEND_GATE_OP a b = (a <? b)) /\
  (forall c s e s', step c s (EvBodyChunk e) = Some s' \/ step c s (EvBodyEnd e) = Some s' ->
     op_b DG_SEND_GATE_OP (wb s) (c_wbs c) = true).
Proof.
  split; [exact tie_read_cap_op|]. split; [exact tie_read_cap_step|]. split; [exact tie_growth|].
  split; [exact tie_request_gate_step|]. split; [exact tie_request_gate|]. split; [exact tie_can_read|].
  split; [exact tie_send_gate_op|exact tie_send_gate_step].
Qed.

(* non-vacuity: a schedule with a request body, back-pressure and a streamed response in which
   every guard is open; at its end write_buf is over the limit and the SendPayload gate is closed;
   after the socket has taken 100 bytes it is open again *)
Example C05_example :
  let c := std_cfg 100 H1_LW_BUFFER_SIZE 80 false in
  let es := [EvRead 1000; EvGate; EvDecodeHead 60 (Some 5000); EvDecodeChunk 940; EvPassEnd;
             EvRead 1024; EvGate; EvDecodeChunk 1024; EvPassEnd; EvConsume;
             EvRespond 90 true; EvBodyChunk 64] in
  steps_ok c st_init es = true /\
  let s := steps c st_init es in
  wb s = 154 /\ cpl s = Some 3036 /\ state s = SSendPayload /\ tgt_len s = 0 /\
  step c s (EvBodyChunk 64) = None /\
  wb (steps c s [EvAccept 100; EvBodyChunk 64]) = 118.
Proof. vm_compute. repeat split. Qed.

(* POLL LEVEL. [poll] (H1/Gates.v) composes read_available -> poll_request -> (EOF handling) ->
   loop { poll_response ; poll_flush } -> epilogue the way Dispatcher::poll orders them; [polls] runs
   a whole sequence of rounds (environment change, then one poll) from the initial connection, for
   ANY request stream, handler scripts, socket scripts and fuel. Every trace the composer records is a
   schedule of the event semantics with every guard open that reproduces the composer's state
   (H1/GatesPollProofs.v: do_ev is the only place the state changes and it fires [step]), at the end
   of the run and at every poll boundary; so the bounds above hold after every poll of every poll
   sequence BY THEOREM. The per-case certificate printed by run_C05 (steps_ok / st_eqb) remains as a
   cross-check of the transcription that is evaluated with the cases. *)
Theorem C05_poll_traces_are_schedules : forall wbs r h431 fx F items handlers rounds,
  let c := std_cfg wbs r h431 fx in
  let x := polls c F (sim_init items handlers) rounds in
  steps_ok c st_init (rev (trace x)) = true /\ m x = steps c st_init (rev (trace x)).
Proof. intros. exact (polls_are_schedules c F items handlers rounds). Qed.

Theorem C05_every_poll_is_a_schedule : forall wbs r h431 fx F items handlers rounds,
  let c := std_cfg wbs r h431 fx in
  Forall (fun x => steps_ok c st_init (rev (trace x)) = true /\ m x = steps c st_init (rev (trace x)))
         (polls_list c F (sim_init items handlers) rounds).
Proof. intros. exact (polls_list_are_schedules c F items handlers rounds). Qed.

Theorem C05_bounds_at_every_poll : forall wbs r h431 fx F items handlers rounds,
  let c := std_cfg wbs r h431 fx in
  Forall (fun x =>
            let s := m x in
            rb s < H1_MAX_BUFFER_SIZE + r /\
            lenN (q s) <= H1_MAX_PIPELINED_MESSAGES + (H1_MAX_BUFFER_SIZE + r) / MIN_HEAD /\
            (forall ch, hch s = Some ch -> ch_len ch < H1_PAYLOAD_MAX_BUFFER_SIZE + H1_MAX_BUFFER_SIZE + r) /\
            (forall ch, In (QItem (Some ch)) (q s) -> ch_len ch < H1_PAYLOAD_MAX_BUFFER_SIZE + H1_MAX_BUFFER_SIZE + r))
         (polls_list c F (sim_init items handlers) rounds).
Proof.
  intros wbs r h431 fx F items handlers rounds c.
  eapply Forall_impl; [|exact (polls_list_are_schedules c F items handlers rounds)].
  intros x [_ E]. cbv zeta. rewrite E.
  split; [apply C05_read_buf_bound|]. split; [apply C05_queue_bound|].
  destruct (C05_payload_readahead_bound wbs r h431 fx (rev (trace x))) as (A & B & _).
  split; [exact A|exact B].
Qed.

(* non-vacuity: one stalled request, then 40 pipelined requests with a 5-byte body, one segment per
   poll ending just after a head whose body is outstanding: the queue stops at MAX_PIPELINED_MESSAGES,
   the rest stays unparsed in read_buf *)
Example C05_poll_example :
  let c := std_cfg 32768 H1_LW_BUFFER_SIZE 80 false in
  let items := IReq 18 None :: repeat (IReq 60 (Some 5)) 40 in
  let rounds := mk_round 78 false [] [] false :: repeat (mk_round 65 false [] [] false) 39 in
  let x := polls c 400 (sim_init items [[HPend]]) rounds in
  bad x = false /\ lenN (q (m x)) = 16 /\ rb (m x) = 1560 /\ taken x = 2613 /\ List.length (trace x) = 229%nat.
Proof. vm_compute. repeat split. Qed.
